#!/bin/sh
# The PHC path end to end with the RELEASE daemon binary (what ships; no hooks): the daemon is started with
# --phc-ref-id <refid argument> and a --phc-interface that resolves (inside the private mount namespace) to a fake
# uevent file; a stand-in chronyd (`cbharness fakechronyd`) reports a fixed synchronised measurement with the given reference
# id, stratum and source address; the PHC's error-bound attribute holds <phc value>.
# <phc value> = an integer, or bad0..bad4: an attribute that is no integer (empty, "N/A", a unit suffix, NUL padding, hexadecimal)
#   usage: phc_run.sh <clockbound binary> <harness binary> <refid argument as it is typed> <chrony refid u32> <stratum> <ipv4 word|0> <phc value>
#   -> "pub <bound_nsec> <status>" (first complete record whose status is not Unknown) | "exited <rc>" | "none"
exec unshare -m sh -c '
mount -t tmpfs tmpfs /run || exit 99
mount -t tmpfs tmpfs /sys/bus/pci/devices || exit 97
mkdir -p /sys/bus/pci/devices/0000:00:05.0 /run/fakeif/device /run/chrony
f=/sys/bus/pci/devices/0000:00:05.0/phc_error_bound
case "$7" in
  bad0) : > $f;;
  bad1) echo "N/A" > $f;;
  bad2) echo "12345 ns" > $f;;
  bad3) printf "12345\\000\\000\\n" > $f;;
  bad4) echo "0x3039" > $f;;
  *) echo "$7" > $f;;
esac
printf "DRIVER=ena\nPCI_SLOT_NAME=0000:00:05.0\n" > /run/fakeif/device/uevent
"$2" fakechronyd /run/chrony/chronyd.sock "$4" 0 30 "$5" "$6" </dev/null >/dev/null 2>&1 &
sp=$!
sleep 0.3
"$1" --phc-ref-id "$3" --phc-interface ../../../run/fakeif >/run/cb.log 2>&1 </dev/null &
pid=$!
i=0
while [ $i -lt 120 ]; do
  if [ -s /run/clockbound/shm ]; then
    gen=$(od -An -tu2 -j14 -N2 /run/clockbound/shm | tr -d " ")
    st=$(od -An -tu4 -j64 -N4 /run/clockbound/shm | tr -d " ")
    if [ "$gen" != "0" ] && [ $((gen % 2)) -eq 0 ] && [ "$st" != "0" ]; then
      b=$(od -An -td8 -j48 -N8 /run/clockbound/shm | tr -d " ")
      gen2=$(od -An -tu2 -j14 -N2 /run/clockbound/shm | tr -d " ")
      if [ "$gen" = "$gen2" ]; then
        kill $pid $sp 2>/dev/null; wait $pid 2>/dev/null
        echo "pub $b $st"; exit 0
      fi
    fi
  fi
  if ! kill -0 $pid 2>/dev/null; then
    wait $pid; rc=$?
    kill $sp 2>/dev/null
    echo "exited $rc"; exit 0
  fi
  sleep 0.05; i=$((i+1))
done
kill $pid $sp 2>/dev/null
echo none' sh "$@"
