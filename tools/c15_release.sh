#!/bin/sh
# C15 at process level with the RELEASE daemon binary (what ships): the writer thread dies at start-up
# because /run/clockbound is a regular file; chronyd is absent (`nochrony`) or its socket exists but
# nobody answers (`silent`: every query takes its full 3 x 1 s timeout). The process must exit.
# `pollerdies <harness binary>`: a stand-in chronyd answers with the PHC as reference, the daemon is given the PHC
# options, and the PHC's error-bound attribute reads "N/A": the POLLER thread panics at its first poll while the
# writer thread is healthy and waiting for messages. The process must exit.
# `rofs` / `noperm`: the writer thread cannot create its segment because /run (resp. /run/clockbound) is read-only. The process must exit.
#   usage: c15_release.sh <clockbound binary> <nochrony|silent|pollerdies|rofs|noperm> [harness binary]  -> "exited <rc> <ms>" | "never <ms>"
exec unshare -m sh -c '
mount -t tmpfs tmpfs /run || exit 99
sp=""
extra=""
if [ "$2" = pollerdies ]; then
  mount -t tmpfs tmpfs /sys/bus/pci/devices || exit 97
  mkdir -p /sys/bus/pci/devices/0000:00:05.0 /run/fakeif/device /run/chrony
  echo "N/A" > /sys/bus/pci/devices/0000:00:05.0/phc_error_bound
  printf "DRIVER=ena\nPCI_SLOT_NAME=0000:00:05.0\n" > /run/fakeif/device/uevent
  "$3" fakechronyd /run/chrony/chronyd.sock 1346913072 0 40 </dev/null >/dev/null 2>&1 &
  sp=$!
  sleep 0.4
  extra="--phc-ref-id PHC0 --phc-interface ../../../run/fakeif"
elif [ "$2" = rofs ] || [ "$2" = noperm ]; then
  # the runtime directory cannot be created: /run is read-only (rofs) or /run/clockbound exists but is not ours to write (noperm is
  # exercised as a read-only bind mount of an empty directory: root ignores permission bits)
  if [ "$2" = noperm ]; then mkdir -p /run/clockbound /run/empty; mount --bind /run/empty /run/clockbound; mount -o remount,ro,bind /run/clockbound; else mount -o remount,ro /run; fi
else
  : > /run/clockbound
fi
if [ "$2" = silent ]; then
  mkdir -p /run/chrony
  python3 -c "import socket,time; s=socket.socket(socket.AF_UNIX,socket.SOCK_DGRAM); s.bind(\"/run/chrony/chronyd.sock\"); time.sleep(40)" &
  sp=$!
  sleep 0.4
fi
start=$(date +%s%N)
timeout 14 "$1" $extra >/dev/null 2>&1 </dev/null; rc=$?
end=$(date +%s%N)
[ -n "$sp" ] && kill $sp 2>/dev/null
ms=$(( (end - start) / 1000000 ))
if [ $rc -eq 124 ]; then echo "never $ms"; else echo "exited $rc $ms"; fi' sh "$@"
