#!/bin/sh
# C15 at process level with the RELEASE daemon binary (what ships): the writer thread dies at start-up
# because /run/clockbound is a regular file; chronyd is absent (`nochrony`) or its socket exists but
# nobody answers (`silent`: every query takes its full 3 x 1 s timeout). The process must exit.
#   usage: c15_release.sh <clockbound binary> <nochrony|silent>     -> "exited <rc> <ms>" | "never <ms>"
exec unshare -m sh -c '
mount -t tmpfs tmpfs /run || exit 99
: > /run/clockbound
sp=""
if [ "$2" = silent ]; then
  mkdir -p /run/chrony
  python3 -c "import socket,time; s=socket.socket(socket.AF_UNIX,socket.SOCK_DGRAM); s.bind(\"/run/chrony/chronyd.sock\"); time.sleep(40)" &
  sp=$!
  sleep 0.4
fi
start=$(date +%s%N)
timeout 14 "$1" >/run/cb.log 2>&1 </dev/null; rc=$?
end=$(date +%s%N)
[ -n "$sp" ] && kill $sp 2>/dev/null
ms=$(( (end - start) / 1000000 ))
if [ $rc -eq 124 ]; then echo "never $ms"; else echo "exited $rc $ms"; fi' sh "$@"
