#!/usr/bin/env python3
"""Regenerate MANIFEST.json from tools/props.py (claimed checks) and properties.jsonl."""
import json, sys
sys.path.insert(0, '/verif/tools')
import props
allp = [json.loads(l)['id'] for l in open('/verif/properties.jsonl')]
hooks_commits = [l.strip() for l in open('/verif/tools/hook_commits.txt') if l.strip()]
checks = []
for pid in allp:
    c = props.PROPS.get(pid)
    if not c or not c.get('claimed', True): continue
    checks.append({
        'property_id': pid,
        'quick_cmd': f'./check {pid} --tier quick',
        'thorough_cmd': f'./check {pid} --tier thorough',
        'evidence_file': f'/verif/evidence/{pid}.json',
        'replay_cmd_template': f'./check {pid} --replay {{path}}',
        'engine': 'lean-proof+correspondence',
        'level_claimed': {'category': 'proof', 'text': c['level_text'], 'design_ref': c.get('design_ref', 'DESIGN.md section 7')},
        'level_note': c['level_note'],
        'technique': c['technique'],
    })
na = [{'property_id': p, 'reason': props.NOT_APPLICABLE.get(p, 'check under construction (DESIGN.md section 10 roadmap); not yet claimed')} for p in allp if p not in [c['property_id'] for c in checks]]
m = {
 'version': 1,
 'setup_cmd': './check setup',
 'hooks': {'guard': 'clock_bound_verif', 'enable': 'RUSTFLAGS="--cfg clock_bound_verif" (set by ./check when it builds /verif/harness against /repo)',
           'baseline_off_cmd': 'cd /repo && cargo test --workspace --no-fail-fast --offline',
           'source_commits': hooks_commits, 'add_only': True},
 'engines': [{'name': 'lean-proof+correspondence', 'path': '/verif/check', 'serves_properties': [c['property_id'] for c in checks],
              'kind_free_text': 'Lean 4 theorems about a hand-written executable model (lean/ClockBound), audited per run; differential correspondence of the compiled model (cbmodel) against the real code run in-process by /verif/harness; the property oracle evaluated on the implementation output is the decidable definition the theorems are about'}],
 'checks': checks,
 'not_applicable': na,
 'notes': 'See DESIGN.md. known_findings.json lists recorded findings and fixed defects.',
}
json.dump(m, open('/verif/MANIFEST.json', 'w'), indent=1)
print(len(checks), 'checks;', len(na), 'unclaimed')
