"""Per-property configuration for the chrony poller: C13, and the daemon half of C12.

Merge:   from props_poller import PROPS_POLLER, C12_DAEMON ; PROPS.update(PROPS_POLLER)
         and fold C12_DAEMON (keys prefixed `daemon_`) into the C12 entry, e.g.
         PROPS['C12'] = merge_c12(client_half_entry, C12_DAEMON)   (helper below)

Line kind `poll` (harness/src/poller.rs, lean/ClockBound/Model/DriverPoller.lean):
  poll <tStart> (nophc | phc <refid>) ; <iter> ; ...  =>  <msg> @ <log> ; ...
"""

POLLER_TB = [
    "modelled, not verified: std::time::Instant as a CLOCK_MONOTONIC reading in ns with saturating `elapsed()`; "
    "Duration comparison as integer ns; std::sync::mpsc FIFO delivery; `str::parse::<i64>` as 'decimal in i64 range'; "
    "chrony-candm 0.1.1 reply deserialisation (replies are built from wire bytes and fed through the repo's own "
    "`scripted_query` hook, so the UDS transport itself is not exercised)",
    "the loop is driven through the cfg-gated hooks verif_hooks::QUERY / POINT and verif_chrony_poller::run_poller "
    "(real loop, real ClockErrorBoundPoller); iterations are paced by pre-filled mailbox messages, sleep = 1 ms",
]


def kind(c):
    k = c.req.split(' ', 1)[0]
    return 'poll' if k == 'pollr' else k   # pollr = a poll scenario through the thread's real entry point


def poll_parts(ans):
    """'<msg> @ <log> ; ...' -> [(msg tokens, log tokens)]"""
    out = []
    for part in ans.split(' ; '):
        m, _, l = part.partition('@')
        out.append((m.split(), l.split()))
    return out


def proj_poll_c13(c):
    """what C13 speaks about: per iteration the message kind, the PHC term and the report passed on
    (as-of and clock-read order belong to C12)"""
    def p(ans):
        r = []
        for m, _ in poll_parts(ans):
            r.append(['data', m[1]] + m[4:] if m[:1] == ['data'] else m)
        return r
    return (p(c.impl), p(c.model))


def proj_poll_c12(c):
    """what C12's daemon half speaks about: per iteration the observed order of clock reads / query /
    send / wait, and the as-of carried by a data message"""
    def p(ans):
        return [(m[2:4] if m[:1] == ['data'] else [], l) for m, l in poll_parts(ans)]
    return (p(c.impl), p(c.model))


POLL_RULE = (
    "the real run_clock_error_bound_poller with the real ClockErrorBoundPoller is run in-process on scripted runs "
    "(every grid run and every fourth seeded run also as `pollr`: through the thread's real entry point chrony_poller::run, "
    "a query issued before the first round being counted into the first report's log; CLOCK_REALTIME, which the poller has no business with, "
    "is stepped by an hour back and forth from one iteration to the next, so a report altered or re-timed using the system clock shows): "
    "a deterministic grid (5 start instants incl. 0 and 5 s -1/0/+1 ns; start-up silences at +0, +1 ns, 5 s -1/0/+1 ns, 500 s; "
    "an answer followed by silences 5 s -1/0/+1 ns later, both kinds of silence (io error, non-Tracking reply); "
    "9 (configured, reported) reference-id pairs equal / off by one / zero / 2^32-1 x 8 file states "
    "{0, 1, 12345, 2^40, -1, i64::MAX, unreadable, unparsable}; PHC read failure with the grace read 5 s -1/0/+1 ns after the reply) "
    "plus seeded runs of 1..12 iterations from one PRNG (VERIF_SEED) mixing answers / silences / other replies / PHC failures, "
    "start-up bursts of silences, silences placed at lastGood + 5 s -1/0/+1 ns, inside, far beyond and (10% of runs) with "
    "non-monotone readings, with and without PHC configuration, PHC values {0, 1, 12345, 2^40, random}. "
    "distinct = sha1 of the request line; ")

PROPS_POLLER = {
 'C13': dict(
    oracle='C13',
    lean_modules=['ClockBound.Properties.C13'],
    technique='Lean 4 proof over a line-by-line model of chrony_poller.rs (state = last_tracking_data as an Instant in ns; '
              'induction over arbitrary iteration sequences, omega for the 5 s arithmetic) + differential correspondence of the '
              'real polling loop under scripted chronyd replies, interposed CLOCK_MONOTONIC / CLOCK_MONOTONIC_COARSE and a scripted sysfs file',
    level_text='Theorems C13.silence_grace_iff / silence_grace_iff_general (a silence yields ChronyNotRespondingGracePeriod iff the '
               'latest accepted Tracking reply is < 5 s old at the grace read, ChronyNotResponding otherwise, for every sequence of '
               'iterations), startup_never_grace / startup_run_all_unknown (before any accepted reply every silence is Unknown-class, '
               'because the poller is created 5 s in the past), phc_added_iff_refid_matches (sysfs bound read and attached exactly when '
               'the configured refid equals the report\'s; 0 otherwise), phc_failure_not_a_measurement (no data message on a failed read; '
               'the writer leaves bound/as-of untouched), nongrace_phc_failure_unreachable (PhcErrorBoundRetrievalFailed occurs iff the '
               'grace read is >= 5 s after the reply of the same iteration, i.e. never when the sysfs read is fast) and model_holds '
               '(the decidable oracle C13.Holds, stated without the poller state, holds of every run of the model). The model is tied to '
               'the source by running the real loop on ~6k scripted runs per check and comparing every message.',
    level_note='Trusted: Lean kernel + standard axioms; Instant/mpsc/parse semantics modelled; chronyd and sysfs are scripted through '
               'the repo\'s cfg-gated hooks; correspondence is differential testing. clock_gettime failing (no message sent) is not modelled.',
    gens=lambda seed, th: [['poll', seed, 60000 if th else 6000]],
    relevant=lambda c: kind(c) == 'poll',
    project=proj_poll_c13,
    nontrivial=lambda c: bool(c.tags & {'startupSilence', 'nearGrace', 'phcFail', 'phcAdded', 'phcMismatch'}),
    rule=POLL_RULE + "non-trivial = the run contains a start-up silence, a silence within 1 ns of the 5 s threshold, a PHC read failure, "
         "a non-zero PHC term added, or a configured PHC whose refid differs from the report's (tags startupSilence, nearGrace, phcFail, phcAdded, phcMismatch)",
    trusted_base=POLLER_TB,
    assumptions=[
        "time readings non-decreasing is an explicit hypothesis of silence_grace_iff / startup_never_grace (Monotone); the general forms "
        "silence_grace_iff_general / startup_grace_if_backwards say what happens without it; the oracle leaves the start-up message "
        "unconstrained only when the grace read is before the creation instant",
        "the non-grace PHC failure message is unreachable only under tGrace - tReply < 5 s (sysfs read faster than 5 s); stated as an iff",
        "unparsable sysfs contents (or a value outside i64) panic the poller thread (`expect`): modelled as outcome `panic`, after which the run ends",
    ],
 ),
}

# ---- daemon half of C12: merge these into the C12 entry (client half elsewhere) -----------------
C12_DAEMON = dict(
    daemon_oracle='C12',                      # verdict name printed on `poll` lines
    daemon_lean_modules=['ClockBound.Properties.C12d'],
    daemon_gens=lambda seed, th: [['poll', seed, 60000 if th else 6000]],
    daemon_relevant=lambda c: kind(c) == 'poll',
    daemon_project=proj_poll_c12,
    daemon_nontrivial=lambda c: 'data' in c.tags,
    daemon_rule=POLL_RULE + "per iteration the harness logs every clock_gettime of the process (clock id) and the moment the scripted "
                "query is issued; CLOCK_MONOTONIC_COARSE is moved to another value at the query, so an as-of taken late shows both in the "
                "order of the log and in the value; non-trivial = the run sends at least one data message (tag `data`)",
    daemon_trusted_base=POLLER_TB + ["the clock_gettime interposer sees every clock read of the process (vDSO bypass is impossible: the symbol is defined by the executable)"],
    daemon_technique='Lean 4 proof about the ordered action list / event trace of one loop iteration + observation of the real loop\'s clock reads and query under the interposer',
    daemon_level_text='Theorems C12d.asof_read_precedes_query (first action = monotonic read, second = query, neither repeated, for every reply and PHC '
                      'configuration), data_asof_is_first_read (the as-of of every data message sent is the value returned by that first read), '
                      'data_msg_independent_of_delay (no Instant reading, reply delay or poller state can change a data message) and model_holds '
                      '(oracle C12d.Holds on the model\'s own log). On the real loop the order 6, -1, 1, ... is observed and compared on every iteration.',
    daemon_level_note='Trusted: Lean kernel + standard axioms; the order in the model is by construction, its tie to the source is the observed log (differential).',
    daemon_assumptions=["Linux: clock_gettime_safe(CLOCK_MONOTONIC) reads CLOCK_MONOTONIC_COARSE (clock id 6)"],
)


def merge_c12(client_entry, daemon=C12_DAEMON):
    """one C12 entry out of the client half and the daemon half: generators, modules, trusted base and
    texts are concatenated; relevance / projection / non-triviality dispatch on the line kind"""
    e = dict(client_entry)
    cg, dg = client_entry['gens'], daemon['daemon_gens']
    e['gens'] = lambda seed, th: cg(seed, th) + dg(seed, th)
    e['lean_modules'] = client_entry.get('lean_modules', ['ClockBound.Properties.C12']) + daemon['daemon_lean_modules']
    cr, cp, cn = client_entry['relevant'], client_entry.get('project', lambda c: (c.impl, c.model)), client_entry['nontrivial']
    e['relevant'] = lambda c: daemon['daemon_relevant'](c) or cr(c)
    e['project'] = lambda c: daemon['daemon_project'](c) if kind(c) == 'poll' else cp(c)
    e['nontrivial'] = lambda c: daemon['daemon_nontrivial'](c) if kind(c) == 'poll' else cn(c)
    e['rule'] = client_entry['rule'] + ' || daemon half: ' + daemon['daemon_rule']
    e['trusted_base'] = client_entry.get('trusted_base', []) + daemon['daemon_trusted_base']
    e['technique'] = client_entry['technique'] + ' || daemon half: ' + daemon['daemon_technique']
    e['level_text'] = client_entry['level_text'] + ' Daemon half: ' + daemon['daemon_level_text']
    e['level_note'] = client_entry['level_note'] + ' ' + daemon['daemon_level_note']
    e['assumptions'] = client_entry.get('assumptions', []) + daemon['daemon_assumptions']
    assert client_entry['oracle'] == daemon['daemon_oracle'], 'both halves must print the verdict under the same name'
    return e


def c12_daemon_only():
    """a stand-alone entry for the daemon half (used for testing before the client half exists)"""
    return {k[len('daemon_'):]: v for k, v in C12_DAEMON.items()}
