#!/usr/bin/env python3
"""Extract theorem statements (name -> normalised statement text) from Lean files; diff two trees.
usage: stmts.py list FILE...      |  stmts.py diff OLD_FILE NEW_FILE
A statement is the text from `theorem NAME` up to the first top-level `:=`."""
import re, sys

def strip_comments(src):
    # remove block comments (nested) and line comments
    out = []; i = 0; depth = 0
    while i < len(src):
        if src.startswith('/-', i): depth += 1; i += 2; continue
        if depth and src.startswith('-/', i): depth -= 1; i += 2; continue
        if depth: i += 1; continue
        if src.startswith('--', i):
            j = src.find('\n', i); i = len(src) if j < 0 else j; continue
        out.append(src[i]); i += 1
    return ''.join(out)

def statements(path):
    src = strip_comments(open(path).read())
    res = {}
    for m in re.finditer(r'^(?:@\[[^\]]*\]\s*)?(?:private\s+|protected\s+)?(theorem|lemma)\s+(\S+)', src, re.M):
        start = m.end(); name = m.group(2)
        # find ':=' at bracket depth 0
        depth = 0; i = start
        while i < len(src):
            c = src[i]
            if c in '([{⟨': depth += 1
            elif c in ')]}⟩': depth -= 1
            elif src.startswith(':=', i) and depth == 0: break
            i += 1
        res[name] = ' '.join(src[start:i].split())
    return res

if __name__ == '__main__':
    if sys.argv[1] == 'list':
        for f in sys.argv[2:]:
            for n, s in statements(f).items(): print(f"{f}: {n} : {s}")
    elif sys.argv[1] == 'diff':
        a = statements(sys.argv[2]); b = statements(sys.argv[3]); bad = 0
        for n, s in a.items():
            if n not in b: print("MISSING", n); bad += 1
            elif b[n] != s: print("CHANGED", n, "\n  old:", s, "\n  new:", b[n]); bad += 1
        for n in b:
            if n not in a: print("ADDED", n)
        print("statements identical" if not bad else f"{bad} differences")
        sys.exit(1 if bad else 0)
