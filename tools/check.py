#!/usr/bin/env python3
"""Entry point of the verification machinery:  ./check Cnn [--tier quick|thorough] [--replay FILE]

For one property:
  1. proof layer   : lake build of the property's theorem module + axiom audit + forbidden-token gate
  2. implementation: cargo build of the harness against /repo's *current working tree* (hooks on)
  3. correspondence: harness runs the real code on generated cases, `cbmodel` (the compiled Lean
                     model) answers the same request lines; the property-relevant projection of
                     both answers is compared, and the property's decidable oracle (the very
                     definition the theorems are about) is evaluated on the implementation's answer
  4. verdict       : oracle failure -> minimise, write replay, VIOLATION; broken correspondence
                     without failing input -> targeted search, else VIOLATION ... no-failing-input-found
  5. evidence      : /verif/evidence/Cnn.json
"""
import sys, os, re, json, time, subprocess, hashlib, fcntl, argparse, collections, shutil

ROOT = '/verif'
LEAN = f'{ROOT}/lean'
HARNESS = f'{ROOT}/harness'
BUILD = f'{ROOT}/build'
BIN = f'{BUILD}/target/debug/cbharness'
BIN_REL = f'{BUILD}/target/release/cbharness'   # the same harness, release profile (no overflow checks, no debug assertions)
MODEL = f'{LEAN}/.lake/build/bin/cbmodel'
sys.path.insert(0, f'{ROOT}/tools')
import stmts  # noqa
import props  # noqa  (per-property configuration)

ALLOWED_AXIOMS = {'propext', 'Classical.choice', 'Quot.sound'}
FORBIDDEN = re.compile(r'\b(sorry|admit|native_decide|bv_decide|implemented_by|unsafe)\b|^axiom\s|maxHeartbeats\s+0\b', re.M)


def sh(cmd, cwd=None, env=None, timeout=3600, inp=None):
    e = dict(os.environ)
    if env: e.update(env)
    p = subprocess.run(cmd, cwd=cwd, env=e, stdout=subprocess.PIPE, stderr=subprocess.STDOUT,
                       timeout=timeout, text=True, shell=isinstance(cmd, str),
                       **({'input': inp} if inp is not None else {'stdin': subprocess.DEVNULL}))
    return p.returncode, p.stdout


class Lock:
    def __init__(self, name): self.path = f'{BUILD}/{name}.lock'
    def __enter__(self):
        os.makedirs(BUILD, exist_ok=True)
        self.f = open(self.path, 'w'); fcntl.flock(self.f, fcntl.LOCK_EX); return self
    def __exit__(self, *a): fcntl.flock(self.f, fcntl.LOCK_UN); self.f.close()


# ----------------------------------------------------------------------------- proof layer

def lean_namespace(path):
    m = re.search(r'^namespace\s+(\S+)', open(path).read(), re.M)
    return m.group(1) if m else ''


def import_closure(mods):
    """files of this project transitively imported by the given modules"""
    seen = {}; todo = list(mods)
    while todo:
        m = todo.pop()
        if m in seen or not m.startswith('ClockBound'): continue
        path = f"{LEAN}/{m.replace('.', '/')}.lean"
        if not os.path.exists(path): continue
        seen[m] = path
        for imp in re.findall(r'^import\s+(\S+)', open(path).read(), re.M): todo.append(imp)
    return sorted(seen.values())


def proof_layer(pid, cfg, thorough):
    """returns dict(obligations, discharged, theorems, problems, checker_cmd)"""
    mods = list(cfg.get('lean_modules', [f'ClockBound.Properties.{pid}']))
    problems = []
    consts_note = None
    if cfg.get('consts_module'):
        # supplementary tie: constants re-extracted from the source; agreement theorems closed by `decide`.
        # If the extraction patterns no longer match (code restructured) the supplementary tie is
        # unavailable for this run and said so in the evidence; the correspondence still decides.
        rcc, outc = sh([sys.executable, f'{ROOT}/tools/translate_consts.py'])
        if rcc == 0: mods.append(cfg['consts_module'])
        else: consts_note = 'unavailable: ' + outc.strip()[-300:]
    tie_mods = list(cfg.get('code_tie', []))
    tie_note = None
    if tie_mods:
        # translation tie: the Rust functions' ASTs are regenerated from the working tree; the theorems
        # `interpreting the regenerated AST = the hand-written model` are re-checked. If the translator
        # itself cannot run (a file vanished / does not parse) the tie is unavailable for this run.
        ok, tie_note = run_translator()
        if ok: mods += tie_mods
        else: tie_mods = []
    with Lock('lake'):
        rc, out = sh(['lake', 'build'] + mods + ['cbmodel'], cwd=LEAN, timeout=3000)
        if rc != 0:
            # find out which module fails; the others are still audited
            rc0, out0 = sh(['lake', 'build', 'cbmodel'], cwd=LEAN, timeout=3000)
            if rc0 != 0:
                problems.append({'kind': 'lake-build-failed', 'module': 'cbmodel', 'detail': [l for l in out0.splitlines() if 'error' in l][:10]})
                return dict(obligations=1, discharged=0, theorems=[], problems=problems, checker_cmd='lake build cbmodel')
            good = []
            for mod in mods:
                rcm, outm = sh(['lake', 'build', mod], cwd=LEAN, timeout=3000)
                if rcm != 0:
                    problems.append({'kind': 'translation-tie-broken' if mod in tie_mods else 'lake-build-failed', 'module': mod, 'detail': [l for l in outm.splitlines() if 'error' in l][:6]})
                else: good.append(mod)
            failed_mods = [m for m in mods if m not in good]
            mods = good
        else:
            failed_mods = []
    # forbidden tokens (outside comments) in every Lean source the property's modules depend on
    for path in import_closure(mods + ['ClockBound.Model.Driver']):
        src = stmts.strip_comments(open(path).read())
        m = FORBIDDEN.search(src)
        if m: problems.append({'kind': 'forbidden-token', 'file': path, 'token': m.group(0)})
    # theorems of the property modules
    names = []
    for mod in mods:
        path = f"{LEAN}/{mod.replace('.', '/')}.lean"
        ns = lean_namespace(path)
        for n in stmts.statements(path):
            names.append(f'{ns}.{n}' if ns else n)
    os.makedirs(f'{BUILD}/audit', exist_ok=True)
    audit = f'{BUILD}/audit/{pid}.lean'
    with open(audit, 'w') as f:
        for mod in mods: f.write(f'import {mod}\n')
        for n in names: f.write(f'#print axioms {n}\n')
    rc, out = sh(['lake', 'env', 'lean', audit], cwd=LEAN, timeout=1200)
    deps = {}
    for m in re.finditer(r"'([^']+)' depends on axioms: \[([^\]]*)\]", out.replace('\n', ' ')):
        deps[m.group(1)] = set(a.strip() for a in m.group(2).split(',') if a.strip())
    for m in re.finditer(r"'([^']+)' does not depend on any axioms", out):
        deps[m.group(1)] = set()
    discharged = 0; thms = []
    for n in names:
        if n not in deps:
            problems.append({'kind': 'audit-missing', 'theorem': n}); continue
        extra = deps[n] - ALLOWED_AXIOMS
        if extra: problems.append({'kind': 'foreign-axiom', 'theorem': n, 'axioms': sorted(extra)})
        else: discharged += 1
        thms.append({'name': n, 'axioms': sorted(deps[n])})
    cmd = f"cd lean && lake build {' '.join(mods)} && lake env lean {audit}"
    if thorough:
        for mod in mods:
            rc, out = sh(['lake', 'env', 'leanchecker', mod], cwd=LEAN, timeout=3000)
            if rc != 0: problems.append({'kind': 'leanchecker', 'module': mod, 'detail': out[-500:]})
        cmd += ' && lake env leanchecker ' + ' '.join(mods)
    # theorems of modules that no longer build are undischarged obligations
    for mod in failed_mods:
        path = f"{LEAN}/{mod.replace('.', '/')}.lean"
        ns = lean_namespace(path)
        for n in stmts.statements(path): names.append(f'{ns}.{n}' if ns else n)
    if problems and discharged == len(names): discharged = max(0, len(names) - 1)
    return dict(obligations=len(names), discharged=discharged, theorems=thms, problems=problems, checker_cmd=cmd, consts_tie=consts_note or 'regenerated and checked', code_tie=(tie_note if not tie_mods else 'regenerated from the working tree; ' + ', '.join(tie_mods)) if cfg.get('code_tie') else None)


# ----------------------------------------------------------------------------- implementation

TRANSLATOR = f'{ROOT}/translator'
RS2LEAN = f'{BUILD}/target-tr/debug/rs2lean'

def run_translator():
    """regenerate lean/ClockBound/Generated/Code.lean (deep embedding of the Rust decision logic) from
    /repo's working tree; returns (ok, note)"""
    with Lock('cargo'):
        rc, out = sh(['cargo', 'build', '--offline'], cwd=TRANSLATOR, env={'CARGO_NET_OFFLINE': 'true'}, timeout=3000)
    if rc != 0: return False, 'translator does not build: ' + out[-300:]
    tmp = f'{BUILD}/Code.lean.new'
    rc, out = sh([RS2LEAN, os.environ.get('CB_REPO', '/repo'), tmp], timeout=600)
    if rc != 0: return False, 'translator: ' + out.strip()[-300:]
    dst = f'{LEAN}/ClockBound/Generated/Code.lean'
    new = open(tmp).read()
    if not os.path.exists(dst) or open(dst).read() != new:
        open(dst, 'w').write(new)
    return True, 'regenerated'


def env_names(binary):
    """environment-variable-like names in the binary that could concern clock-bound's libraries"""
    try:
        data = open(binary, 'rb').read()
    except OSError:
        return []
    names = []
    for m in re.finditer(rb'[A-Z][A-Z0-9_]{4,40}', data):
        t = m.group(0).decode()
        if any(k in t for k in ('CLOCKBOUND', 'CLOCK_BOUND', 'SHM_', 'RETR', 'DRIFT', 'GRACE')) and t not in names: names.append(t)
    return names


def build_harness(release=False):
    with Lock('cargo'):
        # keep the lock file in step with /repo's (path dependencies resolve through it)
        rc, out = sh(['cargo', 'build'] + (['--release'] if release else []), cwd=HARNESS, env={'RUSTFLAGS': '--cfg clock_bound_verif', 'CARGO_NET_OFFLINE': 'true'}, timeout=3000)
    return rc, out


def run_harness(args, stdin_text=None, timeout=3000, release=False):
    # the C client process (dev build of the cdylib) sits next to the dev binary
    rc, out = sh([BIN_REL if release else BIN] + [str(a) for a in args], inp=stdin_text, timeout=timeout,
                 env={'CBH_CCLIENT': f'{BUILD}/target/debug/cclient'} if release else None)
    if release:
        # the profile travels with the request (`… @release => answer`), so that a replay uses the same binary
        out = '\n'.join((l.replace(' => ', ' @release => ', 1) if ' => ' in l else l) for l in out.splitlines())
    return rc, out


def run_model(lines):
    p = subprocess.run([MODEL], input='\n'.join(lines) + '\n', stdout=subprocess.PIPE, stderr=subprocess.PIPE, text=True, timeout=3000)
    return p.stdout.splitlines()


class Case:
    __slots__ = ('req', 'impl', 'model', 'verdicts', 'tags')

    def __init__(self, line, mline):
        self.req, _, self.impl = line.partition(' => ')
        self.req = self.req.strip(); self.impl = self.impl.strip()
        parts = mline.split(' | ')
        self.model = parts[0].strip()
        self.verdicts = dict(v.split(':', 1) for v in (parts[1].split() if len(parts) > 1 else []) if ':' in v)
        self.tags = set(t for t in (parts[2].strip().split(',') if len(parts) > 2 else []) if t)

    @property
    def hang(self):
        """the real code did not return from this request (the harness watchdog answered)"""
        return self.impl == 'hang'

    @property
    def bad(self):
        """the model could not parse the request or the implementation's answer: no verdict"""
        return self.model.startswith('bad-op') or self.verdicts.get('oracle') == 'unparsed' 


def evaluate(lines):
    lines = [l for l in lines if ' => ' in l]
    ml = run_model(lines)
    if len(ml) != len(lines):
        raise RuntimeError(f'model answered {len(ml)} lines for {len(lines)} requests')
    return [Case(l, m) for l, m in zip(lines, ml)]


def run_requests(reqs):
    """request lines -> `req => impl answer` lines (real code via the harness, or an external runner)"""
    ext = [r for r in reqs if r.split(' ', 1)[0] in props.EXTERNAL]
    lines = []
    for k in dict.fromkeys(r.split(' ', 1)[0] for r in ext):
        lines += props.EXTERNAL[k]([r for r in ext if r.split(' ', 1)[0] == k])
    rest = [r for r in reqs if r not in ext]
    rel = [r for r in rest if r.endswith(' @release')]
    rest = [r for r in rest if not r.endswith(' @release')]
    if rest:
        rc, out = run_harness(['replay'], stdin_text='\n'.join(rest) + '\n')
        lines += out.splitlines()
    if rel:
        rc, out = run_harness(['replay'], stdin_text='\n'.join(r[:-len(' @release')] for r in rel) + '\n', release=True)
        lines += out.splitlines()
    return lines


def execute(reqs):
    """run request lines through the real code and the model"""
    return evaluate(run_requests(reqs))


# ----------------------------------------------------------------------------- search / shrink

def int_tokens(req):
    return [(i, t) for i, t in enumerate(req.split(' ')) if re.fullmatch(r'-?\d+', t)]


def neighbours(req, rng_seed, limit=400):
    """boundary sweep around a diverging case: perturb each integer field"""
    toks = req.split(' ')
    out = []
    deltas = [1, -1, 2, -2, 1000, -1000, 999, -999, 1000000000, -1000000000, 5000000000, -5000000000]
    for i, t in int_tokens(req):
        v = int(t)
        cands = [v + d for d in deltas] + [0, 1, -v, v * 2, v // 2]
        for c in cands:
            n = list(toks); n[i] = str(c); out.append(' '.join(n))
    # de-duplicate, cap
    seen = set(); res = []
    for r in out:
        if r not in seen and r != req: seen.add(r); res.append(r)
    return res[:limit]


def shrink(req, fails, budget=200):
    """greedy simplification keeping the oracle failure; sequences (`;`) lose elements first"""
    best = req
    if ' ; ' in best:
        parts = best.split(' ; ')
        changed = True
        while changed and budget > 0:
            changed = False
            for i in range(len(parts) - 1, 0, -1):
                cand = parts[:i] + parts[i + 1:]
                if len(cand) < 2: continue
                budget -= 1
                if fails(' ; '.join(cand)): parts = cand; changed = True; break
        best = ' ; '.join(parts)
    for i, t in int_tokens(best):
        v = int(t)
        for c in (0, 1, -1, round(v, -9) if abs(v) > 10**9 else v, round(v, -3) if abs(v) > 1000 else v):
            if c == v or budget <= 0: continue
            toks = best.split(' '); toks[i] = str(c); cand = ' '.join(toks); budget -= 1
            if fails(cand): best = cand; break
    return best


# ----------------------------------------------------------------------------- main check

def load_known():
    p = f'{ROOT}/known_findings.json'
    return json.load(open(p)) if os.path.exists(p) else {'findings': []}


def write_replay(pid, seed, k, payload):
    os.makedirs(f'{ROOT}/replays', exist_ok=True)
    path = f'{ROOT}/replays/{pid}-{seed}-{k}.json'
    json.dump(payload, open(path, 'w'), indent=1)
    return path


def check(pid, tier, seed):
    t0 = time.time()
    cfg = props.PROPS[pid]
    thorough = tier == 'thorough'
    # per-request limit of the harness watchdog (a request that never returns is answered `hang`)
    os.environ.setdefault('CBH_WATCHDOG_S', '300' if thorough else '40')
    violations = []          # (replay path, suffix)
    known_lines = []
    if cfg.get('pre'):
        rcp, outp = props.PRE_HOOKS[cfg['pre']]()
        if rcp != 0:
            path = write_replay(pid, seed, 'pre', {'property': pid, 'what': 'pre-build step failed (translator could not parse a published description, or the C library/client does not build)', 'log': outp[-4000:]})
            print(outp[-3000:])
            print(f'VIOLATION property={pid} replay={path} no-failing-input-found')
            return 1
    proof = proof_layer(pid, cfg, thorough)
    rc, out = build_harness()
    if rc != 0:
        path = write_replay(pid, seed, 'build', {'property': pid, 'what': 'harness does not build against /repo working tree', 'log': out[-4000:]})
        print(out[-3000:])
        print(f'VIOLATION property={pid} replay={path} no-failing-input-found')
        return 1
    oracle = cfg['oracle']
    project = cfg.get('project', lambda c: (c.impl, c.model))
    # 1. corpus first, then generated cases
    lines = []
    corpus = f'{ROOT}/corpus/{pid}.txt'
    if os.path.exists(corpus):
        lines += run_requests([l.split(' => ')[0].strip() for l in open(corpus) if l.strip() and not l.startswith('#')])
    gens = cfg['gens'](seed, thorough)
    harness_failures = []
    for g in gens:
        if callable(g):
            lines += g(); continue
        rc, out = run_harness(g)
        if rc == 3 and out.rstrip().endswith('=> hang'):
            rc = 0   # the watchdog answered for a request that did not return: an answer like any other
        if rc != 0:
            # the harness process died inside this generator (an abort in the code under test, e.g. a failed assertion in a
            # destructor): the other generators still run, so that a concrete failing input can be found; if none is, this
            # failure is what is reported
            print(out[-2000:]); print(f'harness failed: {g}')
            harness_failures.append({'args': g, 'log': out[-4000:]})
            lines += [l for l in out.splitlines() if ' => ' in l]
            continue
        lines += out.splitlines()
    # release profile: the same generators through the harness built with the release profile (what is shipped: no
    # overflow checks, no debug assertions). Where the model predicts a panic of the dev profile the release build
    # has no defined counterpart (it wraps), so those cases are dropped after evaluation.
    for g in (cfg.get('release_gens')(seed, thorough) if cfg.get('release_gens') else []):
        rcb, outb = build_harness(release=True)
        if rcb != 0:
            path = write_replay(pid, seed, 'build', {'property': pid, 'what': 'harness does not build against /repo working tree in the release profile', 'log': outb[-4000:]})
            print(outb[-3000:]); print(f'VIOLATION property={pid} replay={path} no-failing-input-found'); return 1
        rc, out = run_harness(g, release=True)
        if rc == 3 and out.rstrip().endswith('=> hang'): rc = 0
        if rc != 0:
            print(out[-2000:]); print(f'harness (release) failed: {g}')
            path = write_replay(pid, seed, 'harness', {'property': pid, 'what': 'harness run failed (release profile)', 'args': g, 'log': out[-4000:]})
            print(f'VIOLATION property={pid} replay={path} no-failing-input-found'); return 1
        lines += out.splitlines()
    # hostile environment: every environment-variable-like name the harness binary (= the libraries under test)
    # mentions that could concern the client/segment code is set, and a sample of this run's requests is executed
    # again: nothing these libraries do may depend on the environment (the modifier travels with the request, so
    # the replay is self-contained; the model ignores it). No such name in the binary: nothing to do.
    env_kinds = cfg.get('env_kinds')
    if env_kinds:
        names = env_names(BIN)
        if names:
            base = []
            for l in lines:
                r = l.split(' => ')[0].strip()
                if r.split(' ', 1)[0] in env_kinds and ' @env ' not in r and r not in base: base.append(r)
                if len(base) >= 60: break
            extra = [f"{r} @env {' '.join(n + '=' + v for n in names[:16])}" for v in ('0', '1', 'x') for r in base]
            lines += run_requests(extra)
    cases = evaluate(lines)
    cases = [c for c in cases if not (c.req.endswith(' @release') and 'panic' in c.model)]
    relevant = [c for c in cases if c.hang or cfg.get('relevant', lambda c: True)(c)]
    # 2. separate accounting: oracle failures on impl output, model disagreements
    known = [k for k in load_known()['findings'] if k['property'] == pid and k.get('status') == 'known']
    def is_known(c):
        for k in known:
            if k.get('key') == c.req: return k
            pred = k.get('predicate')
            if pred and props.PREDICATES[pred](c): return k
        return None
    fails = []; disagreements = []; known_hits = collections.OrderedDict()
    nontriv = set(); dist = collections.Counter(); seen = set()
    for c in relevant:
        h = hashlib.sha1(c.req.encode()).hexdigest()
        names = [oracle] + list(cfg.get('also', []))
        present = [c.verdicts[n] for n in names if n in c.verdicts]
        # the line's verdict for this property: its own oracle, or (for line kinds that only carry an
        # associated property's verdict) the associated ones
        v = c.verdicts.get(oracle) or ('missing' if not present else ('FAILS' if 'FAILS' in present else ('holds' if 'holds' in present else 'na')))
        failing = (not c.bad) and (not present or 'FAILS' in present)
        if c.hang:
            # a call that never returns: no property of the code under test allows it
            v = 'FAILS'; fails.append(c); disagreements.append(c); dist['hang'] += 1
            continue
        if failing:
            k = is_known(c)
            if k: known_hits.setdefault(k['id'], (k, c))
            else: fails.append(c)
        a, b = project(c)
        req = cfg.get('require')
        if a != b or c.bad or (req and any(k in c.verdicts and c.verdicts[k] != v for k, v in req.items())):
            disagreements.append(c)
        for t in c.tags: dist[t] += 1
        dist['verdict:' + v] += 1
        if h not in seen:
            seen.add(h)
            if v != 'na' and cfg['nontrivial'](c): nontriv.add(h)
    # known findings: the keyed cases are replayed explicitly as well
    for k in known:
        if 'key' in k and k['id'] not in known_hits:
            cs = execute([k['key']])
            if cs and (cs[0].verdicts.get(oracle) == 'FAILS' or any(cs[0].verdicts.get(o) == 'FAILS' for o in cfg.get('also', []))):
                known_hits[k['id']] = (k, cs[0])
    for kid, (k, c) in known_hits.items():
        known_lines.append(f"KNOWN-FINDING: property={pid} {k['what']} [{kid}] case: {c.req[:200]}")
    for k in known:
        if k['id'] not in known_hits:
            known_lines.append(f"KNOWN-FINDING: property={pid} {k['what']} [{k['id']}] (not replayed in the {tier} tier)")
    # 2b. sporadic failures must reproduce. Every request is deterministic (scripted clocks, scripted schedules, private namespaces), so a
    # real failure shows again when the same request is executed again; a replay that does not reproduce is worthless anyway. When at
    # most three cases fail or disagree, each is re-executed (twice at most); those that never fail again are counted as noise of the
    # machine (recorded in the evidence and printed), not reported. Systematic failures (more than three) are never filtered.
    unreproducible = []
    def _fails_pred(d):
        names_ = [oracle] + list(cfg.get('also', []))
        present_ = [d.verdicts[n] for n in names_ if n in d.verdicts]
        return d.hang or ((not d.bad) and (not present_ or 'FAILS' in present_) and not is_known(d))
    def _disagrees_pred(d):
        a_, b_ = project(d)
        req_ = cfg.get('require')
        v_ = d.verdicts.get(oracle)
        return d.hang or a_ != b_ or d.bad or bool(req_ and any(k in d.verdicts and d.verdicts[k] != v for k, v in req_.items()))
    def _confirm(c, pred):
        if c.hang: return True
        for _ in range(2):
            cs = execute([c.req])
            if cs and pred(cs[0]): return True
        return False
    if 0 < len(fails) <= 3:
        keep = [c for c in fails if _confirm(c, _fails_pred)]
        unreproducible += [c for c in fails if c not in keep]
        fails = keep
    if 0 < len(disagreements) <= 3:
        keep = [c for c in disagreements if c in fails or _confirm(c, lambda d: _disagrees_pred(d) or _fails_pred(d))]
        unreproducible += [c for c in disagreements if c not in keep and c not in unreproducible]
        disagreements = keep
    for c in unreproducible:
        known_lines.append(f"NOTE: property={pid} one answer did not reproduce when the same request was executed again (not reported): {c.req[:160]} => {c.impl[:160]}")
    searched = 0
    # 3. broken correspondence without an oracle failure: targeted search
    if (disagreements or proof['problems']) and not fails:
        for c in disagreements[:8]:
            nb = neighbours(c.req, seed)
            cs = execute(nb); searched += len(cs)
            for d in cs:
                if (d.verdicts.get(oracle) == 'FAILS') and not d.bad and not is_known(d): fails.append(d)
            if fails: break
        if not fails:
            # more seeded cases (two further seeds of this tier's generators; the thorough tier is the deep search)
            for extra in (1, 2):
                for g in cfg['gens'](seed + extra, thorough):
                    if callable(g): continue
                    rc, out = run_harness(g)
                    cs = evaluate(out.splitlines()); searched += len(cs)
                    fails += [d for d in cs if d.verdicts.get(oracle) == 'FAILS' and not d.bad and not is_known(d)]
                    if fails: break
                if fails: break
    # 4. verdict: one VIOLATION line per run; a concrete failing input wins over "no longer shown"
    if fails:
        c = fails[0]
        def still_fails(req):
            cs = execute([req])
            return bool(cs) and cs[0].verdicts.get(oracle) == 'FAILS' and not cs[0].bad and not is_known(cs[0])
        small = shrink(c.req, still_fails) if cfg.get('shrink', True) and not c.hang else c.req
        sc = c if c.hang else execute([small])[0]
        body = {
            'property': pid, 'what': ('the real code did not return from this request (harness watchdog)' if c.hang else 'the implementation\'s answer violates the property oracle'),
            'request': sc.req, 'impl_answer': sc.impl, 'model_answer': sc.model, 'oracle': sc.verdicts,
            'original_request': c.req, 'failing_cases_seen': len(fails),
            'replay': f'./check {pid} --replay <this file>'}
        if proof['problems']: body['proof_layer_problems'] = proof['problems']
        if disagreements: body['model_disagreements'] = len(disagreements)
        if harness_failures: body['harness_failures'] = harness_failures
        path = write_replay(pid, seed, 0, body)
        violations.append((path, ''))
    elif harness_failures:
        path = write_replay(pid, seed, 'harness', {'property': pid, 'what': 'harness run failed', 'args': harness_failures[0]['args'], 'log': harness_failures[0]['log'],
                                                   'all_failures': [h['args'] for h in harness_failures], 'proof_layer_problems': proof['problems']})
        violations.append((path, ' no-failing-input-found'))
    elif proof['problems'] or disagreements:
        body = {'property': pid, 'what': 'the property is no longer shown to hold; no failing input found', 'searched_cases': searched}
        if proof['problems']:
            body['proof_layer_problems'] = proof['problems']
        if disagreements:
            c = disagreements[0]
            body.update({'correspondence': 'model/implementation diverge', 'stream': cfg.get('stream', oracle),
                         'theorems_no_longer_applicable': [t['name'] for t in proof['theorems']],
                         'first_diverging_request': c.req, 'impl_answer': c.impl, 'model_answer': c.model,
                         'diverging_cases': len(disagreements)})
        path = write_replay(pid, seed, 'proof' if proof['problems'] and not disagreements else 'corr', body)
        violations.append((path, ' no-failing-input-found'))
    wall = time.time() - t0
    samples = [{'request': c.req[:400], 'impl': c.impl[:300], 'model': c.model[:300], 'oracle': c.verdicts.get(oracle)} for c in relevant[:2] + relevant[len(relevant) // 2: len(relevant) // 2 + 2] + relevant[-1:]]
    ev = {
        'property_id': pid, 'tier': tier, 'seed': seed, 'level': 'proof',
        'coverage': {
            'obligations': proof['obligations'], 'discharged': proof['discharged'],
            'checker_cmd': proof['checker_cmd'],
            'trusted_base': cfg.get('trusted_base', []) + props.COMMON_TRUSTED,
            'theorems': proof['theorems'], 'translated_constants_tie': proof.get('consts_tie'), 'translated_code_tie': proof.get('code_tie'),
            'evaluations': len(relevant), 'distinct_nontrivial': len(nontriv),
            'rule': cfg['rule'], 'samples': samples,
            'traces_validated_against_impl': len(relevant),
            'model_disagreements': len(disagreements), 'oracle_failures_on_impl': len(fails),
            'known_finding_hits': list(known_hits.keys()), 'searched_after_divergence': searched,
            'unreproducible_answers': [{'request': c.req[:400], 'impl': c.impl[:300]} for c in unreproducible],
            'input_distribution': dict(sorted(dist.items())),
            'exhaustive': bool(cfg.get('exhaustive', False)),
        },
        'assumptions': cfg.get('assumptions', []) + props.COMMON_ASSUMPTIONS,
        'wall_s': round(wall, 2), 'violations': len(violations),
    }
    os.makedirs(f'{ROOT}/evidence', exist_ok=True)
    json.dump(ev, open(f'{ROOT}/evidence/{pid}.json', 'w'), indent=1)
    for l in known_lines: print(l)
    print(f"{pid} tier={tier} seed={seed}: theorems {proof['discharged']}/{proof['obligations']}, cases {len(relevant)} "
          f"(distinct non-trivial {len(nontriv)}), model disagreements {len(disagreements)}, oracle failures {len(fails)}, {wall:.1f}s")
    for path, suffix in violations:
        print(f'VIOLATION property={pid} replay={path}{suffix}')
    return 1 if violations else 0


def replay(pid, path):
    r = json.load(open(path))
    reqs = [r[k] for k in ('request', 'first_diverging_request', 'original_request') if k in r]
    rc, out = build_harness()
    if rc != 0: print(out[-3000:]); return 2
    for c in execute(reqs):
        print('request :', c.req); print('impl    :', c.impl); print('model   :', c.model); print('oracle  :', c.verdicts); print()
    return 0


def setup():
    ok, note = run_translator()
    if not ok: print('translator:', note); return 1
    rc, out = sh(['lake', 'build', 'ClockBound', 'cbmodel'], cwd=LEAN, timeout=6000)
    print(out[-1500:])
    if rc != 0:
        # on a tree whose source differs from the one the tie proofs were written for, some `CodeTie*` / `OnCode*` modules may no
        # longer build: that is for the checks to report (each builds and audits its own modules), not a reason for set-up to fail.
        # The model driver must build, though.
        rc, out = sh(['lake', 'build', 'cbmodel'], cwd=LEAN, timeout=6000)
        print(out[-800:])
        if rc != 0: return rc
        print('note: some library modules did not build (see above); the checks report them')
    rc, out = build_harness()
    print(out[-1500:])
    if rc != 0: return rc
    rc, out = build_harness(release=True)
    print(out[-800:])
    if rc != 0: return rc
    ok, note = run_translator()
    print('translator:', note)
    return 0 if ok else 1


if __name__ == '__main__':
    ap = argparse.ArgumentParser()
    ap.add_argument('pid')
    ap.add_argument('--tier', default=os.environ.get('VERIF_TIER', 'quick'))
    ap.add_argument('--replay')
    a = ap.parse_args()
    seed = int(os.environ.get('VERIF_SEED', '1'))
    if a.pid == 'setup': sys.exit(setup())
    if a.replay: sys.exit(replay(a.pid, a.replay))
    sys.exit(check(a.pid, a.tier if a.tier in ('quick', 'thorough') else 'quick', seed))
