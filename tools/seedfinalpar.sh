#!/bin/bash
# usage: seedfinalpar.sh <name>:<prop>[,<prop>] ...   — tools/seedfinal.py spread over 4 universes (refresh them first:
# tools/universe.sh make k); the updated meta.json files are copied back to /verif/seeded
mkdir -p /verif/build/seedpar
US=(${UNIVERSES:-1 2 3 4})
i=0
for spec in "$@"; do k=${US[$(( i % ${#US[@]} ))]}; i=$((i+1)); lists[$k]="${lists[$k]} $spec"; done
for k in ${US[@]}; do
  [ -z "${lists[$k]}" ] && continue
  ( /verif/tools/universe.sh run $k python3 tools/seedfinal.py ${lists[$k]} > /verif/build/seedpar/final$k.log 2>&1
    for spec in ${lists[$k]}; do n=${spec%%:*}; cp /tmp/u/$k/verif/seeded/$n/meta.json /verif/seeded/$n/meta.json; done ) &
done
wait
cat /verif/build/seedpar/final*.log
