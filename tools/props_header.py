"""Per-property configuration of ./check for C16 and C17 (same shape as the entries of props.py;
merge with `props.PROPS.update(props_header.PROPS_HEADER)`).

Extra keys, to be honoured by check.py (see INTEGRATION.md):
  pre            name of a hook in PRE_HOOKS that must run before `lake build` / `cargo build`
  lean_modules   modules whose theorems are the obligations (already understood by check.py)
"""
import os, subprocess, sys

ROOT = os.path.dirname(os.path.dirname(os.path.abspath(__file__)))

def kind(c):
    k = c.req.split(' ', 1)[0]
    return 'open' if k == 'openb' else k   # openb = the same opens of a segment whose file name is not valid UTF-8

# ------------------------------------------------------------------------------------------- hooks

def pre_translate_c17():
    """regenerate lean/ClockBound/Generated/*.lean from /repo's working tree; a parse failure is fatal"""
    p = subprocess.run([sys.executable, os.path.join(ROOT, 'tools', 'translate_c17.py')],
                       stdout=subprocess.PIPE, stderr=subprocess.STDOUT, text=True)
    return p.returncode, p.stdout

def pre_build_cclient():
    """libclockbound.so from /repo's working tree + the C client, next to the cbharness binary"""
    out_dir = os.environ.get('CBH_OUT', os.path.join(ROOT, 'build', 'target', 'debug'))
    p = subprocess.run(['sh', os.path.join(ROOT, 'harness', 'c', 'build.sh'), out_dir],
                       stdout=subprocess.PIPE, stderr=subprocess.STDOUT, text=True)
    return p.returncode, p.stdout

def pre_c17():
    rc, out = pre_translate_c17()
    if rc != 0: return rc, out
    rc2, out2 = pre_build_cclient()
    return rc2, out + out2

PRE_HOOKS = {'translate_c17': pre_translate_c17, 'build_cclient': pre_build_cclient, 'c17': pre_c17}

# ------------------------------------------------------------------------------------------- projections

def parts(s): return [p.strip() for p in s.split(' ; ')]

def proj_c16(c):
    """open: the three results; seg: recreated flag, image without the four padding bytes of the
    record copy (an input of the model, taken from the observation), fresh-reader result"""
    if kind(c) in ('open', 'open0', 'openu'):
        return (parts(c.impl), parts(c.model))
    def seg(a):
        t = a.split()
        if len(t) >= 4 and t[0] in '01' and t[1] in '01':
            return [t[0], t[1], t[2], ' '.join(t[3:])]
        return t
    return (seg(c.impl), seg(c.model))

def proj_c17(c):
    k = kind(c)
    if k == 'session':       # both client libraries, every call of the session
        return (c.impl, c.model)
    if k == 'open':          # the two client libraries (kind, errno, detail)
        return (parts(c.impl)[1:], parts(c.model)[1:])
    if k == 'seg':           # the image the daemon leaves behind
        a, b = c.impl.split(), c.model.split()
        return (a[2:3] if len(a) >= 4 else a, b[2:3] if len(b) >= 4 else b)
    return (parts(c.impl), parts(c.model))

HEADER_TB = [
    "modelled, not verified: the file as a list of bytes; a store through a mapping changes bytes that exist in the file and never its length; open(2)/read(2)/mmap(2) outcomes for the three kinds of path (ENOENT, EISDIR, success) as observed on Linux; little-endian host",
    "the four tail-padding bytes of the record copy are an input of the model taken from the observed image (the implementation copies uninitialised padding)",
]

PROPS_HEADER = {
 'C16': dict(
    oracle='C16', also=['C16strict'],
    # 'C16strict' = the same oracle with truncated usable segments counted (see known finding in INTEGRATION.md);
    # add also=['C16strict'] to make the literal reading of "whatever the file contained before" binding
    lean_modules=['ClockBound.Properties.C16'],
    technique='Lean 4 proof over a byte-level model of ShmHeader::read / ShmReader::new / ShmWriter::new / write (all byte lists, all three kinds of path) + differential correspondence on real files: real ShmReader::new, ClockBoundClient::new_with_path and C clockbound_open on every generated file; real ShmWriter::new + write + fresh ShmReader::new + snapshot for the repair clause',
    level_text='Theorems C16.open_ok_iff / open_error_kind / open_missing / open_directory / open_total characterise the outcome of opening for every list of bytes of every length and the three kinds of path (check order magic -> version -> generation -> declared size; the file\'s real length beyond 16 bytes is irrelevant). C16.repair_roundtrip proves for every prior state but a directory, every in-range record and every padding content that start-up + first publication leaves a file that opens, is re-created exactly when the prior state did not open and is then byte for byte the documented 72-byte image, is otherwise taken over in place (length, magic, declared size unchanged), and from which a fresh reader reads back exactly the record. start_directory states the one exception (EISDIR at start-up); truncated_extended covers a usable header on a file shorter than 72 bytes (grown in place to 72 bytes; repaired defect D6). open_spec / model_holds_open / model_holds_seg tie the decidable oracles to the model.',
    level_note='Trusted: Lean kernel + standard axioms; POSIX file/mmap behaviour is modelled as observed, correspondence is differential testing on real files; an address-space limit (ulimit -v) adds the outcome ENOMEM from mmap (theorems open_ok_iff_lim / open_mmap_refused), which the runs do not exercise.',
    pre='c17',
    gens=lambda seed, th: [['hdr-open', seed, 60000 if th else 4000], ['hdr-seg', seed, 60000 if th else 4000], ['hdr-snap', seed, 40000 if th else 3000], ['crashgrid']],
    relevant=lambda c: kind(c) in ('open', 'open0', 'openu', 'seg', 'snap', 'crashpt'),
    project=proj_c16,
    nontrivial=lambda c: (kind(c) == 'open' and bool(c.tags & {'orderVisible', 'size<72', 'size<16', 'ver0', 'gen0', 'badMagic', 'shortHeader', 'dir', 'missing', 'sizeMax'}))
                         or (kind(c) == 'seg' and bool(c.tags & {'recreated', 'takenOver'}) and not ({'missing'} & c.tags)),
    rule="grid: every truncation length 0..72 of a valid segment; 70 magic mutations (every single bit of both words, swapped words, byte-swapped words, the byte string printed in docs/PROTOCOL.md); the cross product size in {0,15,16,71,72,73,400,2^32-1} x version in {0,1,3,65535} x generation in {0,1,2,65535} x magic ok/bad on 72-byte and 16-byte files (check order observable when two checks fail); live segments longer than 72 bytes with odd / wrapping generations; directory; missing path; then seeded random files (random bytes of length 0..200, valid magic + random rest, boundary headers with random tails, valid live segments with random records); `seg` pairs every prior with a random record incl. negative and extreme fields and all three statuses; `snap` (model correspondence only, C16:na) lets a fresh reader read every such file as a static image (odd generation => the all-zero initial snapshot). distinct = sha1 of request; non-trivial = open: a failing check, special path or maximal declared size; seg: an existing prior file that was re-created or taken over",
    trusted_base=HEADER_TB,
    assumptions=["a directory at the segment path makes daemon start-up fail with EISDIR (C16:na on those lines)",
                 "a prior file with a usable header but fewer than 72 bytes is grown in place to 72 bytes (repair D6); tag truncatedValid"],
 ),
 'C17': dict(
    oracle='C17', also=['C17magic'],
    lean_modules=['ClockBound.Properties.C17', 'ClockBound.Properties.C17Magic'],
    technique='Lean 4 proof of the encoder\'s layout + agreement by `decide` with facts regenerated on every run from docs/PROTOCOL.md, clockbound.h and the Rust #[repr(C)] items (tools/translate_c17.py) + differential runs: the daemon\'s real bytes decoded by a reader driven by the document alone; the C library (cdylib built from the working tree, C program compiled against clockbound.h, clock_gettime interposed) against the Rust client on the same segment at the same virtual instant; the C compiler\'s sizeof/offsetof against the repr(C) layout of the Rust definitions',
    level_text='C17.decode_encode (round trip for in-range fields), field_* (offset and width of each of the eleven fields of encodeSegmentP, any padding), total_size, layout_sound, status_codes, byte_order are about the model\'s encoder, which C16.repair_roundtrip ties to the bytes the daemon writes. doc_layout_agrees / doc_types_agree / doc_plan / doc_status_agrees / doc_endianness, rust_*_layout / rust_layout_is_model_layout / rust_magic_agrees / rust_status_agrees, c_enums_agree / c_err_kind_codes / c_status_codes / c_structs_agree / c_functions_agree / abi_expected are closed by decide against the generated facts. C17.magic_doc_agrees (separate module) compares the document\'s spelling of the magic number with the bytes written. holds_seg_of / model_holds_seg / model_holds_sandwich / model_holds_abi tie the oracles to the model.',
    level_note='Trusted: Lean kernel + standard axioms; the translator (tokenisation only, fails on anything it cannot parse); LP64 System V sizes/alignments in `AbiTy`; the C side is observed through one C program.',
    pre='c17',
    gens=lambda seed, th: [['hdr-abi'], ['hdr-seg', seed, 60000 if th else 4000], ['hdr-sandwich', seed, 200000 if th else 12000], ['hdr-open', seed, 20000 if th else 2000], ['session', seed, 40000 if th else 1500]],
    relevant=lambda c: kind(c) in ('seg', 'sandwich', 'cabi', 'open', 'session'),
    project=proj_c17,
    nontrivial=lambda c: (kind(c) == 'seg' and bool(c.tags & {'recreated', 'takenOver'}) and bool(c.tags & {'negField', 'extremeField', 'highBitU32', 'st1', 'st2'}))
                         or (kind(c) == 'sandwich' and bool(c.tags & {'growth', 'near5s', 'nearVoid', 'nearBlur', 'errMalformed', 'errCausality', 'panic'}))
                         or kind(c) == 'cabi'
                         or (kind(c) == 'open' and not ({'usable'} & c.tags)),
    rule="seg: as C16 (the image after start-up + first publication is decoded through the document's diagram offsets and type annotations and must give the published record, version 1, an even non-zero generation, declared size >= 72 and = 72 = file size when re-created); C17magic: bytes 0..8 of the image against the document's magic literals. sandwich: the client generator's records x clock readings (threshold grid subset + seeded random incl. 4% out-of-range) written by the real ShmWriter, read by ClockBoundClient::now() under the harness's virtual clock and by clockbound_now() in the C process under its interposed clock_gettime; results must be identical incl. error kind and errno (a Rust panic = SIGABRT of the C process). open: error kind / errno / detail of both client libraries (also for a segment whose file name is not valid UTF-8: ShmReader::new and clockbound_open get the raw bytes, the Rust client a UTF-8 symbolic link), and after a successful open+close eight more open/close cycles must not grow the process's mappings or descriptors (both libraries). cabi: one line. distinct = sha1 of request; non-trivial = seg with non-trivial field values, sandwich near a threshold / with drift growth / with an error outcome, cabi, open of an unusable path",
    trusted_base=HEADER_TB + ["clock_gettime interposition in the C process (every answer checks that exactly one realtime and one monotonic read were intercepted)"],
    assumptions=["C17magic fails on the current docs/PROTOCOL.md (known defect D5: the byte string printed there is the big-endian image); it passes once the description gives the two native-endian 32-bit words 0x414D5A4E, 0x43420200 (and/or the little-endian bytes 4E 5A 4D 41 00 02 42 43)"],
 ),
}
