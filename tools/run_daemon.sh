#!/bin/sh
# run the release `clockbound` binary in a private mount namespace with a tmpfs /run,
# print what it published as max_drift_ppb, or how it ended.
#   usage: run_daemon.sh <binary> [--max-drift-rate X]
# output: "ok <ppb>" | "refused <exit code>" | "rejected" (clap usage error, exit 2) | "timeout"
BIN="$1"; shift
exec unshare -m sh -c '
mount -t tmpfs tmpfs /run || exit 99
BIN="$1"; shift
"$BIN" "$@" >/run/cb.log 2>&1 &
pid=$!
i=0
while [ $i -lt 100 ]; do
  if [ -s /run/clockbound/shm ]; then
    gen=$(od -An -tu2 -j14 -N2 /run/clockbound/shm | tr -d " ")
    if [ "$gen" != "0" ] && [ $((gen % 2)) -eq 0 ]; then
      ppb=$(od -An -tu4 -j56 -N4 /run/clockbound/shm | tr -d " ")
      kill $pid 2>/dev/null; wait $pid 2>/dev/null
      echo "ok $ppb"; exit 0
    fi
  fi
  if ! kill -0 $pid 2>/dev/null; then
    wait $pid; rc=$?
    if [ $rc -eq 2 ]; then echo "rejected"; else echo "refused $rc"; fi
    exit 0
  fi
  sleep 0.05; i=$((i+1))
done
kill $pid 2>/dev/null
echo timeout' sh "$BIN" "$@"
