#!/bin/sh
# run the release `clockbound` binary in a private mount namespace with a tmpfs /run,
# print what it published as max_drift_ppb, or how it ended.
#   usage: run_daemon.sh <binary> [--max-drift-rate X]
#   CB_PRIOR_PPB=<n> : the daemon restarts over a valid segment left by a previous instance whose
#                      live (Synchronized) record carries max_drift_ppb = n, generation 10
#   CB_PHC=1         : the daemon is also given --phc-ref-id PHC0 --phc-interface <a name that resolves, inside the
#                      private /run, to a fake uevent file with a PCI_SLOT_NAME>: the PHC options must not
#                      change the published rate
#   CB_LINK=1        : /run/clockbound/shm is a symbolic link to the real segment file (/run/real/shm, with CB_PRIOR_PPB a live
#                      segment): the daemon must publish THROUGH the link (the file attached clients have mapped); if the link is gone
#                      or the linked file was not the one updated the output is "relinked"
#   CB_PLACEHOLDER=1 : the previous instance never synchronised: its segment holds the placeholder record (as-of 0, void-after 1000 s,
#                      bound 0, status Unknown) with max_drift_ppb = $CB_PRIOR_PPB
#   CB_YOUNG=1       : the machine has just booted: CLOCK_MONOTONIC reads about 120 s (a time namespace)
#   CB_LEAP=<n>      : a stand-in chronyd ($CB_HARNESS fakechronyd) answers every request with leap status n (3 = not synchronised)
# Whatever the modifiers, no synchronised report ever reaches the daemon in these runs (chronyd is absent or unsynchronised), so the first
# record it publishes must say Unknown: any other status is reported as "trusted <status> <bound>" instead of "ok <ppb>".
# output: "ok <ppb>" | "refused <exit code>" | "rejected" (clap usage error, exit 2) | "timeout"
BIN="$1"; shift
TNS=""
if [ -n "$CB_YOUNG" ]; then up=$(cut -d. -f1 /proc/uptime); TNS="--time --monotonic -$((up - 120)) --fork"; fi
exec unshare -m $TNS sh -c '
mount -t tmpfs tmpfs /run || exit 99
BIN="$1"; shift
prior_gen=0
if [ -n "$CB_PRIOR_PPB" ]; then
  mkdir -p /run/clockbound
  python3 - "$CB_PRIOR_PPB" <<PY || exit 98
import struct, sys, time
now = time.clock_gettime(time.CLOCK_MONOTONIC)
sec = int(now)
import os
rec = struct.pack("=qqqqqIII", sec, 0, sec + 1000, 0, 12345, int(sys.argv[1]), 0, 1)
if os.environ.get("CB_PLACEHOLDER"):
    rec = struct.pack("=qqqqqIII", 0, 0, 1000, 0, 0, int(sys.argv[1]), 0, 0)
hdr = struct.pack("=IIIHH", 0x414D5A4E, 0x43420200, 72, 1, 10)
open("/run/clockbound/shm", "wb").write(hdr + rec + b"\0" * (72 - 16 - len(rec)))
PY
  prior_gen=10
fi
if [ -n "$CB_LINK" ]; then
  mkdir -p /run/clockbound /run/real
  if [ -f /run/clockbound/shm ]; then mv /run/clockbound/shm /run/real/shm; fi
  ln -s /run/real/shm /run/clockbound/shm
fi
if [ -n "$CB_PHC" ]; then
  mkdir -p /run/fakeif/device
  printf "DRIVER=ena\nPCI_SLOT_NAME=0000:00:05.0\n" > /run/fakeif/device/uevent
  set -- "$@" --phc-ref-id PHC0 --phc-interface ../../../run/fakeif
fi
sp=""
if [ -n "$CB_LEAP" ]; then
  mkdir -p /run/chrony
  "$CB_HARNESS" fakechronyd /run/chrony/chronyd.sock 2130706433 "$CB_LEAP" 30 </dev/null >/dev/null 2>&1 &
  sp=$!
  sleep 0.3
fi
"$BIN" "$@" >/run/cb.log 2>&1 &
pid=$!
i=0
while [ $i -lt 100 ]; do
  if [ -s /run/clockbound/shm ]; then
    gen=$(od -An -tu2 -j14 -N2 /run/clockbound/shm | tr -d " ")
    if [ "$gen" != "0" ] && [ "$gen" != "$prior_gen" ] && [ $((gen % 2)) -eq 0 ]; then
      ppb=$(od -An -tu4 -j56 -N4 /run/clockbound/shm | tr -d " ")
      st=$(od -An -tu4 -j64 -N4 /run/clockbound/shm | tr -d " ")
      bd=$(od -An -td8 -j48 -N8 /run/clockbound/shm | tr -d " ")
      kill $pid $sp 2>/dev/null; wait $pid 2>/dev/null
      if [ "$st" != "0" ]; then echo "trusted $st $bd"; exit 0; fi
      if [ -n "$CB_LINK" ]; then
        rgen=$(od -An -tu2 -j14 -N2 /run/real/shm 2>/dev/null | tr -d " ")
        if [ ! -L /run/clockbound/shm ] || [ "$rgen" != "$gen" ]; then echo "relinked"; exit 0; fi
      fi
      echo "ok $ppb"; exit 0
    fi
  fi
  if ! kill -0 $pid 2>/dev/null; then
    wait $pid; rc=$?
    [ -n "$sp" ] && kill $sp 2>/dev/null
    if [ $rc -eq 2 ]; then echo "rejected"; else echo "refused $rc"; fi
    exit 0
  fi
  sleep 0.05; i=$((i+1))
done
kill $pid $sp 2>/dev/null
echo timeout' sh "$BIN" "$@"
