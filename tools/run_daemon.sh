#!/bin/sh
# run the release `clockbound` binary in a private mount namespace with a tmpfs /run,
# print what it published as max_drift_ppb, or how it ended.
#   usage: run_daemon.sh <binary> [--max-drift-rate X]
#   CB_PRIOR_PPB=<n> : the daemon restarts over a valid segment left by a previous instance whose
#                      live (Synchronized) record carries max_drift_ppb = n, generation 10
#   CB_PHC=1         : the daemon is also given --phc-ref-id PHC0 --phc-interface <a name that resolves, inside the
#                      private /run, to a fake uevent file with a PCI_SLOT_NAME>: the PHC options must not
#                      change the published rate
#   CB_LINK=1        : /run/clockbound/shm is a symbolic link to the real segment file (/run/real/shm, with CB_PRIOR_PPB a live
#                      segment): the daemon must publish THROUGH the link (the file attached clients have mapped); if the link is gone
#                      or the linked file was not the one updated the output is "relinked"
# output: "ok <ppb>" | "refused <exit code>" | "rejected" (clap usage error, exit 2) | "timeout"
BIN="$1"; shift
exec unshare -m sh -c '
mount -t tmpfs tmpfs /run || exit 99
BIN="$1"; shift
prior_gen=0
if [ -n "$CB_PRIOR_PPB" ]; then
  mkdir -p /run/clockbound
  python3 - "$CB_PRIOR_PPB" <<PY || exit 98
import struct, sys, time
now = time.clock_gettime(time.CLOCK_MONOTONIC)
sec = int(now)
rec = struct.pack("=qqqqqIII", sec, 0, sec + 1000, 0, 12345, int(sys.argv[1]), 0, 1)
hdr = struct.pack("=IIIHH", 0x414D5A4E, 0x43420200, 72, 1, 10)
open("/run/clockbound/shm", "wb").write(hdr + rec + b"\0" * (72 - 16 - len(rec)))
PY
  prior_gen=10
fi
if [ -n "$CB_LINK" ]; then
  mkdir -p /run/clockbound /run/real
  if [ -f /run/clockbound/shm ]; then mv /run/clockbound/shm /run/real/shm; fi
  ln -s /run/real/shm /run/clockbound/shm
fi
if [ -n "$CB_PHC" ]; then
  mkdir -p /run/fakeif/device
  printf "DRIVER=ena\nPCI_SLOT_NAME=0000:00:05.0\n" > /run/fakeif/device/uevent
  set -- "$@" --phc-ref-id PHC0 --phc-interface ../../../run/fakeif
fi
"$BIN" "$@" >/run/cb.log 2>&1 &
pid=$!
i=0
while [ $i -lt 100 ]; do
  if [ -s /run/clockbound/shm ]; then
    gen=$(od -An -tu2 -j14 -N2 /run/clockbound/shm | tr -d " ")
    if [ "$gen" != "0" ] && [ "$gen" != "$prior_gen" ] && [ $((gen % 2)) -eq 0 ]; then
      ppb=$(od -An -tu4 -j56 -N4 /run/clockbound/shm | tr -d " ")
      kill $pid 2>/dev/null; wait $pid 2>/dev/null
      if [ -n "$CB_LINK" ]; then
        rgen=$(od -An -tu2 -j14 -N2 /run/real/shm 2>/dev/null | tr -d " ")
        if [ ! -L /run/clockbound/shm ] || [ "$rgen" != "$gen" ]; then echo "relinked"; exit 0; fi
      fi
      echo "ok $ppb"; exit 0
    fi
  fi
  if ! kill -0 $pid 2>/dev/null; then
    wait $pid; rc=$?
    if [ $rc -eq 2 ]; then echo "rejected"; else echo "refused $rc"; fi
    exit 0
  fi
  sleep 0.05; i=$((i+1))
done
kill $pid 2>/dev/null
echo timeout' sh "$BIN" "$@"
