#!/bin/bash
# usage: seedcheck.sh <seeded-name> <prop>...   applies seeded/<name>/patch.diff to /repo, runs the checks, undoes it
n=$1; shift
git -C /repo apply /verif/seeded/$n/patch.diff || { echo "patch does not apply"; exit 2; }
for p in "$@"; do
  out=$(cd /verif && timeout 3000 ./check $p 2>&1)
  echo "$n $p exit=$? :: $(echo "$out" | grep -E "tier=|VIOLATION" | tr '\n' ' ' | cut -c1-400)"
done
git -C /repo checkout -- . ; git -C /repo clean -fdq 2>/dev/null
git -C /repo status --short | head -3
