#!/usr/bin/env python3
"""Regenerate lean/ClockBound/Generated/Consts.lean from /repo's working tree: the numeric and string
constants that the hand-written model hard-codes, extracted from the Rust/C sources by pattern.
Agreement with the model is proved by `decide` in lean/ClockBound/Properties/Consts.lean, so a
changed constant breaks a proof obligation (the correspondence then supplies the failing input).
The translator fails loudly (exit 2) when a pattern no longer matches: the code was restructured and
the tie has to be re-established by hand.
"""
import re, sys, os

ROOT = os.path.dirname(os.path.dirname(os.path.abspath(__file__)))
REPO = os.environ.get('CB_REPO', '/repo')
OUT = os.path.join(ROOT, 'lean', 'ClockBound', 'Generated', 'Consts.lean')


def num(s): return int(s.replace('_', ''))


def grab(path, pattern, what, flags=re.S):
    src = open(os.path.join(REPO, path)).read()
    m = re.search(pattern, src, flags)
    if not m:
        sys.stderr.write(f'translate_consts: cannot find {what} in {path} (pattern {pattern!r})\n')
        sys.exit(2)
    return m


def main():
    c = {}
    m = grab('clock-bound-shm/src/lib.rs', r'const\s+CLOCKBOUND_RESTART_GRACE_PERIOD\s*:\s*TimeSpec\s*=\s*TimeSpec::new\(\s*([\d_]+)\s*,\s*([\d_]+)\s*\)', 'client grace period')
    c['clientGraceSec'], c['clientGraceNsec'] = num(m.group(1)), num(m.group(2))
    m = grab('clock-bound-shm/src/lib.rs', r'self\.max_drift_ppb\s*>=\s*([\d_]+)', 'malformed drift threshold')
    c['driftMalformedThreshold'] = num(m.group(1))
    m = grab('clock-bound-shm/src/lib.rs', r'causality_blur\s*=\s*as_of\s*-\s*TimeSpec::new\(\s*([\d_]+)\s*,\s*([\d_]+)\s*\)', 'causality blur')
    c['blurSec'], c['blurNsec'] = num(m.group(1)), num(m.group(2))
    m = grab('clock-bound-shm/src/lib.rs', r'num_nanoseconds\(\)\s*as\s*f64\s*/\s*([\d_]+)_f64', 'ns per second divisor')
    c['nsPerSecDivisor'] = num(m.group(1))
    m = grab('clock-bound-shm/src/reader.rs', r'let\s+mut\s+retries\s*=\s*([\d_]+)\s*;', 'retry budget')
    c['readerRetries'] = num(m.group(1))
    m = grab('clock-bound-shm/src/shm_header.rs', r'SHM_MAGIC\s*:\s*\[u32;\s*2\]\s*=\s*\[\s*0x([0-9A-Fa-f]+)\s*,\s*0x([0-9A-Fa-f]+)\s*\]', 'magic words')
    c['magic0'], c['magic1'] = int(m.group(1), 16), int(m.group(2), 16)
    m = grab('clock-bound-shm/src/writer.rs', r'if\s+gen\s*==\s*0\s*\{\s*gen\s*=\s*([\d_]+)', 'generation after wrap')
    c['genAfterWrap'] = num(m.group(1))
    m = grab('clock-bound-shm/src/writer.rs', r'version\.store\(\s*([\d_]+)_u16', 'layout version')
    c['layoutVersion'] = num(m.group(1))
    m = grab('clock-bound-d/src/chrony_poller.rs', r'const\s+CHRONY_RESTART_GRACE_PERIOD\s*:\s*Duration\s*=\s*Duration::from_secs\(\s*([\d_]+)\s*\)', 'poller grace period')
    c['pollerGraceSec'] = num(m.group(1))
    m = grab('clock-bound-d/src/chrony_poller.rs', r'let\s+sleep\s*=\s*Duration::from_millis\(\s*([\d_]+)\s*\)', 'poll period')
    c['pollPeriodMs'] = num(m.group(1))
    m = grab('clock-bound-d/src/shm_writer.rs', r'tv_sec\s*:\s*self\.as_of\.tv_sec\s*\+\s*([\d_]+)', 'void-after distance')
    c['voidAfterSec'] = num(m.group(1))
    m = grab('clock-bound-d/src/shm_writer.rs', r'polling_period\s*\*\s*([\d_.]+)\)\s*as\s*u64', 'stale threshold multiple')
    c['staleIntervals'] = int(float(m.group(1)))
    m = grab('clock-bound-d/src/shm_writer.rs', r'\*\s*([\d_]+)\.0\)\s*\.ceil\(\)', 'seconds to ns factor')
    c['secToNs'] = num(m.group(1))
    m = grab('clock-bound-d/src/main.rs', r'DEFAULT_MAX_DRIFT_RATE_PPB\s*:\s*u32\s*=\s*([\d_]+)', 'default drift')
    c['defaultDriftPpb'] = num(m.group(1))
    m = grab('clock-bound-d/src/main.rs', r'rate\.checked_mul\(\s*([\d_]+)\s*\)', 'ppm to ppb factor (checked)')
    c['ppmToPpb'] = num(m.group(1))
    m = grab('clock-bound-d/src/lib.rs', r'0\.\.=([\d_]+)\s*=>\s*Self::Synchronized\s*,\s*([\d_]+)\s*=>\s*Self::FreeRunning', 'leap status mapping')
    c['leapSyncMax'], c['leapFreeRunning'] = num(m.group(1)), num(m.group(2))
    # the three places that name the segment path
    p1 = grab('clock-bound-d/src/shm_writer.rs', r'CLOCKBOUND_SHM_DEFAULT_PATH\s*:\s*&str\s*=\s*"([^"]+)"', 'daemon segment path').group(1)
    p2 = grab('clock-bound-client/src/lib.rs', r'CLOCKBOUND_SHM_DEFAULT_PATH\s*:\s*&str\s*=\s*"([^"]+)"', 'client segment path').group(1)
    p3 = grab('clock-bound-ffi/include/clockbound.h', r'#define\s+CLOCKBOUND_SHM_DEFAULT_PATH\s+"([^"]+)"', 'C header segment path').group(1)
    # status discriminants
    st = grab('clock-bound-shm/src/lib.rs', r'pub enum ClockStatus\s*\{(.*?)\}', 'ClockStatus').group(1)
    codes = dict((n, num(v)) for n, v in re.findall(r'(\w+)\s*=\s*([\d_]+)', st))
    for n in ('Unknown', 'Synchronized', 'FreeRunning'):
        if n not in codes:
            sys.stderr.write('translate_consts: ClockStatus variants changed\n'); sys.exit(2)
    # the clock-status FSM as its transition table: impl FSMTransition for ShmClockState<X> { match chrony { … } }
    fsm_src = open(os.path.join(REPO, 'clock-bound-d/src/shm_writer/clock_state_fsm.rs')).read()
    order = {'Unknown': 0, 'Synchronized': 1, 'FreeRunning': 2}
    table = {}
    for st, body in re.findall(r'impl FSMTransition for ShmClockState<(\w+)>\s*\{(.*?)\n\}', fsm_src, re.S):
        for inp, out in re.findall(r'ChronyClockStatus::(\w+)\s*=>\s*bstate!\((\w+)\)', body):
            table[(st, inp)] = out
    if len(table) != 9 or any(k[0] not in order or k[1] not in order or v not in order for k, v in table.items()):
        sys.stderr.write('translate_consts: cannot extract the 3x3 FSM table\n'); sys.exit(2)
    fsm_rows = ', '.join(f'({order[a]}, {order[b]}, {order[v]})' for (a, b), v in sorted(table.items(), key=lambda kv: (order[kv[0][0]], order[kv[0][1]])))
    # initial FSM state
    m = grab('clock-bound-d/src/shm_writer/clock_state_fsm.rs', r'impl Default for ShmClockState\s*\{.*?clock_status:\s*ClockStatus::(\w+)', 'FSM initial state')
    c['fsmInitial'] = order[m.group(1)]
    lines = ['-- GENERATED by tools/translate_consts.py from /repo\'s working tree. Do not edit.',
             'namespace ClockBound.Generated.Consts', '']
    for k, v in c.items():
        lines.append(f'def {k} : Nat := {v}')
    lines += [f'def statusUnknown : Nat := {codes["Unknown"]}', f'def statusSynchronized : Nat := {codes["Synchronized"]}',
              f'def statusFreeRunning : Nat := {codes["FreeRunning"]}',
              f'def daemonPath : String := "{p1}"', f'def clientPath : String := "{p2}"', f'def cHeaderPath : String := "{p3}"',
              '/-- (state, chrony input, next state) with 0 = Unknown, 1 = Synchronized, 2 = FreeRunning -/',
              f'def fsmTable : List (Nat × Nat × Nat) := [{fsm_rows}]',
              '', 'end ClockBound.Generated.Consts', '']
    text = '\n'.join(lines)
    old = open(OUT).read() if os.path.exists(OUT) else None
    if old != text:
        os.makedirs(os.path.dirname(OUT), exist_ok=True)
        open(OUT, 'w').write(text)
        print('translate_consts: wrote', OUT)
    else:
        print('translate_consts: up to date')


if __name__ == '__main__':
    main()
