#!/bin/bash
# usage: negpar.sh <seeded-name>...   every check against each (harmless) patch, spread over 4 universes; prints the alarms
mkdir -p /verif/build/negpar
NU=${NU:-4}
ALL="C01 C02 C03 C04 C05 C06 C07 C08 C09 C10 C11 C12 C13 C14 C15 C16 C17 C18 C19"
i=0
for n in "$@"; do k=$(( i % NU + 1 )); i=$((i+1)); lists[$k]="${lists[$k]} $n"; done
for k in $(seq 1 $NU); do
  [ -z "${lists[$k]}" ] && continue
  ( for n in ${lists[$k]}; do /verif/tools/universe.sh run $k ./tools/seedcheck.sh $n $ALL; done > /verif/build/negpar/u$k.log 2>&1 ) &
done
wait
grep -h "exit=" /verif/build/negpar/u*.log | awk '{print $1, $2, $3}' | sort | uniq -c | awk '{print}' | grep -v "exit=0" ; echo "quiet runs: $(grep -h 'exit=0' /verif/build/negpar/u*.log | wc -l)"
