#!/usr/bin/env python3
"""seedfinal.py <name>:<prop>[,<prop>...] ...  — re-run the given checks against seeded/<name> with the machinery as
it is now and record the outcome in seeded/<name>/meta.json under `checks_run_after_strengthening`."""
import sys, json, subprocess, re
for spec in sys.argv[1:]:
    name, props = spec.split(':')
    out = subprocess.run(['/verif/tools/seedcheck.sh', name] + props.split(','), stdout=subprocess.PIPE, stderr=subprocess.STDOUT, text=True).stdout
    res = {}
    for l in out.splitlines():
        m = re.match(rf'{re.escape(name)} (C\d+) exit=(\d+) :: (.*)', l)
        if m: res[m.group(1)] = {'exit': int(m.group(2)), 'lines': [x.strip() for x in re.split(r'(?=VIOLATION)', m.group(3)) if x.strip()]}
    p = f'/verif/seeded/{name}/meta.json'
    meta = json.load(open(p))
    if 'checks_run' in meta and 'checks_run_first' not in meta: meta['checks_run_first'] = meta['checks_run']
    meta['checks_run_after_strengthening'] = res
    json.dump(meta, open(p, 'w'), indent=1)
    print(name, {k: (v['exit'], 'no-failing-input' if any('no-failing-input-found' in x for x in v['lines']) else ('concrete' if v['exit'] else 'quiet')) for k, v in res.items()}, flush=True)
