#!/bin/bash
# usage: seedwave.sh <wave-dir> <suffix-prefix> <prop>...   e.g. seedwave.sh /tmp/seed5 v C04 C06
# runs tools/seedtest.py for <wave-dir>/<prop>/{a,b} -> seeded/<prop>-<prefix>1, -<prefix>2; results in build/seedwave/
W=$1; P=$2; shift 2
mkdir -p /verif/build/seedwave
for prop in "$@"; do
  i=0
  for x in a b; do
    i=$((i+1))
    d=$W/$prop/$x
    [ -f $d/patch.diff ] || continue
    name=$prop-$P$i
    echo "== $name $(date +%T)"
    timeout 3000 python3 /verif/tools/seedtest.py $d $prop --keep-as $name > /verif/build/seedwave/$name.json 2>&1
    git -C /repo checkout -- . 2>/dev/null
    python3 - $name <<'PY'
import json,sys,re
n=sys.argv[1]
t=open(f'/verif/build/seedwave/{n}.json').read()
try:
    j=json.loads(t[t.index('{'):])
    print(n, {k:j.get(k) for k in ('demo_passes_without_patch','suite_passes_with_patch','demo_fails_with_patch')}, {p:(c['exit'],c['lines'][-1][:160] if c['lines'] else '') for p,c in j.get('checks',{}).items()})
except Exception as e:
    print(n,'UNPARSED',t[-400:])
PY
  done
done
