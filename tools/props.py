"""Per-property configuration of ./check: generators, projections (the observable the theorems
speak about), non-triviality rules, trusted base."""
from props_poller import proj_poll_c13

COMMON_TRUSTED = [
    "Lean 4.33.0 kernel; axioms propext, Classical.choice, Quot.sound only (audited per theorem with #print axioms on every run); no native_decide, no bv_decide, no sorry, no own axioms",
    "the hand-written Lean model is what the theorems are about; its tie to /repo's current source is this run's differential correspondence check (bounded by its generators)",
    "harness: clock_gettime interposer, cfg-gated hooks (--cfg clock_bound_verif), line protocol, Python orchestration",
]
COMMON_ASSUMPTIONS = [
    "dev-profile build of /repo's working tree (overflow checks on); x86-64 little-endian host",
]

def kind(c):
    k = c.req.split(' ', 1)[0]
    return 'poll' if k == 'pollr' else k   # pollr = a poll scenario through the thread's real entry point

def is_ok(ans): return ans.startswith('ok ')

def client_fields(ans):
    # 'ok e_s e_n l_s l_n st' -> (interval, status)
    t = ans.split()
    return (' '.join(t[1:5]), t[5]) if t and t[0] == 'ok' and len(t) == 6 else (None, None)

def proj_client(which):
    def p(c):
        if kind(c) == 'client2':
            ia, ma = c.impl.split(' ; '), c.model.split(' ; ')
        else:
            ia, ma = [c.impl], [c.model]
        a = []; b = []
        for x, y in zip(ia, ma):
            if which == 'class':
                a.append(x.split()[0:2] if not is_ok(x) else ['ok']); b.append(y.split()[0:2] if not is_ok(y) else ['ok'])
            elif is_ok(x) and is_ok(y):
                fx, fy = client_fields(x), client_fields(y)
                i = 0 if which == 'interval' else 1
                a.append(fx[i]); b.append(fy[i])
        return (a, b)
    return p


def session_groups(ans):
    """(tag, clock-read log, outcome text) of every element of a session answer"""
    out = []
    for g in ans.split(' ; '):
        g = g.strip()
        tag = g.split(' ', 1)[0]
        if tag in ('q', 'cq') and ' : ' in g:
            head, res = g.split(' : ', 1)
            out.append((tag, head.split(' ', 1)[1] if ' ' in head else '', res))
        else:
            out.append((tag, '', g))
    return out

def proj_session(which):
    """the observable of a session line that property `which` speaks about"""
    def p(c):
        ia, ma = session_groups(c.impl), session_groups(c.model)
        if len(ia) != len(ma): return (c.impl, c.model)
        a = []; b = []
        for (ti, li, ri), (tm, lm, rm) in zip(ia, ma):
            if ti not in ('q', 'cq') or tm not in ('q', 'cq'):
                continue                                   # publications, pokes and opens: C16/C17's business
            if which == 'order': a.append(li); b.append(lm)
            elif which == 'all': a.append((li, ri)); b.append((lm, rm))
            elif which == 'class':
                a.append(ri.split()[0:2] if not is_ok(ri) else ['ok']); b.append(rm.split()[0:2] if not is_ok(rm) else ['ok'])
            elif is_ok(ri) and is_ok(rm):
                fx, fy = client_fields(ri), client_fields(rm)
                i = 0 if which == 'interval' else 1
                a.append(fx[i]); b.append(fy[i])
        return (a, b)
    return p

def with_session(proj, which):
    return lambda c: proj_session(which)(c) if kind(c) == 'session' else proj(c)

SESSION_RULE = " || `session` lines: one real segment (fresh file, real ShmWriter), one long-lived ClockBoundClient and one long-lived C context (clockbound_open in the C client process) driven through 3-20 operations: publications, the generation/version word overwritten (writer dead mid-update, segment being re-initialised), re-opens, and paired now()/clockbound_now() calls at instants aimed at the cached record's thresholds (blur, 5 s, void-after, far beyond, 2^32-ns aliases); ten scripted sessions (one record ageing through every threshold on one client, grace-then-void with nothing in between, a record that becomes malformed asked repeatedly, repeated causality breach, odd/zero generation before the first call, frozen odd generation while the cached record ages, publications between calls, open before the first publication, the path given a new inode under attached clients that are then asked 2100 times in a row) always run; op `x` = the path is unlinked and a new file put there, `qn`/`cqn` = the same call N times (N in {2, 17, 1023, 1024, 1025, 2100}): all answers identical; every answer must be what a fresh evaluation of the cached-record semantics gives, with the clock reads in the order REALTIME, MONOTONIC_COARSE on every call; ops `qw` / `cqw`: the daemon publishes (generation word and record replaced) at the call's FIRST clock read, i.e. after the client took its snapshot: a record published after the clock was read must not be applied to that reading, so the answer is the one computed from the record cached before (verdict C01), and the next call sees the new record"

def world_pubs(ans):
    """the publications of a world line: list of token lists starting with 'rec'"""
    return [g.split() for g in ans.split(' ; ') if g.startswith('rec ')]

def proj_world(which):
    def p(c):
        a, b = world_pubs(c.impl), world_pubs(c.model)
        if which == 'gen':      # the generation word after each publication
            return ([t[-1] for t in a if t[-1].startswith('@')], [t[-1] for t in b if t[-1].startswith('@')])
        if which == 'queries':  # what the long-lived client of the history was told
            qa = [g for g in c.impl.split(' ; ') if g.startswith('ok ') or g.startswith('err ')]
            qb = [g for g in c.model.split(' ; ') if g.startswith('ok ') or g.startswith('err ')]
            return (qa, qb)
        # 'trust': as-of, bound and status of each published record
        return ([(t[1:3], t[5:6], t[8:9]) for t in a], [(t[1:3], t[5:6], t[8:9]) for t in b])
    return p

CLIENT_TB = ["modelled, not verified: nix 0.26.4 TimeSpec arithmetic (mirrored operation by operation), Rust `as` casts, IEEE-754 binary64 as exact-rational round-to-nearest-even (exponent range not modelled; bit-compared with hardware on every case)"]

PROPS = {
 'C05': dict(
    oracle='C05',
    technique='Lean 4 proof (rational model of IEEE doubles; rne53 relative-error and monotonicity lemmas) + differential correspondence of the compiled model against ClockErrorBound::now() under an interposed clock',
    level_text='Theorems C05.symmetric / growth_bounds / growth_mono / mono_holds / model_holds prove, for every record and clock reading in the physically meaningful range, symmetry, ordering, half-width = bound + growth with P(1-2^-51)-1 < growth <= P(1+2^-51), and monotonicity in age, about a line-by-line model of compute_bound_at including a bit-exact rational model of the f64 operations. The model is tied to the current source by running the real now() on ~35k generated cases per run and comparing intervals exactly.',
    level_note='Trusted: Lean kernel + 3 standard axioms; nix TimeSpec and IEEE rounding are modelled (mirrored), not verified; correspondence is differential testing.',
    gens=lambda seed, th: [['client', seed, 400000 if th else 25000], ['client2', seed, 200000 if th else 10000], ['corder', seed, 5000 if th else 600], ['session', seed, 40000 if th else 1500]],
    relevant=lambda c: kind(c) in ('client', 'client2', 'corder', 'session'),
    also=['C12'],
    pre='build_cclient',
    project=lambda c: (c.impl.split(' ; ')[0], c.model.split(' ; ')[0]) if kind(c) == 'corder' else with_session(proj_client('interval'), 'interval')(c),
    nontrivial=lambda c: 'growth' in c.tags,
    rule="cases from one PRNG (VERIF_SEED): records x (realtime, monotonic) readings biased to nsec in {0,1,999999999}, ages in {0, sub-us, 1 s +- 1 ns, hours, days}, drift in {0,1,999,50000,999999999}, products drift*age/1e9 straddling integers; `client2` = two readings of one record (monotonicity). distinct = sha1 of request line; non-trivial = age > 0 and drift > 0 and exact growth >= 1 ns (tag `growth`) and the C05 hypotheses apply",
    trusted_base=CLIENT_TB,
    assumptions=["C05 is proved with the f64 evaluation error explicit: P(1-2^-51)-1 < growth <= P(1+2^-51) for the exact product P"],
 ),
 'C06': dict(
    oracle='C06',
    technique='Lean 4 proof (omega over the nix TimeSpec mirror) + exhaustive threshold grid and random differential correspondence against the real now()',
    level_text='Theorem C06.status_char gives the total characterisation of the reported status for all three stored statuses and every reading in range; the property clauses (synchronized_only_if, freeRunning_only_if, unknown_always, fresh_passthrough) are corollaries, and daemon_record_applicable shows every daemon-written record meets the hypothesis. The real code is compared with the model on an exhaustive +-1 ns grid around every threshold and on random cases each run.',
    level_note='Trusted: Lean kernel + standard axioms; nix TimeSpec ordering/arithmetic mirrored; correspondence is differential testing.',
    gens=lambda seed, th: [['client', seed, 400000 if th else 25000], ['session', seed, 40000 if th else 1500]],
    relevant=lambda c: kind(c) in ('client', 'session'),
    pre='build_cclient',
    project=with_session(proj_client('status'), 'status'),
    nontrivial=lambda c: bool(c.tags & {'near5s', 'nearVoid', 'aged'}),
    rule="exhaustive grid {3 statuses} x {as_of-1000ns, as_of, as_of+5s, void_after} x {-1,0,+1 ns} x 8 as_of shapes x 4 void_after shapes x 4 drifts, plus seeded random cases; distinct = sha1 of request; non-trivial = monotonic reading within 1 us of the 5 s or void-after threshold, or beyond 5 s with a trusted stored status",
    trusted_base=CLIENT_TB,
 ),
 'C14': dict(
    oracle='C14',
    technique='Lean 4 proof that no checked-arithmetic or nix range panic is reachable in range, with outcome characterisation + differential correspondence incl. a malformed-input stream under catch_unwind',
    level_text='Theorems C14.no_panic, malformed_iff, causality_iff, ok_otherwise, blur_age_zero: in the model every i64 operation and nix assertion is explicit, and for all inputs within +-2^31 s and bound < 2^60 none of them fires; error outcomes are characterised exactly. The real now() is run under catch_unwind on boundary grids (as_of-1000ns +-1, drift 1e9 +-1, range corners) and on out-of-range inputs where the model must predict the panic.',
    level_note='Trusted: Lean kernel + standard axioms; dev-profile overflow semantics and nix 0.26.4 assertions are modelled; release builds wrap instead of panicking and are out of scope.',
    gens=lambda seed, th: [['client', seed, 400000 if th else 25000], ['session', seed, 40000 if th else 1500]],
    relevant=lambda c: kind(c) in ('client', 'session'),
    pre='build_cclient',
    project=with_session(proj_client('class'), 'class'),
    nontrivial=lambda c: bool(c.tags & {'nearBlur', 'badDrift'}),
    rule="same generator as C06 (threshold grid + seeded random + a 4% stream of non-normalised / extreme values outside the property's range, used for model agreement only); non-trivial = monotonic reading within 1 us of as_of - 1000 ns, or drift >= 10^9",
    trusted_base=CLIENT_TB,
    assumptions=["'never panics' is about the dev-profile build (overflow checks on) and nix's range assertion; the physically meaningful range is |tv_sec| <= 2^31, 0 <= tv_nsec < 10^9, 0 <= bound < 2^60"],
 ),
}


# ------------------------------------------------------------------ daemon side
DAEMON_TB = ["modelled, not verified: chrony-candm 0.1.1 ChronyFloat -> f64 conversion (mirrored), IEEE-754 binary64 as exact-rational round-to-nearest-even, Rust `as` casts (saturating), SystemTime::elapsed as exact ns difference, std::sync::mpsc FIFO delivery"]

def proj_extract(i):
    def p(c):
        a, b = c.impl.split(), c.model.split()
        return (a[i:i + 1], b[i:i + 1])
    return p

def proj_upd(c):
    return (c.impl.split(' ## ')[0], c.model.split(' ## ')[0])

def proj_first2(c):
    a, b = c.impl.split(), c.model.split()
    if a[:1] == ['refused']: a = a[:1]
    return (a, b)

import subprocess, concurrent.futures, os, random

def c19_run(reqs):
    """build the release daemon from /repo's working tree and run it once per request line"""
    env = dict(os.environ); env['CARGO_NET_OFFLINE'] = 'true'
    p = subprocess.run(['cargo', 'build', '--release', '--offline', '-p', 'clock-bound-d', '--target-dir', '/verif/build/target-rel'],
                       cwd='/repo', env=env, stdout=subprocess.PIPE, stderr=subprocess.STDOUT, text=True)
    if p.returncode != 0:
        return [f'{r} => build-failed' for r in reqs]
    binary = '/verif/build/target-rel/release/clockbound'
    # `@env`: every environment-variable-like name the binary itself mentions that could concern the
    # drift rate is set to a different, well-formed value: the published rate must not depend on it
    names = []
    try:
        data = open(binary, 'rb').read()
        import re as _re
        for m in _re.finditer(rb'[A-Z][A-Z0-9_]{4,40}', data):
            t = m.group(0).decode()
            if any(k in t for k in ('CLOCKBOUND', 'DRIFT', 'PPM', 'PPB', 'MAX_RATE')) and t not in names: names.append(t)
    except OSError:
        pass
    def one(r):
        toks = r.split()
        arg = toks[1]
        cmd = ['/verif/tools/run_daemon.sh', binary] + ([] if arg == 'none' else ['--max-drift-rate', arg])
        e = dict(os.environ)
        if '@env' in toks:
            for n in names[:64]: e[n] = '7'
        if '@prior' in toks:
            e['CB_PRIOR_PPB'] = toks[toks.index('@prior') + 1]
        if '@phc' in toks:
            e['CB_PHC'] = '1'
        if '@link' in toks:
            e['CB_LINK'] = '1'
        if '@young' in toks: e['CB_YOUNG'] = '1'
        if '@placeholder' in toks: e['CB_PLACEHOLDER'] = '1'
        if '@leap3' in toks:
            e['CB_LEAP'] = '3'; e['CB_HARNESS'] = '/verif/build/target/debug/cbharness'
        q = subprocess.run(cmd, env=e, stdin=subprocess.DEVNULL, stdout=subprocess.PIPE, stderr=subprocess.DEVNULL, text=True, timeout=60)
        return f'{r} => {q.stdout.strip() or "no-output"}'
    with concurrent.futures.ThreadPoolExecutor(max_workers=12) as ex:
        return list(ex.map(one, reqs))

def c19_gen(seed, thorough):
    def g():
        rnd = random.Random(seed)
        vals = ['none', 0, 1, 50, 1000, 4294966, 4294967, 4294968, 4294969, 2**32 - 1, 2**32, 8589935, 2**31, 4294968 * 2]
        for _ in range(300 if thorough else 50):
            k = rnd.randrange(4)
            vals.append(rnd.randrange(0, 4294968) if k == 0 else rnd.randrange(4294968, 2**32) if k == 1 else rnd.randrange(4294960, 4294980) if k == 2 else rnd.randrange(0, 100000))
        reqs = [f'drift {v}' for v in dict.fromkeys(vals)]
        # restart over a previous instance's live record (another rate in it), and a hostile environment
        for v, prior in (('none', 50000), (50, 1000), (1, 0), (4294967, 0), (0, 123456), (4294968, 1000), (7, 7000)):
            reqs.append(f'drift {v} @prior {prior}')
        for v in ('none', 50, 0, 4294967, 4294968):
            reqs.append(f'drift {v} @env')
        reqs.append('drift 50 @prior 1000 @env')
        # the other options of the command line (PHC reference id + interface) given as well
        for v in ('none', 50, 0, 1, 4294967, 4294968, 123456):
            reqs.append(f'drift {v} @phc')
        reqs.append('drift 50 @phc @prior 1000')
        # far beyond 32 bits: multiples of 2^64/1000 and of 2^32 (a wider intermediate type must not let them through)
        for v in (2**64 // 1000, 2**64 // 1000 + 1, 2**64 // 1000 + 51, 2**64 - 1, 2**64, 2**63, 2**32 * 1000, 2**32 + 50, 2**64 // 1000 * 3 + 2, 10**30):
            reqs.append(f'drift {v}')
        # the option takes whole ppm: fractions are rejected (or, if ever accepted, published exactly)
        for v in ('1.015', '2.002', '0.0004', '33.333333', '0.5', '4294967.2959', '1.000', '4294967.296', '4294967.5', '4294967.999', '4294966.9999', '0.9999', '4294968.0'):
            reqs.append(f'drift {v}')
        return c19_run(reqs)
    return [g]

EXTERNAL = {'drift': c19_run}

def k2_pred(c):
    return c.verdicts.get('C07') == 'holds' and c.verdicts.get('C07strict') == 'FAILS'
PREDICATES = {'k2_f64_shortfall': k2_pred, 'k1_aba': lambda c: c.req.strip() == 'slaba' and c.verdicts.get('C02') == 'FAILS'}
NOT_APPLICABLE = {}

PROPS.update({
 'C07': dict(
    oracle='C07', also=['C07strict', 'C13'],
    gens=lambda seed, th: [['extract', seed, 2000000 if th else 60000], ['poll', seed, 30000 if th else 3000]],
    relevant=lambda c: kind(c) in ('extract', 'poll'),
    project=lambda c: proj_extract(0)(c) if kind(c) == 'extract' else proj_poll_c13(c),
    nontrivial=lambda c: 'fracNs' in c.tags and ('negOffset' in c.tags or 'posOffset' in c.tags),
    rule="chrony Tracking replies deserialised from wire bytes by chrony-candm itself: exponents -34..+2, 25-bit coefficients incl. extremes, both signs of the offset, zeros; distinct = sha1 of request; non-trivial = offset != 0 and fractional-ns exact sum (negative offsets counted separately in input_distribution: tag negOffset)",
    trusted_base=DAEMON_TB,
    assumptions=["proved with the f64 evaluation error explicit: E(1-2^-51) <= bound < E(1+2^-51)+1; the strict reading E <= bound is false of any f64 pipeline (theorem C07.strict_false) and recorded as known finding K2"],
    technique='Lean 4 proof over the rational f64 model (three roundings, ceil, saturating cast) + differential correspondence of extract_bound_from_tracking on wire-level inputs',
    level_text='Theorem C07.bound_bounds proves for all 2^96 wire triples with non-negative delay/dispersion and E < 2^62 ns that 0 <= bound and E(1-2^-51) <= bound < E(1+2^-51)+1 with E the exact |offset|+dispersion+delay/2 in ns; sign_irrelevant shows only the magnitude of the offset matters; model_holds adds the PHC term. strict_false proves the literal real-number reading fails by < 2^-51 E for a concrete input (known finding K2). The real extract_bound_from_tracking is compared on ~60k wire-level reports per run.',
    level_note='Trusted: Lean kernel + standard axioms; ChronyFloat decoding and IEEE rounding are modelled; correspondence is differential testing.',
 ),
 'C10': dict(
    oracle='C10', also=['C08', 'C13'],
    gens=lambda seed, th: [['leapgrid'], ['extract', seed, 1000000 if th else 40000], ['upd', seed, 20000 if th else 1500], ['poll', seed, 20000 if th else 2000]],
    relevant=lambda c: kind(c) in ('extract', 'upd', 'poll'),
    project=lambda c: proj_extract(1)(c) if kind(c) == 'extract' else (proj_upd(c) if kind(c) == 'upd' else proj_poll_c13(c)),
    nontrivial=lambda c: bool(c.tags & {'nearStale', 'future', 'leap3', 'leapOther'}),
    rule="exhaustive over all 65536 leap codes x {fresh, at threshold, 1 ns past, stale, future} plus seeded reports with intervals {negative, 0, <1 s, 16, 16.125, huge} and ages at floor(8*interval) s -1/0/+1 ns and +-1 s; non-trivial = stale-threshold neighbourhood, future reference time, or a non-synchronised leap code",
    exhaustive=True,
    trusted_base=DAEMON_TB,
    technique='Lean 4 proof (total characterisation of the classifier incl. the saturating f64->u64 cast) + exhaustive leap-code sweep and boundary differential correspondence under a virtual realtime clock',
    level_text='Theorem C10.classify_eq characterises the class for all 65536 leap codes, all wire intervals and all reference times; synchronized_only_if / stale_or_leap3_freeRunning / other_unknown / fresh_synchronized are the property clauses, threshold_le shows the whole-second threshold never exceeds eight intervals. Every leap code is run on the real code each run.',
    level_note='Trusted: Lean kernel + standard axioms; SystemTime::elapsed modelled as exact ns difference under an interposed CLOCK_REALTIME.',
 ),
 'C08': dict(
    oracle='C08', also=['C13'],
    gens=lambda seed, th: [['upd', seed, 100000 if th else 3000], ['poll', seed, 20000 if th else 2000]],
    relevant=lambda c: kind(c) in ('upd', 'poll'),
    project=lambda c: proj_upd(c) if kind(c) == 'upd' else proj_poll_c13(c),
    nontrivial=lambda c: {'len3', 'statusChange', 'hasSync'} <= c.tags,
    rule="histories (length 1..60) over the eight message kinds with run-lengths, first synchronised report early/late/never, fed through the real process_messages loop over a real mpsc channel into a recording ShmWrite sink; non-trivial = length >= 3, >= 1 status change, >= 1 synchronised report",
    trusted_base=DAEMON_TB,
    technique='Lean 4 refinement proof (updater state machine = one-line spec of the history, by induction over messages) + differential correspondence of the real process_messages/ShmUpdater on generated histories',
    level_text='Theorem C08.refinement: for every finite message list from a fresh updater the k-th published record equals spec(first k+1 outcomes) - bound/as-of of the last synchronised report, void-after = as-of.sec+1000, configured drift, status = class of the latest outcome once a synchronised report was seen; one_publication_per_outcome, drift_published, void_after are corollaries.',
    level_note='Trusted: Lean kernel + standard axioms; mpsc FIFO; the bound/class of each report is taken from the implementation itself so that C08 is independent of C07/C10.',
 ),
 'C09': dict(
    oracle='C09', also=['C13'],
    gens=lambda seed, th: [['upd', seed, 100000 if th else 3000], ['poll', seed, 20000 if th else 2000], ['worldgen', seed, 20000 if th else 800]],
    relevant=lambda c: kind(c) in ('upd', 'poll', 'world'),
    project=lambda c: proj_upd(c) if kind(c) == 'upd' else (proj_world('trust')(c) if kind(c) == 'world' else proj_poll_c13(c)),
    nontrivial=lambda c: 'trustTemptation' in c.tags,
    rule="same histories as C08; non-trivial = the history has a prefix without any synchronised report that ends in a FreeRunning-class outcome (leap 3, stale, in-grace silence or PHC failure), i.e. the situation in which trust could be advertised without a measurement || plus the `world` histories of C01 (real ShmUpdater over a REAL ShmWriter on a file that survives the daemon, restarts that re-create the updater over the segment the previous incarnation left, one history in five starting cold with nothing but silences / unsynchronised reports / restarts): every record published with a trusted status must carry the (bound, as-of) of a record the model published with a trusted status in the same history",
    trusted_base=DAEMON_TB,
    technique='Lean 4 invariant proof over all message histories (status != Unknown only with bound/as-of of a synchronised report) + client corollary + differential correspondence on histories without synchronised reports',
    level_text='Theorem C09.model_holds: in every reachable updater state a non-Unknown status is published only with the bound and as-of of the most recent synchronised report; unknown_until_first_sync and client_sees_unknown give the property as stated (clients see Unknown at every uptime).',
    level_note='Trusted: Lean kernel + standard axioms; correspondence is differential testing.',
 ),
 'C11': dict(
    oracle='C11', also=['C04'],
    gens=lambda seed, th: [['genall'], ['crashgrid'], ['worldgen', seed, 20000 if th else 800]],
    relevant=lambda c: kind(c) in ('gen', 'crashpt', 'world'),
    project=lambda c: proj_world('gen')(c) if kind(c) == 'world' else (c.impl, c.model),
    nontrivial=lambda c: True,
    exhaustive=True,
    rule="`world` lines (C01's histories: the real ShmUpdater publishing through a REAL ShmWriter, restarts in place): the generation word of the file is read after every publication of the daemon path (data, unsynchronised, silence) and must be even, non-zero and different from the one before. || exhaustive: the real ShmWriter::write is run from each of the 65536 generation values poked into a tmpfs segment; the in-flight value is observed at the record-copy hook, the final value read from the file; all cases are non-trivial and distinct. Plus the `crashpt` lines of C04 (restart over every kind of prior file, death at every event, incl. an old file and a non-UTF-8 file name): a published generation must never return to 0, i.e. a valid segment is never wiped by a restart (verdict C04)",
    trusted_base=["modelled: u16 wrapping arithmetic as Nat mod 65536"],
    technique='Lean 4 proof (omega) of the start/finish arithmetic for all 65536 values and of the invariant over all histories of completed/interrupted updates + exhaustive differential run of the real write()',
    level_text='Theorems C11.start_odd, finish_props, wrap, update_changes and history_invariant: for every start value and every history of start/finish/crash events the generation is odd during an update, even and non-zero when idle after a completed update, changes with every completed update and never returns to 0. The real write() is run from all 65536 start values on every run.',
    level_note='Trusted: Lean kernel + standard axioms. Interleaving with readers is the subject of C02/C03, not of C11.',
 ),
 'C19': dict(
    oracle='C19',
    gens=c19_gen,
    relevant=lambda c: kind(c) == 'drift',
    project=proj_first2,
    nontrivial=lambda c: bool(c.tags & {'boundary', 'unrepresentable'}),
    shrink=False,
    rule="the release `clockbound` binary built from the working tree is started in a private mount namespace (tmpfs /run) with --max-drift-rate X for X in {omitted, 0, 1, 50, 4294967, 4294968, 2^32-1, 2^32 (clap rejects), ...} plus seeded values; the max_drift_ppb field of the published segment or the exit status is compared; non-trivial = X*1000 >= 2^32 - 2000 (boundary or unrepresentable) || plus `@prior <ppb>`: the daemon restarts over a previous instance's valid segment whose live (Synchronized) record carries another rate (the published rate must be the configured one), and `@env`: every environment-variable-like name found in the release binary that could concern the rate (containing CLOCKBOUND / DRIFT / PPM / PPB) is set to 7; `@phc`: the PHC options (--phc-ref-id, --phc-interface resolving to a fake uevent file inside the private /run) are given as well and must not change the published rate; values far beyond 32 bits (around 2^64/1000, 2^64, 10^30) must be refused, not reduced modulo anything",
    trusted_base=["clap's u32 parsing and process start-up are observed by running the binary, not modelled", "unshare -m + tmpfs isolation of /run"],
    technique='Lean 4 proof (omega) over all 32-bit rates + process-level differential runs of the release binary',
    level_text='Theorems C19.exact_or_refused, never_wrapped, default_one_ppm, published: the conversion yields exactly 1000 x rate or refuses, never a wrapped value, and the value reaches every published record. The 2^32 quantifier is carried by the theorem; ~60 release-binary runs per check sample it at the boundary.',
    level_note='Trusted: Lean kernel + standard axioms; the CLI layer is observed, not modelled.',
 ),
})



# ------------------------------------------------------------------ poller (C13, C12)
from props_poller import PROPS_POLLER, C12_DAEMON, merge_c12, proj_poll_c13
PROPS.update(PROPS_POLLER)

C12_CLIENT = dict(
    oracle='C12',
    lean_modules=['ClockBound.Properties.C12'],
    gens=lambda seed, th: [['corder', seed, 20000 if th else 2000], ['session', seed, 40000 if th else 1500]],
    relevant=lambda c: kind(c) in ('corder', 'session'),
    pre='build_cclient',
    project=lambda c: proj_session('order')(c) if kind(c) == 'session' else (c.impl.split(' ; ')[0], c.model.split(' ; ')[0]),
    nontrivial=lambda c: 'meaningful' in c.tags or 'multiCall' in c.tags,
    rule="client half: the real ClockErrorBound::now() is run under the clock_gettime interposer, which logs the clock id of every read: the log must be [CLOCK_REALTIME, CLOCK_MONOTONIC_COARSE]; non-trivial = inputs in the meaningful range",
    trusted_base=["the clock_gettime interposer sees every clock read of the process"],
    technique='Lean 4 proof that containment (C01) needs only ta <= tq and tr <= tm, that either delay only widens the interval, and that either swapped order breaks containment in an explicit world + observation of the real read order under the interposer',
    level_text='Theorems C12.client_delay_widens / daemon_delay_widens (any delay between the two reads on either side only enlarges the half-width), C01.containment (proved with ta <= tq and tr <= tm as the only ordering facts, hence for every amount of delay), asof_after_query_breaks / mono_before_realtime_breaks (for each swapped order an explicit world in which containment fails: the order is necessary).',
    level_note='Trusted: Lean kernel + standard axioms; preemption itself is not exercised, only its effect (arbitrary time between the reads).',
    assumptions=[],
)
PROPS['C12'] = merge_c12(C12_CLIENT)

# ------------------------------------------------------------------ seqlock engine (C02, C03, C04, C18)
SL_TB = [
    "memory model: view-based operational release/acquire semantics specialised to one writer at a time (append-only message log, per-reader cur/acq views and per-location coherence) as the meaning of 'what the Rust/C11 model permits'; SeqCst treated as acquire+release; the racy 56-byte record copy modelled as 7 relaxed per-cell accesses in any order",
    "writer incarnations are totally ordered (a restarted daemon sees everything its predecessor wrote); a new process starts with an empty release-fence view; a (re)opened reader starts with no knowledge (may read arbitrarily stale messages)",
    "the harness scheduler + RA memory (harness/src/ra.rs) re-implements the model's memory; every run is compared token by token with the Lean replay, so a divergence between the two shows up as a correspondence failure",
]

def sl_gens(seed, th): return [['slgen', seed, 40000 if th else 1500]]

def proj_sl(c): return (c.impl, c.model)

def sl_entry(oracle, nontrivial, rule_extra, **kw):
    d = dict(
        oracle=oracle, gens=sl_gens, relevant=lambda c: kind(c) == 'sl', project=proj_sl,
        require={'ann': 'adequate'}, shrink=False,
        nontrivial=nontrivial,
        rule="scenarios: initial segment {fresh, wiped, valid with even/odd/near-wrap generation}; one writer thread with 1-3 incarnations (new + 1-4 writes each, killed mid-update with probability 1/12 per step), 1-2 reader threads (open / snapshot sequences, re-opens); the real ShmWriter/ShmReader code runs as OS threads under a seeded baton-passing scheduler; each shared access is one step; loads return the newest admissible message with probability 3/5, otherwise a uniformly chosen admissible (stale) one; cells are copied in a random order.  `slx` lines (C01/C02/C03/C04/C18): the real snapshot() alone against scripted load results - first call under a continuously updating / dying / alternating writer, second call with the generation frozen odd (must serve the previous snapshot), third call with the generation stable at a new even value (must deliver a record copied during that call). " + rule_extra,
        trusted_base=SL_TB,
    )
    d.update(kw)
    return d

PROPS.update({
 'C02': sl_entry('C02', lambda c: 'overlap' in c.tags,
    "non-trivial = the writer takes at least one step between the first and last shared access of some snapshot() call (tag overlap)",
    gens=lambda seed, th: [['slgen', seed, 40000 if th else 1500], ['slxgen', 'all'] if th else ['slxgen']] + ([['slabagen']] if th else []),
    relevant=lambda c: kind(c) in ('sl', 'slaba', 'slx', 'slxc'),
    lean_modules=['ClockBound.Properties.C02', 'ClockBound.Properties.C02Full', 'ClockBound.Properties.C02N'],
    technique='Lean 4 invariant proof over all interleavings and all stale-read choices of an operational release/acquire model (writer invariant + reader lemma), parameterised by the observed ordering annotation + schedule-level differential correspondence of the real writer/reader under a deterministic scheduler',
    level_text='Theorems C02.even_generation_is_complete (writer invariant over every history incl. crashes/restarts), accept_consistent (an accepted attempt copied exactly the record as of its first generation message, provided fewer than 32767 updates completed between its two generation reads), no_mixture / no_mixture_general (every returned record is the empty one, the pre-existing one or one passed to write) for every annotation satisfying Ann.adequate; projection / no_mixture_any_readers lift this to any number of readers (readers never write: an N-reader system projects reader by reader onto the one-reader system); C02.full_false proves that without the no-wrap hypothesis the statement is false of the protocol (an explicit 360 000-step execution in which 32767 updates complete inside one read attempt and the mixture 7,7,7,9,9,9,9 is returned; generation_cycle is its arithmetic heart). The annotation is observed from the real code on every run; ~1500 seeded schedules (incl. stale reads and crashes) are executed on the real code and replayed by the model token by token.',
    level_note='Partial: the racy record copy is modelled as per-cell relaxed atomics; hardware is represented by the C11 RA semantics; the 16-bit ABA (32767 updates inside one read attempt) is excluded by hypothesis and recorded as known finding K1.',
 ),
 'C03': sl_entry('C03', lambda c: ('calls2' in c.tags and ('pubs2' in c.tags or 'catchup' in c.tags)) or 'longSkip' in c.tags or 'wrap' in c.tags,
    "plus `skip` lines: a real reader attached at generation g0 sleeps through n real publications (n up to 65535, incl. 16384, 32766, 32767 (the documented exception), 32768, across the 16-bit wrap and from an odd start) and then calls twice, sequentially. non-trivial = a reader makes >= 2 calls while >= 2 publications complete, or a quiescent fresh call checks the catch-up clause, or a skip of >= 16384 publications / across the wrap (tags calls2+pubs2, catchup, longSkip, wrap)",
    gens=lambda seed, th: [['slgen', seed, 40000 if th else 1500], ['skipgen', 'all'] if th else ['skipgen'], ['crashgrid'], ['slxgen', 'all'] if th else ['slxgen'], ['session', seed, 20000 if th else 1000], ['worldgen', seed, 10000 if th else 500]],
    relevant=lambda c: kind(c) in ('sl', 'skip', 'crashpt', 'slx', 'slxc', 'session', 'world'),
    pre='build_cclient',
    project=lambda c: proj_session('all')(c) if kind(c) == 'session' else (proj_world('queries')(c) if kind(c) == 'world' else proj_sl(c)),
    lean_modules=['ClockBound.Properties.C03', 'ClockBound.Properties.C03b', 'ClockBound.Properties.SessionModel'],
    technique='Lean 4 proof: coherence-based monotonicity invariant over all executions + catch-up theorem for fresh reads on a quiescent log + generation potential function for the 32767 exception; same schedule-level correspondence as C02',
    level_text='Theorems C03.accepted_monotone / cache_is_accepted_publication (the generation message behind a reader\'s cached snapshot never moves backwards), catches_up (no update in flight + fresh reads + cached generation differs => the call returns the latest completed publication), same_generation_serves_cache and equal_generation_same_message (the documented exception needs >= 32767 completed updates).',
    level_note='Partial: as C02; "fresh" reads model a quiescent memory system (sequential consistency).',
 ),
 'C18': sl_entry('C18', lambda c: bool(c.tags & {'retry', 'crash', 'exhaust'}),
    "plus `slx` lines: the real snapshot() alone against scripted load results (a continuously updating writer: the generation changes at every load) until it gives up - the number of attempts must be exactly the budget; non-trivial = a call retried, the writer was killed mid-update, or the budget was exhausted",
    gens=lambda seed, th: [['slgen', seed, 20000 if th else 800], ['slxgen', 'all'] if th else ['slxgen'], ['client', seed, 20000 if th else 1500], ['session', seed, 20000 if th else 600]],
    relevant=lambda c: kind(c) in ('sl', 'slx', 'slxc', 'client', 'session'),
    also=['C14'],
    pre='build_cclient',
    project=lambda c: proj_client('class')(c) if kind(c) == 'client' else (proj_session('class')(c) if kind(c) == 'session' else proj_sl(c)),
    lean_modules=['ClockBound.Properties.C18', 'ClockBound.Properties.SeqlockProg'],
    technique='Lean 4 termination measure on the reader machine, for every log and every load result + full exhaustion runs of the real snapshot() against an adversarial value script + scheduler runs with a writer killed at every kind of point',
    level_text='Theorems C18.step_decreases / bounded: every shared access of snapshot() ends the call or strictly decreases an explicit measure <= 2 + 10^6 * 9, whatever the log contains and whatever the loads return (so for a writer stopped for ever at any point or updating continuously); in_flight_answers_from_cache / version_zero_answers_from_cache: an odd or zero generation, or version 0, is answered from the cache after at most two loads.',
    level_note='Trusted: Lean kernel + standard axioms; the bound is on shared accesses, not on seconds.',
 ),
})

PROPS['C01'] = dict(
    oracle='C01', also=['C02', 'C13', 'C07'],
    lean_modules=['ClockBound.Properties.C01', 'ClockBound.Properties.C01Pipeline'],
    gens=lambda seed, th: [['worldgen', seed, 30000 if th else 1200], ['slgen', seed, 5000 if th else 300], ['slxgen'], ['poll', seed, 10000 if th else 1500], ['session', seed, 20000 if th else 800]],
    relevant=lambda c: kind(c) in ('world', 'sl', 'slx', 'poll') or (kind(c) == 'session' and 'pubDuringCall' in c.tags),
    project=lambda c: proj_poll_c13(c) if kind(c) == 'poll' else (proj_session('all')(c) if kind(c) == 'session' else (c.impl, c.model)),
    require={'ann': 'adequate'},
    nontrivial=lambda c: 'trusted' in c.tags and 'tight' in c.tags,
    shrink=True,
    rule="seeded worlds: piecewise-linear realtime and monotonic clocks (1-5 segments, rate errors up to exactly the configured drift budget, both signs), realtime offset up to +-50 ms; histories of 3-40 events: polls (as-of read, reply after 0..2.5 s, handled after 0..1 ms) with reports made valid by construction (tight in half of the cases: offset word = true offset, dispersion = rounding remainder), both offset signs, leap 3 / unknown / stale / future reports, silences with either grace flag, daemon restarts over the same segment, PHC terms; client queries just after a publication, at 5 s -1/0/+1 ns, tens of seconds, ~1000 s and beyond void-after, with 0..3 s between the realtime and the monotonic read. The real ShmUpdater, ShmWriter, ShmReader and ClockBoundClient run under interposed clocks; the Lean driver recomputes the clocks exactly, CHECKS the hypotheses of C01 on the generated history (cases violating them are `na`), and evaluates containment on the implementation's intervals. non-trivial = a trusted status is returned while true time lies in the outer 10% of the interval (tags trusted+tight)",
    trusted_base=DAEMON_TB + CLIENT_TB + ["true time and ideal clocks are mathematical objects: readings are floors of the ideal clocks; CLOCK_MONOTONIC_COARSE tick lag, slewing faster than the configured rate, reboot and SIGBUS are outside the model",
                  "the seqlock is represented by 'any record published before the query' (C02/C03 justify it); the e2e harness runs sequentially"],
    technique='Lean 4 proof: provenance invariant over all histories incl. restarts (from C07-C09) + rational containment inequality (drift transport, floor readings, f64 error budget) + virtual-time end-to-end differential run of the real daemon/segment/client pipeline with hypotheses checked by the driver',
    level_text='Theorem C01.containment: for every world whose clocks satisfy Good (monotone monotonic clock, drift bounded by the configured rate), every history of polls/outages/restarts whose synchronised reports are valid, every record that history ever published (so also a stale snapshot) and every later client query with a Synchronized or FreeRunning status, true time at the realtime read lies in (earliest - sigma, latest + sigma) with sigma = 2 + rho/1e9 + 2^-10 ns; provenance shows every non-Unknown record carries bound/as-of of one valid synchronised report; exampleWorld_good is the non-vacuity witness. ~1200 generated histories per run are executed on the real code and compared record by record and interval by interval.',
    level_note='Partial: coarse-clock tick lag, slewing faster than rho, reboot (monotonic epoch change) and SIGBUS are outside the model; sigma makes the 1 ns resolution of the representation and the double-precision evaluation error explicit.',
    assumptions=["chronyd's report is valid at the instant of its answer: |Rc(tq) - tq| <= |offset| + dispersion + delay/2 (+PHC bound)", "E + phc < 10^12 ns (1000 s) and readings within +-2^31 s"],
)

PROPS['C04'] = sl_entry('C04', lambda c: 'crash' in c.tags,
    "plus `crashpt` lines (file level): the real ShmWriter::new + first write is killed at EVERY hook point / shared access (k = 0..23) over 9 prior file states {missing, empty, garbage, wiped, valid with even / odd / near-wrap generation} + 3 FOREIGN priors {a 72-byte segment of another layout revision: second magic word wrong, plausible size / version / even, odd, near-wrap generation, and a payload} (+ layout versions 3 / 65535, and restarts over a file last modified two hours ago `@old` / with a non-UTF-8 name `@bin`), with a real reader attached beforehand when the segment was usable; then a restarted writer publishes; observed: what the dead writer left, whether it can be opened, inode/length, what the attached reader and a FRESH reader obtain both between the crash and the restart and after it. New clause (nobody reads what was never published): a fresh client that manages to attach after the crash and before the restart obtains the empty record, the record being published, or - over a usable prior only - the prior's record, never anything else (e.g. a foreign payload under a header the dead writer had just made valid). non-trivial = the writer was killed (tag crash)",
    gens=lambda seed, th: [['slgen', seed, 30000 if th else 1200], ['crashgrid'], ['slxgen', 'all'] if th else ['slxgen'], ['hdr-seg', seed, 20000 if th else 1500]],
    relevant=lambda c: kind(c) in ('sl', 'crashpt', 'slx', 'slxc', 'seg'),
    also=['C16'],
    exhaustive=True,
    lean_modules=['ClockBound.Properties.C04', 'ClockBound.Properties.C02', 'ClockBound.Properties.C03', 'ClockBound.Properties.C03b'],
    technique='Lean 4 proofs: (a),(b) the C02/C03 invariants are proved over a step relation that contains writer death at any access and restart; (c),(d) file-level model of ShmWriter::new + first write as an event script with death at every event, all prior file states + exhaustive crash-point sweep of the real code and scheduler runs with kills',
    level_text='(a),(b): C02.no_mixture_general, C03.accepted_monotone and C03.catches_up quantify over SL.Step, which includes wKill (death between any two shared accesses) and wNew (take-over by a restarted writer), so attached readers keep getting complete records in publication order and see the new writer\'s publications without reopening. (c),(d): C04.usable_never_wiped / usable_preserved (a usable segment is never wiped, keeps inode-independent length and stays usable at every crash point), restart_repairs / recreated_layout (from ANY file state and ANY crash point, restart + one publication yields a usable 72-byte-or-taken-over segment holding exactly the record, generation even non-zero), unusable_until_first_publication_starts (nobody can attach to a half-initialised file), attached_reader_across_restart, fresh_after_crash / fresh1_after_crash (from ANY file, incl. a foreign-revision segment, and ANY crash point a client attaching before the restart gets the empty record, the record being published or the record of a usable prior - never an unpublished payload). All 336 crash-point x prior combinations (14 priors x 24, + 60 @old/@bin variants) are run on the real code every time.',
    level_note='Partial: real process death, page cache and File::create truncate-under-mapping (SIGBUS) are modelled abstractly (a reader can only be attached to a usable file, which is proved never to be truncated); death is modelled between hook events.',
)

import props_header
PROPS.update(props_header.PROPS_HEADER)
PRE_HOOKS = props_header.PRE_HOOKS

from props_threads import PROPS_THREADS, EXTERNAL_THREADS
PROPS.update(PROPS_THREADS)
EXTERNAL.update(EXTERNAL_THREADS)

# ------------------------------------------------------------------ phcrun: the PHC path of the release daemon, end to end
def phcrun_exec(reqs):
    """`phcrun <refid argument, hex> <chrony refid> <stratum> <ipv4 word> <phc value>` (tools/phc_run.sh)"""
    env = dict(os.environ); env['CARGO_NET_OFFLINE'] = 'true'
    p = subprocess.run(['cargo', 'build', '--release', '--offline', '-p', 'clock-bound-d', '--target-dir', '/verif/build/target-rel'],
                       cwd='/repo', env=env, stdin=subprocess.DEVNULL, stdout=subprocess.PIPE, stderr=subprocess.STDOUT, text=True)
    if p.returncode != 0:
        return [f'{r} => build-failed' for r in reqs]
    def one(r):
        t = r.split()
        try:
            q = subprocess.run([b'/verif/tools/phc_run.sh', b'/verif/build/target-rel/release/clockbound', b'/verif/build/target/debug/cbharness',
                                bytes.fromhex(t[1])] + [x.encode() for x in t[2:6]],
                               stdin=subprocess.DEVNULL, stdout=subprocess.PIPE, stderr=subprocess.DEVNULL, timeout=60)
            a = q.stdout.decode(errors='replace').split()
        except (subprocess.TimeoutExpired, ValueError):
            a = ['none']
        if a[:1] == ['exited']: a = ['exited']       # the exit code of a refusal is not part of the contract
        return f"{r} => {' '.join(a) or 'none'}"
    with concurrent.futures.ThreadPoolExecutor(max_workers=6) as ex:
        return list(ex.map(one, reqs))

def _pack(bs):
    v = 0
    for b in bs: v = v * 256 + b
    return v

def phcrun_reqs(seed, thorough):
    rnd = random.Random(seed * 7919 + 13)
    cases = []
    def add(s, chrony=None, stratum=1, ip4=0, phc=250000):
        bs = s if isinstance(s, bytes) else s.encode()
        cases.append(f"phcrun {bs.hex()} {_pack(bs) % 2**32 if chrony is None else chrony} {stratum} {ip4} {phc}")
    add('PHC0'); add('PHC0', chrony=_pack(b'PHC1')); add('phc0'); add('phc0', chrony=_pack(b'PHC0')); add('PHC0', chrony=_pack(b'phc0'))
    add('EC2A'); add('1234'); add('c0de'); add('PHC0', stratum=3); add('PHC0', stratum=0); add('PHC0', ip4=0x50484330)
    add('GPS'); add('P'); add(' PHC'); add('PHC '); add('PHC0', phc=1); add('PHC0', phc=2**40)
    add('PHC00'); add('\u00a9'); add('PHC0', chrony=0); add('PH', chrony=_pack(b'PH\0\0'))
    # an attribute that is no integer: with the PHC as reference the report must not become a measurement (the release binary is what runs)
    for k in (range(5) if thorough else (1, 2, 3)): add('PHC0', phc=f'bad{k}')
    add('PHC0', chrony=_pack(b'PHC1'), phc='bad1')
    alphabet = b'0123456789abcdefABCDEFGHIJKLMNOPQRSTUVWXYZghijklmnopqrstuvwxyz _.'   # no '-': clap would read a leading one as an option
    for _ in range(60 if thorough else 8):
        bs = bytes(rnd.choice(alphabet) for _ in range(rnd.choice((4, 4, 4, 3, 2))))
        k = rnd.randrange(4)
        other = bytes((b ^ 0x20) if (65 <= (b & ~0x20) <= 90) else b for b in bs)   # the other case of every letter
        add(bs, chrony=None if k < 2 else _pack(other) if k == 2 else _pack(bs) ^ (1 << rnd.randrange(32)),
            stratum=rnd.choice((1, 1, 2, 10)), phc=rnd.choice((250000, 12345, 10**9)))
    return list(dict.fromkeys(cases))

EXTERNAL['phcrun'] = phcrun_exec
PHCRUN_RULE = (" || `phcrun` lines (tools/phc_run.sh): the RELEASE daemon binary built from the working tree, in a private mount namespace, is given "
               "--phc-ref-id <string> and an interface that resolves to a fake PCI device whose phc_error_bound attribute holds a given value; a stand-in "
               "chronyd reports one fixed synchronised measurement with a given reference id / stratum / source address; the bound of the first trusted "
               "record must contain the PHC value exactly when the string's big-endian packing (refidOf) equals the reported id: same and different ids, "
               "lower-case and hexadecimal-looking ids, ids of 1-3 characters, ids with blanks, other strata, a source address that aliases the id, "
               "strings that are no reference id (must be refused), an attribute that is no integer (empty, N/A, unit suffix, NUL padding, hexadecimal: with the PHC as reference no trusted record may appear, with another reference the plain bound), plus seeded ids compared with their exact packing, their other-case spelling and a one-bit neighbour")
for _p in ('C13', 'C07', 'C01'):
    _c = PROPS[_p]
    _c['gens'] = (lambda old: lambda seed, th: old(seed, th) + [lambda: phcrun_exec(phcrun_reqs(seed, th))])(_c['gens'])
    _c['relevant'] = (lambda old: lambda c: old(c) or kind(c) == 'phcrun')(_c['relevant'])
    _c['project'] = (lambda old: lambda c: (c.impl, c.model) if kind(c) == 'phcrun' else old(c))(_c['project'])
    if _p != 'C01':
        _c['nontrivial'] = (lambda old: lambda c: ('match' in c.tags or 'nomatch' in c.tags) if kind(c) == 'phcrun' else old(c))(_c['nontrivial'])
    _c['rule'] = _c.get('rule', '') + PHCRUN_RULE
    _c['lean_modules'] = list(_c.get('lean_modules', [f'ClockBound.Properties.{_p}'])) + ['ClockBound.Properties.C13Refid']
    if 'C13' not in _c.get('also', []) and _p != 'C13': _c['also'] = list(_c.get('also', [])) + ['C13']

# C05's "configured drift rate" is the daemon's: the value given on the command line must be the one in the record the client
# multiplies by the age, whatever other options are given (a handful of the C19 release-binary runs, verdict C19)
_c = PROPS['C05']
_c['gens'] = (lambda old: lambda seed, th: old(seed, th) + [lambda: c19_run(['drift 50 @phc', 'drift none @phc', 'drift 50', 'drift 7 @phc @prior 1000', 'drift 4294967 @phc'])])(_c['gens'])
_c['relevant'] = (lambda old: lambda c: old(c) or kind(c) == 'drift')(_c['relevant'])
_c['project'] = (lambda old: lambda c: proj_first2(c) if kind(c) == 'drift' else old(c))(_c['project'])
_c['also'] = list(_c.get('also', [])) + ['C19']
_c['rule'] += " || plus five process-level `drift` runs of the release daemon (as in C19): --max-drift-rate alone, with the PHC options, over a previous instance's segment: the published max_drift_ppb is 1000 x the configured ppm"

# C04 at process level: the path of the segment is a symbolic link (a runtime directory laid out by the packager): a restart must go on
# updating the file behind it, which is what attached clients have mapped (verdict C04 on `drift … @link` lines)
_c = PROPS['C04']
_c['gens'] = (lambda old: lambda seed, th: old(seed, th) + [lambda: c19_run(['drift 50 @link', 'drift none @link @prior 1000', 'drift 7 @link @prior 7000 @phc'])])(_c['gens'])
_c['relevant'] = (lambda old: lambda c: old(c) or (kind(c) == 'drift' and 'linkPath' in c.tags))(_c['relevant'])
_c['project'] = (lambda old: lambda c: proj_first2(c) if kind(c) == 'drift' else old(c))(_c['project'])
_c['rule'] = _c.get('rule', '') + " || plus three process-level runs of the release daemon whose segment path is a symbolic link (dangling, or to a live segment left by a previous instance): the daemon must publish through the link; the link must still be there and the linked file must be the one updated"

# C09 at process level: restarts of the release daemon over what a previous instance left (a live record, the never-synchronised
# placeholder), on a machine that has just booted (time namespace: CLOCK_MONOTONIC ~ 120 s), with chronyd absent or answering
# "not synchronised": the first publication must say Unknown (verdict C09 on `drift` lines)
_c = PROPS['C09']
_c['gens'] = (lambda old: lambda seed, th: old(seed, th) + [lambda: c19_run(['drift 50 @prior 1000 @placeholder @young @leap3', 'drift 50 @prior 1000 @young @leap3', 'drift 50 @prior 1000 @placeholder @leap3',
                                                                             'drift none @prior 777 @placeholder @young', 'drift 50 @leap3', 'drift 7 @young'])])(_c['gens'])
_c['relevant'] = (lambda old: lambda c: old(c) or kind(c) == 'drift')(_c['relevant'])
_c['project'] = (lambda old: lambda c: proj_first2(c) if kind(c) == 'drift' else old(c))(_c['project'])
_c['rule'] = _c.get('rule', '') + " || plus six process-level runs of the release daemon restarting over a previous instance's segment (a live Synchronized record / the never-synchronised placeholder record), also inside a time namespace in which CLOCK_MONOTONIC reads ~120 s (a machine that has just booted, so that the placeholder's void-after of 1000 s has not passed), with chronyd absent or a stand-in chronyd answering leap status 3: the first record published must say Unknown"

# C04 / C11 on long-lived clients across ORDERLY restarts (the crash grid covers deaths): sessions containing op `r`
for _p in ('C04', 'C11'):
    _c = PROPS[_p]
    _c['gens'] = (lambda old: lambda seed, th: old(seed, th) + [['session', seed, 20000 if th else 1200]])(_c['gens'])
    _c['relevant'] = (lambda old: lambda c: old(c) or (kind(c) == 'session' and 'restarted' in c.tags))(_c['relevant'])
    _c['project'] = (lambda old: lambda c: proj_session('all')(c) if kind(c) == 'session' else old(c))(_c['project'])
    _c['rule'] = _c.get('rule', '') + " || plus the `session` lines that contain op `r` (the daemon's ShmWriter is dropped in an orderly way and a new ShmWriter::new takes the segment over, also right after the generation / version word was poked odd, 65535 or 0): the generation word the restarted daemon goes on from is the one it found (never 0 after a non-zero one), and attached and new clients are answered as if nothing had happened"
    if 'build_cclient' not in str(_c.get('pre', '')): _c['pre'] = 'build_cclient'

# properties whose theorem files are still being proved are not claimed yet
for _p in ():
    PROPS[_p]['claimed'] = False

# ------------------------------------------------------------------ translation tie (Rust AST regenerated by /verif/translator)
CODE_TIE = {'C05': ['Client', 'Now'], 'C06': ['Client', 'Now'], 'C14': ['Client', 'Now', 'Errors'],
            'C01': ['Client', 'Updater', 'Extract', 'Drift', 'Poller', 'Dispatch', 'Now', 'Errors'],
            'C07': ['Extract'], 'C10': ['Extract', 'Leap', 'Poller'], 'C08': ['Updater', 'Dispatch'], 'C09': ['Updater', 'Dispatch', 'Workers', 'Header'], 'C19': ['Drift'],
            'C02': ['Seqlock'], 'C03': ['Seqlock'], 'C04': ['Seqlock', 'Header', 'WriterNew', 'Workers'], 'C11': ['Seqlock'], 'C18': ['Seqlock'],
            'C16': ['Header', 'WriterNew', 'Errors'], 'C17': ['Header', 'Errors'], 'C12': ['Poller', 'Now', 'Errors'], 'C13': ['Poller', 'Dispatch'],
            'C15': ['Threads', 'Workers']}
_TIE_WHAT = {'Client': 'ClockErrorBound::compute_bound_at = computeBoundAt', 'Leap': 'ChronyClockStatus::from(u16) = leapClass',
             'Extract': 'extract_bound_from_tracking = (boundF, classify)', 'Updater': 'ShmUpdater::{new, process_clock_update, process_missing_clock_update, write_clock_error_bound} = Updater.{new, step, record}',
             'Drift': 'the ppm->ppb conversion in main = driftPpb',
             'Gen': 'the shared accesses of ShmWriter::write, with their memory orderings, and its generation arithmetic = [load gen Acquire, store genStart Release, fence Release, record copy, store genFinish(genStart) Release]',
             'Seqlock': 'ShmWriter::write = SL.writerProg and ShmReader::snapshot = SL.readerProg for ALL streams of load results (events with their memory orderings, result, cached generation and record; induction on the retry budget), hence = the machines wStep / rStep of the C02/C03/C04/C11/C18 theorems (Properties/SeqlockProg), and Ann.adequate holds of the orderings in the source',
             'Header': 'ShmHeader::{is_valid, read} = readHeader (order of checks and error kinds), ShmReader::new (FdGuard, MmapGuard, size check) = readerOpenLim for every file state, ShmWriter::segment_size() = 72',
             'Poller': 'one iteration of run_clock_error_bound_poller with the real ClockErrorBoundPoller (get_tracking, is_within_grace_period, get_phc_error_bound_from_path) = pollTrace / pollStep for all inputs (order of clock read, query, Instant reads, sysfs read, send, wait; the message sent), Default = Poller.init, is_within_grace_period = withinGrace',
             'Now': 'ClockErrorBound::now reads CLOCK_REALTIME (0) then CLOCK_MONOTONIC_COARSE (6), returns an Err of either read, and is compute_bound_at of exactly those two readings',
             'Dispatch': 'shm_writer::process_messages for ALL message lists = Updater.run over the mapped messages (data / missing-in-grace / missing; other messages ignored; ThreadAbort ends the loop)',
             'WriterNew': 'ShmWriter::new with is_usable_segment, wipe, mmap_segment_at inlined, for every prior file state: the state-changing file operations, in order and with values (the five header writes, the zero fill, sync_all, the set_len branch, the final version store) = Crash.script',
             'Threads': 'thread_manager::run (the main thread: channel web, spawns, wait loop, broadcast_abort for every iteration order of the map, joins) = stepMain; Context::drop sends exactly one ThreadPanic/ThreadTerminate notice',
             'Workers': 'the loops of chrony_poller::run / run_clock_error_bound_poller and shm_writer::run / process_messages leave exactly on ThreadAbort (return) or a failed send / failed ShmWriter::new / handler panic (panic), as stepPoller / stepWriter',
             'Errors': 'From<ShmError> for ClockBoundError / clockbound_err = ShmErr.toClient (kind, errno, detail), the enum tables, ClockBoundClient::now and clockbound_now are ONE function of (snapshot result, now result), new_with_path and clockbound_open are ShmReader::new + the conversion, clockbound_close drops the context'}
for _p, _g in CODE_TIE.items():
    if _p in PROPS:
        PROPS[_p]['code_tie'] = [f'ClockBound.Properties.CodeTie{_x}' for _x in _g]
        PROPS[_p]['level_text'] = PROPS[_p].get('level_text', '') + ' Translation tie (re-checked against the current source on every run): ' + '; '.join(f'CodeTie{_x}: for all inputs, the AST regenerated from the Rust source, run by the interpreter Rs.run, equals the model ({_TIE_WHAT[_x]})' for _x in _g) + '.'
        PROPS[_p]['trusted_base'] = list(PROPS[_p].get('trusted_base', [])) + [
            'translation tie: the translator /verif/translator (syn 2 parser + printer; cfg(test) and cfg(clock_bound_verif) evaluated to false) and the interpreter lean/ClockBound/Rs/Interp.lean (one rule per Rust fact: checked integer arithmetic as in the dev profile, wrapping `as`, IEEE binary64 as in Model/F64 without exponent range, nix TimeSpec as in Model/Time, anything without a rule is `stuck`), Rs/Embed.lean (which Rust value a model value stands for); the FSM behind Box<dyn FSMState> is represented by fsmStep (tied by the regenerated transition table); per theorem group an extension dictionary Rs/Dict*.lean (what an atomic access, a libc call, a clock read, a channel operation, a raw pointer IS: one input from the environment and one logged event; nothing else) and Rs/Embed*.lean']

# the properties stated about the source: compositions of the ties with the model_holds theorems (Properties/OnCode*.lean)
ON_CODE = {'C05': ['Client'], 'C06': ['Client'], 'C14': ['Client'], 'C07': ['Extract', 'Updater'], 'C10': ['Extract'],
           'C08': ['Dispatch', 'Pipeline'], 'C09': ['Dispatch', 'Pipeline'], 'C19': ['Drift', 'Updater'],
           'C12': ['Poller', 'Now'], 'C13': ['Poller', 'Pipeline'],
           'C01': ['Client', 'Extract', 'Updater', 'Dispatch', 'Drift', 'Poller', 'Now', 'Pipeline'],
           'C15': ['Threads']}
# [errors] the two client APIs: C14 at the API level, C17 (same answer, enums as published), C16/C17 open through both APIs
for _p, _g in {'C14': ['Errors'], 'C16': ['Open'], 'C17': ['Errors', 'Open']}.items():
    ON_CODE[_p] = ON_CODE.get(_p, []) + _g
# [shm] the seqlock (writer protocol, reader bound, the machines of C02/C03 with the annotation read off the source) and `ShmWriter::new`
for _p, _g in {'C02': ['Seqlock'], 'C03': ['Seqlock'], 'C11': ['Seqlock'], 'C18': ['Seqlock'], 'C04': ['WriterNew'], 'C16': ['WriterNew']}.items():
    ON_CODE[_p] = ON_CODE.get(_p, []) + _g
for _p, _g in ON_CODE.items():
    if _p in PROPS:
        PROPS[_p]['code_tie'] = PROPS[_p].get('code_tie', []) + [f'ClockBound.Properties.OnCode{_x}' for _x in _g]
        PROPS[_p]['level_text'] = PROPS[_p].get('level_text', '') + ' Property on the source (' + ', '.join(f'OnCode{_x}' for _x in _g) + "): the property's oracle is proved of whatever the interpreted regenerated AST answers, for all inputs (composition of the tie with the model theorems; the model occurs only as an existential witness)."

# ------------------------------------------------------------------ translated constants (supplementary source tie)
CONSTS = {'C05': 'Client', 'C06': 'Client', 'C14': 'Client', 'C18': 'Reader', 'C11': 'Gen', 'C16': 'Magic', 'C17': 'Magic',
          'C13': 'Poller', 'C08': 'Updater', 'C09': 'Updater', 'C10': 'Classify', 'C07': 'Bound', 'C19': 'Drift'}
for _p, _g in CONSTS.items():
    if _p in PROPS:
        PROPS[_p]['consts_module'] = f'ClockBound.Properties.Consts{_g}'

for _p in ('C05', 'C06', 'C14', 'C12', 'C17', 'C03', 'C18', 'C01'):
    PROPS[_p]['rule'] += SESSION_RULE

# hostile-environment pass (tools/check.py): request kinds re-executed with the environment variables the binary mentions set
for _p, _k in {'C18': ('slx', 'session'), 'C02': ('slx',), 'C03': ('slx', 'skip', 'session'), 'C04': ('slx',), 'C05': ('session', 'client'), 'C06': ('session', 'client'),
               'C12': ('session', 'corder'), 'C14': ('session', 'client'), 'C17': ('session', 'sandwich'), 'C16': ('open',)}.items():
    if _p in PROPS: PROPS[_p]['env_kinds'] = _k

# release-profile pass (tools/check.py): generators run again through the harness built with the release profile
_REL = {
 'C05': lambda seed, th: [['client', seed, 40000 if th else 3000], ['session', seed, 4000 if th else 300]],
 'C06': lambda seed, th: [['client', seed, 40000 if th else 3000], ['session', seed, 4000 if th else 300]],
 'C14': lambda seed, th: [['client', seed, 40000 if th else 3000], ['session', seed, 4000 if th else 300]],
 'C12': lambda seed, th: [['corder', seed, 4000 if th else 300], ['session', seed, 4000 if th else 300]],
 'C07': lambda seed, th: [['extract', seed, 200000 if th else 6000]],
 'C10': lambda seed, th: [['extract', seed, 200000 if th else 6000]],
 'C08': lambda seed, th: [['upd', seed, 10000 if th else 400]],
 'C09': lambda seed, th: [['upd', seed, 10000 if th else 400]],
 'C13': lambda seed, th: [['poll', seed, 3000 if th else 300]],
 'C11': lambda seed, th: [['genall']],
 'C18': lambda seed, th: [['slxgen']],
 'C02': lambda seed, th: [['slxgen']],
 'C03': lambda seed, th: [['skipgen'], ['slxgen']],
 'C04': lambda seed, th: [['crashgrid']],
 'C16': lambda seed, th: [['hdr-open', seed, 300]],
 'C17': lambda seed, th: [['hdr-open', seed, 300], ['session', seed, 4000 if th else 300]],
}
for _p, _g in _REL.items():
    if _p in PROPS:
        PROPS[_p]['release_gens'] = _g
        PROPS[_p]['rule'] = PROPS[_p].get('rule', '') + ' || release profile: a share of the same generators runs through the harness built with the release profile (no overflow checks, no debug assertions), requests tagged `@release`; cases for which the model predicts a dev-profile panic are dropped'
