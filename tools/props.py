"""Per-property configuration of ./check: generators, projections (the observable the theorems
speak about), non-triviality rules, trusted base."""

COMMON_TRUSTED = [
    "Lean 4.33.0 kernel; axioms propext, Classical.choice, Quot.sound only (audited per theorem with #print axioms on every run); no native_decide, no bv_decide, no sorry, no own axioms",
    "the hand-written Lean model is what the theorems are about; its tie to /repo's current source is this run's differential correspondence check (bounded by its generators)",
    "harness: clock_gettime interposer, cfg-gated hooks (--cfg clock_bound_verif), line protocol, Python orchestration",
]
COMMON_ASSUMPTIONS = [
    "dev-profile build of /repo's working tree (overflow checks on); x86-64 little-endian host",
]

def kind(c): return c.req.split(' ', 1)[0]

def is_ok(ans): return ans.startswith('ok ')

def client_fields(ans):
    # 'ok e_s e_n l_s l_n st' -> (interval, status)
    t = ans.split()
    return (' '.join(t[1:5]), t[5]) if t and t[0] == 'ok' and len(t) == 6 else (None, None)

def proj_client(which):
    def p(c):
        if kind(c) == 'client2':
            ia, ma = c.impl.split(' ; '), c.model.split(' ; ')
        else:
            ia, ma = [c.impl], [c.model]
        a = []; b = []
        for x, y in zip(ia, ma):
            if which == 'class':
                a.append(x.split()[0:2] if not is_ok(x) else ['ok']); b.append(y.split()[0:2] if not is_ok(y) else ['ok'])
            elif is_ok(x) and is_ok(y):
                fx, fy = client_fields(x), client_fields(y)
                i = 0 if which == 'interval' else 1
                a.append(fx[i]); b.append(fy[i])
        return (a, b)
    return p

CLIENT_TB = ["modelled, not verified: nix 0.26.4 TimeSpec arithmetic (mirrored operation by operation), Rust `as` casts, IEEE-754 binary64 as exact-rational round-to-nearest-even (exponent range not modelled; bit-compared with hardware on every case)"]

PROPS = {
 'C05': dict(
    oracle='C05',
    technique='Lean 4 proof (rational model of IEEE doubles; rne53 relative-error and monotonicity lemmas) + differential correspondence of the compiled model against ClockErrorBound::now() under an interposed clock',
    level_text='Theorems C05.symmetric / growth_bounds / growth_mono / mono_holds / model_holds prove, for every record and clock reading in the physically meaningful range, symmetry, ordering, half-width = bound + growth with P(1-2^-51)-1 < growth <= P(1+2^-51), and monotonicity in age, about a line-by-line model of compute_bound_at including a bit-exact rational model of the f64 operations. The model is tied to the current source by running the real now() on ~35k generated cases per run and comparing intervals exactly.',
    level_note='Trusted: Lean kernel + 3 standard axioms; nix TimeSpec and IEEE rounding are modelled (mirrored), not verified; correspondence is differential testing.',
    gens=lambda seed, th: [['client', seed, 400000 if th else 25000], ['client2', seed, 200000 if th else 10000]],
    relevant=lambda c: kind(c) in ('client', 'client2'),
    project=proj_client('interval'),
    nontrivial=lambda c: 'growth' in c.tags,
    rule="cases from one PRNG (VERIF_SEED): records x (realtime, monotonic) readings biased to nsec in {0,1,999999999}, ages in {0, sub-us, 1 s +- 1 ns, hours, days}, drift in {0,1,999,50000,999999999}, products drift*age/1e9 straddling integers; `client2` = two readings of one record (monotonicity). distinct = sha1 of request line; non-trivial = age > 0 and drift > 0 and exact growth >= 1 ns (tag `growth`) and the C05 hypotheses apply",
    trusted_base=CLIENT_TB,
    assumptions=["C05 is proved with the f64 evaluation error explicit: P(1-2^-51)-1 < growth <= P(1+2^-51) for the exact product P"],
 ),
 'C06': dict(
    oracle='C06',
    technique='Lean 4 proof (omega over the nix TimeSpec mirror) + exhaustive threshold grid and random differential correspondence against the real now()',
    level_text='Theorem C06.status_char gives the total characterisation of the reported status for all three stored statuses and every reading in range; the property clauses (synchronized_only_if, freeRunning_only_if, unknown_always, fresh_passthrough) are corollaries, and daemon_record_applicable shows every daemon-written record meets the hypothesis. The real code is compared with the model on an exhaustive +-1 ns grid around every threshold and on random cases each run.',
    level_note='Trusted: Lean kernel + standard axioms; nix TimeSpec ordering/arithmetic mirrored; correspondence is differential testing.',
    gens=lambda seed, th: [['client', seed, 400000 if th else 25000]],
    relevant=lambda c: kind(c) == 'client',
    project=proj_client('status'),
    nontrivial=lambda c: bool(c.tags & {'near5s', 'nearVoid', 'aged'}),
    rule="exhaustive grid {3 statuses} x {as_of-1000ns, as_of, as_of+5s, void_after} x {-1,0,+1 ns} x 8 as_of shapes x 4 void_after shapes x 4 drifts, plus seeded random cases; distinct = sha1 of request; non-trivial = monotonic reading within 1 us of the 5 s or void-after threshold, or beyond 5 s with a trusted stored status",
    trusted_base=CLIENT_TB,
 ),
 'C14': dict(
    oracle='C14',
    technique='Lean 4 proof that no checked-arithmetic or nix range panic is reachable in range, with outcome characterisation + differential correspondence incl. a malformed-input stream under catch_unwind',
    level_text='Theorems C14.no_panic, malformed_iff, causality_iff, ok_otherwise, blur_age_zero: in the model every i64 operation and nix assertion is explicit, and for all inputs within +-2^31 s and bound < 2^60 none of them fires; error outcomes are characterised exactly. The real now() is run under catch_unwind on boundary grids (as_of-1000ns +-1, drift 1e9 +-1, range corners) and on out-of-range inputs where the model must predict the panic.',
    level_note='Trusted: Lean kernel + standard axioms; dev-profile overflow semantics and nix 0.26.4 assertions are modelled; release builds wrap instead of panicking and are out of scope.',
    gens=lambda seed, th: [['client', seed, 400000 if th else 25000]],
    relevant=lambda c: kind(c) == 'client',
    project=proj_client('class'),
    nontrivial=lambda c: bool(c.tags & {'nearBlur', 'badDrift'}),
    rule="same generator as C06 (threshold grid + seeded random + a 4% stream of non-normalised / extreme values outside the property's range, used for model agreement only); non-trivial = monotonic reading within 1 us of as_of - 1000 ns, or drift >= 10^9",
    trusted_base=CLIENT_TB,
    assumptions=["'never panics' is about the dev-profile build (overflow checks on) and nix's range assertion; the physically meaningful range is |tv_sec| <= 2^31, 0 <= tv_nsec < 10^9, 0 <= bound < 2^60"],
 ),
}

PREDICATES = {}
NOT_APPLICABLE = {}
