#!/bin/bash
# Parallel universes for running checks against patched copies of /repo without touching /repo or /verif:
#   universe.sh make <k>          clone /verif and /repo (HEAD, committed state) to /tmp/u/<k>/{verif,repo}, with warm build caches
#   universe.sh run <k> <cmd...>  run <cmd> in a private mount namespace where those clones ARE /verif and /repo
#   universe.sh rm <k>
# Results of runs inside a universe are not evidence (evidence must come from /verif against /repo itself).
set -e
op=$1; k=$2; shift 2 || true
U=/tmp/u/$k
case "$op" in
  make)
    rm -rf $U; mkdir -p $U
    git clone -q /verif $U/verif
    git clone -q /repo $U/repo
    cp -r /verif/lean/.lake $U/verif/lean/.lake
    mkdir -p $U/verif/build
    for d in target target-tr target-rel audit; do [ -d /verif/build/$d ] && cp -r /verif/build/$d $U/verif/build/$d; done
    # keep mtimes of sources older than the copied artefacts where cargo looks at them: cargo uses content hashes of path deps' fingerprints (mtime based) — touch nothing
    echo "universe $k ready";;
  run)
    exec unshare -m sh -c 'mount --bind "$0/verif" /verif && mount --bind "$0/repo" /repo && cd /verif && exec "$@"' $U "$@";;
  rm) rm -rf $U;;
esac
