"""Configuration of ./check for C15 (thread web: any worker death => the daemon exits promptly).
Merge into tools/props.py with:   from props_threads import PROPS_THREADS, EXTERNAL_THREADS
                                  PROPS.update(PROPS_THREADS); EXTERNAL.update(EXTERNAL_THREADS)"""
import os, sys
sys.path.insert(0, os.path.dirname(os.path.abspath(__file__)))
import c15_run

def _bin():
    return os.environ.get('CB_HARNESS_BIN', c15_run.DEFAULT_BIN)

def c15_exec(reqs):
    """request lines 'thr ...' -> protocol lines, each scenario in its own process / mount namespace"""
    return c15_run.run_lines(list(reqs), _bin())

def c15_gen(seed, thorough):
    def g():
        return c15_exec(c15_run.scenarios(thorough, seed))
    return [g]

def _kind(c): return c.req.split(' ', 1)[0]

def proj_thr(c):
    """the observable C15 speaks about: did `run` return, promptly, and is the observed event order a
    trace of the model. Without a death in the log the model predicts that `run` does not return."""
    if c.req.startswith('thrrel'):
        return (c.impl.split(), c.model.split())
    it = c.impl.split()
    mt = c.model.split()
    acc = mt[4] if len(mt) > 4 else 'unparsed'
    if 'nodeath' in c.tags:
        return (['no-death', it[1] if len(it) > 1 else '?', 'accepted'], ['no-death', '0', acc])
    return (it[0:3] + ['accepted'], mt[0:3] + [acc])

PROPS_THREADS = {
 'C15': dict(
    oracle='C15',
    lean_modules=['ClockBound.Properties.C15'],
    gens=c15_gen,
    relevant=lambda c: _kind(c) == 'thr',
    project=proj_thr,
    nontrivial=lambda c: 'death' in c.tags,
    shrink=False,
    rule="the real thread_manager::run (three threads, real mpsc web, real Context drops, real ShmWriter on a tmpfs /run in a private mount namespace) is started once per scenario; a fault (panic / return from the entry function) is injected at the k-th visit of a cfg-gated hook point: {poller:start, writer:start, writer:opened} x k=1 and {poller:top, poller:query, poller:send, poller:wait, writer:recv} x k in {1,2,3}, x {panic, return} x chrony {no socket, Tracking reply} (quick tier: chrony mode alternates, phase = seed; thorough: full product), plus the daemon's own failure path (/run/clockbound is a regular file => ShmWriter::new fails => its panic), plus scenarios with a delayed writer (backlog of 2 unread messages when the poller dies) and a delayed poller (the writer is gone when the poller sends => the code's own 'Broken channel' panic: both workers dead). Observed: hook visits of both workers, the fault, panics of the daemon's own code (panic hook), the return of run, in one global order; elapsed time from the first death to the return only as a bucket (fast < 3000 ms). distinct = sha1 of request line; non-trivial = a death was observed (tag `death`); every scenario of the set is.",
    trusted_base=[
        "modelled, not verified: std::sync::mpsc (unbounded FIFO per channel, send fails iff the receiver was dropped, recv blocks while empty, recv_timeout returns a queued message if there is one), Rust drop order (Drop::drop before the fields, so the notice is sent before the receiver goes), thread join returning after the thread's closure incl. drops, HashMap iteration order arbitrary",
        "the model is untimed: 'promptly' is proved as 'within mu(s) <= 24 + |qM| + |qW| rounds' (a round = a schedule segment in which no thread stays enabled without being scheduled); wall-clock promptness is observed on the real daemon (bucket fast), with the chrony query scripted to answer at once",
        "fault injection happens only at the eight hook points (cfg clock_bound_verif); the theorems cover death at every program point of the model, the hook points are the model's program points",
        "unshare -m + tmpfs isolation of /run; harness panic hook, thread-local role marker and global event log (a Mutex) define the observed order",
    ],
    assumptions=[
        "panic = unwind (the workspace sets no panic=abort profile); a second panic while unwinding aborts the process, which is an exit as well and is not modelled",
        "OS scheduling is weakly fair (no runnable thread is starved forever); a chrony query returns within its 3 s time-out",
    ],
    technique='Lean 4 proof over an operational model (3 program counters, 3 FIFO queues, receiver flags; deaths enabled everywhere): reachability invariants, explicit progress measure with productive-thread argument under weak fairness, soundness of the executable log acceptor + trace-inclusion check of event logs of the real thread_manager::run under fault injection at every hook point',
    level_text='Theorems C15.notice_queued, abort_broadcast, main_leaves_loop_on_notice, returned_all_done (invariants of all reachable states), no_deadlock_after_death, progress_measure, round_progress and exits_after_death / exits_after_death_bound / exits_after_death_simple_rounds: from every reachable state in which a worker has left its loop (by any fault, at any point, in any iteration, under any interleaving), every schedule of at least mu(s) <= 24 + |qM| + |qW| rounds ends with run() returned and both workers finished; die_enabled / death_ends tie "any death" to that hypothesis. holds_sound: whenever the oracle accepts an observed log, every model configuration compatible with it is a reachable model state with run returned and both workers done. The real daemon is run on ~45 (quick) / ~80 (thorough) fault scenarios per check; each must return within 3 s of the first death and its event log must be a trace of the model.',
    level_note='Trusted: Lean kernel + 3 standard axioms; mpsc / drop-order / join semantics are modelled; time is not modelled (rounds instead), wall-clock promptness is observed; correspondence is trace inclusion on finitely many scenarios (scheduling of the real runs is whatever the OS did).',
 ),
}

EXTERNAL_THREADS = {'thr': c15_exec}


# ---- release-binary process scenarios (what ships; no hooks): writer dies at start-up ------------
import subprocess as _sp, os as _os, concurrent.futures as _cf

def c15_release_exec(reqs):
    """`thrrel <nochrony|silent>`: build the release daemon from /repo's working tree, run the scenario"""
    env = dict(_os.environ); env['CARGO_NET_OFFLINE'] = 'true'
    p = _sp.run(['cargo', 'build', '--release', '--offline', '-p', 'clock-bound-d', '--target-dir', '/verif/build/target-rel'],
                cwd='/repo', env=env, stdin=_sp.DEVNULL, stdout=_sp.PIPE, stderr=_sp.STDOUT, text=True)
    if p.returncode != 0:
        return [f'{r} => build-failed' for r in reqs]
    def one(r):
        mode = r.split()[1]
        q = _sp.run(['/verif/tools/c15_release.sh', '/verif/build/target-rel/release/clockbound', mode, '/verif/build/target/debug/cbharness'],
                    stdin=_sp.DEVNULL, stdout=_sp.PIPE, stderr=_sp.DEVNULL, text=True, timeout=60)
        t = q.stdout.split()
        if len(t) >= 2 and t[0] == 'exited':
            ms = int(t[-1]); return f"{r} => exited {'fast' if ms < 6000 else 'slow'}"
        return f"{r} => never"
    with _cf.ThreadPoolExecutor(max_workers=4) as ex:
        return list(ex.map(one, reqs))

EXTERNAL_THREADS['thrrel'] = c15_release_exec
_old_gens = PROPS_THREADS['C15']['gens']
PROPS_THREADS['C15']['gens'] = lambda seed, th: _old_gens(seed, th) + [lambda: c15_release_exec(['thrrel nochrony', 'thrrel silent', 'thrrel pollerdies', 'thrrel rofs', 'thrrel noperm'])]
_old_rel = PROPS_THREADS['C15']['relevant']
PROPS_THREADS['C15']['relevant'] = lambda c: _old_rel(c) or c.req.startswith('thrrel')
PROPS_THREADS['C15']['rule'] += " || plus two process-level scenarios with the RELEASE binary built from the working tree (no hooks): /run/clockbound is a regular file, so the writer thread panics at start-up; chronyd absent, or its socket present but silent (each query takes its full 3 x 1 s); the process must exit within 6 s; `pollerdies`: a stand-in chronyd (harness subcommand `fakechronyd`) reports the PHC as reference, the daemon gets the PHC options and the PHC's error-bound attribute (tmpfs over /sys/bus/pci/devices in the private namespace) reads N/A, so the POLLER panics at its first poll while the writer is healthy: the process must exit; `rofs` / `noperm`: /run resp. /run/clockbound is read-only, so the writer cannot create its segment (EROFS): the process must exit within 6 s"
