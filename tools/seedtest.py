#!/usr/bin/env python3
"""Confirm a seeded change and run the checks against it.

usage: seedtest.py <dir with patch.diff [demo.diff|demo files] run_demo.sh meta.json> <property> [--all] [--keep-as NAME]

1. in a scratch worktree of /repo (outside /repo and /verif): the unedited suite passes with the
   patch; the demonstration fails with the patch and passes without it;
2. applies the patch to /repo, runs ./check <property> (and with --all every claimed check), undoes it;
3. prints a summary and, with --keep-as, stores patch + demo + meta (+ what was run) under /verif/seeded/NAME/.
"""
import sys, os, subprocess, json, shutil, time

def sh(cmd, cwd=None, timeout=3600):
    p = subprocess.run(cmd, cwd=cwd, shell=True, stdin=subprocess.DEVNULL, stdout=subprocess.PIPE, stderr=subprocess.STDOUT, text=True, timeout=timeout)
    return p.returncode, p.stdout

def main():
    d = os.path.abspath(sys.argv[1]); prop = sys.argv[2]
    run_all = '--all' in sys.argv
    keep = sys.argv[sys.argv.index('--keep-as') + 1] if '--keep-as' in sys.argv else None
    patch = f'{d}/patch.diff'
    ran = []
    wt = os.environ.get('SEED_WT', '/tmp/seed/confirm-wt')   # reused between runs (warm target dir); remove with `git -C /repo worktree remove --force` when done
    res = {'property': prop, 'dir': d}
    try:
        if not os.path.exists(wt):
            rc, out = sh(f'git -C /repo worktree add -q --detach {wt} HEAD')
        sh('git checkout -q --detach main 2>/dev/null; git checkout -q -- . && git clean -fdq -e target', cwd=wt); ran.append('scratch worktree of /repo HEAD')
        # demo on the clean tree
        rc0, o0 = sh(f'bash {d}/run_demo.sh {wt}', cwd=d, timeout=1800); ran.append('run_demo.sh on clean worktree')
        res['demo_passes_without_patch'] = rc0 == 0
        if rc0 != 0: res['demo_clean_log'] = o0[-600:]
        sh('git checkout -q -- . && git clean -fdq -e target', cwd=wt)
        rc, out = sh(f'git apply {patch}', cwd=wt)
        res['patch_applies'] = rc == 0
        if rc != 0:
            res['error'] = out[-500:]
        else:
            rc1, o1 = sh('cargo test --workspace --no-fail-fast --offline 2>&1 | grep -E "^test result|FAILED|^error" ', cwd=wt, timeout=1800)
            ran.append('cargo test --workspace --no-fail-fast --offline (patched worktree)')
            res['suite_passes_with_patch'] = ('FAILED' not in o1) and ('error' not in o1) and ('test result: ok' in o1)
            if not res['suite_passes_with_patch']: res['suite_log'] = o1[-600:]
            rc2, o2 = sh(f'bash {d}/run_demo.sh {wt}', cwd=d, timeout=1800); ran.append('run_demo.sh on patched worktree')
            res['demo_fails_with_patch'] = rc2 != 0
    finally:
        sh('git checkout -q -- . && git clean -fdq -e target', cwd=wt)
    # now the checks against /repo itself
    rc, out = sh(f'git -C /repo apply {patch}')
    if rc != 0:
        res['apply_to_repo'] = out[-300:]
    else:
        try:
            props = [prop]
            if run_all:
                props += [c['property_id'] for c in json.load(open('/verif/MANIFEST.json'))['checks'] if c['property_id'] != prop]
            res['checks'] = {}
            for p in props:
                t = time.time()
                rc, out = sh(f'./check {p}', cwd='/verif', timeout=3000); ran.append(f'./check {p} with the patch applied to /repo')
                lines = [l for l in out.splitlines() if l.startswith('VIOLATION') or l.startswith(p + ' tier')]
                res['checks'][p] = {'exit': rc, 'lines': lines, 'wall_s': round(time.time() - t, 1)}
        finally:
            sh('git -C /repo checkout -- .')
            # evidence and regenerated Lean files written while the patch was applied are not evidence about /repo
            sh('git -C /verif checkout -- evidence lean/ClockBound/Generated')
            rc, out = sh('git -C /repo status --short')
            if out.strip(): print('WARNING: /repo not clean:', out)
    res['ran'] = ran
    print(json.dumps(res, indent=1))
    if keep:
        dst = f'/verif/seeded/{keep}'
        os.makedirs(dst, exist_ok=True)
        for f in os.listdir(d):
            if os.path.isfile(f'{d}/{f}'): shutil.copy(f'{d}/{f}', dst)
        meta = json.load(open(f'{d}/meta.json')) if os.path.exists(f'{d}/meta.json') else {}
        meta['confirmed'] = {k: res.get(k) for k in ('demo_passes_without_patch', 'suite_passes_with_patch', 'demo_fails_with_patch')}
        meta['checks_run'] = res.get('checks', {})
        meta['what_was_run'] = ran
        json.dump(meta, open(f'{dst}/meta.json', 'w'), indent=1)

if __name__ == '__main__':
    main()
