#!/bin/bash
# usage: seedpar.sh <wave-dir> <prefix> <prop>...   runs seedwave.sh for the properties in up to 4 parallel universes
# (tools/universe.sh make 1..4 first); copies the kept seeds back to /verif/seeded and the logs to /verif/build/seedpar/
# env UNIVERSES="6 7 8" selects other universes
W=$1; P=$2; shift 2
mkdir -p /verif/build/seedpar
US=(${UNIVERSES:-1 2 3 4})
i=0
for prop in "$@"; do
  k=${US[$(( i % ${#US[@]} ))]}; i=$((i+1))
  lists[$k]="${lists[$k]} $prop"
done
for k in ${US[@]}; do
  [ -z "${lists[$k]}" ] && continue
  ( SEED_WT=/tmp/u/$k/confirm-wt /verif/tools/universe.sh run $k env SEED_WT=/tmp/u/$k/confirm-wt ./tools/seedwave.sh $W $P ${lists[$k]} > /verif/build/seedpar/u$k.log 2>&1
    for prop in ${lists[$k]}; do for n in 1 2; do d=/tmp/u/$k/verif/seeded/$prop-$P$n; [ -d $d ] && rm -rf /verif/seeded/$prop-$P$n && cp -r $d /verif/seeded/$prop-$P$n; done; done ) &
done
wait
cat /verif/build/seedpar/u*.log | grep -v "^=="
