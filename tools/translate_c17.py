#!/usr/bin/env python3
"""C17 translator: turns the *published descriptions* of the segment layout and of the C ABI, and the
Rust definitions they describe, into import-free Lean data.  Regenerated on every run:

  lean/ClockBound/Generated/Protocol.lean   <- /repo/docs/PROTOCOL.md  (section "Shared Memory Segment Layout")
  lean/ClockBound/Generated/CHeader.lean    <- /repo/clock-bound-ffi/include/clockbound.h
  lean/ClockBound/Generated/RustFfi.lean    <- /repo/clock-bound-ffi/src/lib.rs, clock-bound-shm/src/lib.rs, shm_header.rs

Nothing is interpreted here beyond tokenisation: names, type strings, literals and their order are
copied verbatim; every judgement (widths, offsets, agreement) is made in Lean by `decide` in
Properties/C17.lean.  Anything that cannot be parsed is a hard error (exit status 2): no value is
ever defaulted.

usage: translate_c17.py [--repo /repo] [--out <lean/ClockBound/Generated>] [--check]
"""
import os, re, sys, argparse

class TranslateError(Exception):
    pass

def die(msg):
    raise TranslateError(msg)

def lean_str(s):
    return '"' + s.replace('\\', '\\\\').replace('"', '\\"') + '"'

def lean_list(xs, indent='  '):
    if not xs: return '[]'
    return '[\n' + ',\n'.join(indent + '  ' + x for x in xs) + ']'

# ------------------------------------------------------------------------------------ PROTOCOL.md

FIELD_HEAD = re.compile(r'^\*\*(?P<name>[^*]+)\*\*\s*:\s*(?:\((?P<ty>[^)]*)\))?\s*$')

def parse_protocol(text):
    # the shared-memory part: from its H1 to the next H1
    m = re.search(r'^# ClockBound Shared Memory Protocol[^\n]*\n(.*?)(?=^# |\Z)', text, re.S | re.M)
    if not m: die('PROTOCOL.md: no "# ClockBound Shared Memory Protocol" section')
    sec = m.group(1)
    # ---- endianness statement
    low = sec.lower()
    if 'native endian' in low or 'native-endian' in low: endian = 'native'
    elif 'little endian' in low or 'little-endian' in low: endian = 'little'
    elif 'big endian' in low or 'big-endian' in low or 'network byte order' in low: endian = 'big'
    else: die('PROTOCOL.md: no byte-order statement found')
    # ---- the bit diagram (first ```text block of the section)
    d = re.search(r'```text\n(.*?)```', sec, re.S)
    if not d: die('PROTOCOL.md: no ```text diagram')
    rows = [l.rstrip() for l in d.group(1).split('\n') if l.strip()]
    # ruler lines (digits) give the word width: the units row enumerates the bit columns
    rulers = [l for l in rows if re.fullmatch(r'[\s0-9]+', l)]
    if len(rulers) != 2: die('PROTOCOL.md: diagram ruler (two digit rows) not found')
    bits_per_row = len(rulers[1].split())
    if bits_per_row != 32: die(f'PROTOCOL.md: diagram is {bits_per_row} bits wide, expected 32')
    body = [l for l in rows if l not in rulers]
    sep = '+' + '-+' * bits_per_row
    width = len(sep)
    if not body or body[0] != sep or body[-1] != sep: die('PROTOCOL.md: diagram must start and end with a full separator line')
    diagram = []            # (name, bits) in order
    group = []              # content rows between two full separators
    def flush(group):
        if not group: die('PROTOCOL.md: empty field box in diagram')
        words = [l for l in group if l.startswith('|')]
        conts = [l for l in group if l.startswith('+')]
        for l in group:
            if len(l) != width: die(f'PROTOCOL.md: diagram row has width {len(l)}, expected {width}: {l!r}')
            if not (l[0] in '|+' and l[-1] == l[0]): die(f'PROTOCOL.md: bad diagram row {l!r}')
        if len(conts) != len(words) - 1: die('PROTOCOL.md: a multi-word field must join its rows with "+ ... +" lines')
        cells_per_row = [l[1:-1].split('|') for l in words]
        if len(words) == 1 and len(cells_per_row[0]) > 1:
            for c in cells_per_row[0]:
                if (len(c) + 1) % 2: die(f'PROTOCOL.md: cell {c!r} does not cover a whole number of bits')
                name = c.strip()
                if not name: die('PROTOCOL.md: unnamed cell in diagram')
                diagram.append((name, (len(c) + 1) // 2))
            return
        names = []
        for cells in cells_per_row:
            if len(cells) != 1: die('PROTOCOL.md: a multi-word field cannot be split into cells')
            if cells[0].strip(): names.append(cells[0].strip())
        for l in conts:
            if l[1:-1].strip(): names.append(l[1:-1].strip())
        if len(names) != 1: die(f'PROTOCOL.md: field box must carry exactly one name, found {names}')
        diagram.append((names[0], bits_per_row * len(words)))
    for l in body[1:]:
        if l == sep:
            flush(group); group = []
        else:
            group.append(l)
    if group: die('PROTOCOL.md: diagram does not end with a separator')
    # ---- the description list
    desc = sec.split('## Description', 1)
    if len(desc) != 2: die('PROTOCOL.md: no "## Description"')
    lines = desc[1].split('\n')
    fields = []   # [name, type annotation or None, [body lines]]
    for l in lines:
        m = FIELD_HEAD.match(l.strip())
        if m:
            fields.append([m.group('name').strip(), m.group('ty'), []])
        elif fields:
            fields[-1][2].append(l)
    if not fields: die('PROTOCOL.md: no field descriptions')
    described = []
    for name, ty, body_lines in fields:
        if ty is None: die(f'PROTOCOL.md: field {name!r} has no (type) annotation')
        described.append((name, re.sub(r'\s+', ' ', ty.strip())))
    # ---- magic number: every hex literal of its description, in order, with its digit count
    mg = [f for f in fields if f[0] == 'Magic Number']
    if len(mg) != 1: die('PROTOCOL.md: no unique "Magic Number" description')
    lits = re.findall(r'0[xX]([0-9A-Fa-f]+)', '\n'.join(mg[0][2]))
    if not lits: die('PROTOCOL.md: Magic Number description contains no hex literal')
    for h in lits:
        if len(h) not in (2, 8, 16): die(f'PROTOCOL.md: magic literal 0x{h} is neither a byte, a 32-bit nor a 64-bit word')
    magic = [(len(h), int(h, 16)) for h in lits]
    # ---- clock status values: "N - Name: text"
    cs = [f for f in fields if f[0] == 'Clock Status']
    if len(cs) != 1: die('PROTOCOL.md: no unique "Clock Status" description')
    status = [(int(a), b) for a, b in re.findall(r'^\s*(\d+)\s*-\s*([A-Za-z]+)\s*:', '\n'.join(cs[0][2]), re.M)]
    if not status: die('PROTOCOL.md: no status values')
    return dict(endian=endian, diagram=diagram, described=described, magic=magic, status=status)

def emit_protocol(p):
    o = ['/- GENERATED by tools/translate_c17.py from docs/PROTOCOL.md — do not edit. -/',
         'namespace ClockBound.Generated.Protocol', '',
         '/-- the byte-order statement of the section: "native" | "little" | "big" -/',
         f'def endianness : String := {lean_str(p["endian"])}', '',
         '/-- boxes of the bit diagram in order: (name, width in bits) -/',
         'def diagram : List (String × Nat) := ' + lean_list([f'({lean_str(n)}, {b})' for n, b in p['diagram']]), '',
         '/-- the description list in order: (name, type annotation verbatim) -/',
         'def described : List (String × String) := ' + lean_list([f'({lean_str(n)}, {lean_str(t)})' for n, t in p['described']]), '',
         '/-- every hex literal in the description of the magic number, in order: (hex digits, value) -/',
         'def magicLiterals : List (Nat × Nat) := ' + lean_list([f'({d}, 0x{v:0{d}X})' for d, v in p['magic']]), '',
         '/-- the listed clock-status values: (value, name) -/',
         'def statusValues : List (Nat × String) := ' + lean_list([f'({v}, {lean_str(n)})' for v, n in p['status']]), '',
         'end ClockBound.Generated.Protocol', '']
    return '\n'.join(o)

# ------------------------------------------------------------------------------------ C header

def strip_c_comments(s):
    s = re.sub(r'/\*.*?\*/', ' ', s, flags=re.S)
    return re.sub(r'//[^\n]*', ' ', s)

def norm_c_type(t):
    t = t.replace('*', ' * ')
    return ' '.join(t.split())

def enum_values(name, items, where):
    out = []; nxt = 0
    for it in items:
        it = it.strip()
        if not it: continue
        m = re.fullmatch(r'([A-Za-z_][A-Za-z0-9_]*)\s*(?:=\s*(-?(?:0[xX][0-9A-Fa-f]+|\d+)))?', it)
        if not m: die(f'{where}: cannot parse enumerator {it!r} of {name}')
        v = int(m.group(2), 0) if m.group(2) is not None else nxt
        if v < 0: die(f'{where}: negative enumerator {it!r}')
        out.append((m.group(1), v)); nxt = v + 1
    if not out: die(f'{where}: enum {name} has no enumerators')
    return out

def parse_c_header(text):
    s = strip_c_comments(text)
    enums = []; structs = []; funcs = []
    for m in re.finditer(r'typedef\s+enum\s+(\w+)\s*\{([^}]*)\}\s*(\w+)\s*;', s):
        if m.group(1) != m.group(3): die(f'clockbound.h: enum tag {m.group(1)} and typedef {m.group(3)} differ')
        enums.append((m.group(1), enum_values(m.group(1), m.group(2).split(','), 'clockbound.h')))
    for m in re.finditer(r'typedef\s+struct\s+(\w+)\s*\{([^}]*)\}\s*(\w+)\s*;', s):
        if m.group(1) != m.group(3): die(f'clockbound.h: struct tag {m.group(1)} and typedef {m.group(3)} differ')
        fs = []
        for decl in m.group(2).split(';'):
            decl = decl.strip()
            if not decl: continue
            fm = re.fullmatch(r'(.*?)([A-Za-z_][A-Za-z0-9_]*)', decl, re.S)
            if not fm or not fm.group(1).strip(): die(f'clockbound.h: cannot parse member {decl!r} of {m.group(1)}')
            if '[' in decl or ':' in decl or ',' in decl: die(f'clockbound.h: unsupported member declaration {decl!r}')
            fs.append((fm.group(2), norm_c_type(fm.group(1))))
        if not fs: die(f'clockbound.h: struct {m.group(1)} has no members')
        structs.append((m.group(1), fs))
    opaque = re.findall(r'typedef\s+struct\s+(\w+)\s+(\w+)\s*;', s)
    # prototypes: what is left at top level after removing typedefs and preprocessor lines
    rest = re.sub(r'typedef\s+(?:enum|struct)\s+\w+\s*\{[^}]*\}\s*\w+\s*;', ' ', s)
    rest = re.sub(r'typedef[^;{]*;', ' ', rest)
    rest = re.sub(r'^\s*#[^\n]*', ' ', rest, flags=re.M)
    for decl in rest.split(';'):
        decl = ' '.join(decl.split())
        if not decl: continue
        fm = re.fullmatch(r'(.*?)([A-Za-z_][A-Za-z0-9_]*)\s*\((.*)\)', decl)
        if not fm: die(f'clockbound.h: cannot parse declaration {decl!r}')
        params = []
        for prm in fm.group(3).split(','):
            prm = prm.strip()
            pm = re.fullmatch(r'(.*?)([A-Za-z_][A-Za-z0-9_]*)', prm, re.S)
            if not pm or not pm.group(1).strip(): die(f'clockbound.h: cannot parse parameter {prm!r} of {fm.group(2)}')
            params.append(norm_c_type(pm.group(1)))
        funcs.append((fm.group(2), params, norm_c_type(fm.group(1))))
    for want in ('clockbound_err_kind', 'clockbound_clock_status'):
        if want not in [e[0] for e in enums]: die(f'clockbound.h: enum {want} not found')
    for want in ('clockbound_err', 'clockbound_now_result'):
        if want not in [x[0] for x in structs]: die(f'clockbound.h: struct {want} not found')
    for want in ('clockbound_open', 'clockbound_close', 'clockbound_now'):
        if want not in [f[0] for f in funcs]: die(f'clockbound.h: prototype {want} not found')
    return dict(enums=enums, structs=structs, funcs=funcs, opaque=[a for a, b in opaque])

def emit_decls(ns, src, d, extra=''):
    def enum_l(e): return f'({lean_str(e[0])}, [' + ', '.join(f'({lean_str(n)}, {v})' for n, v in e[1]) + '])'
    def struct_l(x): return f'({lean_str(x[0])}, [' + ', '.join(f'({lean_str(n)}, {lean_str(t)})' for n, t in x[1]) + '])'
    def func_l(f): return f'({lean_str(f[0])}, [' + ', '.join(lean_str(p) for p in f[1]) + f'], {lean_str(f[2])})'
    o = [f'/- GENERATED by tools/translate_c17.py from {src} — do not edit. -/',
         f'namespace ClockBound.Generated.{ns}', '',
         '/-- enums in source order: (name, enumerators in order with their values) -/',
         'def enums : List (String × List (String × Nat)) := ' + lean_list([enum_l(e) for e in d['enums']]), '',
         '/-- structs in source order: (name, members in order as (name, type verbatim)) -/',
         'def structs : List (String × List (String × String)) := ' + lean_list([struct_l(x) for x in d['structs']]), '',
         '/-- exported functions in source order: (name, parameter types, return type) -/',
         'def functions : List (String × List String × String) := ' + lean_list([func_l(f) for f in d['funcs']]), '']
    if extra: o += [extra, '']
    o += [f'end ClockBound.Generated.{ns}', '']
    return '\n'.join(o)

# ------------------------------------------------------------------------------------ Rust

def strip_rust_comments(s):
    s = re.sub(r'/\*.*?\*/', ' ', s, flags=re.S)
    return re.sub(r'//[^\n]*', ' ', s)

def split_top(s, sep=','):
    """split at separators that are not nested in () [] <> {}"""
    out = []; depth = 0; cur = ''
    for ch in s:
        if ch in '([<{': depth += 1
        elif ch in ')]>}': depth -= 1
        if ch == sep and depth == 0: out.append(cur); cur = ''
        else: cur += ch
    if cur.strip(): out.append(cur)
    return out

def rust_repr_c_items(text, where):
    """(#[repr(C…)] enums, #[repr(C…)] structs, extern "C" fns) of one source file, tests excluded"""
    s = strip_rust_comments(text)
    s = re.split(r'#\[cfg\(test\)\]', s)[0]
    enums = []; structs = []; funcs = []; reprs = []
    item = re.compile(r'#\[repr\((C[^)]*(?:\([^)]*\))?[^)]*)\)\]\s*((?:#\[[^\]]*\]\s*)*)pub\s+(enum|struct)\s+(\w+)\s*\{', re.S)
    for m in item.finditer(s):
        # body up to the matching brace
        i = m.end(); depth = 1
        while depth and i < len(s):
            depth += {'{': 1, '}': -1}.get(s[i], 0); i += 1
        if depth: die(f'{where}: unbalanced braces in {m.group(4)}')
        body = s[m.end():i - 1]
        if m.group(3) == 'enum':
            enums.append((m.group(4), enum_values(m.group(4), split_top(body), where)))
        else:
            fs = []
            for decl in split_top(body):
                decl = ' '.join(decl.split())
                if not decl: continue
                decl = re.sub(r'^(?:#\[[^\]]*\]\s*)*', '', decl)
                fm = re.fullmatch(r'(?:pub(?:\([^)]*\))?\s+)?([A-Za-z_][A-Za-z0-9_]*)\s*:\s*(.+)', decl)
                if not fm: die(f'{where}: cannot parse field {decl!r} of {m.group(4)}')
                fs.append((fm.group(1), fm.group(2).strip()))
            if not fs: die(f'{where}: struct {m.group(4)} has no fields')
            structs.append((m.group(4), fs))
            reprs.append((m.group(4), ' '.join(m.group(1).split())))
    for m in re.finditer(r'#\[no_mangle\]\s*pub\s+(?:unsafe\s+)?extern\s+"C"\s+fn\s+(\w+)\s*\(([^)]*)\)\s*(?:->\s*([^{]+?))?\s*\{', s, re.S):
        params = []
        for prm in split_top(m.group(2)):
            prm = ' '.join(prm.split())
            if not prm: continue
            pm = re.fullmatch(r'[A-Za-z_][A-Za-z0-9_]*\s*:\s*(.+)', prm)
            if not pm: die(f'{where}: cannot parse parameter {prm!r} of {m.group(1)}')
            params.append(pm.group(1).strip())
        funcs.append((m.group(1), params, ' '.join((m.group(3) or '()').split())))
    return enums, structs, funcs, reprs

def parse_rust(ffi, shm, hdr):
    e1, s1, f1, r1 = rust_repr_c_items(ffi, 'clock-bound-ffi/src/lib.rs')
    e2, s2, _, r2 = rust_repr_c_items(shm, 'clock-bound-shm/src/lib.rs')
    e3, s3, _, r3 = rust_repr_c_items(hdr, 'clock-bound-shm/src/shm_header.rs')
    names_e = [e[0] for e in e1 + e2]; names_s = [x[0] for x in s1 + s2 + s3]
    for want in ('clockbound_err_kind', 'clockbound_clock_status', 'ClockStatus'):
        if want not in names_e: die(f'rust: #[repr(C)] enum {want} not found')
    for want in ('clockbound_err', 'clockbound_now_result', 'ClockErrorBound', 'ShmHeader'):
        if want not in names_s: die(f'rust: #[repr(C)] struct {want} not found')
    for want in ('clockbound_open', 'clockbound_close', 'clockbound_now'):
        if want not in [f[0] for f in f1]: die(f'rust: extern "C" fn {want} not found')
    m = re.search(r'pub\s+const\s+SHM_MAGIC\s*:\s*\[\s*(\w+)\s*;\s*(\d+)\s*\]\s*=\s*\[([^\]]*)\]\s*;', strip_rust_comments(hdr))
    if not m: die('shm_header.rs: SHM_MAGIC not found')
    vals = [int(x.strip().replace('_', ''), 0) for x in m.group(3).split(',') if x.strip()]
    if len(vals) != int(m.group(2)): die('shm_header.rs: SHM_MAGIC length mismatch')
    # `impl From<ShmError> for clockbound_err`-style mappings are behaviour, covered by the harness
    return dict(enums=e1 + e2 + e3, structs=s1 + s2 + s3, funcs=f1, magic=(m.group(1), vals), reprs=r1 + r2 + r3)

def emit_rust(d):
    ty, vals = d['magic']
    extra = ('/-- the `repr` attribute of each struct, verbatim -/\n'
             'def structReprs : List (String × String) := [' + ', '.join(f'({lean_str(n)}, {lean_str(r)})' for n, r in d['reprs']) + ']\n\n'
             '/-- `SHM_MAGIC` of shm_header.rs: element type and values in order -/\n'
             f'def shmMagicElem : String := {lean_str(ty)}\n'
             'def shmMagic : List Nat := [' + ', '.join(f'0x{v:08X}' for v in vals) + ']')
    return emit_decls('RustFfi', 'clock-bound-ffi/src/lib.rs, clock-bound-shm/src/lib.rs, clock-bound-shm/src/shm_header.rs', d, extra)

# ------------------------------------------------------------------------------------ main

def generate(repo):
    def rd(p):
        try: return open(os.path.join(repo, p)).read()
        except OSError as e: die(f'cannot read {p}: {e}')
    return {
        'Protocol.lean': emit_protocol(parse_protocol(rd('docs/PROTOCOL.md'))),
        'CHeader.lean': emit_decls('CHeader', 'clock-bound-ffi/include/clockbound.h', parse_c_header(rd('clock-bound-ffi/include/clockbound.h'))),
        'RustFfi.lean': emit_rust(parse_rust(rd('clock-bound-ffi/src/lib.rs'), rd('clock-bound-shm/src/lib.rs'), rd('clock-bound-shm/src/shm_header.rs'))),
    }

def main():
    here = os.path.dirname(os.path.abspath(__file__))
    ap = argparse.ArgumentParser()
    ap.add_argument('--repo', default=os.environ.get('CB_REPO', '/repo'))
    ap.add_argument('--out', default=os.path.join(os.path.dirname(here), 'lean', 'ClockBound', 'Generated'))
    ap.add_argument('--check', action='store_true', help='do not write; exit 1 if the files on disk differ')
    a = ap.parse_args()
    try:
        files = generate(a.repo)
    except TranslateError as e:
        print(f'translate_c17: ERROR: {e}', file=sys.stderr); return 2
    os.makedirs(a.out, exist_ok=True)
    changed = []
    for name, content in files.items():
        path = os.path.join(a.out, name)
        old = open(path).read() if os.path.exists(path) else None
        if old != content:
            changed.append(name)
            if not a.check:
                with open(path, 'w') as f: f.write(content)
    print('translate_c17: ' + (('changed: ' + ', '.join(changed)) if changed else 'up to date') + f' ({a.out})')
    return 1 if (a.check and changed) else 0

if __name__ == '__main__':
    sys.exit(main())
