#!/usr/bin/env python3
"""C15: run scenarios of the real `thread_manager::run` (harness subcommand `threads`), one process
per scenario, in parallel, each inside a private mount namespace with a tmpfs on /run (the daemon
writes the fixed path /var/run/clockbound/shm).

  scenarios(thorough, seed) -> list of request lines  'thr <point> <k> <panic|return> <none|ok> [lag=<point>:<ms>]'
  run_lines(reqs, bin=..., jobs=16) -> list of protocol lines 'thr ... => returned <0|1> <bucket> ; <events>'

usage: c15_run.py [--bin PATH] [--thorough] [--jobs N] [--model PATH]   (prints the protocol lines;
       with --model also pipes them through cbmodel and prints its answers side by side)
Works from any cwd; only absolute paths."""
import subprocess, concurrent.futures, sys, time

DEFAULT_BIN = '/verif/build/target/debug/cbharness'

# hook points and how often each can be visited before anything else happens
POLLER_LOOP = ['poller:top', 'poller:query', 'poller:send', 'poller:wait']
ONCE = ['poller:start', 'writer:start', 'writer:opened']
WRITER_LOOP = ['writer:recv']

# env=stale : a socket file nobody listens on at chronyd's path (chronyd was killed / is restarting): connect() -> ECONNREFUSED
# env=flock : other processes hold an exclusive flock on the daemon's directory, and flock + POSIX (fcntl) write locks on a
#             lock file and on the segment file itself (a previous instance that has not gone yet, an operator's tool)
WRAP = ('mount -t tmpfs tmpfs /run || exit 99; : > /run/.cbharness_private || exit 98; '
        'for a in "$@"; do case "$a" in '
        'env=stale) mkdir -p /run/chrony && python3 -c "import socket; s=socket.socket(socket.AF_UNIX, socket.SOCK_DGRAM); s.bind(\'/run/chrony/chronyd.sock\'); s.close()" || exit 97;; '
        'env=flock) mkdir -p /run/clockbound && : > /run/clockbound/shm.lock && (flock -x /run/clockbound sleep 40 </dev/null >/dev/null 2>&1 & flock -x /run/clockbound/shm.lock sleep 40 </dev/null >/dev/null 2>&1 & '
        'python3 -c "import fcntl,time,os; fs=[open(p,\'a+b\') for p in (\'/run/clockbound/shm\',\'/run/clockbound/shm.lock\')]; [fcntl.lockf(f,fcntl.LOCK_EX) for f in fs]; g=open(\'/run/clockbound/shm\',\'rb\'); fcntl.flock(g,fcntl.LOCK_EX); time.sleep(40)" </dev/null >/dev/null 2>&1 &) ; sleep 0.4;; '
        'esac; done; '
        'exec "$0" threads "$@"')


def scenarios(thorough=False, seed=0):
    """every hook point x visit k x {panic, return} x chrony {none, ok}; the quick tier alternates
    the chrony mode (phase chosen by the seed) instead of taking the product"""
    pts = [(p, 1) for p in ONCE] + [(p, k) for p in POLLER_LOOP + WRITER_LOOP for k in (1, 2, 3)]
    out = []
    for pi, (p, k) in enumerate(pts):
        for ki, kind in enumerate(('panic', 'return')):
            modes = ('none', 'ok') if thorough else (('none', 'ok')[(pi + ki + seed) % 2],)
            for ch in modes:
                out.append(f'thr {p} {k} {kind} {ch}')
    # the daemon's own failure path: /run/clockbound is a regular file, ShmWriter::new fails
    out.append('thr writer:shmnew 1 panic none')
    out.append('thr writer:shmnew 1 panic ok')
    # poller dies in its 2nd iteration while the writer (held at its first receive) has a backlog of 2
    out.append('thr poller:wait 2 panic ok lag=writer:recv:1500')
    out.append('thr poller:top 3 return none lag=writer:recv:2300')
    # writer dies at once; the poller, held in front of its first send, then finds the channel broken
    out.append('thr writer:recv 1 panic ok lag=poller:send:300')
    out.append('thr writer:start 1 return none lag=poller:send:300')
    out.append('thr writer:shmnew 1 panic none lag=poller:send:300')
    # chronyd unresponsive: the poller sits in its query (2 s) while the writer dies
    out.append('thr writer:recv 1 panic hang2000')
    out.append('thr writer:opened 1 return hang2000')
    # the world outside the daemon is hostile: a stale chronyd socket, foreign locks on the daemon's directory
    for env in ('env=stale', 'env=flock'):
        for sc in ('poller:top 1 panic none', 'writer:start 1 panic none', 'writer:recv 1 return ok', 'poller:wait 2 return none', 'poller:start 1 panic none'):
            out.append(f'thr {sc} {env}')
    if thorough:
        # perturb the interleaving: a seeded small delay at the first visit of some hook point
        import random
        rnd = random.Random(seed)
        allpts = ONCE + POLLER_LOOP + WRITER_LOOP
        for p, k in pts:
            for kind in ('panic', 'return'):
                lp = rnd.choice([q for q in allpts if q.split(':')[0] != p.split(':')[0]])
                out.append(f"thr {p} {k} {kind} {rnd.choice(['none', 'ok'])} lag={lp}:{rnd.choice([1, 5, 20, 100])}")
    return out


def run_one(req, bin=DEFAULT_BIN, timeout=45):
    args = req.split()[1:]
    cmd = ['unshare', '-m', 'sh', '-c', WRAP, bin] + args
    try:
        q = subprocess.run(cmd, stdout=subprocess.PIPE, stderr=subprocess.PIPE, text=True, timeout=timeout)
    except subprocess.TimeoutExpired:
        return f'{req} => returned 0 never ; harness-timeout'
    for l in reversed(q.stdout.splitlines()):
        if l.startswith('thr ') and ' => ' in l:
            return l
    return f'{req} => returned 0 never ; harness-failed-rc{q.returncode}'


def run_lines(reqs, bin=DEFAULT_BIN, jobs=16):
    with concurrent.futures.ThreadPoolExecutor(max_workers=jobs) as ex:
        return list(ex.map(lambda r: run_one(r, bin), reqs))


if __name__ == '__main__':
    a = sys.argv[1:]
    bin_ = a[a.index('--bin') + 1] if '--bin' in a else DEFAULT_BIN
    jobs = int(a[a.index('--jobs') + 1]) if '--jobs' in a else 16
    model = a[a.index('--model') + 1] if '--model' in a else None
    t0 = time.time()
    lines = run_lines(scenarios('--thorough' in a), bin_, jobs)
    dt = time.time() - t0
    if model:
        m = subprocess.run([model], input='\n'.join(lines) + '\n', stdout=subprocess.PIPE, text=True).stdout.splitlines()
        for l, ml in zip(lines, m):
            print(l); print('    ', ml)
    else:
        print('\n'.join(lines))
    print(f'# {len(lines)} scenarios in {dt:.1f} s', file=sys.stderr)
