/-
  C07 — Published bound implements |offset| + dispersion + delay/2 (+PHC), rounded up.
-/
import ClockBound.Model.OraclesD
import ClockBound.Proofs.Daemon
namespace ClockBound.C07
open ClockBound

/-- For all wire values with non-negative delay and dispersion and exact sum E < 2^62 ns:
    0 ≤ bound, E(1 − 2^-51) ≤ bound < E(1 + 2^-51) + 1.  The slack 2^-51·E is the proved evaluation
    error of the code's double-precision data path (three roundings). -/
theorem bound_bounds (t : Tracking) (h : applicable t 0 = true) :
    0 ≤ boundF t ∧ exactNs t * (1 - eps51) ≤ (boundF t : Rat) ∧
    (boundF t : Rat) < exactNs t * (1 + eps51) + 1 := by
  obtain ⟨hs, hd, hE, _, _⟩ := applicable_spec h
  exact boundF_bounds t hs hd hE

/-- the bound depends on the magnitude of the offset only: flipping the sign of the wire
    coefficient of `current_correction` does not change it -/
theorem sign_irrelevant (t t' : Tracking)
    (h : F64.chronyFloat t'.offW = - F64.chronyFloat t.offW)
    (hd : t'.dispW = t.dispW) (hl : t'.delayW = t.delayW) : boundF t' = boundF t := by
  rw [boundF_def, boundF_def, h, hd, hl, absR_neg]

/-- with the PHC error bound added (`bound_nsec += phc_error_bound`) -/
theorem model_holds (t : Tracking) (phc : Int) : Holds t phc (boundF t + phc) = true := by
  unfold Holds
  cases ha : applicable t phc with
  | false => rfl
  | true =>
    obtain ⟨hs, hd, hE, hp0, _⟩ := applicable_spec ha
    obtain ⟨b0, bl, bu⟩ := boundF_bounds t hs hd hE
    simp only [Bool.not_true, Bool.false_eq_true, if_false, Bool.and_eq_true, decide_eq_true_eq]
    refine ⟨⟨by omega, ?_⟩, ?_⟩
    · push_cast; linarith
    · push_cast; linarith

/-- the strict real-number reading `E ≤ bound` is false of the double-precision pipeline:
    known finding K2 (shortfall below 2^-51·E, here about 10^-7 ns) -/
theorem strict_false :
    ∃ t : Tracking, applicable t 0 = true ∧ HoldsStrict t 0 (boundF t) = false := by
  refine ⟨{ leap := 0, refNs := 0, offW := 0xee562947, dispW := 0x0893362c, delayW := 0x026bb816,
            intervalW := 0 }, ?_, ?_⟩ <;> decide +kernel

/-- non-vacuity: offset −7 ms, delay 100 ms, dispersion 20 ms gives 77 ms (not 63 ms) -/
example : applicable { leap := 0, refNs := 0, offW := 4112162750, dispW := 4171486986, delayW := 4241280205, intervalW := 0 } 0 = true := by decide +kernel
example : boundF { leap := 0, refNs := 0, offW := 4112162750, dispW := 4171486986, delayW := 4241280205, intervalW := 0 } = 77000001 := by decide +kernel

end ClockBound.C07
