/-
  C19 — Configured drift rate is published exactly, or the daemon refuses to start.
-/
import ClockBound.Model.OraclesD
import ClockBound.Proofs.Daemon
namespace ClockBound.C19
open ClockBound

theorem exact_or_refused (r : Nat) :
    (driftPpb (some r) = some (1000 * r) ∧ 1000 * r < 4294967296) ∨
    (driftPpb (some r) = none ∧ 1000 * r ≥ 4294967296) := by
  sorry

/-- never a wrapped value -/
theorem never_wrapped (r p : Nat) (h : driftPpb (some r) = some p) : p = 1000 * r ∧ p < 4294967296 := by
  sorry

theorem default_one_ppm : driftPpb none = some 1000 := by
  sorry

/-- the value reaches every published record -/
theorem published (arg : Option Nat) (p : Nat) (h : driftPpb arg = some p) (msgs : List Msg) :
    ∀ r ∈ Updater.run (Updater.new p) msgs, r.drift = p := by
  sorry

theorem model_holds (arg : Option Nat) : Holds arg (driftPpb arg) = true := by
  sorry

example : driftPpb (some 4294968) = none := by decide
example : driftPpb (some 4294967) = some 4294967000 := by decide

end ClockBound.C19
