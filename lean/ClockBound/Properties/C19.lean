/-
  C19 — Configured drift rate is published exactly, or the daemon refuses to start.
-/
import ClockBound.Model.OraclesD
import ClockBound.Proofs.Daemon
namespace ClockBound.C19
open ClockBound

theorem exact_or_refused (r : Nat) :
    (driftPpb (some r) = some (1000 * r) ∧ 1000 * r < 4294967296) ∨
    (driftPpb (some r) = none ∧ 1000 * r ≥ 4294967296) := by
  simp only [driftPpb]
  by_cases h : r * 1000 < 4294967296
  · left; rw [if_pos h]; exact ⟨by rw [Nat.mul_comm], by omega⟩
  · right; rw [if_neg h]; exact ⟨rfl, by omega⟩

/-- never a wrapped value -/
theorem never_wrapped (r p : Nat) (h : driftPpb (some r) = some p) : p = 1000 * r ∧ p < 4294967296 := by
  rcases exact_or_refused r with ⟨h1, h2⟩ | ⟨h1, _⟩
  · rw [h1] at h; cases h; exact ⟨rfl, h2⟩
  · rw [h1] at h; cases h

theorem default_one_ppm : driftPpb none = some 1000 := by
  rfl

/-- the value reaches every published record -/
theorem published (arg : Option Nat) (p : Nat) (h : driftPpb arg = some p) (msgs : List Msg) :
    ∀ r ∈ Updater.run (Updater.new p) msgs, r.drift = p := by
  have _ := h
  intro r hr
  exact (Updater.run_drift_void (Updater.new p) msgs r hr).1

theorem model_holds (arg : Option Nat) : Holds arg (driftPpb arg) = true := by
  cases arg with
  | none => rfl
  | some r =>
    rcases exact_or_refused r with ⟨h1, _⟩ | ⟨h1, h2⟩
    · rw [h1]; simp [Holds]
    · rw [h1]; simp only [Holds, decide_eq_true_eq]; exact h2

example : driftPpb (some 4294968) = none := by decide
example : driftPpb (some 4294967) = some 4294967000 := by decide

end ClockBound.C19
