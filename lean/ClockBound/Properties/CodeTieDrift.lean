/-
  Translation tie, part 5: the `--max-drift-rate` ppm → ppb conversion of `main`
  (clock-bound-d/src/main.rs).

  `main` as a whole is outside the fragment the interpreter runs (clap, tracing set-up, threads); the
  conversion is the initialiser of its top-level `let max_drift_ppb = ..;`.  That sub-expression is
  located BY NAME in the regenerated AST of `main` (`Rs.findLet`), so the statement does not refer to a
  position, and it is evaluated with `args.max_drift_rate` bound to the option given on the command
  line.  It yields `driftPpb`: the ppb value as a `u32`, or — where the model says `none` — `main`
  returns `Err(<message>)`.  If the conversion is moved into a helper function that the `let` calls,
  the same statement covers the helper (calls are inlined).
-/
import ClockBound.Proofs.RsDrift
namespace ClockBound.CodeTieDrift
open ClockBound ClockBound.Rs ClockBound.Generated

theorem max_drift_ppb_eq (rate : Option Nat) (nowNs : Int) :
    (findLet "max_drift_ppb" Code.fn_main__main.body).map
      (fun e => evalIn (Code.ctx nowNs) "main" "" e [("args", cliValue rate)])
    = some (driftRes ⟨[("args", cliValue rate)], []⟩ (driftPpb rate)) :=
  DriftProof.tie rate nowNs

example : driftPpb (some 4294967) = some 4294967000 ∧ driftPpb (some 4294968) = none := by decide

end ClockBound.CodeTieDrift
