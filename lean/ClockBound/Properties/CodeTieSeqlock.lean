/-
  Translation tie, group `Shm`, part 1: the seqlock — `ShmWrite for ShmWriter::write`
  (clock-bound-shm/src/writer.rs) and `ShmReader::snapshot` (clock-bound-shm/src/reader.rs).

  The AST regenerated from the Rust source, run by the interpreter (`Rs/Interp.lean`) with the dictionary
  `Rs/DictShm.lean` (atomics, fences, the volatile record copy), performs EXACTLY the shared accesses — same
  locations, same order, same memory orderings, same values — and computes exactly the result and the new
  cache of the closed-form programs `SL.writerProg` / `SL.readerProg` of `Model/SeqlockProg.lean`, which
  `Properties/SeqlockProg.lean` proves to BE the machines `SL.wStep` / `SL.rStep` that the theorems of
  C02, C03, C04, C11, C18 are about.  For ALL load results (the input stream), all records, all caches.

  Embeddings (`Rs/EmbedShm.lean`, trusted): a record in memory is its seven 64-bit words (`wordsValue`);
  accesses are `SL.Acc` (`accValue`); the k-th load returns the k-th number of the stream, reduced to the
  width of the location it reads (`typedInp`: the identity on a well-typed stream).
-/
import ClockBound.Proofs.RsSnapshot
import ClockBound.Properties.SeqlockProg
namespace ClockBound.CodeTieSeqlock
open ClockBound ClockBound.Rs ClockBound.Generated ClockBound.Rs.DictShm ClockBound.Rs.EmbedShm

/-- the interpreter's context: generated tables, the dictionary of this group, raw load results -/
abbrev ctx (nowNs : Int) (sizes : List (String × Nat)) (inp : Nat → Nat) : Ctx :=
  Code.ctxWith nowNs DictShm.ext sizes (rawInp inp)

/-- THE ANNOTATION OF THE CODE: the memory orderings the source names for the writer's generation load, two
    generation stores and fence, and for the reader's version load, two generation loads and fence — found by
    evaluation (probe runs of `write`, of the statements of `snapshot` before its loop and of one loop iteration;
    `Proofs/RsSeqlock.lean`), not written in any proof.  At HEAD it is the model's default `{}`
    (`Properties/CodeTieSeqlockHead.lean`); a refactoring that STRENGTHENS an ordering changes this value, not the
    theorems below. -/
def ann : SL.Ann := SeqlockProof.snapAnn

/-- … and it is one of the annotations the seqlock properties are proved for: `C02.no_mixture`,
    `C03.accepted_monotone`, … hold for every adequate annotation, hence for the code's.  (A weakened ordering —
    the seeded C02/C03 mutations — makes this theorem fail.) -/
theorem ann_adequate : ann.adequate = true := SeqlockProof.snapAnn_adequate

/-! ### the writer -/

/-- `ShmWriter::write(&mut self, ceb)`: with the generation load returning `g = inp 0` (as a `u16`), the
    code performs exactly the accesses of `SL.writerProg ann g cells` (`cells` = the words of `*ceb`), returns
    `()` and leaves `self` unchanged.  No hypothesis: every `g`, every list of words. -/
theorem write_eq (inp : Nat → Nat) (cells : List Nat) (segsize : Nat) (nowNs : Int) (sizes : List (String × Nat)) :
    run (ctx nowNs sizes inp) "ShmWrite for ShmWriter::write" (writerValue segsize) [wordsValue cells]
    = .ok .unit (writerValue segsize) ((SL.writerProg ann (inp 0 % 65536) cells).map accValue) := by
  rw [ann, SeqlockProof.writerProg_snapAnn]
  exact SeqlockProof.write_tie inp cells segsize nowNs sizes

/-- the value range the Rust type forces on the generation: a `u16` -/
def genInRange (g : Nat) : Prop := g < 65536
instance (g : Nat) : Decidable (genInRange g) := by unfold genInRange; infer_instance
example : genInRange 65535 := by decide

/-- … for a `u16` generation `g` and the words of a record `r` (`pad` = the four padding bytes) -/
theorem write_record_eq (g : Nat) (hg : genInRange g) (inp : Nat → Nat) (h0 : inp 0 = g) (r : Record) (pad : Nat)
    (segsize : Nat) (nowNs : Int) (sizes : List (String × Nat)) :
    run (ctx nowNs sizes inp) "ShmWrite for ShmWriter::write" (writerValue segsize) [wordsValue (Pipeline.cellsOf r pad)]
    = .ok .unit (writerValue segsize) ((SL.writerProg ann g (Pipeline.cellsOf r pad)).map accValue) := by
  rw [write_eq, h0, Nat.mod_eq_of_lt hg]

/-- the generated code never leaves the fragment the interpreter and the dictionary have rules for -/
theorem write_not_stuck (inp : Nat → Nat) (cells : List Nat) (segsize : Nat) (nowNs : Int) (sizes : List (String × Nat)) :
    (run (ctx nowNs sizes inp) "ShmWrite for ShmWriter::write" (writerValue segsize) [wordsValue cells]).isStuck = false := by
  rw [write_eq]; rfl

/-- without the dictionary the same call is stuck at its first shared access (non-vacuity of the rules) -/
example : (run (Code.ctx 0) "ShmWrite for ShmWriter::write" (writerValue 72) [wordsValue [1, 2, 3, 4, 5, 6, 7]]).isStuck = true := by
  simp [rs_eval, rs_code, writerValue, wordsValue, Outcome.isStuck, DictShm.ptrA16, DictShm.ptrCeb]

/-- an example: roll-over 65534 → 65535 → 2, record words 1..7 -/
example : SL.storesOf (SL.writerProg {} 65534 [1, 2, 3, 4, 5, 6, 7]) =
    [(.gen, 65535), (.cell 0, 1), (.cell 1, 2), (.cell 2, 3), (.cell 3, 4), (.cell 4, 5), (.cell 5, 6), (.cell 6, 7), (.gen, 2)] := by
  decide

/-! ### the reader -/

/-- `ShmReader::snapshot(&mut self)`: for EVERY stream of load results `inp`, every cached generation and
    record, and every fuel ≥ RETRIES + 200 (one unit per retry plus the depth of the function), the code
    performs exactly the accesses, returns the result (`Ok(&snapshot_ceb)` / `Err(SegmentNotInitialized)`) and
    leaves `snapshot_gen` / `snapshot_ceb` as `SL.readerProg ann (typedInp inp) cacheGen cache` says. -/
theorem snapshot_eq (inp : Nat → Nat) (cacheGen : Nat) (cache : List Nat) (nowNs : Int) (sizes : List (String × Nat))
    (fuel : Nat) (hfuel : SL.RETRIES + 200 ≤ fuel) :
    runFuel fuel (ctx nowNs sizes inp) "ShmReader::snapshot" (readerValue cacheGen cache) []
    = readerOutcome (SL.readerProg ann (typedInp inp) cacheGen cache) := by
  obtain ⟨F, rfl⟩ : ∃ F, fuel = F + 200 := ⟨fuel - 200, by omega⟩
  exact SeqlockProof.snapshot_tie inp cacheGen cache nowNs sizes F (by omega)

/-- on a well-typed stream (`u16` at version/generation, 64-bit words in the record) nothing is reduced -/
theorem snapshot_eq_typed (inp : Nat → Nat) (hinp : ∀ k, inp k < loadCard k) (cacheGen : Nat) (cache : List Nat)
    (nowNs : Int) (sizes : List (String × Nat)) (fuel : Nat) (hfuel : SL.RETRIES + 200 ≤ fuel) :
    runFuel fuel (ctx nowNs sizes inp) "ShmReader::snapshot" (readerValue cacheGen cache) []
    = readerOutcome (SL.readerProg ann inp cacheGen cache) := by
  rw [snapshot_eq inp cacheGen cache nowNs sizes fuel hfuel, SeqlockProof.typedInp_id inp hinp]

/-- … and therefore the code is the reader MACHINE (`SL.rStepG`, i.e. `SL.rStep` with the memory's answers
    passed in) run on that stream: result, accesses, new cache -/
theorem snapshot_machine (inp : Nat → Nat) (r : SL.Reader) (nowNs : Int) (sizes : List (String × Nat))
    (fuel : Nat) (hfuel : SL.RETRIES + 200 ≤ fuel) (mfuel : Nat) (hm : SL.stepBound ≤ mfuel) :
    let out := SL.readerRunG ann (typedInp inp) mfuel r.call 0 []
    ∃ res, out.2.1 = some res ∧
      runFuel fuel (ctx nowNs sizes inp) "ShmReader::snapshot" (readerValue r.cacheGen r.cache) []
      = .ok (resultValue res) (readerValue out.1.cacheGen out.1.cache) (out.2.2.map accValue) := by
  intro out
  obtain ⟨h1, h2, h3, h4, _⟩ := SeqlockProg.readerRunG_eq_prog ann (typedInp inp) r mfuel hm
  refine ⟨_, h1, ?_⟩
  rw [snapshot_eq inp r.cacheGen r.cache nowNs sizes fuel hfuel]
  simp only [readerOutcome, out, h2, h3, h4]

/-- the ranges hold for a typical stream; the statement is not vacuous: a record accepted at the second
    attempt (version 1, generation 4; first re-check sees 6, second attempt confirmed under 6) -/
example :
    let inp : Nat → Nat := fun k => if k = 0 then 1 else if k = 1 then 4 else if k = 9 then 6 else if k = 17 then 6 else k
    inpInRange inp 40 ∧
    (SL.readerProg {} (typedInp inp) 2 (List.replicate SL.N 0)).2
      = (.ok [10, 11, 12, 13, 14, 15, 16], 6, [10, 11, 12, 13, 14, 15, 16]) ∧
    (SL.readerProg {} (typedInp inp) 2 (List.replicate SL.N 0)).1.length = 2 + 2 * (SL.N + 2) := by
  decide

/-- without the dictionary `snapshot` is stuck at its first shared access -/
example : (runFuel 300 (Code.ctx 0) "ShmReader::snapshot" (readerValue 2 [0, 0, 0, 0, 0, 0, 0]) []).isStuck = true := by
  simp [rs_eval, rs_code, readerValue, wordsValue, Outcome.isStuck, DictShm.ptrA16, DictShm.ptrCeb]

end ClockBound.CodeTieSeqlock
