/-
  Translation tie, part 3: `extract_bound_from_tracking` (clock-bound-d/src/shm_writer.rs).

  For every chrony tracking reply and every reading `nowNs` of CLOCK_REALTIME, the AST regenerated
  from the Rust source, run by the interpreter, returns the pair
  `(boundF t as i64, classify t nowNs as ChronyClockStatus)` of the hand-written model, never panics
  and never gets stuck.  (This function calls `ChronyClockStatus::from`, which the interpreter inlines
  from the same table.)

  No range hypothesis is needed (the wire words are reduced modulo 2^32 by `F64.chronyFloat` itself).
-/
import ClockBound.Proofs.RsExtract
namespace ClockBound.CodeTieExtract
open ClockBound ClockBound.Rs ClockBound.Generated

theorem extract_eq (t : Tracking) (nowNs : Int) :
    run (Code.ctx nowNs) "shm_writer::extract_bound_from_tracking" .unit [trackingValue t]
    = .ok (.tuple [.int .i64 (boundF t), chronyValue (classify t nowNs)]) .unit [] :=
  ExtractProof.tie t nowNs

/-- the ranges the Rust types force (not needed above) -/
def Tracking.inRange (t : Tracking) : Bool :=
  decide (t.leap < 65536) && decide (t.offW < 4294967296) && decide (t.dispW < 4294967296) &&
  decide (t.delayW < 4294967296) && decide (t.intervalW < 4294967296) && decide (t.refid < 4294967296)

example : Tracking.inRange ⟨0, 1700000000000000000, 0xee562947, 0x0893362c, 0x026bb816, 0x0e000000, 0⟩ = true := by
  decide

end ClockBound.CodeTieExtract
