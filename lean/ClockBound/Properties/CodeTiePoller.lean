/-
  Translation tie, group `Poller`: the chrony poller thread (clock-bound-d/src/chrony_poller.rs) —
  `run_clock_error_bound_poller` with the REAL `ClockErrorBoundPoller` (`get_tracking`,
  `is_within_grace_period`, resolved through the `impl ChronyOperations` parameter by the value's type),
  `get_phc_error_bound_from_path`, `Default for ClockErrorBoundPoller`, `run`.

  `iteration_eq`: ONE iteration of the loop body, found in the function by `Rs.findWhile`, started in the
  loop state with poller state `s` (`pollerLoopSt`), for ALL inputs: the reading `coarse` of
  `clock_gettime_safe(CLOCK_MONOTONIC)`, the outcome `reply` of `blocking_query_uds` (Err / a reply whose
  body is any other variant / Tracking t), the `Instant` readings `tReply`, `tGrace`, the configured PHC
  reference `refid` and the state `file` of its sysfs file (an unreadable one failing at `open` or at
  `read_to_string`), every result of `recv_timeout`, every input stream `inp` that provides these values
  from position `pos` on (`inputsAt`), every fuel `N ≥ 60`.  The events the interpreter appends to its log
  are EXACTLY the model's `pollTrace s coarse reply tReply tGrace phc` (clock read of id 6 =
  CLOCK_MONOTONIC_COARSE, query with request `Tracking`, `Instant` reads, sysfs read with its path, the send
  to `ChannelId::ShmWriter` with the message, the wait with the sleep time), one input is consumed per event,
  the new `last_tracking_data` is `(pollStep ..).1.lastGood`, `keep_running` is false iff the mailbox
  returned `Ok(ThreadAbort)`, all other variables are unchanged; where the model's message is `panic`
  (`expect` on an unparsable / out-of-range sysfs value) the thread panics.
  `default_eq` (`Poller.init`), `grace_eq` (`withinGrace`, strict `<` 5 s).
  NOT proved here (time): the failed-send and failed-clock-read iterations, the whole loop (`loop_eq`).
-/
import ClockBound.Proofs.RsPollerAll
import ClockBound.Proofs.RsPollerDefault
namespace ClockBound.CodeTiePoller
open ClockBound ClockBound.Rs ClockBound.Generated ClockBound.Rs.DictPoller

/-- the context of the group: generated tables, dictionary, Linux `use` imports (`CodeTieNow.clock_ids_eq`) -/
abbrev ctxP (nowNs : Int) (inp : Nat → Value) : Ctx :=
  Code.ctxWith nowNs (DictPoller.ext (linuxUses Code.consts)) [] inp

/-- frame of `run_clock_error_bound_poller` (module, no `Self`, return type) -/
abbrev frP : Frame := ⟨"chrony_poller", "", "()"⟩

/-- `phc_info` with the state of its file during this iteration (`PollIter.phc` of the model) -/
abbrev phcOf (refid : Option Nat) (file : PhcFile) : Option PhcCfg := refid.map fun r => ⟨r, file⟩

theorem iteration_eq (e : IterEnv) (s : PollerState) (coarse : TimeSpec) (reply : ReplyKind) (tReply tGrace : Int)
    (refid : Option Nat) (file : PhcFile) (nowNs : Int) (inp : Nat → Value) (log : List Value) (pos : Nat)
    (c : Expr) (body : List Stmt)
    (hfw : findWhile Code.fn_chrony_poller__run_clock_error_bound_poller.body = some (c, body))
    (hother : e.other ≠ "ReplyBody::Tracking") (hsend : e.sendRes = okUnit)
    (hin : inputsAt inp pos ((pollTrace s coarse reply tReply tGrace (phcOf refid file)).map (pollEvInput e)))
    (N : Nat) (hN : 60 ≤ N) (next : St → Res) :
    ((evalBlock N (ctxP nowNs inp) frP body (pollerLoopSt e true s refid log pos)).popTo 5).loopNext next
    = if (pollStep s coarse reply tReply tGrace (phcOf refid file)).2 = .panic then .panic
      else next (pollerLoopSt e (!e.isAbort) (pollStep s coarse reply tReply tGrace (phcOf refid file)).1 refid
        (log ++ (pollTrace s coarse reply tReply tGrace (phcOf refid file)).map (pollEvValue e))
        (pos + (pollTrace s coarse reply tReply tGrace (phcOf refid file)).length)) :=
  PollerProof.iteration e s coarse reply tReply tGrace refid file nowNs inp log pos c body hfw hother hsend hin N hN next

/-- `impl Default for ClockErrorBoundPoller` = the model's `Poller.init`: `Instant::now()` (the input `tStart`,
    logged) minus the 5 s of `CHRONY_RESTART_GRACE_PERIOD`; the `unwrap` panics exactly when `checked_sub` leaves
    the range of an `Instant` (`DictPoller.instantLo`) -/
theorem default_eq (tStart nowNs : Int) (inp : Nat → Value) (h0 : inp 0 = instant tStart) :
    run (ctxP nowNs inp) "Default for ClockErrorBoundPoller::default" .unit []
    = if instantLo ≤ tStart - GRACE_NS then
        .ok (pollerValue (Poller.init tStart)) .unit [evInstantNow (instant tStart)]
      else .panic :=
  PollerProof.default_tie tStart nowNs inp h0

/-- `is_within_grace_period` = the model's `withinGrace` (strict `<` 5 s on the saturating `elapsed()`),
    `tGrace` = the reading of the monotonic clock inside `elapsed()` (one input, logged); `self` is unchanged -/
theorem grace_eq (s : PollerState) (tGrace nowNs : Int) (inp : Nat → Value) (h0 : inp 0 = instant tGrace) :
    run (ctxP nowNs inp) "ChronyOperations for ClockErrorBoundPoller::is_within_grace_period" (pollerValue s) []
    = .ok (.bool (s.withinGrace tGrace)) (pollerValue s) [evInstantNow (instant tGrace)] :=
  PollerProof.grace_tie s tGrace nowNs inp h0

/-- the boundary is strict: exactly 5 s after the last good reply the poller is NOT within grace -/
example : (PollerState.mk 1000).withinGrace (1000 + 5000000000) = false ∧
    (PollerState.mk 1000).withinGrace (1000 + 4999999999) = true := by decide

/-- the loop is there: `findWhile` finds it, its condition is the variable `keep_running` -/
theorem loop_found : ∃ body, findWhile Code.fn_chrony_poller__run_clock_error_bound_poller.body
    = some (.path ["keep_running"], body) := by
  simp [rs_eval, rs_code]

/-- the clock reads and the query of an iteration, as the model's `ReadAction`s, start with `pollerReads` -/
theorem iteration_reads_order (e : IterEnv) (s : PollerState) (coarse : TimeSpec) (reply : ReplyKind) (tReply tGrace : Int)
    (phc : Option PhcCfg) :
    (((pollTrace s coarse reply tReply tGrace phc).map (pollEvValue e)).filterMap readActionOf).take 2 = pollerReads := by
  simp [pollTrace, pollEvValue, readActionOf, evClockRead, evQuery, clockId, pollerReads]

/-- ranges the Rust types force (none is needed above): `refid: u32`, the file's value is any integer
    (out of the `i64` range it does not parse: the model's `PhcFile.read` says panic) -/
def inRange (refid : Option Nat) : Bool :=
  match refid with
  | some r => decide (r < 4294967296)
  | none => true

example : inRange (some 1346912048) = true := by decide

/-- non-vacuity: an input stream that satisfies `inputsAt` for a Tracking reply with a matching PHC whose
    file cannot be read exists (7 inputs) -/
example : ∃ (e : IterEnv) (inp : Nat → Value),
    e.other ≠ "ReplyBody::Tracking" ∧ e.sendRes = okUnit ∧
    inputsAt inp 3 ((pollTrace ⟨100⟩ ⟨5, 6⟩ (.tracking ⟨0, 1, 2, 3, 4, 5, 7⟩) 200 300 (some ⟨7, .unreadable⟩)).map (pollEvInput e))
    ∧ (pollTrace ⟨100⟩ ⟨5, 6⟩ (.tracking ⟨0, 1, 2, 3, 4, 5, 7⟩) 200 300 (some ⟨7, .unreadable⟩)).length = 7 := by
  refine ⟨⟨"/sys/x", 1000000000, "ReplyBody::Null", [], true, okUnit, false, "RecvTimeoutError::Timeout", []⟩, ?_⟩
  refine ⟨fun i => (((pollTrace ⟨100⟩ ⟨5, 6⟩ (.tracking ⟨0, 1, 2, 3, 4, 5, 7⟩) 200 300 (some ⟨7, .unreadable⟩)).map
    (pollEvInput ⟨"/sys/x", 1000000000, "ReplyBody::Null", [], true, okUnit, false, "RecvTimeoutError::Timeout", []⟩))[i - 3]?).getD .unit, ?_⟩
  refine ⟨by decide, rfl, ?_, by decide⟩
  simp [pollTrace, inputsAt, PhcFile.read]

end ClockBound.CodeTiePoller
