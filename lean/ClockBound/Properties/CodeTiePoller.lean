/-
  Translation tie, group `Poller`: the chrony poller thread (clock-bound-d/src/chrony_poller.rs) —
  `run_clock_error_bound_poller` with the REAL `ClockErrorBoundPoller` (`get_tracking`,
  `is_within_grace_period`, resolved through the `impl ChronyOperations` parameter by the value's type),
  `get_phc_error_bound_from_path`, `Default for ClockErrorBoundPoller`, `run`.

  `iteration_eq`: ONE TURN of the loop, found in the function by `Rs.findLoop` (a `while` or a `loop`), started in
  the loop-top state with poller state `s` (`topP`: computed by the interpreter, `Rs/EmbedLoop.lean`), for ALL inputs: the reading `coarse` of
  `clock_gettime_safe(CLOCK_MONOTONIC)`, the outcome `reply` of `blocking_query_uds` (Err / a reply whose
  body is any other variant / Tracking t), the `Instant` readings `tReply`, `tGrace`, the configured PHC
  reference `refid` and the state `file` of its sysfs file (an unreadable one failing at `open` or at
  `read_to_string`), every result of `recv_timeout`, every input stream `inp` that provides these values
  from position `pos` on (`inputsAt`), every fuel `N ≥ 60`.  The events the interpreter appends to its log
  are EXACTLY the model's `pollTrace s coarse reply tReply tGrace phc` (clock read of id 6 =
  CLOCK_MONOTONIC_COARSE, query with request `Tracking`, `Instant` reads, sysfs read with its path, the send
  to `ChannelId::ShmWriter` with the message, the wait with the sleep time), one input is consumed per event,
  the new `last_tracking_data` is `(pollStep ..).1.lastGood`, the loop is over iff the mailbox
  returned `Ok(ThreadAbort)` and otherwise goes on from the top state with the new poller state; where the model's message is `panic`
  (`expect` on an unparsable / out-of-range sysfs value) the thread panics.
  `default_eq` (`Poller.init`), `grace_eq` (`withinGrace`, strict `<` 5 s).
  `iteration_send_fails`: the same iteration with `send` returning `Err`: the thread panics.
  `iteration_clock_fails`: the clock read returns `Err`: nothing is queried or sent, the thread waits.
  `loop_eq`: the WHOLE function `run_clock_error_bound_poller`, for all finite histories `xs ++ [last]` of
  iterations (`IterIn` = the model's `PollIter` + the rest of the environment) in which `recv_timeout` returns
  `Ok(ThreadAbort)` exactly in the last one (unexpected messages, timeouts and errors keep the loop running),
  all input streams that provide the inputs these iterations consume (`pollRunInputs`), every fuel
  `≥ xs.length + 75`: the log is the concatenation of the `pollTrace`s threaded through `PollIter.step`
  (`pollRun`), it returns `()`; a `panic` message of the model anywhere is a panic.  `loop_send_fails`: a
  history whose last iteration's send fails panics.  `run_eq`: the thread's entry point `run` =
  `default` (one `Instant` read, `Poller.init`), a sleep of 1000 ms, and that loop.
-/
import ClockBound.Proofs.RsPollerAll
import ClockBound.Proofs.RsPollerDefault
import ClockBound.Proofs.RsPollerLoop
namespace ClockBound.CodeTiePoller
open ClockBound ClockBound.Rs ClockBound.Generated ClockBound.Rs.DictPoller

/-- the context of the group: generated tables, dictionary, Linux `use` imports (`CodeTieNow.clock_ids_eq`) -/
abbrev ctxP (nowNs : Int) (inp : Nat → Value) : Ctx :=
  Code.ctxWith nowNs (DictPoller.ext (linuxUses Code.consts)) [] inp

/-- frame of `run_clock_error_bound_poller` (module, no `Self`, return type) -/
abbrev frP : Frame := ⟨"chrony_poller", "", "()"⟩

/-- `phc_info` with the state of its file during this iteration (`PollIter.phc` of the model) -/
abbrev phcOf (refid : Option Nat) (file : PhcFile) : Option PhcCfg := refid.map fun r => ⟨r, file⟩

/-- the state at the top of the loop of `run_clock_error_bound_poller` (however the loop is written), with poller
    state `s`, event log `log` and `pos` inputs consumed: computed by the interpreter from the arguments and the
    statements `pre` before the loop (`Rs.topSt`) -/
abbrev topP (nowNs : Int) (inp : Nat → Value) (pre : List Stmt) (e : IterEnv) (s : PollerState) (refid : Option Nat)
    (log : List Value) (pos : Nat) : St :=
  topSt (ctxP nowNs inp) Code.fn_chrony_poller__run_clock_error_bound_poller (pollerArgs e s refid) pre log pos

/-- ONE TURN of the loop (`Rs.findLoop`: a `while` or a `loop`, whatever precedes it), see the header: panic where
    the model's message is `panic`; else the loop is over (`done`) when `recv_timeout` returned `Ok(ThreadAbort)`, and
    otherwise goes on (`next`) from the top state with the model's new poller state — in both cases with the events
    of `pollTrace` appended to the log and one input consumed per event -/
theorem iteration_eq (e : IterEnv) (s : PollerState) (coarse : TimeSpec) (reply : ReplyKind) (tReply tGrace : Int)
    (refid : Option Nat) (file : PhcFile) (nowNs : Int) (inp : Nat → Value) (log : List Value) (pos : Nat)
    (pre : List Stmt) (c : Expr) (body : List Stmt)
    (hfl : findLoop Code.fn_chrony_poller__run_clock_error_bound_poller.body = some (pre, c, body))
    (hother : e.other ≠ "ReplyBody::Tracking") (hsend : e.sendRes = okUnit)
    (hin : inputsAt inp pos ((pollTrace s coarse reply tReply tGrace (phcOf refid file)).map (pollEvInput e)))
    (K : Nat) (hK : 60 ≤ K) :
    turnIs (ctxP nowNs inp) frP c body K
      (evalWhile (K + 2) (ctxP nowNs inp) frP c body (topP nowNs inp pre e s refid log pos))
      (if (pollStep s coarse reply tReply tGrace (phcOf refid file)).2 = .panic then .panic
       else if e.isAbort = true then
         .done (log ++ (pollTrace s coarse reply tReply tGrace (phcOf refid file)).map (pollEvValue e))
           (pos + (pollTrace s coarse reply tReply tGrace (phcOf refid file)).length)
       else .next (topP nowNs inp pre e (pollStep s coarse reply tReply tGrace (phcOf refid file)).1 refid
          (log ++ (pollTrace s coarse reply tReply tGrace (phcOf refid file)).map (pollEvValue e))
          (pos + (pollTrace s coarse reply tReply tGrace (phcOf refid file)).length))) :=
  PollerProof.iteration e s coarse reply tReply tGrace refid file nowNs inp log pos pre c body hfl hother hsend hin K hK

/-- `impl Default for ClockErrorBoundPoller` = the model's `Poller.init`: `Instant::now()` (the input `tStart`,
    logged) minus the 5 s of `CHRONY_RESTART_GRACE_PERIOD`; the `unwrap` panics exactly when `checked_sub` leaves
    the range of an `Instant` (`DictPoller.instantLo`) -/
theorem default_eq (tStart nowNs : Int) (inp : Nat → Value) (h0 : inp 0 = instant tStart) :
    run (ctxP nowNs inp) "Default for ClockErrorBoundPoller::default" .unit []
    = if instantLo ≤ tStart - GRACE_NS then
        .ok (pollerValue (Poller.init tStart)) .unit [evInstantNow (instant tStart)]
      else .panic :=
  PollerProof.default_tie tStart nowNs inp h0

/-- `is_within_grace_period` = the model's `withinGrace` (strict `<` 5 s on the saturating `elapsed()`),
    `tGrace` = the reading of the monotonic clock inside `elapsed()` (one input, logged); `self` is unchanged -/
theorem grace_eq (s : PollerState) (tGrace nowNs : Int) (inp : Nat → Value) (h0 : inp 0 = instant tGrace) :
    run (ctxP nowNs inp) "ChronyOperations for ClockErrorBoundPoller::is_within_grace_period" (pollerValue s) []
    = .ok (.bool (s.withinGrace tGrace)) (pollerValue s) [evInstantNow (instant tGrace)] :=
  PollerProof.grace_tie s tGrace nowNs inp h0

/-- the boundary is strict: exactly 5 s after the last good reply the poller is NOT within grace -/
example : (PollerState.mk 1000).withinGrace (1000 + 5000000000) = false ∧
    (PollerState.mk 1000).withinGrace (1000 + 4999999999) = true := by decide

/-- a failed send (`Err(_)`: the ShmWriter's end of the channel is gone) panics ("Broken channel to ShmWriter"),
    whatever the turn was -/
theorem iteration_send_fails (e : IterEnv) (s : PollerState) (coarse : TimeSpec) (reply : ReplyKind) (tReply tGrace : Int)
    (refid : Option Nat) (file : PhcFile) (x : Value) (nowNs : Int) (inp : Nat → Value) (log : List Value) (pos : Nat)
    (pre : List Stmt) (c : Expr) (body : List Stmt)
    (hfl : findLoop Code.fn_chrony_poller__run_clock_error_bound_poller.body = some (pre, c, body))
    (hother : e.other ≠ "ReplyBody::Tracking") (hsend : e.sendRes = .enumv "Err" [x])
    (hin : inputsAt inp pos ((pollTrace s coarse reply tReply tGrace (phcOf refid file)).map (pollEvInput e)))
    (K : Nat) (hK : 60 ≤ K) :
    evalWhile (K + 2) (ctxP nowNs inp) frP c body (topP nowNs inp pre e s refid log pos) = .panic :=
  PollerProof.send_fails e s coarse reply tReply tGrace refid file x nowNs inp log pos pre c body hfl hother hsend hin K hK

/-- a failed read of the monotonic clock: logged, chronyd is not asked, NOTHING is sent, the poller state is
    unchanged, the thread waits on its mailbox as in every turn -/
theorem iteration_clock_fails (e : IterEnv) (s : PollerState) (refid : Option Nat) (x : Value) (nowNs : Int)
    (inp : Nat → Value) (log : List Value) (pos : Nat) (pre : List Stmt) (c : Expr) (body : List Stmt)
    (hfl : findLoop Code.fn_chrony_poller__run_clock_error_bound_poller.body = some (pre, c, body))
    (hin : inputsAt inp pos [.enumv "Err" [x], e.recvRes]) (K : Nat) (hK : 60 ≤ K) :
    turnIs (ctxP nowNs inp) frP c body K
      (evalWhile (K + 2) (ctxP nowNs inp) frP c body (topP nowNs inp pre e s refid log pos))
      (if e.isAbort = true then
         .done (log ++ [evClockRead (clockId 6) (.enumv "Err" [x]), evWait (.duration e.sleepNs)]) (pos + 2)
       else .next (topP nowNs inp pre e s refid
         (log ++ [evClockRead (clockId 6) (.enumv "Err" [x]), evWait (.duration e.sleepNs)]) (pos + 2))) :=
  PollerProof.clock_fails e s refid x nowNs inp log pos pre c body hfl hin K hK

/-- the whole loop: see the header.  `e0` carries the sysfs path and the sleep time of the run -/
theorem loop_eq (nowNs : Int) (inp : Nat → Value) (refid : Option Nat) (e0 : IterEnv) (last : IterIn)
    (hlast : last.ok e0) (habort : last.env.isAbort = true) (xs : List IterIn)
    (hxs : ∀ x ∈ xs, x.ok e0 ∧ x.env.isAbort = false) (s : PollerState)
    (hin : inputsAt inp 0 (pollRunInputs refid s (xs ++ [last]))) (F : Nat) (hF : xs.length + 75 ≤ F) :
    runFuel F (ctxP nowNs inp) "chrony_poller::run_clock_error_bound_poller" .unit
      [contextValue "ChannelId::ClockErrorBoundPoller", pollerValue s, optPhcValue e0.path refid, .duration e0.sleepNs]
    = match pollRun refid s (xs ++ [last]) with
      | none => .panic
      | some (_, l) => .ok .unit .unit l :=
  PollerProof.poller_run nowNs inp refid e0 last hlast habort xs hxs s hin F hF

/-- a history that ends with a failed send (instead of a ThreadAbort) panics -/
theorem loop_send_fails (nowNs : Int) (inp : Nat → Value) (refid : Option Nat) (e0 : IterEnv) (bad : IterIn)
    (hb1 : bad.env.path = e0.path) (hb2 : bad.env.sleepNs = e0.sleepNs)
    (hb3 : bad.env.other ≠ "ReplyBody::Tracking") (v : Value) (hb4 : bad.env.sendRes = .enumv "Err" [v])
    (xs : List IterIn) (hxs : ∀ x ∈ xs, x.ok e0 ∧ x.env.isAbort = false) (s : PollerState)
    (hin : inputsAt inp 0 (pollRunInputs refid s (xs ++ [bad]))) (F : Nat) (hF : xs.length + 75 ≤ F) :
    runFuel F (ctxP nowNs inp) "chrony_poller::run_clock_error_bound_poller" .unit
      [contextValue "ChannelId::ClockErrorBoundPoller", pollerValue s, optPhcValue e0.path refid, .duration e0.sleepNs]
    = .panic :=
  PollerProof.poller_run_fail nowNs inp refid e0 bad hb1 hb2 hb3 v hb4 xs hxs s hin F hF

/-- `pollRun` panics exactly when the model's `Poller.runFrom` lists a `panic` message (both thread
    `PollIter.step` through the iterations) -/
theorem pollRun_panics_iff (refid : Option Nat) (s : PollerState) (xs : List IterIn) :
    pollRun refid s xs = none ↔ PollMsg.panic ∈ Poller.runFrom refid s (xs.map IterIn.it) :=
  pollRun_none_iff_runFrom_panics refid s xs

/-- the thread's entry point `chrony_poller::run(ctx, phc_info)`: `ClockErrorBoundPoller::default()` reads the
    `Instant` `tStart` (input 0; in the range where `checked_sub` succeeds), the sleep time is
    `Duration::from_millis(1000)`, then the loop from `Poller.init tStart` -/
theorem run_eq (nowNs : Int) (inp : Nat → Value) (refid : Option Nat) (e0 : IterEnv)
    (hsleep : e0.sleepNs = 1000000000) (last : IterIn)
    (hlast : last.ok e0) (habort : last.env.isAbort = true) (xs : List IterIn)
    (hxs : ∀ x ∈ xs, x.ok e0 ∧ x.env.isAbort = false) (tStart : Int) (ht : instantLo ≤ tStart - GRACE_NS)
    (h0 : inp 0 = instant tStart)
    (hin : inputsAt inp 1 (pollRunInputs refid (Poller.init tStart) (xs ++ [last]))) (F : Nat)
    (hF : xs.length + 85 ≤ F) :
    runFuel F (ctxP nowNs inp) "chrony_poller::run" .unit
      [contextValue "ChannelId::ClockErrorBoundPoller", optPhcValue e0.path refid]
    = match pollRun refid (Poller.init tStart) (xs ++ [last]) with
      | none => .panic
      | some (_, l) => .ok .unit .unit (evInstantNow (instant tStart) :: l) :=
  PollerProof.entry_run nowNs inp refid e0 hsleep last hlast habort xs hxs tStart ht h0 hin F hF

/-- non-vacuity of `loop_eq`: a two-iteration history (silence with an unexpected message in the mailbox, then a
    Tracking reply and `ThreadAbort`) satisfies the side conditions, does not panic and consumes 5 + 5 inputs -/
example :
    let e1 : IterEnv := ⟨"/sys/x", 1000000000, "ReplyBody::Null", [], true, okUnit, true, "Message::ChronyNotResponding", []⟩
    let e2 : IterEnv := ⟨"/sys/x", 1000000000, "ReplyBody::Null", [], true, okUnit, true, "Message::ThreadAbort", []⟩
    let xs : List IterIn := [⟨⟨⟨5, 6⟩, .none, 0, 7000000000, .unreadable⟩, e1⟩]
    let last : IterIn := ⟨⟨⟨6, 6⟩, .tracking ⟨0, 1, 2, 3, 4, 5, 7⟩, 8000000000, 0, .unreadable⟩, e2⟩
    (pollRun none ⟨0⟩ (xs ++ [last])).isSome = true ∧ (pollRunInputs none ⟨0⟩ (xs ++ [last])).length = 10 ∧
    e1.isAbort = false ∧ e2.isAbort = true := by
  decide

/-- the loop is there: `findLoop` finds it -/
theorem loop_found : ∃ pre c body, findLoop Code.fn_chrony_poller__run_clock_error_bound_poller.body
    = some (pre, c, body) := by
  simp [rs_eval, rs_code]

/-- the clock reads and the query of an iteration, as the model's `ReadAction`s, start with `pollerReads` -/
theorem iteration_reads_order (e : IterEnv) (s : PollerState) (coarse : TimeSpec) (reply : ReplyKind) (tReply tGrace : Int)
    (phc : Option PhcCfg) :
    (((pollTrace s coarse reply tReply tGrace phc).map (pollEvValue e)).filterMap readActionOf).take 2 = pollerReads := by
  simp [pollTrace, pollEvValue, readActionOf, evClockRead, evQuery, clockId, pollerReads]

/-- ranges the Rust types force (none is needed above): `refid: u32`, the file's value is any integer
    (out of the `i64` range it does not parse: the model's `PhcFile.read` says panic) -/
def inRange (refid : Option Nat) : Bool :=
  match refid with
  | some r => decide (r < 4294967296)
  | none => true

example : inRange (some 1346912048) = true := by decide

/-- non-vacuity: an input stream that satisfies `inputsAt` for a Tracking reply with a matching PHC whose
    file cannot be read exists (7 inputs) -/
example : ∃ (e : IterEnv) (inp : Nat → Value),
    e.other ≠ "ReplyBody::Tracking" ∧ e.sendRes = okUnit ∧
    inputsAt inp 3 ((pollTrace ⟨100⟩ ⟨5, 6⟩ (.tracking ⟨0, 1, 2, 3, 4, 5, 7⟩) 200 300 (some ⟨7, .unreadable⟩)).map (pollEvInput e))
    ∧ (pollTrace ⟨100⟩ ⟨5, 6⟩ (.tracking ⟨0, 1, 2, 3, 4, 5, 7⟩) 200 300 (some ⟨7, .unreadable⟩)).length = 7 := by
  refine ⟨⟨"/sys/x", 1000000000, "ReplyBody::Null", [], true, okUnit, false, "RecvTimeoutError::Timeout", []⟩, ?_⟩
  refine ⟨fun i => (((pollTrace ⟨100⟩ ⟨5, 6⟩ (.tracking ⟨0, 1, 2, 3, 4, 5, 7⟩) 200 300 (some ⟨7, .unreadable⟩)).map
    (pollEvInput ⟨"/sys/x", 1000000000, "ReplyBody::Null", [], true, okUnit, false, "RecvTimeoutError::Timeout", []⟩))[i - 3]?).getD .unit, ?_⟩
  refine ⟨by decide, rfl, ?_, by decide⟩
  simp [pollTrace, inputsAt, PhcFile.read]

end ClockBound.CodeTiePoller
