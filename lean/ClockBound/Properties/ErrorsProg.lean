/-
  The closed forms of `Model/ErrorsProg.lean` ARE the existing model functions of `Model/Header.lean`
  (`ShmErr.toClient`, `ErrKind.code`) and `Model/Client.lean` (`Outcome`): statements with their (short)
  proofs.  `Properties/CodeTieErrors.lean` ties the regenerated Rust code to the closed forms.
-/
import ClockBound.Model.ErrorsProg
namespace ClockBound.ErrorsProg
open ClockBound

/-- the conversion on the full enum extends `ShmErr.toClient`: on every error `ShmReader::new` can
    return, the full conversion of the embedded error is the embedding of `ShmErr.toClient` -/
theorem toClient_full (e : ShmErr) : e.full.toClient = e.toClient.full := by
  cases e <;> rfl

/-- the embedding loses nothing: kind and errno are kept, and the detail text is the origin's text -/
theorem full_kind (e : ShmErr) : e.full.toClient.kind = e.toClient.kind ∧
    e.full.toClient.errno = (e.toClient.errno : Int) ∧
    e.full.toClient.detail = e.toClient.detail.map Origin.text := by
  cases e <;> exact ⟨rfl, rfl, rfl⟩

/-- the conversion never reports "no error", reports errno 0 and no detail unless a system call failed,
    and is injective (the client error determines the `ShmError`) -/
theorem toClient_kind_ne_none (e : ShmErrorV) : e.toClient.kind ≠ .none := by
  cases e <;> exact fun h => ErrKind.noConfusion h

theorem toClient_errno (e : ShmErrorV) :
    (e.toClient.kind ≠ .syscall → e.toClient.errno = 0 ∧ e.toClient.detail = none) := by
  cases e <;> simp [ShmErrorV.toClient]

theorem toClient_injective (a b : ShmErrorV) (h : a.toClient = b.toClient) : a = b := by
  cases a <;> cases b <;> simp_all [ShmErrorV.toClient]

/-- `clientNow` is "the first error, converted": the Rust client (which converts at each `return Err(..)`)
    and the C client (which stores `e.into()`) differ only in WHERE the same conversion is applied -/
theorem clientNow_eq_firstErr (snap : Except ShmErrorV Record) (bound : Except ShmErrorV Bound) :
    clientNow snap bound = (match firstErr snap bound with
                            | .error e => .error e.toClient
                            | .ok b => .ok b) := by
  cases snap <;> cases bound <;> rfl

/-- with the model of `compute_bound_at`: when the snapshot is `r` and `ClockErrorBound::now` returns what
    `computeBoundAt r real mono` says, the clients report an interval exactly when the model does, the
    malformed / causality kinds exactly when the model does -/
theorem clientNow_outcome (r : Record) (real mono : TimeSpec) (b : Except ShmErrorV Bound)
    (h : boundOfOutcome (computeBoundAt r real mono) = some b) :
    clientNow (.ok r) b =
      (match computeBoundAt r real mono with
       | .ok e l s => .ok (e, l, s)
       | .malformed => .error ⟨.malformed, 0, none⟩
       | .causality => .error ⟨.causality, 0, none⟩
       | .panic => clientNow (.ok r) b) := by
  cases hc : computeBoundAt r real mono <;> rw [hc] at h <;> simp [boundOfOutcome] at h <;> subst h <;> rfl

/-- `clientOpen` on the errors of `readerOpen` (`Model/Header.lean`) is `ShmErr.toClient`, embedded -/
theorem clientOpen_readerOpen (st : FileState) :
    clientOpen ((readerOpen st).mapError ShmErr.full) = (readerOpen st).mapError (fun e => e.toClient.full) := by
  cases readerOpen st <;> simp [clientOpen, Except.mapError, toClient_full]

/-- non-vacuity -/
example : (ShmErr.sys ENOENT .open_).full.toClient = ⟨.syscall, 2, some "open"⟩ := by decide
example : (ShmErrorV.sys 2 "open").inRange := by decide
example : ¬ (ShmErrorV.sys 4294967296 "open").inRange := by decide

end ClockBound.ErrorsProg
