/-
  Source tie by translation (part Poller): constants the hand-written model hard-codes, regenerated from
  /repo's working tree on every run by tools/translate_consts.py, agree with the model.
  Closed by evaluation; a changed constant in the source makes the theorem fail to build.
-/
import ClockBound.Generated.Consts
import ClockBound.Model.Driver
namespace ClockBound.ConstsAgree
open ClockBound ClockBound.Generated.Consts

/-- chrony_poller.rs: the poller's grace period (ns) -/
theorem poller_grace : pollerGraceSec * 1000000000 = 5000000000 := by decide

end ClockBound.ConstsAgree
