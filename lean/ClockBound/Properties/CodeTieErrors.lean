/-
  Translation tie, group `Errors`: the two client libraries — clock-bound-client/src/lib.rs (Rust) and
  clock-bound-ffi/src/lib.rs (the C API) — error conversions, `now`, `open`, `close`.  (C14, C16, C17)

  Every statement is about the AST the translator regenerated from the working tree, run by the interpreter
  (`Rs/Interp.lean`) in the context `ctxE inp` (`Proofs/RsErrors.lean`):
  * all generated tables (`Code.structs`, `Code.enums`, `Code.enumDiscr`, constants);
  * the function table restricted to the functions translated from the two client files (`clientFns`:
    whatever functions these files contain — a helper function added there is found, nothing is named);
  * the dictionary `DictErrors.ext` (`Rs/DictErrors.lean`, trusted): the calls INTO clock-bound-shm
    (`ShmReader::new`, `ShmReader::snapshot`, `ClockErrorBound::now`) are the environment — each consumes ONE
    input (the `Result` it returns) and logs ONE event (callee, argument, result); raw pointers, `Box`,
    `CStr`/`CString`, `Errno` are objects of the dictionary;
  * the input stream `inp`: universally quantified; the hypotheses `inp k = <embedding of a model value>` say
    that the k-th call into clock-bound-shm returned a well-typed value of its return type, nothing else.

  Model side: `Model/ErrorsProg.lean` (`ShmErrorV.toClient`, `clientNow`, `clientOpen`), which
  `Properties/ErrorsProg.lean` proves to be `ShmErr.toClient` of `Model/Header.lean` on every value of `ShmErr`
  (`toClient_full`), with `ErrKind.code` the numbering of the kinds.

  `x.into()` and `Default::default()` are resolved by Rust's type checker from the type of their destination.  Where
  the destination is a field of a struct of the generated tables (`ctx.err = e.into()`, `clock_status: status.into()`,
  `err: Default::default()`) the interpreter resolves them the same way, from the declared field type (core rule
  `typedInit`), so the `From` / `Default` impl of the source is what runs.  The one place without such a type is
  `err.write(e.into())` in `clockbound_open` (a raw out-pointer): there the dictionary keeps `intoValue e`;
  `into_destinations` checks the declared pointee type and `ffi_from_eq_all` says what the conversion computes.
-/
import ClockBound.Proofs.RsErrorsFrom
import ClockBound.Proofs.RsErrorsMisc
import ClockBound.Proofs.RsErrorsNowRust
import ClockBound.Proofs.RsErrorsNowFfi
import ClockBound.Proofs.RsErrorsOpen
import ClockBound.Proofs.RsErrorsNew
import ClockBound.Properties.ErrorsProg
import ClockBound.Properties.CodeTieErrorsTables
set_option linter.unusedSimpArgs false
namespace ClockBound.CodeTieErrors
open ClockBound ClockBound.Rs ClockBound.Generated ClockBound.Rs.DictErrors ClockBound.Rs.EmbedErrors
open ClockBound.Rs.ErrorsProof

/-! ## 1. error conversions -/

/-- `impl From<ShmError> for ClockBoundError` (Rust client) on EVERY `ShmError` value — any errno, any
    origin string, all four variants — is `ShmErrorV.toClient`: kind, errno (0 unless a system call failed),
    detail (the origin text; the empty string otherwise).  Nothing is logged, no input is consumed. -/
theorem client_from_eq_all (inp : Nat → Value) (e : ShmErrorV) :
    run (ctxE inp) "From<ShmError> for ClockBoundError::from" .unit [shmErrorValue e]
    = .ok (clientErrValue e.toClient) .unit [] :=
  client_from inp e

/-- in terms of `Model/Header.lean`: on every error of `ShmErr`, the result is `ShmErr.toClient` -/
theorem client_from_eq (inp : Nat → Value) (e : ShmErr) :
    run (ctxE inp) "From<ShmError> for ClockBoundError::from" .unit [shmErrorValue e.full]
    = .ok (clientErrValue e.toClient.full) .unit [] := by
  rw [← ErrorsProg.toClient_full]; exact client_from inp e.full

/-- `impl From<ShmError> for clockbound_err` (C API): the same function `toClient`; the kind is the variant
    of `clockbound_err_kind`, `errno` an `i32`, `detail` the pointer to the origin string or NULL -/
theorem ffi_from_eq_all (inp : Nat → Value) (e : ShmErrorV) :
    run (ctxE inp) "From<ShmError> for clockbound_err::from" .unit [shmErrorValue e]
    = .ok (ffiErrValue e.toClient) .unit [] :=
  ffi_from inp e

theorem ffi_from_eq (inp : Nat → Value) (e : ShmErr) :
    run (ctxE inp) "From<ShmError> for clockbound_err::from" .unit [shmErrorValue e.full]
    = .ok (ffiErrValue e.toClient.full) .unit [] := by
  rw [← ErrorsProg.toClient_full]; exact ffi_from inp e.full

/-- `impl From<ClockStatus> for clockbound_clock_status`: the variant of the same name, whose discriminant
    is `Status.code` -/
theorem ffi_status_from_eq (inp : Nat → Value) (s : Status) :
    run (ctxE inp) "From<ClockStatus> for clockbound_clock_status::from" .unit [statusValue s]
    = .ok (ffiStatusValue s) .unit [] :=
  ffi_status_from inp s
-- (`ffi_status_table`, `ffi_kind_table`, `ffi_kind_code`, `client_kind_table`, `shm_error_table`,
--  `into_destinations`: in `Properties/CodeTieErrorsTables.lean`, same namespace)

/-- `impl Default for clockbound_err`: kind NONE, errno 0, detail NULL -/
theorem ffi_default_eq (inp : Nat → Value) :
    run (ctxE inp) "Default for clockbound_err::default" .unit []
    = .ok (ffiErrValue ⟨.none, 0, none⟩) .unit [] :=
  ffi_default inp

/-! ## 2. `now()`: the C client and the Rust client are the same function of what clock-bound-shm returns -/

/-- `ClockBoundClient::now`: for ALL results `snap` of `reader.snapshot()` and `bound` of `snapshot.now()`
    (second input; read only if there is a snapshot): the result is `clientNow snap bound` — the first error,
    converted by `toClient`, else the interval with the timestamps as `TimeSpec` and the status unchanged —,
    the calls made are `nowCalls` (snapshot, then now on the record it returned), the client is unchanged. -/
theorem rust_now_eq (inp : Nat → Value) (h : Value) (snap : Except ShmErrorV Record) (bound : Except ShmErrorV Bound)
    (h0 : inp 0 = snapResValue snap) (h1 : inp 1 = boundResValue bound) :
    run (ctxE inp) "ClockBoundClient::now" (clientValue h) []
    = rustNowOutcome h (nowCalls h snap bound) (clientNow snap bound) :=
  rust_now inp h snap bound h0 h1

/-- `clockbound_now(ctx, output)` on a valid context (whatever its `err` field holds) and a valid output
    pointer: the SAME calls `nowCalls` and the SAME model value `clientNow snap bound`: on success one write of
    `{earliest, latest, clockbound_clock_status::from(status)}` through `output` and NULL is returned; on the first
    error `e`, `ctx.err = clockbound_err::from(e)` and `&ctx.err` — the converted error `toClient e` — is returned. -/
theorem ffi_now_eq (inp : Nat → Value) (h err : Value) (snap : Except ShmErrorV Record) (bound : Except ShmErrorV Bound)
    (h0 : inp 0 = snapResValue snap) (h1 : inp 1 = boundResValue bound) :
    run (ctxE inp) "ffi_lib::clockbound_now" .unit [heapPtr (ctxValue err h), outPtr "output"]
    = ffiNowOutcome (nowCalls h snap bound) (clientNow snap bound) :=
  ffi_now inp h err snap bound h0 h1

/-- the two clients, side by side: same calls into clock-bound-shm, and outcomes that are the two
    embeddings of ONE model value, `clientNow snap bound` -/
theorem now_agree (inp : Nat → Value) (h err : Value) (snap : Except ShmErrorV Record) (bound : Except ShmErrorV Bound)
    (h0 : inp 0 = snapResValue snap) (h1 : inp 1 = boundResValue bound) :
    ∃ calls, calls = nowCalls h snap bound ∧
      run (ctxE inp) "ClockBoundClient::now" (clientValue h) [] = rustNowOutcome h calls (clientNow snap bound) ∧
      run (ctxE inp) "ffi_lib::clockbound_now" .unit [heapPtr (ctxValue err h), outPtr "output"]
        = ffiNowOutcome calls (clientNow snap bound) :=
  ⟨_, rfl, rust_now inp h snap bound h0 h1, ffi_now inp h err snap bound h0 h1⟩

/-- a NULL context is dereferenced (`&mut *ctx`): no defined behaviour, the interpreter has no rule -/
theorem ffi_now_null_stuck (inp : Nat → Value) :
    (run (ctxE inp) "ffi_lib::clockbound_now" .unit [nullPtr, outPtr "output"]).isStuck = true :=
  ffi_now_null inp

/-! ## 3. `open()` / `close()` -/

/-- `ClockBoundClient::new_with_path(path)` for a path without NUL character: exactly one call
    `ShmReader::new` on the path as a C string; `clientOpen`: the client holding the reader, or the error
    converted by `toClient` -/
theorem rust_open_eq (inp : Nat → Value) (path : String) (res : Except ShmErrorV Value)
    (hs : path.contains (Char.ofNat 0) = false) (h0 : inp 0 = openResValue res) :
    run (ctxE inp) "ClockBoundClient::new_with_path" .unit [.str path] = rustOpenOutcome path res :=
  rust_open inp path res hs h0

/-- a path with a NUL character: `CString::new(..).expect(..)` panics, before anything is opened -/
theorem rust_open_nul_panics (inp : Nat → Value) (path : String) (hs : path.contains (Char.ofNat 0) = true) :
    run (ctxE inp) "ClockBoundClient::new_with_path" .unit [.str path] = .panic :=
  rust_open_nul inp path hs

/-- `ClockBoundClient::new()` is `new_with_path` on the constant `CLOCKBOUND_SHM_DEFAULT_PATH` -/
theorem rust_new_eq (inp : Nat → Value) (res : Except ShmErrorV Value) (h0 : inp 0 = openResValue res) :
    run (ctxE inp) "ClockBoundClient::new" .unit [] = rustOpenOutcome defaultPath res :=
  rust_new inp res h0

example : defaultPath = "/var/run/clockbound/shm" ∧ defaultPath.contains (Char.ofNat 0) = false := by
  refine ⟨rfl, ?_⟩; simp [defaultPath]

/-- `clockbound_open(shm_path, err)` for a valid `shm_path` (any bytes `path`) and `err` NULL or valid: the
    SAME single call `ShmReader::new`; on success a new context `{ err: Default::default(), reader }` on the
    heap; on an error NULL, the error written through `err` as `e.into()` iff `err` is not NULL -/
theorem ffi_open_eq (inp : Nat → Value) (path : Value) (errNull : Bool) (res : Except ShmErrorV Value)
    (h0 : inp 0 = openResValue res) :
    run (ctxE inp) "ffi_lib::clockbound_open" .unit [cptr path, errArg errNull] = ffiOpenOutcome path errNull res :=
  ffi_open inp path errNull res h0

/-- both `open`s are `ShmReader::new` + `clientOpen` (for a text path, as the Rust client takes) -/
theorem open_agree (inp : Nat → Value) (path : String) (res : Except ShmErrorV Value)
    (hs : path.contains (Char.ofNat 0) = false) (h0 : inp 0 = openResValue res) :
    run (ctxE inp) "ClockBoundClient::new_with_path" .unit [.str path] = rustOpenOutcome path res ∧
    run (ctxE inp) "ffi_lib::clockbound_open" .unit [cptr (.str path), errArg false]
      = ffiOpenOutcome (.str path) false res :=
  ⟨rust_open inp path res hs h0, ffi_open inp (.str path) false res h0⟩

/-- a NULL `shm_path` is handed to `CStr::from_ptr`: no defined behaviour, no rule -/
theorem ffi_open_null_path_stuck (inp : Nat → Value) (errNull : Bool) :
    (run (ctxE inp) "ffi_lib::clockbound_open" .unit [nullPtr, errArg errNull]).isStuck = true :=
  ffi_open_null_path inp errNull

/-- `clockbound_close(ctx)` on a valid context: exactly one event — the context (with its `ShmReader`) is
    dropped — and NULL is returned; no input is consumed -/
theorem ffi_close_eq (inp : Nat → Value) (c : Value) :
    run (ctxE inp) "ffi_lib::clockbound_close" .unit [heapPtr c] = .ok nullPtr .unit [evDrop c] :=
  ffi_close inp c

/-- closing a NULL context (`Box::from_raw(NULL)`): no defined behaviour, no rule -/
theorem ffi_close_null_stuck (inp : Nat → Value) :
    (run (ctxE inp) "ffi_lib::clockbound_close" .unit [nullPtr]).isStuck = true :=
  ffi_close_null inp

/-! ## non-vacuity -/

/-- the value ranges the Rust types force: the errno is an `i32` (decidable; the theorems above do not need
    it: the conversions only move the errno) -/
def inRange (e : ShmErrorV) : Prop := e.inRange
instance : Decidable (inRange e) := by unfold inRange; infer_instance
example : inRange (.sys 2 "open") ∧ inRange .causality ∧ ¬ inRange (.sys 2147483648 "mmap SHM segment") := by decide

/-- the restricted function table is not empty: it has the functions the theorems are about -/
example : (clientFns.map (·.1)).contains "ffi_lib::clockbound_now" = true ∧
    (clientFns.map (·.1)).contains "ClockBoundClient::now" = true ∧
    (clientFns.map (·.1)).contains "ShmReader::snapshot" = false := by
  simp [clientFns, rs_code]

/-- hypotheses are satisfiable and the outcomes are what one expects, on an instance: ENOENT on open -/
example : (ShmErrorV.sys 2 "open").toClient = ⟨.syscall, 2, some "open"⟩ ∧
    ffiErrValue (ShmErrorV.sys 2 "open").toClient =
      .struct "clockbound_err" [("detail", cptr (.str "open")), ("errno", .int .i32 2),
        ("kind", .enumv "clockbound_err_kind::CLOCKBOUND_ERR_SYSCALL" [])] := by
  constructor <;> rfl

/-- an input stream satisfying the hypotheses of `rust_now_eq` / `ffi_now_eq` exists for every pair of results -/
example (snap : Except ShmErrorV Record) (bound : Except ShmErrorV Bound) :
    ∃ inp : Nat → Value, inp 0 = snapResValue snap ∧ inp 1 = boundResValue bound :=
  ⟨fun k => if k = 0 then snapResValue snap else boundResValue bound, rfl, rfl⟩

/-- without the dictionary the C API is stuck at its first pointer operation: the rules are what gives the
    raw-pointer plumbing a meaning -/
example : (run ({ ctxE (fun _ => .unit) with ext := Ext.none }) "ffi_lib::clockbound_close" .unit
    [heapPtr .unit]).isStuck = true := by
  simp [rs_eval, rs_code, clientFns, Outcome.isStuck, ctxE]

end ClockBound.CodeTieErrors
