/-
  Source tie by translation (part Classify): constants the hand-written model hard-codes, regenerated from
  /repo's working tree on every run by tools/translate_consts.py, agree with the model.
  Closed by evaluation; a changed constant in the source makes the theorem fail to build.
-/
import ClockBound.Generated.Consts
import ClockBound.Model.Driver
namespace ClockBound.ConstsAgree
open ClockBound ClockBound.Generated.Consts

theorem stale_intervals : staleIntervals = 8 := by decide

/-- lib.rs: leap status classes -/
theorem leap_classes : leapClass leapSyncMax = .synchronized ∧ leapClass (leapSyncMax + 1) = .freeRunning ∧
    leapFreeRunning = leapSyncMax + 1 ∧ leapClass (leapFreeRunning + 1) = .unknown := by decide

end ClockBound.ConstsAgree
