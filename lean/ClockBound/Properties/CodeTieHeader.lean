/-
  Translation tie, group `Shm`, part 2: the header checks of clock-bound-shm —
  `ShmHeader::is_valid` (with `matches_magic`, `has_valid_version`, `is_initialized`, `is_well_formed` inlined),
  `ShmHeader::read`, `ShmReader::new` (with `FdGuard::new`, `MmapGuard::new`), `ShmWriter::segment_size`.

  The AST regenerated from shm_header.rs / reader.rs / writer.rs, run with the dictionary `Rs/DictShm.lean`
  (parts B and C: a private header copy, the system calls of the open path), decides exactly as
  `readHeader` / `readerOpenLim` of `Model/Header.lean` (through the closed forms of `Model/HeaderProg.lean`,
  `Properties/HeaderProg.lean`): same order of checks (magic → version → generation → size), same error
  kinds, same origins of the system-call errors.  The sizes 16 and 56 (`EmbedShm.sizes`) are inputs: they are
  tied to the `#[repr(C)]` layout by `Properties/C17.lean` (`rust_header_layout`, `rust_record_layout`).
-/
import ClockBound.Proofs.RsReaderNew
import ClockBound.Properties.HeaderProg
namespace ClockBound.CodeTieHeader
open ClockBound ClockBound.Rs ClockBound.Generated ClockBound.Rs.DictShm ClockBound.Rs.EmbedShm

/-- the interpreter's context: generated tables, the dictionary, the two struct sizes, an input stream -/
abbrev ctx (inp : Nat → Value) : Ctx := Code.ctxWith 0 DictShm.ext EmbedShm.sizes inp

/-- the value ranges the Rust types force on the header fields (`u32`, `u32`, `u32`, `u16`, `u16`) -/
example : Header.inRange ⟨MAGIC0, MAGIC1, 72, 1, 2⟩ := by decide

/-- `ShmHeader::is_valid(&self)` on a header with the fields `h`: the four checks of `checkHeader`, in its
    order, with its error kinds; `self` is unchanged, nothing is logged, no input is consumed -/
theorem is_valid_eq (h : Header) (hh : h.inRange) (inp : Nat → Value) :
    run (ctx inp) "ShmHeader::is_valid" (headerValue h) [] = .ok (validValue (checkHeader h)) (headerValue h) [] :=
  HeaderProof.is_valid_tie h hh inp

/-- … i.e. the decision of `readHeader` on (at least) the 16 bytes that encode the header -/
theorem is_valid_eq_bytes (bs : Bytes) (h16 : HEADER_SIZE ≤ bs.length) (hh : (parseHeader bs).inRange) (inp : Nat → Value) :
    run (ctx inp) "ShmHeader::is_valid" (headerValue (parseHeader bs)) []
    = .ok (validValue (readHeader bs)) (headerValue (parseHeader bs)) [] := by
  rw [HeaderProg.readHeader_full bs h16]
  exact is_valid_eq _ hh inp

/-- `ShmHeader::read(fd)`: `read(2)` returns `ret` (first input); negative ⇒ the system-call error with
    errno (second input) and origin "read SHM segment"; fewer than 16 bytes ⇒ `SegmentNotInitialized`; else
    the buffer holds the header `h` (second input) and the result is `is_valid`'s, `Ok(header)` if valid -/
theorem read_eq (ret : Int) (hret : IntTy.isize.lo ≤ ret ∧ ret ≤ IntTy.isize.hi) (errno : Nat) (he : errno ≤ 2147483647)
    (h : Header) (hh : h.inRange) (fd : Nat) (inp : Nat → Value)
    (h0 : inp 0 = .int .infer ret) (h1 : inp 1 = if ret < 0 then .int .infer errno else headerValue h) :
    ∃ log, run (ctx inp) "ShmHeader::read" .unit [.int .i32 fd] = .ok (readValue (readProg ret errno h)) .unit log :=
  HeaderProof.read_tie ret hret errno he h hh fd inp h0 h1

/-- … on a regular file with content `bs` it is `readHeader bs` -/
theorem read_eq_file (bs : Bytes) (hh : (parseHeader bs).inRange) (fd : Nat) (inp : Nat → Value)
    (h0 : inp 0 = .int .infer (readRet bs)) (h1 : inp 1 = headerValue (parseHeader bs)) :
    ∃ log, run (ctx inp) "ShmHeader::read" .unit [.int .i32 fd] = .ok (readValue (readHeader bs)) .unit log := by
  rw [HeaderProg.readHeader_eq_prog]
  have hr : ¬ (readRet bs < 0) := by unfold readRet; omega
  refine read_eq (readRet bs) ?_ 0 (by omega) _ hh fd inp h0 (by rw [if_neg hr]; exact h1)
  unfold readRet HEADER_SIZE
  constructor
  · show (-9223372036854775808 : Int) ≤ _; omega
  · show _ ≤ (9223372036854775807 : Int); omega

/-- the header of a file is in range (needed only because the statement quantifies over ALL byte lists,
    also those with "bytes" ≥ 256) -/
def FileState.hdrInRange : FileState → Prop
  | .file bs => (parseHeader bs).inRange
  | _ => True
instance (st : FileState) : Decidable (FileState.hdrInRange st) := by
  cases st <;> unfold FileState.hdrInRange <;> infer_instance
example : FileState.hdrInRange (.file (encodeHeader ⟨MAGIC0, MAGIC1, 72, 1, 2⟩ ++ List.replicate 56 0)) := by decide

/-- `ShmReader::new(path)`, for every state of the path and every mapping limit, with the system calls
    answering as `EmbedShm.openAnswers` says: the result is `readerOpenLim lim st` — the error (kind, errno,
    origin) or `Ok(ShmReader { .. })` with the pointers into the mapping, cache generation 0 and the default
    record.  In particular after a valid header `segsize < 16 + 56` ⇒ `SegmentMalformed`, checked AFTER the
    mapping, as in the source. -/
theorem reader_new_eq (lim : Option Nat) (st : FileState) (hst : FileState.hdrInRange st) (fd : Nat) (hfd : fd ≤ 2147483647) :
    (run (ctx (streamOf (openAnswers lim fd st))) "ShmReader::new" .unit [cstrValue]).noLog
    = .ok (openValue (readerOpenLim lim st)) .unit [] :=
  HeaderProof.reader_new_tie lim st fd hfd (by intro bs h; subst h; exact hst)

/-- `ShmWriter::segment_size()` = 72 (16 + 56, already a multiple of 8) -/
theorem segment_size_eq (inp : Nat → Value) :
    run (ctx inp) "ShmWriter::segment_size" .unit [] = .ok (.int .usize SEGMENT_SIZE) .unit [] :=
  HeaderProof.segment_size_tie inp

/-- non-vacuity: the decisions differ on these states -/
example : readerOpenLim none .missing = .error (.sys ENOENT .open_) ∧
    readerOpenLim none .directory = .error (.sys EISDIR .read) ∧
    readerOpenLim none (.file (encodeHeader ⟨MAGIC0, MAGIC1, 71, 1, 2⟩ ++ List.replicate 56 0)) = .error .malformed ∧
    readerOpenLim (some 64) (.file (encodeHeader ⟨MAGIC0, MAGIC1, 72, 1, 2⟩ ++ List.replicate 56 0)) = .error (.sys ENOMEM .mmap) ∧
    (readerOpenLim none (.file (encodeHeader ⟨MAGIC0, MAGIC1, 72, 1, 2⟩ ++ List.replicate 56 0))).isOk = true := by
  refine ⟨?_, ?_, ?_, ?_, ?_⟩ <;> rfl

/-- without the dictionary `is_valid` is stuck at the first header load -/
example : (run (Code.ctx 0) "ShmHeader::is_valid" (headerValue ⟨MAGIC0, MAGIC1, 72, 1, 2⟩) []).isStuck = true := by
  simp [rs_eval, rs_code, headerValue, Outcome.isStuck, DictShm.atomicVal, MAGIC0, MAGIC1]

end ClockBound.CodeTieHeader
