/-
  C11 — Generation field obeys the documented protocol in every reachable state.
-/
import ClockBound.Model.OraclesD
import ClockBound.Proofs.Daemon
namespace ClockBound.C11
open ClockBound

theorem start_odd (g : Nat) (h : g < 65536) : genStart g % 2 = 1 ∧ genStart g < 65536 := by
  sorry

theorem start_even (g : Nat) (h : g < 65536) (he : g % 2 = 0) : genStart g = g + 1 := by
  sorry

theorem start_odd_keeps (g : Nat) (ho : g % 2 = 1) : genStart g = g := by
  sorry

/-- after a completed update: even, non-zero, different from before, below 2^16 -/
theorem finish_props (g : Nat) (h : g < 65536) :
    genFinish (genStart g) % 2 = 0 ∧ genFinish (genStart g) ≠ 0 ∧ genFinish (genStart g) ≠ g ∧
    genFinish (genStart g) < 65536 := by
  sorry

theorem wrap : genFinish 65535 = 2 ∧ genFinish (genStart 65534) = 2 := by
  sorry

theorem model_holds (g : Nat) (h : g < 65536) :
    Holds g (genStart g) (genFinish (genStart g)) = true := by
  sorry

/-- invariant over every history of completed and interrupted updates, from any start value -/
theorem history_invariant (g0 : Nat) (h0 : g0 < 65536) (evs : List GEv) :
    let s := GState.run g0 evs
    s.g < 65536 ∧
    (s.mid = true → s.g % 2 = 1) ∧
    (s.stale = true → s.g % 2 = 1 ∧ s.mid = false) ∧
    (s.mid = false → s.stale = false → s.finishes > 0 → s.g % 2 = 0 ∧ s.g ≠ 0) ∧
    (s.stores > 0 → s.g ≠ 0) := by
  sorry

/-- each completed update changes the generation -/
theorem update_changes (s : GState) (h : s.g < 65536) (hm : s.mid = false) :
    ((s.step .start).step .finish).g ≠ s.g := by
  sorry

example : (GState.run 65534 [.start, .crash, .start, .finish]).g = 2 := by decide

end ClockBound.C11
