/-
  C11 — Generation field obeys the documented protocol in every reachable state.
-/
import ClockBound.Model.OraclesD
import ClockBound.Proofs.Daemon
namespace ClockBound.C11
open ClockBound

theorem start_odd (g : Nat) (h : g < 65536) : genStart g % 2 = 1 ∧ genStart g < 65536 := by
  unfold genStart; split <;> omega

theorem start_even (g : Nat) (h : g < 65536) (he : g % 2 = 0) : genStart g = g + 1 := by
  unfold genStart; rw [if_pos he]; omega

theorem start_odd_keeps (g : Nat) (ho : g % 2 = 1) : genStart g = g := by
  unfold genStart; rw [if_neg (by omega)]

/-- after a completed update: even, non-zero, different from before, below 2^16 -/
theorem finish_props (g : Nat) (h : g < 65536) :
    genFinish (genStart g) % 2 = 0 ∧ genFinish (genStart g) ≠ 0 ∧ genFinish (genStart g) ≠ g ∧
    genFinish (genStart g) < 65536 := by
  unfold genFinish genStart; simp only []
  split <;> split <;> omega

theorem wrap : genFinish 65535 = 2 ∧ genFinish (genStart 65534) = 2 := by
  constructor <;> decide

theorem model_holds (g : Nat) (h : g < 65536) :
    Holds g (genStart g) (genFinish (genStart g)) = true := by
  obtain ⟨h1, h2, h3, h4⟩ := finish_props g h
  obtain ⟨h5, h6⟩ := start_odd g h
  have h7 : (if g % 2 = 0 then decide (genStart g = g + 1) else decide (genStart g = g)) = true := by
    split
    · next he => simpa using start_even g h he
    · next he => simpa using start_odd_keeps g (by omega)
  have h8 : (if genStart g = 65535 then decide (genFinish (genStart g) = 2)
      else decide (genFinish (genStart g) = genStart g + 1)) = true := by
    split
    · next he => rw [he]; decide
    · next he =>
      simp only [decide_eq_true_eq]
      unfold genFinish; simp only []
      split <;> omega
  unfold Holds
  simp only [Bool.and_eq_true, decide_eq_true_eq]
  exact ⟨⟨⟨⟨⟨⟨⟨h5, h1⟩, h2⟩, h3⟩, h4⟩, h6⟩, h7⟩, h8⟩

/-- invariant over every history of completed and interrupted updates, from any start value -/
theorem history_invariant (g0 : Nat) (h0 : g0 < 65536) (evs : List GEv) :
    let s := GState.run g0 evs
    s.g < 65536 ∧
    (s.mid = true → s.g % 2 = 1) ∧
    (s.stale = true → s.g % 2 = 1 ∧ s.mid = false) ∧
    (s.mid = false → s.stale = false → s.finishes > 0 → s.g % 2 = 0 ∧ s.g ≠ 0) ∧
    (s.stores > 0 → s.g ≠ 0) := by
  exact GInv.run g0 h0 evs

/-- each completed update changes the generation -/
theorem update_changes (s : GState) (h : s.g < 65536) (hm : s.mid = false) :
    ((s.step .start).step .finish).g ≠ s.g := by
  simp only [GState.step, hm, Bool.false_eq_true, if_false, if_true]
  exact (finish_props s.g h).2.2.1

example : (GState.run 65534 [.start, .crash, .start, .finish]).g = 2 := by decide

end ClockBound.C11
