/-
  C17 — Segment layout and C ABI match their published descriptions.

  Three kinds of statements:
  (1) about the model's encoder (`encodeSegmentP`, Model/Header.lean): round trip, the offset and width
      of every field, status codes, byte order, total size — for all field values and all padding bytes;
  (2) agreement, by `decide`, between the model and the facts GENERATED on every run by
      tools/translate_c17.py from docs/PROTOCOL.md, clockbound.h and the Rust `#[repr(C)]` items
      (Generated/*.lean).  The magic number's spelling in the document is a separate obligation,
      `C17.magic_doc_agrees` in Properties/C17Magic.lean;
  (3) the decidable oracles of Model/OraclesH.lean hold of the model.
-/
import ClockBound.Model.OraclesH
import ClockBound.Proofs.Header
namespace ClockBound.C17
open ClockBound Generated

/-! ### (1) the encoder -/

/-- decoding an encoded segment returns the header and the record, for field values that fit their
    widths (`Header.inRange`: u32/u32/u32/u16/u16; `Record.inRange`: five i64, two u32) -/
theorem decode_encode (h : Header) (r : Record) (pad : Bytes) (hh : h.inRange) (hr : r.inRange) :
    decodeSegment (encodeSegmentP h r pad) = some (h, r) :=
  decodeSegment_encodeSegmentP h r pad hh hr

theorem decode_encode_zero_pad (h : Header) (r : Record) (hh : h.inRange) (hr : r.inRange) :
    decodeSegment (encodeSegment h r) = some (h, r) :=
  decodeSegment_encodeSegmentP h r ZERO_PAD hh hr

/-- little-endian round trip of every unsigned width, and of two's-complement 64-bit values -/
theorem unsigned_roundtrip (n v : Nat) : decLE (encLE n v) = v % 256 ^ n := decLE_encLE n v
theorem signed_roundtrip (x : Int) (h : -(9223372036854775808 : Int) ≤ x ∧ x < 9223372036854775808) :
    decI64 (encI64 x) = x := decI64_encI64 x h

/-- least significant byte first: the magic words as they appear in the file on x86-64 / aarch64 -/
theorem byte_order : encU32 0x414D5A4E = [0x4E, 0x5A, 0x4D, 0x41] ∧ encU32 0x43420200 = [0x00, 0x02, 0x42, 0x43] ∧
    encI64 (-2) = [0xFE, 0xFF, 0xFF, 0xFF, 0xFF, 0xFF, 0xFF, 0xFF] ∧ encU16 0x0102 = [0x02, 0x01] := by decide

theorem total_size (h : Header) (r : Record) (pad : Bytes) : (encodeSegmentP h r pad).length = 72 :=
  length_encodeSegmentP h r pad

theorem field_magic (h : Header) (r : Record) (pad : Bytes) :
    ((encodeSegmentP h r pad).drop 0).take 8 = encU32 h.magic0 ++ encU32 h.magic1 := rfl
theorem field_segsize (h : Header) (r : Record) (pad : Bytes) :
    ((encodeSegmentP h r pad).drop 8).take 4 = encU32 h.segsize := rfl
theorem field_version (h : Header) (r : Record) (pad : Bytes) :
    ((encodeSegmentP h r pad).drop 12).take 2 = encU16 h.version := rfl
theorem field_generation (h : Header) (r : Record) (pad : Bytes) :
    ((encodeSegmentP h r pad).drop 14).take 2 = encU16 h.generation := rfl
theorem field_asOf (h : Header) (r : Record) (pad : Bytes) :
    ((encodeSegmentP h r pad).drop 16).take 16 = encI64 r.asOf.sec ++ encI64 r.asOf.nsec := rfl
theorem field_voidAfter (h : Header) (r : Record) (pad : Bytes) :
    ((encodeSegmentP h r pad).drop 32).take 16 = encI64 r.voidAfter.sec ++ encI64 r.voidAfter.nsec := rfl
theorem field_bound (h : Header) (r : Record) (pad : Bytes) :
    ((encodeSegmentP h r pad).drop 48).take 8 = encI64 r.bound := rfl
theorem field_drift (h : Header) (r : Record) (pad : Bytes) :
    ((encodeSegmentP h r pad).drop 56).take 4 = encU32 r.drift := rfl
theorem field_reserved (h : Header) (r : Record) (pad : Bytes) :
    ((encodeSegmentP h r pad).drop 60).take 4 = encU32 r.reserved := rfl
theorem field_status (h : Header) (r : Record) (pad : Bytes) :
    ((encodeSegmentP h r pad).drop 64).take 4 = encU32 r.status.code := rfl
/-- the last four bytes are the record's tail padding: whatever the writer's source held -/
theorem field_padding (h : Header) (r : Record) (pad : Bytes) :
    ((encodeSegmentP h r pad).drop 68).take 4 = padBytes pad := by
  show List.take 4 (padBytes pad) = padBytes pad
  exact List.take_of_length_le (by rw [length_padBytes]; decide)

/-- bytes of each named field of the model's layout table -/
def fieldBytes (h : Header) (r : Record) (pad : Bytes) : String → Option Bytes
  | "Magic Number" => some (encU32 h.magic0 ++ encU32 h.magic1)
  | "Segment Size" => some (encU32 h.segsize)
  | "Version" => some (encU16 h.version)
  | "Generation" => some (encU16 h.generation)
  | "As-Of Timestamp" => some (encI64 r.asOf.sec ++ encI64 r.asOf.nsec)
  | "Void-After Timestamp" => some (encI64 r.voidAfter.sec ++ encI64 r.voidAfter.nsec)
  | "Bound" => some (encI64 r.bound)
  | "Max Drift" => some (encU32 r.drift)
  | "Reserved" => some (encU32 r.reserved)
  | "Clock Status" => some (encU32 r.status.code)
  | "Padding" => some (padBytes pad)
  | _ => none

/-- the layout table `modelLayout` (which the generated descriptions are compared with) is the layout
    of the encoder: every row's bytes sit at the row's offset with the row's width, rows are
    consecutive and cover the 72 bytes -/
theorem layout_sound (h : Header) (r : Record) (pad : Bytes) :
    (∀ row ∈ modelLayout, fieldBytes h r pad row.1 = some (slice (encodeSegmentP h r pad) row.2.1 row.2.2)) ∧
    layoutOfDiagram 0 (modelLayout.map fun row => (row.1, 8 * row.2.2)) = some modelLayout ∧
    (modelLayout.map (·.2.2)).foldl (· + ·) 0 = 72 := by
  refine ⟨?_, by decide, by decide⟩
  intro row hrow
  simp only [modelLayout, List.mem_cons, List.mem_nil_iff, or_false] at hrow
  rcases hrow with rfl | rfl | rfl | rfl | rfl | rfl | rfl | rfl | rfl | rfl | rfl
  · rfl
  · rfl
  · rfl
  · rfl
  · rfl
  · rfl
  · rfl
  · rfl
  · rfl
  · rfl
  · exact congrArg some (field_padding h r pad).symm

/-- status encoding 0 / 1 / 2 in a 32-bit word, and nothing else decodes -/
theorem status_codes :
    Status.unknown.code = 0 ∧ Status.synchronized.code = 1 ∧ Status.freeRunning.code = 2 ∧
    (∀ s : Status, Status.ofCode s.code = some s ∧ encU32 s.code = [s.code, 0, 0, 0]) ∧
    (∀ n, 2 < n → Status.ofCode n = none) := by
  refine ⟨rfl, rfl, rfl, ?_, ?_⟩
  · intro s; cases s <;> exact ⟨rfl, by decide⟩
  · intro n hn
    match n, hn with
    | n + 3, _ => rfl

/-! ### (2a) docs/PROTOCOL.md -/

/-- the document states native byte order -/
theorem doc_endianness : Protocol.endianness = "native" := by decide

/-- field order, offsets, widths and total size of the document's diagram are the model's -/
theorem doc_layout_agrees : docLayout = some modelLayout ∧ docTotal = 72 := by decide

/-- the type annotations of the description list agree with the model's element types (signedness
    and width), and each annotated width equals the width of the field's box in the diagram; of the
    magic number only the total width (8) is compared here -/
theorem doc_types_agree : docTypesAgree = true := by decide

/-- how a reader of the document decodes the fields behind the magic number -/
theorem doc_plan : docPlan = some
    [("Segment Size", 8, [(false, 4)]), ("Version", 12, [(false, 2)]), ("Generation", 14, [(false, 2)]),
     ("As-Of Timestamp", 16, [(true, 8), (true, 8)]), ("Void-After Timestamp", 32, [(true, 8), (true, 8)]),
     ("Bound", 48, [(true, 8)]), ("Max Drift", 56, [(false, 4)]), ("Reserved", 60, [(false, 4)]),
     ("Clock Status", 64, [(true, 4)])] := by decide

/-- the document's status values are the model's codes -/
theorem doc_status_agrees :
    Protocol.statusValues = [(Status.unknown.code, "Unknown"), (Status.synchronized.code, "Synchronized"),
                             (Status.freeRunning.code, "FreeRunning")] := by decide

/-! ### (2b) the Rust definitions the descriptions describe -/

def reprAlign : String → Option Nat
  | "C" => some 1
  | "C, align(8)" => some 8
  | _ => none

def rustLayout (name : String) : Option (List (Nat × Nat) × Nat × Nat) :=
  match structTys rustAbi RustFfi.structs name, (RustFfi.structReprs.lookup name).bind reprAlign with
  | some ts, some a => some (reprC a ts)
  | _, _ => none

theorem rust_magic_agrees : RustFfi.shmMagic = [MAGIC0, MAGIC1] ∧ RustFfi.shmMagicElem = "u32" := by decide

/-- `#[repr(C, align(8))] ShmHeader`: members at 0 / 8 / 12 / 14, 16 bytes -/
theorem rust_header_layout : rustLayout "ShmHeader" = some ([(0, 8), (8, 4), (12, 2), (14, 2)], 16, 8) := by decide

/-- `#[repr(C)] ClockErrorBound`: members at 0 / 16 / 32 / 40 / 44 / 48, 56 bytes of which the last
    four are tail padding -/
theorem rust_record_layout :
    rustLayout "ClockErrorBound" = some ([(0, 16), (16, 16), (32, 8), (40, 4), (44, 4), (48, 4)], 56, 8) := by decide

/-- header members, then record members shifted by the header's size, then the tail padding: exactly
    the rows of the layout table -/
theorem rust_layout_is_model_layout :
    (match rustLayout "ShmHeader", rustLayout "ClockErrorBound" with
     | some (hf, hs, _), some (rf, rs, _) =>
       let last := (rf.map (fun p => p.1 + p.2)).foldl max 0
       some (hf ++ rf.map (fun p => (hs + p.1, p.2)) ++ [(hs + last, rs - last)], hs + rs)
     | _, _ => none)
    = some (modelLayout.map (·.2), 72) := by decide

/-- the members of the Rust record and header, in declaration order, are the documented fields in
    the documented order (same-size members must not trade places: offsets alone would not notice) -/
theorem rust_record_field_order :
    (RustFfi.structs.lookup "ClockErrorBound").map (fun fs => fs.map (·.1)) =
      some ["as_of", "void_after", "bound_nsec", "max_drift_ppb", "reserved1", "clock_status"] := by decide

theorem rust_header_field_order :
    (RustFfi.structs.lookup "ShmHeader").map (fun fs => fs.map (·.1)) =
      some ["magic", "segsize", "version", "generation"] := by decide

theorem rust_status_agrees :
    RustFfi.enums.lookup "ClockStatus" = some [("Unknown", Status.unknown.code),
      ("Synchronized", Status.synchronized.code), ("FreeRunning", Status.freeRunning.code)] := by decide

/-! ### (2c) clockbound.h against the Rust FFI and the model -/

/-- both enums: same enumerators, same order, same values in the C header and in the Rust crate -/
theorem c_enums_agree :
    CHeader.enums.lookup "clockbound_err_kind" = RustFfi.enums.lookup "clockbound_err_kind" ∧
    CHeader.enums.lookup "clockbound_clock_status" = RustFfi.enums.lookup "clockbound_clock_status" ∧
    CHeader.enums.map (·.1) = ["clockbound_err_kind", "clockbound_clock_status"] := by decide

/-- …and they are the model's codes -/
theorem c_err_kind_codes :
    CHeader.enums.lookup "clockbound_err_kind" = some
      [("CLOCKBOUND_ERR_NONE", ErrKind.none.code), ("CLOCKBOUND_ERR_SYSCALL", ErrKind.syscall.code),
       ("CLOCKBOUND_ERR_SEGMENT_NOT_INITIALIZED", ErrKind.notInit.code),
       ("CLOCKBOUND_ERR_SEGMENT_MALFORMED", ErrKind.malformed.code),
       ("CLOCKBOUND_ERR_CAUSALITY_BREACH", ErrKind.causality.code)] := by decide

theorem c_status_codes :
    CHeader.enums.lookup "clockbound_clock_status" = some
      [("CLOCKBOUND_STA_UNKNOWN", Status.unknown.code), ("CLOCKBOUND_STA_SYNCHRONIZED", Status.synchronized.code),
       ("CLOCKBOUND_STA_FREE_RUNNING", Status.freeRunning.code)] := by decide

/-- member names that differ between the header and the Rust struct without affecting the ABI -/
def memberRenames : List (String × String) := [("errno", "sys_errno")]

def memberNamesAgree (name : String) : Bool :=
  match CHeader.structs.lookup name, RustFfi.structs.lookup name with
  | some c, some r =>
    decide (c.map (·.1) = r.map (fun f => (memberRenames.lookup f.1).getD f.1))
  | _, _ => false

/-- both structs: same number of members, pairwise the same ABI type (so the same `repr(C)` layout),
    same member names up to `memberRenames` -/
theorem c_structs_agree :
    structTys cAbi CHeader.structs "clockbound_err" = some [.enum32, .i32, .ptr] ∧
    structTys rustAbi RustFfi.structs "clockbound_err" = some [.enum32, .i32, .ptr] ∧
    structTys cAbi CHeader.structs "clockbound_now_result" = some [.timespec, .timespec, .enum32] ∧
    structTys rustAbi RustFfi.structs "clockbound_now_result" = some [.timespec, .timespec, .enum32] ∧
    memberNamesAgree "clockbound_err" = true ∧ memberNamesAgree "clockbound_now_result" = true ∧
    CHeader.structs.map (·.1) = ["clockbound_err", "clockbound_now_result"] := by decide

def fnAbi (abi : String → Option AbiTy) (fs : List (String × List String × String)) :
    Option (List (String × List AbiTy × AbiTy)) :=
  fs.mapM fun (n, ps, ret) =>
    match ps.mapM abi, abi ret with
    | some p, some r => some (n, p, r)
    | _, _ => none

/-- the three entry points: same names, order, parameter and return ABI types -/
theorem c_functions_agree :
    fnAbi cAbi CHeader.functions = fnAbi rustAbi RustFfi.functions ∧
    fnAbi cAbi CHeader.functions = some
      [("clockbound_open", [.ptr, .ptr], .ptr), ("clockbound_close", [.ptr], .ptr),
       ("clockbound_now", [.ptr, .ptr], .ptr)] := by decide

/-- what a C compiler must report for clockbound.h (sizes, member offsets and sizes, enumerator
    values) if its layout is the Rust crate's; compared with `cc`'s answer on every run (`cabi`) -/
theorem abi_expected :
    expectedAbi = some ([16, 0, 4, 4, 4, 8, 8], [40, 0, 16, 16, 16, 32, 4], [0, 1, 2, 3, 4], [0, 1, 2]) := by decide

/-! ### (3) the oracles hold of the model -/

/-- the document's reading of an image, spelled out -/
def decodedFields (bs : Bytes) : List (String × List Int) :=
  [("Segment Size", [decElem (slice bs 8 4) false]), ("Version", [decElem (slice bs 12 2) false]),
   ("Generation", [decElem (slice bs 14 2) false]),
   ("As-Of Timestamp", [decElem (slice bs 16 8) true, decElem (slice bs 24 8) true]),
   ("Void-After Timestamp", [decElem (slice bs 32 8) true, decElem (slice bs 40 8) true]),
   ("Bound", [decElem (slice bs 48 8) true]), ("Max Drift", [decElem (slice bs 56 4) false]),
   ("Reserved", [decElem (slice bs 60 4) false]), ("Clock Status", [decElem (slice bs 64 4) true])]

theorem docDecode_eq (bs : Bytes) (hlen : 72 ≤ bs.length) : docDecode bs = some (decodedFields bs) := by
  unfold docDecode
  rw [doc_plan, doc_layout_agrees.2, if_neg (by omega)]
  rfl

/-- a reader built from the document alone decodes the published record from every image whose
    record area holds the encoder's bytes and whose header carries version 1, an even non-zero
    generation and a sufficient declared size -/
theorem holds_seg_of (bs : Bytes) (r : Record) (pad : Bytes) (rc : Bool) (hr : r.inRange)
    (hlen : 72 ≤ bs.length) (hrec : slice bs 16 56 = encodeRecordP r pad)
    (hv : (parseHeader bs).version = 1)
    (hg : (parseHeader bs).generation ≠ 0 ∧ (parseHeader bs).generation % 2 = 0)
    (hs : 72 ≤ (parseHeader bs).segsize)
    (hrc : rc = true → (parseHeader bs).segsize = 72 ∧ bs.length = 72) :
    HoldsSeg bs r rc = true := by
  obtain ⟨h1, h2, h3, h4, h5, h6, h7⟩ := hr
  have f (k w : Nat) (h : k + w ≤ 56) : slice bs (16 + k) w = slice (encodeRecordP r pad) k w := by
    rw [← hrec, slice_slice bs 16 56 k w h]
  have e0 : slice bs 16 8 = encI64 r.asOf.sec := f 0 8 (by decide)
  have e1 : slice bs 24 8 = encI64 r.asOf.nsec := f 8 8 (by decide)
  have e2 : slice bs 32 8 = encI64 r.voidAfter.sec := f 16 8 (by decide)
  have e3 : slice bs 40 8 = encI64 r.voidAfter.nsec := f 24 8 (by decide)
  have e4 : slice bs 48 8 = encI64 r.bound := f 32 8 (by decide)
  have e5 : slice bs 56 4 = encU32 r.drift := f 40 4 (by decide)
  have e6 : slice bs 60 4 = encU32 r.reserved := f 44 4 (by decide)
  have e7 : slice bs 64 4 = encU32 r.status.code := f 48 4 (by decide)
  unfold HoldsSeg
  rw [docDecode_eq bs hlen]
  have l1 : (decodedFields bs).lookup "As-Of Timestamp" = some [r.asOf.sec, r.asOf.nsec] := by
    show some [decElem (slice bs 16 8) true, decElem (slice bs 24 8) true] = _
    rw [e0, e1, decElem_i64 _ h1, decElem_i64 _ h2]
  have l2 : (decodedFields bs).lookup "Void-After Timestamp" = some [r.voidAfter.sec, r.voidAfter.nsec] := by
    show some [decElem (slice bs 32 8) true, decElem (slice bs 40 8) true] = _
    rw [e2, e3, decElem_i64 _ h3, decElem_i64 _ h4]
  have l3 : (decodedFields bs).lookup "Bound" = some [r.bound] := by
    show some [decElem (slice bs 48 8) true] = _
    rw [e4, decElem_i64 _ h5]
  have l4 : (decodedFields bs).lookup "Max Drift" = some [(r.drift : Int)] := by
    show some [decElem (slice bs 56 4) false] = _
    rw [e5, decElem_u, decLE_encU32 _ h6]
  have l5 : (decodedFields bs).lookup "Reserved" = some [(r.reserved : Int)] := by
    show some [decElem (slice bs 60 4) false] = _
    rw [e6, decElem_u, decLE_encU32 _ h7]
  have l6 : (decodedFields bs).lookup "Clock Status" = some [(r.status.code : Int)] := by
    show some [decElem (slice bs 64 4) true] = _
    rw [e7, decElem_status]
  have l7 : (decodedFields bs).lookup "Version" = some [1] := by
    show some [decElem (slice bs 12 2) false] = _
    rw [decElem_u]
    have : decLE (slice bs 12 2) = 1 := hv
    rw [this]; rfl
  have l8 : (decodedFields bs).lookup "Generation" = some [((parseHeader bs).generation : Int)] := rfl
  have l9 : (decodedFields bs).lookup "Segment Size" = some [((parseHeader bs).segsize : Int)] := rfl
  simp only [recordFields, List.all_cons, List.all_nil, l1, l2, l3, l4, l5, l6, l7, l8, l9, beq_self_eq_true,
    Bool.and_true, Bool.true_and, Bool.and_eq_true, decide_eq_true_eq, doc_layout_agrees.2]
  refine ⟨?_, ?_, ?_⟩
  · omega
  · omega
  · cases rc with
    | false => simp
    | true =>
      obtain ⟨a, b⟩ := hrc rfl
      simp only [Bool.not_true, Bool.false_or, decide_eq_true_eq]
      omega

/-- in particular from the file the daemon leaves behind, whatever was at the path before (the same
    hypotheses as C16.repair_roundtrip: every prior state but a directory — a usable file that ended
    before byte 72 included, which start-up grows to 72 bytes) -/
theorem model_holds_seg (st : FileState) (r : Record) (pad : Bytes) (hd : st ≠ .directory) (hr : r.inRange) :
    ∃ bs' rc, startAndPublish st r pad = .ok (.file bs', rc) ∧ HoldsSeg bs' r rc = true := by
  cases hro : readerOpen st with
  | ok h =>
    cases st with
    | missing => cases hro
    | directory => cases hro
    | file bs =>
      obtain ⟨hl, rfl, hm0, hm1, hv, hg, hs⟩ := (readerOpen_ok_iff bs h).mp hro
      have hW := parseHeader_takeover_ext bs r pad hl
      refine ⟨writeRecord (patch (extendToSegment bs) 12 (encU16 1)) r pad, false, ?_, ?_⟩
      · exact startAndPublish_usable bs _ r pad hro
      · apply holds_seg_of _ r pad false hr
        · rw [length_takeover_ext]; omega
        · exact record_after_takeover_ext bs r pad
        · rw [hW]
        · rw [hW]; exact ⟨genFinish_ne_zero _, genFinish_genStart_even _⟩
        · rw [hW]; exact hs
        · intro x; cases x
  | error e =>
    have hno : ∀ h, readerOpen st ≠ .ok h := by intro h hc; rw [hro] at hc; cases hc
    have hH : (⟨MAGIC0, MAGIC1, 72, 1, 2⟩ : Header).inRange := by decide
    have hp : parseHeader (encodeSegmentP ⟨MAGIC0, MAGIC1, 72, 1, 2⟩ r pad) = ⟨MAGIC0, MAGIC1, 72, 1, 2⟩ := by
      unfold encodeSegmentP; exact parseHeader_encodeHeader_append _ _ hH
    refine ⟨encodeSegmentP ⟨MAGIC0, MAGIC1, 72, 1, 2⟩ r pad, true, ?_, ?_⟩
    · unfold startAndPublish; rw [writerNew_unusable st hd hno]
      simp only [writerFirstWrite]
      rw [recreated_bytes]; rfl
    · apply holds_seg_of _ r pad true hr
      · rw [length_encodeSegmentP]; decide
      · unfold encodeSegmentP slice
        rw [List.drop_left' (length_encodeHeader _), List.take_of_length_le (by rw [length_encodeRecordP]; decide)]
      · rw [hp]
      · rw [hp]; decide
      · rw [hp]; decide
      · intro _; rw [hp]; exact ⟨rfl, length_encodeSegmentP _ r pad⟩

/-- the C library is the Rust code behind an `extern "C"` boundary: what it answers, given what the
    Rust client answers (a Rust panic cannot unwind through the boundary and aborts the process) -/
def cAnswerOf : NowAns → NowAns
  | .out .panic => .crash 6
  | a => a

theorem model_holds_sandwich (a : NowAns) (h : ∀ s, a ≠ .crash s) : HoldsSandwich a (cAnswerOf a) = true := by
  unfold HoldsSandwich cAnswerOf
  cases a with
  | out o => cases o <;> simp
  | sysErr e d => simp
  | notInit => simp
  | openErr e => simp
  | crash s => exact absurd rfl (h s)

theorem model_holds_open (x : C16.Res ClientErr) : HoldsOpen (some x) (some x) = true := by
  simp [HoldsOpen]

theorem model_holds_abi :
    HoldsAbi ([16, 0, 4, 4, 4, 8, 8], [40, 0, 16, 16, 16, 32, 4], [0, 1, 2, 3, 4], [0, 1, 2]) = true := by decide

/-! ### non-vacuity -/

example : decodeSegment (encodeSegment ⟨MAGIC0, MAGIC1, 72, 1, 2⟩ ⟨⟨1, 2⟩, ⟨3, 4⟩, -5, 6, 7, .freeRunning⟩)
    = some (⟨MAGIC0, MAGIC1, 72, 1, 2⟩, ⟨⟨1, 2⟩, ⟨3, 4⟩, -5, 6, 7, .freeRunning⟩) := by decide +kernel
example : (encodeSegment ⟨MAGIC0, MAGIC1, 72, 1, 2⟩ ⟨⟨1, 2⟩, ⟨3, 4⟩, -5, 6, 7, .freeRunning⟩).take 16
    = [0x4E, 0x5A, 0x4D, 0x41, 0x00, 0x02, 0x42, 0x43, 0x48, 0, 0, 0, 1, 0, 2, 0] := by decide
example : HoldsSeg (encodeSegment ⟨MAGIC0, MAGIC1, 72, 1, 2⟩ ⟨⟨1, 2⟩, ⟨3, 4⟩, -5, 6, 7, .freeRunning⟩)
    ⟨⟨1, 2⟩, ⟨3, 4⟩, -5, 6, 7, .freeRunning⟩ true = true := by decide +kernel
/-- the oracle is not trivially true: a record shifted by one field, a big-endian image -/
example : HoldsSeg (encodeSegment ⟨MAGIC0, MAGIC1, 72, 1, 2⟩ ⟨⟨1, 2⟩, ⟨3, 4⟩, -5, 6, 7, .freeRunning⟩)
    ⟨⟨2, 3⟩, ⟨4, -5⟩, 6, 7, 2, .freeRunning⟩ true = false := by decide +kernel
example : HoldsSeg ((encodeSegment ⟨MAGIC0, MAGIC1, 72, 1, 2⟩ ⟨⟨1, 2⟩, ⟨3, 4⟩, -5, 6, 7, .freeRunning⟩).reverse)
    ⟨⟨1, 2⟩, ⟨3, 4⟩, -5, 6, 7, .freeRunning⟩ true = false := by decide +kernel
example : HoldsSandwich (.out (.ok ⟨1, 2⟩ ⟨3, 4⟩ .synchronized)) (.out (.ok ⟨1, 2⟩ ⟨3, 4⟩ .freeRunning)) = false := by decide
example : HoldsAbi ([24, 0, 4, 8, 4, 16, 8], [40, 0, 16, 16, 16, 32, 4], [0, 1, 2, 3, 4], [0, 1, 2]) = false := by decide

end ClockBound.C17
