/-
  C10 — Only a fresh, well-formed chrony report counts as synchronised.
-/
import ClockBound.Model.OraclesD
import ClockBound.Proofs.Daemon
namespace ClockBound.C10
open ClockBound

/-- total characterisation, all leap codes, all intervals, all reference times -/
theorem classify_eq (t : Tracking) (now : Int) : classify t now = expected t now := by
  unfold classify expected
  simp only [timeout_eq]
  by_cases h1 : t.refNs > now
  · rw [if_pos h1, if_pos (show now < t.refNs by omega)]
  · rw [if_neg h1, if_neg (show ¬ now < t.refNs by omega)]
    rcases leapClass_cases t.leap with ⟨hl, hc⟩ | ⟨hl, hc⟩ | ⟨hl, hc⟩
    · rw [hc, if_neg (show ¬ t.leap ≥ 4 by omega), if_neg (show ¬ t.leap = 3 by omega)]
    · rw [hc, if_neg (show ¬ t.leap ≥ 4 by omega), if_pos hl]
    · rw [hc, if_pos hl]

/-- the threshold never exceeds eight update intervals (it is their whole-second truncation) -/
theorem threshold_le (t : Tracking) :
    (thresholdSecs t : Rat) ≤ max 0 (8 * F64.chronyFloat t.intervalW) := by
  have hf := F64.floor_le' (F64.chronyFloat t.intervalW * 8)
  have e : C10.thresholdSecs t =
      (if (F64.chronyFloat t.intervalW * 8).floor < 0 then 0
       else if (F64.chronyFloat t.intervalW * 8).floor > 18446744073709551615 then 18446744073709551615
       else (F64.chronyFloat t.intervalW * 8).floor) := rfl
  rw [e]
  generalize (F64.chronyFloat t.intervalW * 8).floor = x at hf
  rw [le_max_iff]
  split_ifs with h1 h2
  · left; norm_num
  · right
    have : ((18446744073709551615 : Int) : ℚ) ≤ (x : ℚ) := by exact_mod_cast h2.le
    linarith
  · right; linarith

theorem synchronized_only_if (t : Tracking) (now : Int) (h : classify t now = .synchronized) :
    t.leap ≤ 2 ∧ t.refNs ≤ now ∧
    ((now - t.refNs : Int) : Rat) ≤ max 0 (8 * F64.chronyFloat t.intervalW) * 1000000000 := by
  rw [classify_eq] at h
  unfold expected at h
  split_ifs at h with h1 h2 h3 h4
  refine ⟨by omega, by omega, ?_⟩
  have h5 : ((now - t.refNs : Int) : ℚ) ≤ ((thresholdSecs t * 1000000000 : Int) : ℚ) := by
    exact_mod_cast not_lt.mp h4
  have h6 := threshold_le t
  push_cast at h5
  calc ((now - t.refNs : Int) : ℚ) ≤ (thresholdSecs t : ℚ) * 1000000000 := by push_cast; exact h5
    _ ≤ max 0 (8 * F64.chronyFloat t.intervalW) * 1000000000 :=
      mul_le_mul_of_nonneg_right h6 (by norm_num)

theorem stale_or_leap3_freeRunning (t : Tracking) (now : Int) (hn : t.refNs ≤ now)
    (h : t.leap = 3 ∨ (t.leap ≤ 2 ∧ now - t.refNs > thresholdSecs t * 1000000000)) :
    classify t now = .freeRunning := by
  rw [classify_eq]
  unfold expected
  rw [if_neg (show ¬ now < t.refNs by omega)]
  rcases h with h | ⟨h1, h2⟩
  · rw [if_neg (show ¬ t.leap ≥ 4 by omega), if_pos h]
  · rw [if_neg (show ¬ t.leap ≥ 4 by omega), if_neg (show ¬ t.leap = 3 by omega), if_pos h2]

theorem other_unknown (t : Tracking) (now : Int) (h : now < t.refNs ∨ t.leap ≥ 4) :
    classify t now = .unknown := by
  rw [classify_eq]
  unfold expected
  rcases h with h | h
  · rw [if_pos h]
  · split_ifs <;> rfl

theorem fresh_synchronized (t : Tracking) (now : Int) (hl : t.leap ≤ 2) (hn : t.refNs ≤ now)
    (h : now - t.refNs ≤ thresholdSecs t * 1000000000) : classify t now = .synchronized := by
  rw [classify_eq]
  unfold expected
  rw [if_neg (show ¬ now < t.refNs by omega), if_neg (show ¬ t.leap ≥ 4 by omega),
    if_neg (show ¬ t.leap = 3 by omega), if_neg (not_lt.mpr h)]

theorem model_holds (t : Tracking) (now : Int) : Holds t now (classify t now) = true := by
  unfold Holds
  rw [classify_eq]
  exact ChronyStatus.beq_self _

example : classify { leap := 1, refNs := 100, offW := 0, dispW := 0, delayW := 0, intervalW := 0x0b000000 } 100 = .synchronized := by decide +kernel

end ClockBound.C10
