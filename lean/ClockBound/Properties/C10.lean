/-
  C10 — Only a fresh, well-formed chrony report counts as synchronised.
-/
import ClockBound.Model.OraclesD
import ClockBound.Proofs.Daemon
namespace ClockBound.C10
open ClockBound

/-- total characterisation, all leap codes, all intervals, all reference times -/
theorem classify_eq (t : Tracking) (now : Int) : classify t now = expected t now := by
  sorry

/-- the threshold never exceeds eight update intervals (it is their whole-second truncation) -/
theorem threshold_le (t : Tracking) :
    (thresholdSecs t : Rat) ≤ max 0 (8 * F64.chronyFloat t.intervalW) := by
  sorry

theorem synchronized_only_if (t : Tracking) (now : Int) (h : classify t now = .synchronized) :
    t.leap ≤ 2 ∧ t.refNs ≤ now ∧
    ((now - t.refNs : Int) : Rat) ≤ max 0 (8 * F64.chronyFloat t.intervalW) * 1000000000 := by
  sorry

theorem stale_or_leap3_freeRunning (t : Tracking) (now : Int) (hn : t.refNs ≤ now)
    (h : t.leap = 3 ∨ (t.leap ≤ 2 ∧ now - t.refNs > thresholdSecs t * 1000000000)) :
    classify t now = .freeRunning := by
  sorry

theorem other_unknown (t : Tracking) (now : Int) (h : now < t.refNs ∨ t.leap ≥ 4) :
    classify t now = .unknown := by
  sorry

theorem fresh_synchronized (t : Tracking) (now : Int) (hl : t.leap ≤ 2) (hn : t.refNs ≤ now)
    (h : now - t.refNs ≤ thresholdSecs t * 1000000000) : classify t now = .synchronized := by
  sorry

theorem model_holds (t : Tracking) (now : Int) : Holds t now (classify t now) = true := by
  sorry

example : classify { leap := 1, refNs := 100, offW := 0, dispW := 0, delayW := 0, intervalW := 0x0b000000 } 100 = .synchronized := by decide +kernel

end ClockBound.C10
