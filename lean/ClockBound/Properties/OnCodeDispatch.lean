/-
  C08 and C09 on the writer thread's loop stated ABOUT THE SOURCE (see `OnCodeClient.lean` for the reading): each theorem mentions the
  regenerated AST `Generated.Code` run by the interpreter, and the oracle of the property; model functions occur only
  as witnesses.  Compositions of `CodeTieDispatch.process_messages_eq` / `records_eq` with the `model_holds` theorems of the properties.
-/
import ClockBound.Properties.CodeTieDispatch
import ClockBound.Properties.C08
import ClockBound.Properties.C09
namespace ClockBound.OnCode
open ClockBound ClockBound.Rs ClockBound.Generated ClockBound.Rs.DictPoller

/-- the records among the entries of the event log of a run of the writer thread -/
def recordsOf (l : List Value) : List Value := l.filter isRecordValue

/-- `recordValue` is injective, so the records logged determine the model records -/
theorem writerRun_ne_none (nowNs : Int) (ms : List WMsg) (u : Updater)
    (h : (Updater.run u (ms.filterMap (WMsg.toMsg nowNs))).length = (ms.filterMap (WMsg.toMsg nowNs)).length) :
    ∃ u' l, writerRun nowNs u ms = some (u', l) := by
  induction ms generalizing u with
  | nil => exact ⟨u, [], rfl⟩
  | cons m ms ih =>
    cases hm : m.toMsg nowNs with
    | none =>
      simp only [List.filterMap_cons, hm] at h
      obtain ⟨u', l, e⟩ := ih u h
      exact ⟨u', evRecv m.recvd :: l, by simp only [writerRun, hm, e, Option.map_some]⟩
    | some msg =>
      simp only [List.filterMap_cons, hm, Updater.run] at h
      cases hs : u.step msg with
      | none => rw [hs] at h; simp at h
      | some p =>
        obtain ⟨u1, r⟩ := p
        rw [hs] at h
        simp only [List.length_cons, Nat.add_right_cancel_iff] at h
        obtain ⟨u', l, e⟩ := ih u1 h
        exact ⟨u', evRecv m.recvd :: recordValue r :: l, by simp only [writerRun, hm, hs, e, Option.map_some]⟩

/-- **C08 and C09 on the source**: the writer thread's loop `process_messages` of the current source, started on a
    fresh `ShmUpdater::new(_, drift)` state, fed ANY list of messages (none of which overflows an i64 field:
    `Msg.ok`) followed by `ThreadAbort`: it does not panic, returns `()`, and the records it hands to
    `ShmWrite::write`, in order, satisfy the C08 oracle (one per outcome; as-of/bound of the latest synchronised
    report, void-after = as-of + 1000 s, the configured drift, status per the FSM) and the C09 oracle (Unknown
    until a first synchronised report) -/
theorem C08_C09_process_messages (drift : Nat) (nowNs : Int) (inp : Nat → Value) (ms : List WMsg)
    (hwf : ∀ m ∈ ms, m.wf = true) (hok : ∀ m ∈ ms.filterMap (WMsg.toMsg nowNs), m.ok = true)
    (hin : inputsAt inp 0 (ms.map WMsg.recvd ++ [recvAbort])) (F : Nat) (hF : ms.length + 110 ≤ F) :
    ∃ (log : List Value) (recs : List Record),
      runFuel F (CodeTieDispatch.ctxP nowNs inp) "shm_writer::process_messages" .unit
        [contextValue "ChannelId::ShmWriter", updaterValue (Updater.new drift)] = .ok .unit .unit log ∧
      recordsOf log = recs.map recordValue ∧
      C08.Holds drift ((ms.filterMap (WMsg.toMsg nowNs)).map abstractMsg) recs = true ∧
      C09.Holds ((ms.filterMap (WMsg.toMsg nowNs)).map abstractMsg) recs = true := by
  have hlen := C08.one_publication_per_outcome drift _ hok
  obtain ⟨u', l, hw⟩ := writerRun_ne_none nowNs ms (Updater.new drift) hlen
  refine ⟨l ++ [evRecv recvAbort], Updater.run (Updater.new drift) (ms.filterMap (WMsg.toMsg nowNs)), ?_, ?_,
    C08.model_holds drift _ hok, C09.model_holds drift _⟩
  · rw [CodeTieDispatch.process_messages_eq nowNs inp ms hwf _ hin F hF, hw]
  · exact CodeTieDispatch.records_eq nowNs ms _ u' l hw

end ClockBound.OnCode
