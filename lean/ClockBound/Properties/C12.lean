/-
  C12 — Clock reads are ordered so that delays only make the bound more pessimistic.
-/
import ClockBound.Model.World
import ClockBound.Proofs.World
import ClockBound.Properties.C01
namespace ClockBound.C12
open ClockBound

/-- (i) the modelled order of reads (tied to the code by the interposer's read log on every run) -/
theorem client_reads_realtime_first : clientReads = [.realtime, .monoCoarse] := rfl
theorem poller_reads_monotonic_before_query : pollerReads = [.monoCoarse, .query] := rfl

/-- (ii-a) client side: any delay between the realtime read and the monotonic read only widens the
    interval: the half-width is monotone in the monotonic reading -/
theorem client_delay_widens (r : Record) (real m1 m2 : TimeSpec) (e1 l1 e2 l2 : TimeSpec) (s1 s2 : Status)
    (hx : (⟨r, real, m1⟩ : ClientIn).meaningful = true) (hd : r.drift < 1000000000)
    (h2 : m2.inRange = true) (hle : m1.toNs ≤ m2.toNs)
    (o1 : computeBoundAt r real m1 = .ok e1 l1 s1) (o2 : computeBoundAt r real m2 = .ok e2 l2 s2) :
    l1.toNs - real.toNs ≤ l2.toNs - real.toNs ∧ e2.toNs ≤ e1.toNs := by
  sorry

/-- (ii-b) daemon side: an earlier as-of reading (a longer delay before chronyd answers) only widens
    the interval a client later computes from the same report -/
theorem daemon_delay_widens (r1 r2 : Record) (real mono : TimeSpec) (e1 l1 e2 l2 : TimeSpec) (s1 s2 : Status)
    (hsame : r2 = { r1 with asOf := r2.asOf, voidAfter := r2.voidAfter })
    (hx1 : (⟨r1, real, mono⟩ : ClientIn).meaningful = true) (hx2 : (⟨r2, real, mono⟩ : ClientIn).meaningful = true)
    (hd : r1.drift < 1000000000) (hle : r2.asOf.toNs ≤ r1.asOf.toNs)
    (o1 : computeBoundAt r1 real mono = .ok e1 l1 s1) (o2 : computeBoundAt r2 real mono = .ok e2 l2 s2) :
    l1.toNs - real.toNs ≤ l2.toNs - real.toNs := by
  sorry

-- (ii-c) C01 needs only `ta ≤ tq` and `tr ≤ tm` as ordering facts about the reads, so it holds for
-- every amount of delay: that is `C01.containment` itself (hypotheses `WEvent.ok` and `hrm`).

/-- (iii) necessity, daemon side: if the as-of reading were taken AFTER chronyd answered, there is a
    world satisfying every other hypothesis in which containment fails. -/
theorem asof_after_query_breaks :
    ∃ (w : World) (ta tq tp tr tm : Rat) (t : Tracking),
      w.Good ∧ tq < ta ∧ ta ≤ tp ∧ tp ≤ tr ∧ tr ≤ tm ∧ reportValid w tq t 0 ∧
      classify t (w.Rc tp).floor = .synchronized ∧
      ∃ r e l st, r ∈ (DaemonState.run w [.poll ta tq tp (some t) 0 false]).published ∧
        clientQuery w r tr tm = .ok e l st ∧ st ≠ .unknown ∧
        ¬ ((e.toNs : Rat) - sigma w < tr ∧ tr < (l.toNs : Rat) + sigma w) := by
  sorry

/-- (iii) necessity, client side: if the monotonic clock were read BEFORE the realtime clock … -/
theorem mono_before_realtime_breaks :
    ∃ (w : World) (ta tq tp tr tm : Rat) (t : Tracking),
      w.Good ∧ ta ≤ tq ∧ tq ≤ tp ∧ tp ≤ tm ∧ tm < tr ∧ reportValid w tq t 0 ∧
      classify t (w.Rc tp).floor = .synchronized ∧
      ∃ r e l st, r ∈ (DaemonState.run w [.poll ta tq tp (some t) 0 false]).published ∧
        clientQuery w r tr tm = .ok e l st ∧ st ≠ .unknown ∧
        ¬ ((e.toNs : Rat) - sigma w < tr ∧ tr < (l.toNs : Rat) + sigma w) := by
  sorry

end ClockBound.C12
