/-
  C12 — Clock reads are ordered so that delays only make the bound more pessimistic.
-/
import ClockBound.Model.World
import ClockBound.Proofs.World
import ClockBound.Properties.C01
namespace ClockBound.C12
open ClockBound

/-- (i) the modelled order of reads (tied to the code by the interposer's read log on every run) -/
theorem client_reads_realtime_first : clientReads = [.realtime, .monoCoarse] := rfl
theorem poller_reads_monotonic_before_query : pollerReads = [.monoCoarse, .query] := rfl

/-- (ii-a) client side: any delay between the realtime read and the monotonic read only widens the
    interval: the half-width is monotone in the monotonic reading -/
theorem client_delay_widens (r : Record) (real m1 m2 : TimeSpec) (e1 l1 e2 l2 : TimeSpec) (s1 s2 : Status)
    (hx : (⟨r, real, m1⟩ : ClientIn).meaningful = true) (hd : r.drift < 1000000000)
    (h2 : m2.inRange = true) (hle : m1.toNs ≤ m2.toNs)
    (o1 : computeBoundAt r real m1 = .ok e1 l1 s1) (o2 : computeBoundAt r real m2 = .ok e2 l2 s2) :
    l1.toNs - real.toNs ≤ l2.toNs - real.toNs ∧ e2.toNs ≤ e1.toNs := by
  obtain ⟨_, _, _, he1, hl1, _, _, _⟩ := ok_closed _ hx e1 l1 s1 o1
  obtain ⟨_, _, _, he2, hl2, _, _, _⟩ :=
    ok_closed (⟨r, real, m2⟩ : ClientIn) (meaningful_withMono hx h2) e2 l2 s2 o2
  have _ := hd
  have hage : (⟨r, real, m1⟩ : ClientIn).age ≤ (⟨r, real, m2⟩ : ClientIn).age := by
    rw [age_eq_max, age_eq_max]; simp only []; omega
  have := C05.growth_mono _ _ r.drift hage
  simp only [] at he1 hl1 he2 hl2
  omega

/-- (ii-b) daemon side: an earlier as-of reading (a longer delay before chronyd answers) only widens
    the interval a client later computes from the same report -/
theorem daemon_delay_widens (r1 r2 : Record) (real mono : TimeSpec) (e1 l1 e2 l2 : TimeSpec) (s1 s2 : Status)
    (hsame : r2 = { r1 with asOf := r2.asOf, voidAfter := r2.voidAfter })
    (hx1 : (⟨r1, real, mono⟩ : ClientIn).meaningful = true) (hx2 : (⟨r2, real, mono⟩ : ClientIn).meaningful = true)
    (hd : r1.drift < 1000000000) (hle : r2.asOf.toNs ≤ r1.asOf.toNs)
    (o1 : computeBoundAt r1 real mono = .ok e1 l1 s1) (o2 : computeBoundAt r2 real mono = .ok e2 l2 s2) :
    l1.toNs - real.toNs ≤ l2.toNs - real.toNs := by
  have _ := hd
  have hb : r2.bound = r1.bound := by rw [hsame]
  have hdr : r2.drift = r1.drift := by rw [hsame]
  obtain ⟨_, _, _, _, hl1, _, _, _⟩ := ok_closed _ hx1 e1 l1 s1 o1
  obtain ⟨_, _, _, _, hl2, _, _, _⟩ := ok_closed _ hx2 e2 l2 s2 o2
  have hage : (⟨r1, real, mono⟩ : ClientIn).age ≤ (⟨r2, real, mono⟩ : ClientIn).age := by
    rw [age_eq_max, age_eq_max]; simp only []; omega
  have := C05.growth_mono _ _ r1.drift hage
  simp only [] at hl1 hl2
  rw [hb, hdr] at hl2
  omega

-- (ii-c) C01 needs only `ta ≤ tq` and `tr ≤ tm` as ordering facts about the reads, so it holds for
-- every amount of delay: that is `C01.containment` itself (hypotheses `WEvent.ok` and `hrm`).

/-- a realtime clock gaining exactly ρ = 50 ppm on an ideal monotonic clock -/
def driftWorld : World := ⟨fun t => t + t * 50000 / 1000000000, fun t => t, 50000⟩

/-- a report with offset 0, delay 0, dispersion 2^-20 s (954 ns), 16 s update interval -/
def report : Tracking :=
  { leap := 0, refNs := 0, offW := 0, dispW := 3699376128, delayW := 0, intervalW := 209715200 }

/-- `driftWorld` satisfies the clock hypotheses of C01 (with equality in the drift bound) -/
theorem driftWorld_good : driftWorld.Good := by
  refine ⟨fun t1 t2 h => h, ?_⟩
  intro t1 t2 h
  show (t2 + t2 * 50000 / 1000000000 - t2) - (t1 + t1 * 50000 / 1000000000 - t1) ≤
        ((50000 : Nat) : Rat) * (t2 - t1) / 1000000000 ∧
      (t1 + t1 * 50000 / 1000000000 - t1) - (t2 + t2 * 50000 / 1000000000 - t2) ≤
        ((50000 : Nat) : Rat) * (t2 - t1) / 1000000000
  push_cast
  constructor <;> linarith

/-- (iii) necessity, daemon side: if the as-of reading were taken AFTER chronyd answered, there is a
    world satisfying every other hypothesis in which containment fails. -/
theorem asof_after_query_breaks :
    ∃ (w : World) (ta tq tp tr tm : Rat) (t : Tracking),
      w.Good ∧ tq < ta ∧ ta ≤ tp ∧ tp ≤ tr ∧ tr ≤ tm ∧ reportValid w tq t 0 ∧
      classify t (w.Rc tp).floor = .synchronized ∧
      ∃ r e l st, r ∈ (DaemonState.run w [.poll ta tq tp (some t) 0 false]).published ∧
        clientQuery w r tr tm = .ok e l st ∧ st ≠ .unknown ∧
        ¬ ((e.toNs : Rat) - sigma w < tr ∧ tr < (l.toNs : Rat) + sigma w) := by
  -- chronyd answers at 0 s (clock exact there), as-of is read 20 s later, the client asks at 22 s:
  -- the growth term covers 2 s of drift instead of 22 s, and 20 s · 50 ppm = 1 ms is missing
  refine ⟨driftWorld, 20000000000, 0, 20000000000, 22000000000, 22000000000, report,
    driftWorld_good, by norm_num, by norm_num, by norm_num, by norm_num, ?_, by decide +kernel,
    ⟨⟨20, 0⟩, ⟨1020, 0⟩, 954, 50000, 0, .synchronized⟩, ⟨22, 999046⟩, ⟨22, 1200954⟩, .synchronized,
    ?_, by decide +kernel, by decide, ?_⟩
  · show absR _ ≤ _
    decide +kernel
  · have hp : (DaemonState.run driftWorld
        [.poll 20000000000 0 20000000000 (some report) 0 false]).published =
        [⟨⟨20, 0⟩, ⟨1020, 0⟩, 954, 50000, 0, .synchronized⟩] := by decide +kernel
    rw [hp]; exact List.mem_cons_self
  · intro h
    have h1 := h.1
    revert h1
    decide +kernel

/-- (iii) necessity, client side: if the monotonic clock were read BEFORE the realtime clock … -/
theorem mono_before_realtime_breaks :
    ∃ (w : World) (ta tq tp tr tm : Rat) (t : Tracking),
      w.Good ∧ ta ≤ tq ∧ tq ≤ tp ∧ tp ≤ tm ∧ tm < tr ∧ reportValid w tq t 0 ∧
      classify t (w.Rc tp).floor = .synchronized ∧
      ∃ r e l st, r ∈ (DaemonState.run w [.poll ta tq tp (some t) 0 false]).published ∧
        clientQuery w r tr tm = .ok e l st ∧ st ≠ .unknown ∧
        ¬ ((e.toNs : Rat) - sigma w < tr ∧ tr < (l.toNs : Rat) + sigma w) := by
  -- the whole poll happens at 0 s; the client reads the monotonic clock at 2 s and the realtime
  -- clock only at 22 s: again 20 s · 50 ppm = 1 ms of drift is not covered
  refine ⟨driftWorld, 0, 0, 0, 22000000000, 2000000000, report,
    driftWorld_good, by norm_num, by norm_num, by norm_num, by norm_num, ?_, by decide +kernel,
    ⟨⟨0, 0⟩, ⟨1000, 0⟩, 954, 50000, 0, .synchronized⟩, ⟨22, 999046⟩, ⟨22, 1200954⟩, .synchronized,
    ?_, by decide +kernel, by decide, ?_⟩
  · show absR _ ≤ _
    decide +kernel
  · have hp : (DaemonState.run driftWorld [.poll 0 0 0 (some report) 0 false]).published =
        [⟨⟨0, 0⟩, ⟨1000, 0⟩, 954, 50000, 0, .synchronized⟩] := by decide +kernel
    rw [hp]; exact List.mem_cons_self
  · intro h
    have h1 := h.1
    revert h1
    decide +kernel

end ClockBound.C12
