/-
  The `session` lines' model of a client (`DriverS.Cl.snap`: "return the cache unless version ≠ 0, generation ≠ 0, even, and different
  from the cached generation; otherwise take the segment's record") IS `ShmReader::snapshot` on a quiescent segment: on memory that does
  not change during the call (every load of the version returns `v`, of the generation `g`, of cell `c` the `c`-th cell) the closed form
  `SL.readerProg` — which the translation tie proves equal to the interpreted source for ALL streams of load results
  (`CodeTieSeqlock.snapshot_eq`) and `SeqlockProg.readerRunG_eq_prog` proves equal to the reader machine of the C02/C03/C18 theorems —
  returns the cache and keeps the cached generation in exactly those cases, and otherwise accepts at the FIRST attempt, returns the cells
  and caches them under `g`.  So the oracle the session correspondence compares the real clients with is not a separate re-description
  of the reader.
-/
import ClockBound.Model.SeqlockProg
import ClockBound.Model.DriverSession
namespace ClockBound.SessionModel
open ClockBound ClockBound.SL

/-- the load results of one call on memory that does not change: version, generation, the seven cells, the generation again -/
def Quiescent (inp : Nat → Nat) (v g : Nat) (cells : List Nat) : Prop :=
  inp 0 = v ∧ inp 1 = g ∧ (∀ c, c < N → inp (2 + c) = cells.getD c 0) ∧ inp (2 + N) = g

theorem attemptCells_quiescent (inp : Nat → Nat) (v g : Nat) (cells : List Nat) (hl : cells.length = N)
    (h : Quiescent inp v g cells) : attemptCells inp 2 = cells := by
  obtain ⟨_, _, hc, _⟩ := h
  unfold attemptCells
  apply List.ext_getElem
  · simp [hl]
  · intro i h1 h2
    simp only [List.getElem_map, List.getElem_range]
    have hi : i < N := by simpa using h1
    rw [hc i hi]
    simp [List.getD_eq_getElem?_getD, h2]

/-- result, new cached generation and new cache of `snapshot()` on a quiescent segment -/
theorem snapshot_quiescent (a : Ann) (inp : Nat → Nat) (v g cacheGen : Nat) (cells cache : List Nat)
    (hl : cells.length = N) (h : Quiescent inp v g cells) :
    (readerProg a inp cacheGen cache).2 =
      if v = 0 ∨ g = 0 ∨ g = cacheGen ∨ g % 2 = 1 then (.ok cache, cacheGen, cache) else (.ok cells, g, cells) := by
  have hcells := attemptCells_quiescent inp v g cells hl h
  obtain ⟨h0, h1, _, h2⟩ := h
  unfold readerProg
  simp only [h0, h1]
  by_cases hv : v = 0
  · simp [hv]
  · rw [if_neg hv]
    by_cases hg : g = 0 ∨ g = cacheGen ∨ g % 2 = 1
    · rw [if_pos hg, if_pos (Or.inr hg)]
    · rw [if_neg hg, if_neg (by intro hh; rcases hh with hh | hh; exact hv hh; exact hg hh)]
      have hloop : readerLoop a inp RETRIES 2 g = (attemptAccs a inp 2, some (g, attemptCells inp 2)) := by
        show readerLoop a inp (999999 + 1) 2 g = _
        unfold readerLoop
        simp only [h2, if_true]
      rw [hloop, hcells]

/-- the same at the level of the session model: `Cl.snap` on records is `snapshot_quiescent` on their word images -/
theorem session_snap (c : DriverS.Cl) (s : DriverS.Seg) :
    (c.snap s).cacheGen = (if s.version = 0 ∨ s.gen = 0 ∨ s.gen = c.cacheGen ∨ s.gen % 2 = 1 then c.cacheGen else s.gen) ∧
    (c.snap s).cache = (if s.version = 0 ∨ s.gen = 0 ∨ s.gen = c.cacheGen ∨ s.gen % 2 = 1 then c.cache else s.cur) := by
  unfold DriverS.Cl.snap
  split <;> simp_all

/-- non-vacuity: a quiescent stream exists for every segment content -/
example (v g : Nat) (cells : List Nat) : ∃ inp, Quiescent inp v g cells :=
  ⟨fun i => if i = 0 then v else if i = 1 then g else if i = 2 + N then g else cells.getD (i - 2) 0,
   by simp [Quiescent, N], by simp [Quiescent, N], by
     intro c hc
     have h1 : 2 + c ≠ 0 := by omega
     have h2 : 2 + c ≠ 1 := by omega
     have h3 : ¬ c = N := by omega
     simp [h1, h2, h3], by simp [N]⟩

end ClockBound.SessionModel
