/-
  The closed-form programs of `Model/SeqlockProg.lean` ARE the machines of `Model/Seqlock.lean`.

  * `rStep_eq_G`            `rStep` is `rStepG` applied to the answer of the memory (state and result);
  * `rStepG_control`        the control part of `rStepG` (pc, cache, result, access) depends on the answer only
                            through its value, never through the ghost index or the view;
  * `readerRunG_eq_prog`    a whole call of the machine against ANY stream of load results performs the
                            accesses, returns the result and leaves the cache that `readerProg` computes;
                            (for every fuel ≥ `stepBound`, the C18 bound);
  * `writerRun_eq_prog`     the 3 + N (+1 with a fence) steps of `wStep` that make up one `write(rec)` append to the
                            log exactly the stores of `writerProg`, in that order, and return to `idle`.
  The translation tie (`CodeTieSeqlock`) targets `readerProg` / `writerProg`.
-/
import ClockBound.Model.SeqlockProg
import ClockBound.Proofs.SeqlockProg
namespace ClockBound.SeqlockProg
open ClockBound ClockBound.SL

/-- `rStep` = `rStepG` fed with what the memory answers -/
theorem rStep_eq_G (a : Ann) (log : Log) (r : Reader) (pickCell pickMsg : Nat) :
    (rStep a log r pickCell pickMsg).1 = (rStepG a r pickCell (rAnswer a log r pickCell pickMsg)).1 ∧
    (rStep a log r pickCell pickMsg).2.1 = (rStepG a r pickCell (rAnswer a log r pickCell pickMsg)).2.1 :=
  Proofs.rStep_eq_G a log r pickCell pickMsg

/-- the reader's control does not look at the ghost index or the view of an answer -/
theorem rStepG_control (a : Ann) (r : Reader) (pickCell v j j' : Nat) (vw vw' : View) :
    (rStepG a r pickCell (v, j, vw)).1.pc = (rStepG a r pickCell (v, j', vw')).1.pc ∧
    (rStepG a r pickCell (v, j, vw)).1.cacheGen = (rStepG a r pickCell (v, j', vw')).1.cacheGen ∧
    (rStepG a r pickCell (v, j, vw)).1.cache = (rStepG a r pickCell (v, j', vw')).1.cache ∧
    (rStepG a r pickCell (v, j, vw)).2 = (rStepG a r pickCell (v, j', vw')).2 :=
  Proofs.rStepG_control a r pickCell v j j' vw vw'

/-- a whole `snapshot()` call of the machine, against any stream of load results, is `readerProg` -/
theorem readerRunG_eq_prog (a : Ann) (inp : Nat → Nat) (r : Reader) (fuel : Nat) (hf : stepBound ≤ fuel) :
    let out := readerRunG a inp fuel r.call 0 []
    let p := readerProg a inp r.cacheGen r.cache
    out.2.1 = some p.2.1 ∧ out.2.2 = p.1 ∧ out.1.cacheGen = p.2.2.1 ∧ out.1.cache = p.2.2.2 ∧ out.1.pc = .idle :=
  Proofs.readerRunG_eq_prog a inp r fuel hf

/-- one `write(rec)` of the machine appends exactly the stores of `writerProg` and returns to `idle` -/
theorem writerRun_eq_prog (a : Ann) (log : Log) (w : Writer) (rec : List Nat) (hl : rec.length = N) :
    let n := 3 + N + (if a.wFence.isSome then 1 else 0)
    let out := writerRun a n log { w with pc := .loadGen rec }
    out.2.pc = .idle ∧
    ∃ msgs, out.1 = log ++ msgs ∧
      msgs.map (fun m => (m.loc, m.val)) = storesOf (writerProg a (latest log .gen) rec) :=
  Proofs.writerRun_eq_prog a log w rec hl

/-- non-vacuity / sanity: the default annotation, a record accepted at the second attempt -/
example :
    let inp : Nat → Nat := fun k => if k = 0 then 1 else if k = 1 then 4 else if k = 9 then 6 else if k = 17 then 6 else k
    (readerProg {} inp 2 (List.replicate N 0)).2 = (.ok [10, 11, 12, 13, 14, 15, 16], 6, [10, 11, 12, 13, 14, 15, 16]) := by
  decide

example : storesOf (writerProg {} 65534 [1, 2, 3, 4, 5, 6, 7]) =
    [(.gen, 65535), (.cell 0, 1), (.cell 1, 2), (.cell 2, 3), (.cell 3, 4), (.cell 4, 5), (.cell 5, 6), (.cell 6, 7), (.gen, 2)] := by
  decide

end ClockBound.SeqlockProg
