/-
  C12 (daemon half) — the as-of instant attached to a chrony report is a monotonic-clock reading
  taken BEFORE the request to chronyd is issued.

  Subject: the ordered action list `pollActions` / event trace `pollTrace` of one iteration of
  `run_clock_error_bound_poller` (Model/Poller.lean).  The order itself is tied to the source by
  the harness: the clock reads and the query of the real loop are logged and compared, per
  iteration, with `obsLog (pollActions …)`; `C12d.Holds` is evaluated on the observed log.
-/
import ClockBound.Model.Poller
import ClockBound.Proofs.Poller
namespace ClockBound.C12d
open ClockBound

/-- in every iteration — whatever chronyd answers, with or without PHC — the first action is the
    monotonic (coarse) clock read, the second is the query, and neither is repeated -/
theorem asof_read_precedes_query (reply : ReplyKind) (phc : Option PhcCfg) :
    ∃ rest, pollActions reply phc = .readMonoCoarse :: .query :: rest ∧
      PollAction.readMonoCoarse ∉ rest ∧ PollAction.query ∉ rest := by
  unfold pollActions
  refine ⟨_, rfl, ?_⟩
  cases reply with
  | none => simp
  | other => simp
  | tracking t =>
    cases phc with
    | none => simp
    | some cfg =>
      by_cases hm : cfg.refid = t.refid
      · cases hr : cfg.file.read with
        | none => simp [hm, hr]
        | some o => cases o <;> simp [hm, hr]
      · simp [hm]

/-- the event trace (with the values that flow) performs exactly the actions of `pollActions` -/
theorem trace_actions (s : PollerState) (coarse : TimeSpec) (reply : ReplyKind) (tReply tGrace : Int)
    (phc : Option PhcCfg) :
    (pollTrace s coarse reply tReply tGrace phc).map PollEv.action = pollActions reply phc := by
  unfold pollTrace pollActions
  cases reply with
  | none => rfl
  | other => rfl
  | tracking t =>
    cases phc with
    | none => rfl
    | some cfg =>
      by_cases hm : cfg.refid = t.refid
      · cases hr : cfg.file.read with
        | none => simp [hm, hr, PollEv.action]
        | some o => cases o <;> simp [hm, hr, PollEv.action]
      · simp [hm, PollEv.action]

/-- the messages sent in the trace are exactly the message of `pollStep` (none if it panics) -/
theorem trace_send_is_step_msg (s : PollerState) (coarse : TimeSpec) (reply : ReplyKind)
    (tReply tGrace : Int) (phc : Option PhcCfg) :
    (pollTrace s coarse reply tReply tGrace phc).filterMap
        (fun e => match e with | .send m => some m | _ => none)
      = if (pollStep s coarse reply tReply tGrace phc).2 = .panic then []
        else [(pollStep s coarse reply tReply tGrace phc).2] := by
  unfold pollTrace pollStep
  cases reply with
  | none => simp only [List.filterMap]; cases s.withinGrace tGrace <;> simp
  | other => simp only [List.filterMap]; cases s.withinGrace tGrace <;> simp
  | tracking t =>
    cases phc with
    | none => simp [List.filterMap]
    | some cfg =>
      by_cases hm : cfg.refid = t.refid
      · cases hr : cfg.file.read with
        | none => simp [hm, hr, List.filterMap]
        | some o =>
          cases o with
          | none =>
            simp only [hm, hr, if_true, List.filterMap]
            cases PollerState.withinGrace ⟨tReply⟩ tGrace <;> simp
          | some v => simp [hm, hr, List.filterMap]
      · simp [hm, List.filterMap]

/-- a data message carries the as-of the iteration was given, unchanged -/
theorem step_data_asof (s : PollerState) (asOf : TimeSpec) (reply : ReplyKind) (tReply tGrace : Int)
    (phc : Option PhcCfg) (t : Tracking) (p : Int) (a : TimeSpec)
    (h : (pollStep s asOf reply tReply tGrace phc).2 = .data t p a) : a = asOf := by
  unfold pollStep at h
  cases reply with
  | none => by_cases hg : s.withinGrace tGrace = true <;> simp [hg] at h
  | other => by_cases hg : s.withinGrace tGrace = true <;> simp [hg] at h
  | tracking t' =>
    cases phc with
    | none => simp only [PollMsg.data.injEq] at h; exact h.2.2.symm
    | some cfg =>
      simp only [] at h
      by_cases hm : cfg.refid = t'.refid
      · simp only [hm, if_true] at h
        cases hr : cfg.file.read with
        | none => simp [hr] at h
        | some o =>
          cases o with
          | none => by_cases hg : PollerState.withinGrace ⟨tReply⟩ tGrace = true <;> simp [hr, hg] at h
          | some v => simp only [hr, PollMsg.data.injEq] at h; exact h.2.2.symm
      · simp only [hm, if_false, PollMsg.data.injEq] at h; exact h.2.2.symm

/-- C12, daemon half: the as-of of every data message sent in an iteration is the value returned
    by the clock read that opens the iteration — the read that precedes the query
    (`asof_read_precedes_query`) — and nothing read later -/
theorem data_asof_is_first_read (s : PollerState) (coarse : TimeSpec) (reply : ReplyKind)
    (tReply tGrace : Int) (phc : Option PhcCfg) (t : Tracking) (p : Int) (a : TimeSpec)
    (h : PollEv.send (.data t p a) ∈ pollTrace s coarse reply tReply tGrace phc) :
    (pollTrace s coarse reply tReply tGrace phc).head? = some (.readMonoCoarse a) ∧
    (pollTrace s coarse reply tReply tGrace phc)[1]? = some (.query reply) := by
  have hm : (PollMsg.data t p a) ∈ (pollTrace s coarse reply tReply tGrace phc).filterMap
      (fun e => match e with | .send m => some m | _ => none) :=
    List.mem_filterMap.2 ⟨_, h, rfl⟩
  rw [trace_send_is_step_msg] at hm
  have ha : a = coarse := by
    split at hm
    · cases hm
    · rw [List.mem_singleton] at hm
      exact step_data_asof s coarse reply tReply tGrace phc t p a hm.symm
  subst ha
  unfold pollTrace
  exact ⟨rfl, rfl⟩

/-- consequently the data message does not depend on how long chronyd took to answer, nor on any
    `Instant` reading, nor on the poller's state: a delay can only age the as-of -/
theorem data_msg_independent_of_delay (s s' : PollerState) (asOf : TimeSpec) (t : Tracking)
    (tReply tGrace tReply' tGrace' : Int) (phc : Option PhcCfg) (p : Int) (a : TimeSpec)
    (h : (pollStep s asOf (.tracking t) tReply tGrace phc).2 = .data t p a) :
    (pollStep s' asOf (.tracking t) tReply' tGrace' phc).2 = .data t p a := by
  unfold pollStep at h ⊢
  cases phc with
  | none => exact h
  | some cfg =>
    simp only [] at h ⊢
    by_cases hm : cfg.refid = t.refid
    · simp only [hm, if_true] at h ⊢
      cases hr : cfg.file.read with
      | none => simp [hr] at h
      | some o =>
        cases o with
        | none => by_cases hg : PollerState.withinGrace ⟨tReply⟩ tGrace = true <;> simp [hr, hg] at h
        | some v => simp only [hr] at h ⊢; exact h
    · simp only [hm, if_false] at h ⊢; exact h

/-! ### the oracle -/

theorem obsLog_prefix (reply : ReplyKind) (phc : Option PhcCfg) :
    ∃ rest, obsLog (pollActions reply phc) = 6 :: (-1) :: rest := by
  obtain ⟨rest, h, _⟩ := asof_read_precedes_query reply phc
  exact ⟨obsLog rest, by rw [h]; rfl⟩

theorem holdsIter_step (refid : Option Nat) (s : PollerState) (it : PollIter) :
    HoldsIter it.asOf (obsLog (it.actions refid)) (it.step refid s).2 = true := by
  unfold HoldsIter PollIter.actions
  obtain ⟨rest, h⟩ := obsLog_prefix it.reply (it.phc refid)
  rw [h]
  have h1 : indexOf? 6 (6 :: (-1) :: rest) = some 0 := by simp [indexOf?]
  have h2 : indexOf? (-1) (6 :: (-1) :: rest) = some 1 := by simp [indexOf?]
  rw [h1, h2]
  simp only [Nat.lt_one_iff, decide_true, Bool.true_and]
  cases hm : (it.step refid s).2 with
  | data t p a =>
    simp only [decide_eq_true_eq]
    exact step_data_asof s it.asOf it.reply it.tReply it.tGrace (it.phc refid) t p a hm
  | _ => rfl

theorem holds_from (refid : Option Nat) (its : List PollIter) :
    ∀ s : PollerState, Holds its ((Poller.runFrom refid s its).zip (Poller.logsFrom refid s its)) = true := by
  induction its with
  | nil => intro s; rfl
  | cons it rest ih =>
    intro s
    simp only [Poller.runFrom, Poller.logsFrom]
    by_cases hp : (it.step refid s).2 = .panic
    · simp only [hp, if_true, List.zip_cons_cons, List.zip_nil_right, Holds, Bool.and_true]
      rw [← hp]; exact holdsIter_step refid s it
    · simp only [hp, if_false, List.zip_cons_cons, Holds, Bool.and_eq_true]
      exact ⟨holdsIter_step refid s it, ih _⟩

/-- the decidable statement (evaluated by `cbmodel` on the log observed from the real loop) holds of
    the model's own messages and logs, for every run -/
theorem model_holds (tStart : Int) (refid : Option Nat) (iters : List PollIter) :
    Holds iters ((Poller.run tStart refid iters).zip (Poller.logs tStart refid iters)) = true :=
  holds_from refid iters (Poller.init tStart)

/-! ### non-vacuity -/

private def trk (refid : Nat) : Tracking :=
  { leap := 0, refNs := 0, offW := 0, dispW := 0, delayW := 0, intervalW := 0, refid := refid }

example : pollActions (.tracking (trk 7)) (some ⟨7, .unreadable⟩)
    = [.readMonoCoarse, .query, .readMono, .readPhc, .readMono, .send, .wait] := by decide
example : obsLog (pollActions .none none) = [6, -1, 1, -2, -3] := by decide
example : pollTrace ⟨0⟩ ⟨12, 500⟩ (.tracking (trk 7)) 10 20 (some ⟨7, .ok 9⟩)
    = [.readMonoCoarse ⟨12, 500⟩, .query (.tracking (trk 7)), .readMono 10, .readPhc (.ok 9),
       .send (.data (trk 7) 9 ⟨12, 500⟩), .wait] := by decide
/-- the oracle rejects an as-of read after the query, in the order of events and by its value -/
example : HoldsIter ⟨12, 500⟩ [-1, 6, 1, -2, -3] (.data (trk 7) 0 ⟨12, 500⟩) = false := by decide
example : HoldsIter ⟨12, 500⟩ [6, -1, 1, -2, -3] (.data (trk 7) 0 ⟨13, 500⟩) = false := by decide
example : HoldsIter ⟨12, 500⟩ [6, -1, 1, -2, -3] (.data (trk 7) 0 ⟨12, 500⟩) = true := by decide

end ClockBound.C12d
