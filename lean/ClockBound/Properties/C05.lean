/-
  C05 — Client interval: centred on the clock reading, wide enough, growing with age.
-/
import ClockBound.Model.Oracles
import ClockBound.Proofs.Client
namespace ClockBound.C05
open ClockBound

/-- (a) symmetric around the realtime reading, ordered, half-width = bound + growth(age, drift) -/
theorem symmetric (x : ClientIn) (h : applicable x = true) (e l : TimeSpec) (st : Status)
    (hout : computeBoundAt x.r x.real x.mono = .ok e l st) :
    l.toNs - x.real.toNs = x.r.bound + growth x.age x.r.drift ∧
    x.real.toNs - e.toNs = x.r.bound + growth x.age x.r.drift ∧
    e.toNs ≤ l.toNs ∧ e.normalized ∧ l.normalized := by
  simp only [applicable, Bool.and_eq_true, decide_eq_true_eq] at h
  obtain ⟨hm, _⟩ := h
  obtain ⟨_, _, _, he, hl, hen, hln, hg⟩ := ok_closed x hm e l st hout
  obtain ⟨_, _, _, _, hb0, _⟩ := meaningful_spec hm
  exact ⟨by omega, by omega, by omega, hen, hln⟩

/-- (b) the growth term against the exact product P = drift·age/10^9:
    P(1 − 2^-51) − 1 < growth ≤ P(1 + 2^-51)  (three f64 roundings, one truncation) -/
theorem growth_bounds (age : Int) (drift : Nat) (ha : 0 ≤ age) (ha2 : age ≤ 4300000000000000000)
    (hd : drift < 1000000000) :
    let P : Rat := (drift : Rat) * (age : Rat) / 1000000000
    P * (1 - eps51) - 1 < (growth age drift : Rat) ∧ (growth age drift : Rat) ≤ P * (1 + eps51) := by
  intro P
  exact (growth_bounds_aux age drift ha ha2 hd).2

/-- (b') exact in the regime the existing unit tests live in: whole seconds, small products -/
theorem growth_exact_whole_seconds (secs : Nat) (drift : Nat) (h1 : secs * 1000000000 < 2^53)
    (h2 : drift * secs < 2^53) (hd : drift < 2^32) :
    growth ((secs : Int) * 1000000000) drift = drift * secs := by
  exact growth_exact_aux secs drift h1 h2 hd

/-- growth is non-negative and monotone in the age -/
theorem growth_mono (a1 a2 : Int) (drift : Nat) (h : a1 ≤ a2) :
    growth a1 drift ≤ growth a2 drift := by
  exact growth_mono_aux a1 a2 drift h

/-- (c) the half-width never shrinks as the record gets older -/
theorem mono_holds (x : ClientIn) (mono2 : TimeSpec) :
    HoldsMono x mono2 (computeBoundAt x.r x.real x.mono) (computeBoundAt x.r x.real mono2) = true := by
  unfold HoldsMono
  by_cases hg : (applicable x && mono2.inRange && decide (x.mono.toNs ≤ mono2.toNs)) = true
  · simp only [hg, Bool.not_true, Bool.false_eq_true, if_false]
    simp only [Bool.and_eq_true, decide_eq_true_eq, applicable] at hg
    obtain ⟨⟨⟨hm, hd⟩, hr2⟩, hle⟩ := hg
    cases ho1 : computeBoundAt x.r x.real x.mono with
    | ok e1 l1 s1 =>
      cases ho2 : computeBoundAt x.r x.real mono2 with
      | ok e2 l2 s2 =>
        simp only [halfWidth, decide_eq_true_eq]
        obtain ⟨_, _, _, _, c1, _⟩ := ok_closed x hm e1 l1 s1 ho1
        obtain ⟨_, _, _, _, c2, _⟩ :=
          ok_closed ⟨x.r, x.real, mono2⟩ (meaningful_withMono hm hr2) e2 l2 s2 ho2
        have hage : x.age ≤ (⟨x.r, x.real, mono2⟩ : ClientIn).age := by
          rw [age_eq_max, age_eq_max]; simp only []; omega
        have := growth_mono _ _ x.r.drift hage
        simp only [] at c2
        omega
      | _ => rfl
    | _ => rfl
  · simp [hg]

theorem model_holds (x : ClientIn) : Holds x (computeBoundAt x.r x.real x.mono) = true := by
  unfold Holds
  by_cases h : applicable x = true
  · simp only [h, Bool.not_true, Bool.false_eq_true, if_false]
    cases hout : computeBoundAt x.r x.real x.mono with
    | ok e l st =>
      obtain ⟨h1, h2, h3, h4, h5⟩ := symmetric x h e l st hout
      have hh := h
      simp only [applicable, Bool.and_eq_true, decide_eq_true_eq] at hh
      obtain ⟨hm, hd⟩ := hh
      obtain ⟨_, _, _, _, hb0, _⟩ := meaningful_spec hm
      have hg0 := (ok_closed x hm e l st hout).2.2.2.2.2.2.2
      obtain ⟨gb1, gb2⟩ := growth_bounds x.age x.r.drift (age_nonneg x) (age_le x hm) hd
      have hg : l.toNs - x.real.toNs - x.r.bound = growth x.age x.r.drift := by omega
      simp only [Bool.and_eq_true, decide_eq_true_eq, TimeSpec.normB, exactGrowth, hg]
      exact ⟨⟨⟨⟨⟨by omega, by omega⟩, h4⟩, h5⟩, gb1⟩, gb2⟩
    | _ => rfl
  · simp [h]

example : applicable ⟨⟨⟨0,0⟩,⟨1000,0⟩,10000,1000,0,.synchronized⟩,⟨2,0⟩,⟨2,0⟩⟩ = true := by decide
example : growth 2000000000 1000 = 2000 := by decide +kernel
example : computeBoundAt ⟨⟨0,0⟩,⟨10,0⟩,10000,1000,0,.synchronized⟩ ⟨2,0⟩ ⟨2,0⟩
    = .ok ⟨1,999988000⟩ ⟨2,12000⟩ .synchronized := by decide +kernel

end ClockBound.C05
