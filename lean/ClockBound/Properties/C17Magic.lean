/-
  C17, the magic number's spelling in docs/PROTOCOL.md — kept apart from Properties/C17.lean so that
  the rest of C17 is evaluated independently of it.

  `magicDocAgrees` (Model/OraclesH.lean) reads every hex literal of the "Magic Number" description
  (Generated/Protocol.lean, regenerated from the document on every run): two-digit literals are bytes
  in file order, eight-digit literals native-endian 32-bit words in order, a sixteen-digit literal a
  native-endian 64-bit word; every form that occurs must spell the eight bytes the code writes on a
  little-endian host, `4E 5A 4D 41 00 02 42 43`.
-/
import ClockBound.Model.OraclesH
namespace ClockBound.C17
open ClockBound

theorem magic_doc_agrees : magicDocAgrees = true := by decide

end ClockBound.C17
