/-
  Translation tie, part 2: `impl From<u16> for ChronyClockStatus` (clock-bound-d/src/lib.rs).

  The AST that the translator regenerated from the Rust source (`Generated.Code.fns`), run by the
  interpreter `Rs.run`, classifies every leap status exactly like the hand-written `leapClass`.
-/
import ClockBound.Proofs.RsEval
import ClockBound.Generated.Code
namespace ClockBound.CodeTieLeap
open ClockBound ClockBound.Rs ClockBound.Generated

/-- for every leap value (no range hypothesis needed) and every environment -/
theorem leap_from_eq_all (leap : Nat) (nowNs : Int) :
    run (Code.ctx nowNs) "From<u16> for ChronyClockStatus::from" .unit [.int .u16 leap]
      = .ok (chronyValue (leapClass leap)) .unit [] := by
  simp [rs_eval, rs_code]
  unfold leapClass
  repeat' split
  all_goals first | rfl | omega | simp [chronyValue, chronyName]

/-- the contract form: for every `u16` -/
theorem leap_from_eq (leap : Nat) (_h : leap < 65536) (nowNs : Int) :
    run (Code.ctx nowNs) "From<u16> for ChronyClockStatus::from" .unit [.int .u16 leap]
      = .ok (chronyValue (leapClass leap)) .unit [] :=
  leap_from_eq_all leap nowNs

end ClockBound.CodeTieLeap
