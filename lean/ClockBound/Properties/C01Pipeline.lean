/-
  C01 through the shared-memory segment: the composition of C02 (what a reader can obtain from the
  segment) with C01.containment (what any published record guarantees).

  `C01.containment` is stated for "any record the history ever published"; that the client's snapshot IS
  such a record was, until this file, the informal appeal to C02.  Here the appeal is a theorem:

  * `cells_roundtrip`, `cells_zero`, `cellsOf_bytes`: the seven words the seqlock copies are the 56 bytes of
    the published layout, and decoding them gives back the record (for machine-integer field values);
  * `snapshot_is_published`: in the composed system — the daemon of `Model/World.lean` handing each record it
    publishes to the writer machine of `Model/Seqlock.lean`, one arbitrary reader, every interleaving, every
    admissible stale load, crashes and restarts of the writer — whatever `snapshot()` returns decodes to the
    empty record or to a record the history published;
  * `pipeline_containment`: hence true time lies inside every trusted interval a client computes from a
    snapshot, end to end.
-/
import ClockBound.Model.Pipeline
import ClockBound.Properties.C01
import ClockBound.Properties.C02
import ClockBound.Proofs.Pipeline
namespace ClockBound.C01
open ClockBound ClockBound.SL ClockBound.Pipeline

/-- decoding the seven words of a record with machine-integer fields gives the record back -/
theorem cells_roundtrip (r : Record) (pad : Nat) (hr : r.inRange) (hp : pad < TWO32) :
    recordOfCells (cellsOf r pad) = some r :=
  Pipeline.Proofs.cells_roundtrip r pad hr hp

/-- the reader's initial (all-zero) cache decodes to the empty record, whose status is Unknown -/
theorem cells_zero : recordOfCells zerosN = some Record.empty := by decide

theorem cellsOf_length (r : Record) (pad : Nat) : (cellsOf r pad).length = N := rfl

/-- the seven words are the 56 bytes of the published layout (`Model/Header.lean`, C17) cut into
    native-endian 64-bit words -/
theorem cellsOf_bytes (r : Record) (pad : Nat) (hr : r.inRange) (hp : pad < TWO32) :
    cellsOf r pad = cellsOfBytes (encodeRecordP r (padOf pad)) :=
  Pipeline.Proofs.cellsOf_bytes r pad hr hp

/-- a trusted status never comes out of the empty record -/
theorem empty_record_untrusted (real mono e l : TimeSpec) (st : Status)
    (h : computeBoundAt Record.empty real mono = .ok e l st) : st = .unknown :=
  Pipeline.Proofs.empty_record_untrusted real mono e l st h

/-- The writer publishes what the daemon published: every record handed to `write` so far is the word
    image of a record of the history (with some padding), and so is the segment's pre-existing content
    (left by an earlier incarnation of the daemon, or empty). -/
structure Feeds (pub : List Record) (cells0 : List Nat) (s : Sys) : Prop where
  written : ∀ c ∈ s.written, ∃ r ∈ pub, ∃ pad, pad < TWO32 ∧ r.inRange ∧ c = cellsOf r pad
  initial : cells0 = zerosN ∨ ∃ r ∈ pub, ∃ pad, pad < TWO32 ∧ r.inRange ∧ cells0 = cellsOf r pad

/-- C02 + layout: whatever a reader obtains decodes to the empty record or to a published one. -/
theorem snapshot_is_published (a : Ann) (ha : a.adequate = true)
    (ver gen : Nat) (cells0 : List Nat) (hc : cells0.length = N) (hg : gen < 65536)
    (s : Sys) (hreach : Reachable a (Sys.init ver gen cells0) s)
    (hnowrap : ∀ t, Reachable a (Sys.init ver gen cells0) t → ∀ g1 retries got pm,
        t.r.pc = .gen2 g1 retries got → (load t.log t.r.view .gen a.rGen2 pm).1 = g1 →
        evenGenBetween t.log t.r.g1Idx (load t.log t.r.view .gen a.rGen2 pm).2.1 < 32767)
    (pub : List Record) (hfeeds : Feeds pub cells0 s) :
    ∀ c ∈ s.returned, ∃ r, recordOfCells c = some r ∧ (r = Record.empty ∨ r ∈ pub) :=
  Pipeline.Proofs.snapshot_is_published a ha ver gen cells0 hc hg s hreach hnowrap pub hfeeds.written hfeeds.initial

/-- End-to-end containment through the segment: a world satisfying the hypotheses of C01, any history,
    the writer machine fed with the published records, any reader schedule; for every record `snapshot()`
    returned and every client query on it whose status is Synchronized or FreeRunning, true time at the
    realtime read lies within [earliest − σ, latest + σ]. -/
theorem pipeline_containment (w : World) (hw : w.Good) (hrho : w.rho < 1000000000)
    (evs : List WEvent) (hev : ∀ e ∈ evs, e.ok w)
    (a : Ann) (ha : a.adequate = true)
    (ver gen : Nat) (cells0 : List Nat) (hc : cells0.length = N) (hg : gen < 65536)
    (s : Sys) (hreach : Reachable a (Sys.init ver gen cells0) s)
    (hnowrap : ∀ t, Reachable a (Sys.init ver gen cells0) t → ∀ g1 retries got pm,
        t.r.pc = .gen2 g1 retries got → (load t.log t.r.view .gen a.rGen2 pm).1 = g1 →
        evenGenBetween t.log t.r.g1Idx (load t.log t.r.view .gen a.rGen2 pm).2.1 < 32767)
    (hfeeds : Feeds (DaemonState.run w evs).published cells0 s)
    (c : List Nat) (hcret : c ∈ s.returned) (r : Record) (hdec : recordOfCells c = some r)
    (tr tm : Rat) (hrm : tr ≤ tm) (hafter : ∀ e ∈ evs, ∀ t, e.endTime = some t → t ≤ tr)
    (hR : 0 ≤ (w.Rc tr).floor ∧ (w.Rc tr).floor < 2147483648000000000)
    (hM : (w.Mc tm).floor < 2147483648000000000)
    (e l : TimeSpec) (st : Status)
    (hout : clientQuery w r tr tm = .ok e l st) (hst : st ≠ .unknown) :
    (e.toNs : Rat) - sigma w < tr ∧ tr < (l.toNs : Rat) + sigma w := by
  obtain ⟨r', hr', hcase⟩ := snapshot_is_published a ha ver gen cells0 hc hg s hreach hnowrap _ hfeeds c hcret
  have : r' = r := by rw [hdec] at hr'; exact (Option.some.inj hr').symm
  subst this
  rcases hcase with hempty | hpub
  · subst hempty
    exact absurd (empty_record_untrusted _ _ e l st hout) hst
  · exact containment w hw hrho evs hev r' hpub tr tm hrm hafter hR hM e l st hout hst

/-- non-vacuity of `Feeds`: a fresh segment and a writer that has written one published record -/
example : Feeds [Record.empty] zerosN { log := [], written := [cellsOf Record.empty 0] } :=
  ⟨by intro c hc; simp at hc; exact ⟨Record.empty, by simp, 0, by decide, by decide, hc⟩, Or.inl rfl⟩

end ClockBound.C01
