/-
  The daemon's pipeline poller thread → channel → writer thread stated ABOUT THE SOURCE: the regenerated
  `chrony_poller::run` (clock-bound-d/src/chrony_poller.rs) and `shm_writer::process_messages`
  (clock-bound-d/src/shm_writer.rs), each run by the interpreter on its own input stream, connected by ONE explicit
  hypothesis on the channel, and the oracles of C13 (what the poller reports for a history of answers, silences and
  PHC failures), C08 and C09 (what the writer publishes for a history of poll outcomes).

  THE CHANNEL HYPOTHESIS (`hchan`): the mailbox of the writer thread delivers exactly the messages the poller
  thread sent to `ChannelId::ShmWriter` — all of them, each once, in the order sent, nothing else in between
  (std::sync::mpsc: FIFO, no loss, no duplication; no other thread sends to that channel) — and after them
  `Message::ThreadAbort` (what the main thread sends at shutdown).  Formally: the writer's input stream starts with
  `Ok(m)` for the messages `m` of the `send` events of the poller's log (`sentOf`), then `Ok(ThreadAbort)`.

  Other hypotheses: the poller's history ends with `ThreadAbort` and every send succeeds (as in `C13_run`); no `i64`
  overflow in the writer (`noOverflow`: `as_of.tv_sec + 1000` and `bound + phc` for the PHC term the poller can
  attach — C08's `Msg.ok`); all messages are handled by the writer at one CLOCK_REALTIME reading `nowNs` (the
  interpreter's `Ctx.nowNs` is a constant of a run: see the note on C01 below).

  NOT composed: C01 (`C01.containment`, `Model/World.lean`).  Its daemon `DaemonState.run` handles the message of poll
  `i` at realtime `(w.Rc tp_i).floor`, a DIFFERENT reading for every poll, while the tie theorem for the whole loop
  (`CodeTieDispatch.process_messages_eq`) has one `nowNs` per run (the core interpreter has `SystemTime::elapsed`
  read a constant of the context).  `CodeTieDispatch.iteration_eq` is per message with its own `nowNs`, so the gap is
  the loop induction over a context that changes between iterations, not a property of the source.
-/
import ClockBound.Proofs.OnCodePipeline
import ClockBound.Properties.OnCodePoller
namespace ClockBound.OnCode
open ClockBound ClockBound.Rs ClockBound.Generated ClockBound.Rs.DictPoller

/-- **C13 + C08 + C09 on the source, poller → channel → writer.**  For every history of poller iterations ending
    with `ThreadAbort` (answers, silences, PHC failures, any timing), the poller thread of the current source either
    panics (an unparsable sysfs value) or runs to completion, and then: the messages it sent are the embedding of a
    list `msgs` that satisfies the C13 oracle for that history; the writer thread of the current source, started on a
    fresh `ShmUpdater::new(_, drift)` and receiving exactly these messages (`hchan`), does not panic, returns `()`,
    and the records it hands to `ShmWrite::write`, in order, satisfy the C08 oracle (one record per message; as-of and
    bound of the latest synchronised report, void-after = as-of + 1000 s, the configured drift, status per the FSM)
    and the C09 oracle (Unknown until a first synchronised report) for the poll outcomes these messages mean
    (`abstractMsg ∘ PollMsg.toWriter`: a report with its bound, class and as-of, or a silence within / beyond grace) -/
theorem C13_C08_C09_pipeline
    (nowP : Int) (inpP : Nat → Value) (refid : Option Nat) (e0 : IterEnv)
    (hsleep : e0.sleepNs = 1000000000) (last : IterIn) (hlast : last.ok e0) (habort : last.env.isAbort = true)
    (xs : List IterIn) (hxs : ∀ x ∈ xs, x.ok e0 ∧ x.env.isAbort = false) (tStart : Int)
    (ht : instantLo ≤ tStart - GRACE_NS) (h0 : inpP 0 = instant tStart)
    (hin : inputsAt inpP 1 (pollRunInputs refid (Poller.init tStart) (xs ++ [last]))) (F : Nat)
    (hF : xs.length + 85 ≤ F)
    (hnov : ∀ x ∈ xs ++ [last], noOverflow x)
    (drift : Nat) (nowNs : Int) (inpW : Nat → Value) (F2 : Nat) (hF2 : xs.length + 111 ≤ F2)
    (hchan : ∀ logP, runFuel F (CodeTiePoller.ctxP nowP inpP) "chrony_poller::run" .unit
        [contextValue "ChannelId::ClockErrorBoundPoller", optPhcValue e0.path refid] = .ok .unit .unit logP →
      inputsAt inpW 0 ((sentOf logP).map okOf ++ [recvAbort])) :
    runFuel F (CodeTiePoller.ctxP nowP inpP) "chrony_poller::run" .unit
      [contextValue "ChannelId::ClockErrorBoundPoller", optPhcValue e0.path refid] = .panic ∨
    ∃ (logP logW : List Value) (msgs : List PollMsg) (recs : List Record),
      runFuel F (CodeTiePoller.ctxP nowP inpP) "chrony_poller::run" .unit
        [contextValue "ChannelId::ClockErrorBoundPoller", optPhcValue e0.path refid] = .ok .unit .unit logP ∧
      sentOf logP = msgs.map pollMsgValue ∧
      C13.Holds tStart refid ((xs ++ [last]).map IterIn.it) msgs = true ∧
      runFuel F2 (CodeTieDispatch.ctxP nowNs inpW) "shm_writer::process_messages" .unit
        [contextValue "ChannelId::ShmWriter", updaterValue (Updater.new drift)] = .ok .unit .unit logW ∧
      recordsOf logW = recs.map recordValue ∧ recs.length = xs.length + 1 ∧
      C08.Holds drift ((msgs.filterMap (PollMsg.toWriter nowNs)).map abstractMsg) recs = true ∧
      C09.Holds ((msgs.filterMap (PollMsg.toWriter nowNs)).map abstractMsg) recs = true := by
  obtain ⟨msgs, hC13, hcase⟩ := C13_run nowP inpP refid e0 hsleep last hlast habort xs hxs tStart ht h0 hin F hF
  rcases hcase with ⟨hp, -⟩ | ⟨logP, hrun, hsent, hnp, hlen⟩
  · exact Or.inl hp
  · -- which list `msgs` is: the model's run (needed for `noOverflow ⇒ Msg.ok`)
    have hmsgs : msgs = Poller.run tStart refid ((xs ++ [last]).map IterIn.it) := by
      have h2 := CodeTiePoller.run_eq nowP inpP refid e0 hsleep last hlast habort xs hxs tStart ht h0 hin F hF
      rw [hrun] at h2
      cases hr : pollRun refid (Poller.init tStart) (xs ++ [last]) with
      | none => rw [hr] at h2; cases h2
      | some p =>
        obtain ⟨s', l⟩ := p
        rw [hr] at h2
        obtain ⟨hs, hnp'⟩ := pollRun_sent refid _ _ _ _ hr
        have hl : logP = evInstantNow (instant tStart) :: l := by injection h2
        have hs2 : sentOf logP = (Poller.run tStart refid ((xs ++ [last]).map IterIn.it)).map pollMsgValue := by
          rw [hl]; show sentOf ([evInstantNow (instant tStart)] ++ l) = _
          rw [sentOf_append, hs]; rfl
        rw [hsent] at hs2
        -- decode: both lists are panic-free and have the same embedding
        have key : ∀ (a b : List PollMsg), PollMsg.panic ∉ a → PollMsg.panic ∉ b →
            a.map pollMsgValue = b.map pollMsgValue → a = b := by
          intro a
          induction a with
          | nil => intro b _ _ h; cases b <;> simp_all
          | cons x a ih =>
            intro b ha hb h
            cases b with
            | nil => simp at h
            | cons y b =>
              simp only [List.map_cons, List.cons.injEq] at h
              simp only [List.mem_cons, not_or] at ha hb
              rw [pollMsgValue_inj x y (fun e => ha.1 e.symm) (fun e => hb.1 e.symm) h.1, ih b ha.2 hb.2 h.2]
        exact key _ _ hnp hnp' hs2
    obtain ⟨w1, w2, w3, w4⟩ := filterMap_toW nowNs msgs hnp
    have hok : ∀ m ∈ (msgs.filterMap toW).filterMap (WMsg.toMsg nowNs), m.ok = true := by
      rw [w2, hmsgs]
      exact run_msgs_ok nowNs refid (xs ++ [last]) (Poller.init tStart) hnov
    have hinW : inputsAt inpW 0 ((msgs.filterMap toW).map WMsg.recvd ++ [recvAbort]) := by
      rw [w1, ← hsent]; exact hchan logP hrun
    obtain ⟨logW, recs, hw, hrecs, h08, h09⟩ :=
      C08_C09_process_messages drift nowNs inpW (msgs.filterMap toW) w3 hok hinW F2 (by rw [w4, hlen]; omega)
    rw [w2] at h08 h09
    refine Or.inr ⟨logP, logW, msgs, recs, hrun, hsent, hC13, hw, hrecs, ?_, h08, h09⟩
    -- one record per message
    have := h08
    unfold C08.Holds at this
    simp only [Bool.and_eq_true, beq_iff_eq] at this
    rw [this.1, List.length_map]
    rw [toWriter_length nowNs msgs hnp, hlen]

/-! ### non-vacuity -/

private def trk : Tracking :=
  { leap := 0, refNs := 0, offW := 0, dispW := 0, delayW := 0, intervalW := 0, refid := 0 }

/-- the hypotheses on the history are satisfiable: a silence, then a Tracking reply (no PHC), then `ThreadAbort`:
    no overflow, the model's messages are `[ChronyNotResponding, data]`, which the writer turns into two records -/
example :
    let e1 : IterEnv := ⟨"/sys/x", 1000000000, "ReplyBody::Null", [], true, okUnit, false, "RecvTimeoutError::Timeout", []⟩
    let e2 : IterEnv := ⟨"/sys/x", 1000000000, "ReplyBody::Null", [], true, okUnit, true, "Message::ThreadAbort", []⟩
    let x1 : IterIn := ⟨⟨⟨5, 6⟩, .none, 0, 7000000000, .unreadable⟩, e1⟩
    let x2 : IterIn := ⟨⟨⟨6, 6⟩, .tracking trk, 8000000000, 0, .unreadable⟩, e2⟩
    noOverflow x1 ∧ noOverflow x2 ∧
    Poller.run 6000000000 none [x1.it, x2.it] = [.nr, .data trk 0 ⟨6, 6⟩] ∧
    (Updater.run (Updater.new 1000) ([PollMsg.nr, .data trk 0 ⟨6, 6⟩].filterMap (PollMsg.toWriter 5))).length = 2 := by
  refine ⟨?_, ?_, by decide, by decide +kernel⟩
  · intro t ht; cases ht
  · intro t ht
    have : t = trk := by injection ht with h; exact h.symm
    subst this
    refine ⟨by decide, ?_⟩
    rintro v (rfl | hv)
    · decide +kernel
    · cases hv

end ClockBound.OnCode
