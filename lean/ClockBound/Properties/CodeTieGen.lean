/-
  Translation tie, part 6: the generation protocol of `ShmWrite for ShmWriter::write`
  (clock-bound-shm/src/writer.rs) — the first group that uses loops/effects machinery: an extension
  dictionary (`Rs/DictDemo.lean`) and the input stream.

  For EVERY generation value `g` the writer reads from the segment (`inp 0 = g`, a `u16`; no range
  hypothesis is needed), every record and every environment, the AST regenerated from the Rust source,
  run by the interpreter with the dictionary `DictDemo.ext`, performs exactly these shared accesses, in
  this order, with these memory orderings:

      load  generation            Acquire   ↦ g
      store generation := genStart g              Release
      fence                                       Release
      write of the record to `ceb` (the argument of `write`, unchanged)
      store generation := genFinish (genStart g)  Release

  where `genStart`/`genFinish` are the MODEL's functions (`Model/Daemon.lean`, used by `SL.wStep`,
  `Model/Seqlock.lean`) and the orderings are those of the model's default annotation `SL.Ann` — i.e. the
  writer program that `SL.wStep` executes (`loadGen`, `store1`, `fence`, `copy`, `store2`) is the program the
  code runs.  It returns `()`, leaves `self` unchanged, consumes exactly one input, never panics and never
  gets stuck.  (the block `{ &*self.generation }` evaluates through the dictionary's `deref` rule to the
  atomic cell `generation`; the `#[cfg(clock_bound_verif)]` statements are dropped by the translator.)
-/
import ClockBound.Proofs.RsGen
namespace ClockBound.CodeTieGen
open ClockBound ClockBound.Rs ClockBound.Generated ClockBound.Rs.DictDemo

/-- the model's default annotation: the orderings `SL.wStep` uses unless told otherwise -/
def ann : SL.Ann := {}

theorem write_events_eq (g : Nat) (r : Record) (segsize : Nat) (nowNs : Int) (sizes : List (String × Nat))
    (inp : Nat → Value) (h0 : inp 0 = .int .u16 g) :
    run (Code.ctxWith nowNs DictDemo.ext sizes inp) "ShmWrite for ShmWriter::write" (writerValue segsize)
      [recordValue r]
    = .ok .unit (writerValue segsize)
        [evLoad "generation" (ordValue ann.wLoad) (.int .u16 g),
         evStore "generation" (.int .u16 (genStart g)) (ordValue ann.wStore1),
         evFence (ordValue (ann.wFence.getD .relaxed)),
         evDataWrite "ceb" (recordValue r),
         evStore "generation" (.int .u16 (genFinish (genStart g))) (ordValue ann.wStore2)] :=
  GenProof.tie g r segsize nowNs sizes inp h0

/-- the default annotation does have a writer fence (so the `getD` above is not the fallback) and is the
    one for which the seqlock properties are proved -/
example : ann.wFence = some .release ∧ ann.adequate = true := by decide

/-- the generated code never leaves the fragment the interpreter and the dictionary have rules for -/
theorem write_not_stuck (g : Nat) (r : Record) (segsize : Nat) (nowNs : Int) (sizes : List (String × Nat))
    (inp : Nat → Value) (h0 : inp 0 = .int .u16 g) :
    (run (Code.ctxWith nowNs DictDemo.ext sizes inp) "ShmWrite for ShmWriter::write" (writerValue segsize)
      [recordValue r]).isStuck = false := by
  rw [write_events_eq g r segsize nowNs sizes inp h0]
  rfl

/-- without the dictionary the same function is stuck at its first shared access: the rules above are
    what gives the atomics a meaning (non-vacuity of the dictionary) -/
example : (run (Code.ctx 0) "ShmWrite for ShmWriter::write" (writerValue 72)
    [recordValue ⟨⟨1, 2⟩, ⟨3, 4⟩, 5, 6, 0, .synchronized⟩]).isStuck = true := by
  simp [rs_eval, rs_code, recordValue, Outcome.isStuck]

/-- the arithmetic on an example: an even generation, an odd (interrupted) one, and the roll-over that
    skips 0 -/
example : (genStart 4, genFinish (genStart 4)) = (5, 6) ∧ (genStart 7, genFinish (genStart 7)) = (7, 8) ∧
    (genStart 65534, genFinish (genStart 65534)) = (65535, 2) := by decide

end ClockBound.CodeTieGen
