/-
  C18 — Reading never blocks on, or spins forever because of, the daemon.
  Statements about the reader machine alone: they hold for EVERY log (any writer behaviour, stopped
  for ever at any point or updating continuously) and every choice of load results.
-/
import ClockBound.Model.SeqlockSys
import ClockBound.Proofs.SeqlockReader
namespace ClockBound.C18
open ClockBound ClockBound.SL ClockBound.SLR

/-- remaining work of a `snapshot()` call -/
def mu : RPc → Nat
  | .idle => 0
  | .version => 2 + RETRIES * (N + 2)
  | .gen1 => 1 + RETRIES * (N + 2)
  | .copy _ retries todo _ => (retries - 1) * (N + 2) + todo.length + 2
  | .fence _ retries _ => (retries - 1) * (N + 2) + 2
  | .gen2 _ retries _ => (retries - 1) * (N + 2) + 1

/-- reader states a call can reach: a non-empty to-do list and a positive retry budget while copying -/
def WF : RPc → Prop
  | .copy _ retries todo _ => 0 < retries ∧ 0 < todo.length ∧ todo.length ≤ N ∧ retries ≤ RETRIES
  | .fence _ retries _ => 0 < retries ∧ retries ≤ RETRIES
  | .gen2 _ retries _ => 0 < retries ∧ retries ≤ RETRIES
  | _ => True

/-- every shared access either ends the call or strictly decreases the measure — whatever the log
    contains and whatever the load returns -/
theorem step_decreases (a : Ann) (log : Log) (r : Reader) (pc pm : Nat) (h : r.pc ≠ .idle) (hwf : WF r.pc) :
    let out := rStep a log r pc pm
    WF out.1.pc ∧ ((out.2.1.isSome ∧ out.1.pc = .idle) ∨ (out.2.1 = none ∧ mu out.1.pc < mu r.pc)) := by
  intro out
  have hmu : ∀ p, mu p = rmu p := by intro p; cases p <;> rfl
  have hWF : ∀ p, WF p = RWF p := by intro p; cases p <;> rfl
  rw [hWF] at hwf
  rw [hWF, hmu, hmu]
  rcases rStep_decreases a log r pc pm h hwf with ⟨hw, h1 | ⟨h2, _, h3⟩⟩
  · exact ⟨hw, Or.inl h1⟩
  · exact ⟨hw, Or.inr ⟨h2, h3⟩⟩

theorem call_wf (r : Reader) : WF r.call.pc ∧ mu r.call.pc = stepBound := by
  exact ⟨trivial, rfl⟩

/-- a `snapshot()` call returns after at most `stepBound` shared accesses, against any sequence of
    logs (the writer may do anything between the reader's accesses) and any picks -/
theorem bounded (a : Ann) (logs : Nat → Log) (picks : Nat → Nat × Nat) (r : Reader) :
    ∃ n, n ≤ stepBound ∧ n ≥ 1 ∧
      ((List.range n).foldl (fun (st : Reader × Option RResult) k =>
          if st.2.isSome then st else
          let out := rStep a (logs k) st.1 (picks k).1 (picks k).2
          (out.1, out.2.1)) (r.call, none)).2.isSome := by
  exact ⟨stepBound, Nat.le_refl _, by decide, call_bounded a logs picks r⟩

/-- if an update is in flight (odd generation), or the segment is being re-initialised
    (generation or version 0), the call answers from its previous snapshot after at most two loads -/
theorem in_flight_answers_from_cache (a : Ann) (log : Log) (r : Reader) (pm : Nat) (hpc : r.pc = .gen1)
    (h : (load log r.view .gen a.rGen1 pm).1 % 2 = 1 ∨ (load log r.view .gen a.rGen1 pm).1 = 0) :
    (rStep a log r 0 pm).2.1 = some (.ok r.cache) := by
  unfold rStep
  rw [hpc]
  dsimp only
  rw [if_pos]
  rcases h with h | h
  · exact Or.inr (Or.inr h)
  · exact Or.inl h

theorem version_zero_answers_from_cache (a : Ann) (log : Log) (r : Reader) (pm : Nat) (hpc : r.pc = .version)
    (h : (load log r.view .version a.rVersion pm).1 = 0) :
    (rStep a log r 0 pm).2.1 = some (.ok r.cache) := by
  unfold rStep
  rw [hpc]
  dsimp only
  rw [if_pos h]

/-- the budget is what the code says: one million attempts -/
example : RETRIES = 1000000 ∧ stepBound = 9000002 := by decide

end ClockBound.C18
