/-
  C15 — the per-thread closed forms of `Model/ThreadsProg.lean` are what the step functions of
  `Model/Threads.lean` (`stepMain`, `stepPoller`, `stepWriter`, `step`) do: these theorems connect the targets of
  the translation tie (`Properties/CodeTieThreads.lean`) to the functions the C15 theorems are about.

  * `*Do s op` IS a step of the model (defined by `stepMain` / `stepPoller` / `stepWriter` / `step`, guarded by "this
    is the operation the model performs here"); `*Do_next`: every such step moves the thread's program counter as the
    control-flow function `*Next` says.
  * `main_prog_pcs`, `poller_prog_pcs`, `writer_prog_pcs`: the closed-form program of each thread takes the control
    flow from the thread's first program counter to its last (`returned`, resp. `exiting k`: the Context drop).
  * `main_prog_run`: the main program, performed operation by operation with `stepMain` / `step` on a global state
    whose main queue holds the messages and whose workers have finished, ends in `returned` with Abort sent to both
    workers (as far as their receivers exist) — "= `stepMain` run from `MainPc.loop`".
-/
import ClockBound.Proofs.ThreadsProg
namespace ClockBound.ThreadsProgProps
open ClockBound.Threads ClockBound.ThreadsProg

theorem mainDo_next {s s' : State} {op : MainOp} (h : mainDo s op = some s') : mainNext s.m op = some s'.m :=
  ThreadsProg.mainDo_next h

theorem pollerDo_next {s s' : State} {op : PollerOp} (h : pollerDo s op = some s') :
    pollerNext s.p op = some s'.p := ThreadsProg.pollerDo_next h

theorem writerDo_next {s s' : State} {op : WriterOp} (h : writerDo s op = some s') :
    writerNext s.w op = some s'.w := ThreadsProg.writerDo_next h

theorem main_prog_pcs (ignored : List Msg) (notice : Msg) (first : Worker)
    (hi : ∀ x ∈ ignored, x.isNotice = false) (hn : notice.isNotice = true) :
    mainNexts .loop (mainProg ignored notice first) = some .returned :=
  mainNexts_prog ignored notice first hi hn

theorem main_prog_run (s : State) (ignored rest : List Msg) (notice : Msg) (first : Worker)
    (hm : s.m = .loop) (hq : s.qM = ignored ++ notice :: rest)
    (hi : ∀ x ∈ ignored, x.isNotice = false) (hn : notice.isNotice = true)
    (hp : s.p = .done) (hw : s.w = .done) :
    mainRun s (mainProg ignored notice first)
    = some { s with m := .returned, qM := [], qP := sendTo s.rxP s.qP .abort, qW := sendTo s.rxW s.qW .abort } :=
  mainRun_prog s ignored rest notice first hm hq hi hn hp hw

theorem poller_prog_pcs (its : List PollerIter) (e : PollerEnd) (h : ∀ it ∈ its, it.wait ≠ some .abort) :
    pollerNexts .start (pollerProg its e) = some (.exiting e.kind) := pollerNexts_prog its e h

theorem writer_prog_pcs (handled : List Msg) (e : WriterEnd) (h : ∀ x ∈ handled, x ≠ .abort)
    (he : ∀ m, e = .handlerPanic m → m ≠ .abort) :
    writerNexts .start (writerProg handled e) = some (.exiting e.kind) := writerNexts_prog handled e h he

/-- the Context drop is the model's `exiting k → dropping` step: one send of `notice w k` to main's queue -/
theorem drop_step_poller (s : State) (k : Kind) (h : s.p = .exiting k) :
    stepPoller s = some { s with p := .dropping, qM := sendTo s.m.rxAlive s.qM (.notice .poller k) } ∧
    dropNextP s.p k = some .dropping := by
  obtain ⟨m, p, w, qM, qP, qW, rxP, rxW⟩ := s
  subst h
  simp [stepPoller, dropNextP]

theorem drop_step_writer (s : State) (k : Kind) (h : s.w = .exiting k) :
    stepWriter s = some { s with w := .dropping, qM := sendTo s.m.rxAlive s.qM (.notice .writer k) } ∧
    dropNextW s.w k = some .dropping := by
  obtain ⟨m, p, w, qM, qP, qW, rxP, rxW⟩ := s
  subst h
  simp [stepWriter, dropNextW]

/-! non-vacuity: a concrete run (poller died by panic; main ignores a data message first) -/
example : mainRun ⟨.loop, .done, .done, [.abort, .notice .poller .panic], [], [.data], false, false⟩
    (mainProg [.abort] (.notice .poller .panic) .writer)
    = some ⟨.returned, .done, .done, [], [], [.data], false, false⟩ := by decide
example : pollerNexts .start (pollerProg [⟨true, none⟩, ⟨false, some .data⟩] .sendFailed) = some (.exiting .panic) := by
  decide
example : writerNexts .start (writerProg [.data, .data] .abort) = some (.exiting .terminate) := by decide

end ClockBound.ThreadsProgProps
