/-
  Source tie by translation (part Magic): constants the hand-written model hard-codes, regenerated from
  /repo's working tree on every run by tools/translate_consts.py, agree with the model.
  Closed by evaluation; a changed constant in the source makes the theorem fail to build.
-/
import ClockBound.Generated.Consts
import ClockBound.Model.Driver
namespace ClockBound.ConstsAgree
open ClockBound ClockBound.Generated.Consts

/-- shm_header.rs / writer.rs: magic words, layout version, generation after the 16-bit wrap -/
theorem magic_words : magic0 = MAGIC0 ∧ magic1 = MAGIC1 := by decide

/-- the daemon, the Rust client and the C header name the same segment path -/
theorem one_segment_path : daemonPath = clientPath ∧ clientPath = cHeaderPath := by decide

end ClockBound.ConstsAgree
