/-
  C15 — If any daemon thread dies, the whole daemon exits promptly.

  Model: ClockBound/Model/Threads.lean (three threads, three FIFO channels, death enabled at every
  program point of either worker). All statements are about every state reachable from the initial
  state under arbitrary schedules, faults included. "A worker has ended" (`Ended`) means: it has left
  its loop for good — it is running / has run its Context drop (pc `exiting`, `dropping` or `done`).
  Real time is not in the model: promptness is "a bounded number of rounds", a round being a
  schedule segment in which no thread stays enabled without being scheduled; the wall-clock side
  (each round is short: the poller's iteration is bounded by the 3 s chrony time-out plus the 1 s
  mailbox wait, every other step is immediate) is checked on the real daemon by the harness
  (`C15.Holds`: returned, within the limit, log is a trace of this model).
-/
import ClockBound.Model.Threads
import ClockBound.Proofs.Threads
set_option linter.unusedSimpArgs false
namespace ClockBound.C15
open ClockBound.Threads

/-- every fault is enabled at every live program point of either worker, start-up included -/
theorem die_enabled (s : State) (k : Kind) :
    (s.p.alive = true → (step s (.pollerDie k)).isSome = true) ∧
    (s.w.alive = true → (step s (.writerDie k)).isSome = true) := by
  constructor <;> intro h <;> simp [step, h]

/-- after a fault, and after a worker left its loop in any other way, the hypothesis `Ended` of the
    theorems below holds (and keeps holding) -/
theorem death_ends {s s' : State} {a : Action} (hs : step s a = some s') (hd : a.isDie = true) :
    Ended s' := by
  obtain ⟨m, p, w, qM, qP, qW, rxP, rxW⟩ := s
  cases a <;> simp only [Action.isDie, Bool.false_eq_true] at hd
  all_goals
    simp only [step] at hs
    split at hs <;> simp only [Option.some.injEq, reduceCtorEq] at hs
    subst hs
    simp [Ended, PollerPc.ended, WriterPc.ended, PollerPc.alive, WriterPc.alive]

theorem ended_stable {s s' : State} {a : Action} (he : Ended s) (hs : step s a = some s') : Ended s' :=
  ended_step he hs

/-- (a) a worker never gets past its Context drop without its notice being in main's queue, unless
    main has already consumed a notice (and is therefore shutting everything down) -/
theorem notice_queued {s : State} (h : Reachable s) :
    (s.p = .dropping ∨ s.p = .done → (∃ k, Msg.notice .poller k ∈ s.qM) ∨ s.m ≠ .loop) ∧
    (s.w = .dropping ∨ s.w = .done → (∃ k, Msg.notice .writer k ∈ s.qM) ∨ s.m ≠ .loop) := by
  have hi := reachable_inv h
  constructor
  · intro hp; exact hi.noticeP (by rcases hp with hp | hp <;> simp [hp, PollerPc.noticed])
  · intro hw; exact hi.noticeW (by rcases hw with hw | hw <;> simp [hw, WriterPc.noticed])

/-- (b) once main has consumed a notice it is broadcasting (and has an enabled step) or it is
    joining / has returned, and then Abort has been queued for every worker that had not already
    ended; main never goes back to its receive loop -/
theorem abort_broadcast {s : State} (h : Reachable s) (hm : s.m ≠ .loop) :
    ((s.m = .bcast0 ∨ s.m = .bcastP ∨ s.m = .bcastW) ∧ Enabled s .main) ∨
    ((s.m = .joinP ∨ s.m = .joinW ∨ s.m = .returned) ∧
      (Msg.abort ∈ s.qP ∨ s.p.ended = true) ∧ (Msg.abort ∈ s.qW ∨ s.w.ended = true)) := by
  have hi := reachable_inv h
  cases hm' : s.m
  case loop => exact absurd hm' hm
  case bcast0 => exact Or.inl ⟨Or.inl rfl, productive_enabled (by simp [productive, enabledMain, hm'])⟩
  case bcastP => exact Or.inl ⟨Or.inr (Or.inl rfl), productive_enabled (by simp [productive, enabledMain, hm'])⟩
  case bcastW => exact Or.inl ⟨Or.inr (Or.inr rfl), productive_enabled (by simp [productive, enabledMain, hm'])⟩
  case joinP => exact Or.inr ⟨Or.inl rfl, hi.abortP (by simp [hm', MainPc.sentP]), hi.abortW (by simp [hm', MainPc.sentW])⟩
  case joinW => exact Or.inr ⟨Or.inr (Or.inl rfl), hi.abortP (by simp [hm', MainPc.sentP]), hi.abortW (by simp [hm', MainPc.sentW])⟩
  case returned => exact Or.inr ⟨Or.inr (Or.inr rfl), hi.abortP (by simp [hm', MainPc.sentP]), hi.abortW (by simp [hm', MainPc.sentW])⟩

/-- main leaves its receive loop only by consuming a notice -/
theorem main_leaves_loop_on_notice {s s' : State} {a : Action} (hs : step s a = some s')
    (h0 : s.m = .loop) (h1 : s'.m ≠ .loop) :
    ∃ w k rest, s.qM = Msg.notice w k :: rest ∧ s'.qM = rest ∧ s'.m = .bcast0 := by
  obtain ⟨m, p, w, qM, qP, qW, rxP, rxW⟩ := s
  dsimp only at h0
  subst h0
  cases a
  case main =>
    simp only [step, stepMain] at hs
    cases qM with
    | nil => simp at hs
    | cons x rest =>
      simp only [Option.some.injEq] at hs
      subst hs
      cases x <;> simp_all [Msg.isNotice]
  all_goals
    simp only [step, stepPoller, stepWriter] at hs
    repeat' split at hs
    all_goals try simp only [Option.some.injEq, reduceCtorEq] at hs
    all_goals try subst hs
    all_goals simp_all

/-- when `run` has returned, both workers are finished and nothing can move any more: the daemon
    never lingers with only part of the pipeline alive -/
theorem returned_all_done {s : State} (h : Reachable s) (hm : s.m = .returned) :
    s.p = .done ∧ s.w = .done ∧ ∀ a, step s a = none := by
  have hi := reachable_inv h
  have hp := hi.joinedP (Or.inr hm)
  have hw := hi.joinedW hm
  refine ⟨hp, hw, ?_⟩
  obtain ⟨m, p, w, qM, qP, qW, rxP, rxW⟩ := s
  dsimp only at hm hp hw
  subst hm hp hw
  intro a
  cases a <;> simp [step, stepMain, stepPoller, stepWriter, PollerPc.alive, WriterPc.alive]
  all_goals (rename_i x; cases x <;> simp [step])

/-- (c) no deadlock after a death: while `run` has not returned, some thread has an enabled
    ordinary (non-fault) step -/
theorem no_deadlock_after_death {s : State} (h : Reachable s) (he : Ended s) (hm : s.m ≠ .returned) :
    ∃ t, Enabled s t := by
  obtain ⟨t, ht⟩ := exists_productive (reachable_inv h) he hm
  exact ⟨t, productive_enabled ht⟩

/-- the special case named in the property: some worker is `done` -/
theorem no_deadlock_worker_done {s : State} (h : Reachable s) (hd : s.p = .done ∨ s.w = .done)
    (hm : s.m ≠ .returned) : ∃ a s', a.isDie = false ∧ step s a = some s' := by
  have he : Ended s := by
    rcases hd with hd | hd
    · exact Or.inl (by simp [hd, PollerPc.ended, PollerPc.alive])
    · exact Or.inr (by simp [hd, WriterPc.ended, WriterPc.alive])
  obtain ⟨t, a, _, hd, hs⟩ := no_deadlock_after_death h he hm
  cases hs' : step s a with
  | none => simp [hs'] at hs
  | some s' => exact ⟨a, s', hd, hs'⟩

/-- (d) the measure `mu = rankM + rankP + rankW` (≤ 24 + |qM| + |qW|): once a worker has ended, no
    step of any thread (faults included) increases it; every step of a *productive* thread strictly
    decreases it; a productive thread is enabled and stays productive until it moves; and while `run`
    has not returned there is a productive thread -/
theorem progress_measure {s : State} (h : Reachable s) (he : Ended s) :
    (∀ a s', step s a = some s' → mu s' ≤ mu s ∧ (productive s a.thread = true → mu s' < mu s)) ∧
    (∀ t, productive s t = true → Enabled s t) ∧
    (∀ t a s', productive s t = true → step s a = some s' → a.thread ≠ t → productive s' t = true) ∧
    (s.m ≠ .returned → ∃ t, productive s t = true) ∧
    mu s ≤ 24 + s.qM.length + s.qW.length :=
  ⟨fun _ _ hs => mu_step (reachable_inv h) he hs,
   fun _ ht => productive_enabled ht,
   fun _ _ _ hp hs hne => productive_persist hp hs hne,
   fun hm => exists_productive (reachable_inv h) he hm,
   mu_le_bound s⟩

/-- every round strictly decreases the measure -/
theorem round_progress {s s' : State} {acts : List Action} (h : Reachable s) (he : Ended s)
    (hm : s.m ≠ .returned) (hr : Round s acts s') : mu s' < mu s :=
  round_decreases (reachable_inv h) he hm hr

/-- (e) from every reachable state in which a worker has ended, every schedule made of `n ≥ mu s`
    rounds ends with `run` returned, both workers finished -/
theorem exits_after_death {s s' : State} {n : Nat} (h : Reachable s) (he : Ended s)
    (hr : Rounds n s s') (hn : mu s ≤ n) : s'.m = .returned ∧ s'.p = .done ∧ s'.w = .done := by
  have hm := rounds_exit hr (reachable_inv h) he hn
  have := returned_all_done (rounds_reachable hr h) hm
  exact ⟨hm, this.1, this.2.1⟩

/-- (e) with the explicit bound 24 + |writer queue| + |main queue| -/
theorem exits_after_death_bound {s s' : State} {n : Nat} (h : Reachable s) (he : Ended s)
    (hr : Rounds n s s') (hn : 24 + s.qM.length + s.qW.length ≤ n) :
    s'.m = .returned ∧ s'.p = .done ∧ s'.w = .done :=
  exits_after_death h he hr (Nat.le_trans (mu_le_bound s) hn)

/-- (e) for the simple reading of "round" (every thread enabled at the start of the segment moves in it) -/
theorem exits_after_death_simple_rounds {s s' : State} {n : Nat} (h : Reachable s) (he : Ended s)
    (hr : Rounds₀ n s s') (hn : 24 + s.qM.length + s.qW.length ≤ n) :
    s'.m = .returned ∧ s'.p = .done ∧ s'.w = .done :=
  exits_after_death_bound h he (rounds_of_rounds₀ hr) hn

/-- the compiled `enabled` is the `Enabled` of the theorems -/
theorem enabled_spec (s : State) (t : Thread) : enabled s t = true ↔ Enabled s t := enabled_iff

/-- soundness of the oracle: if `Holds` accepts an observation then `run` returned within the limit
    and every model configuration compatible with the observed log is a reachable state of the model
    in which `run` has returned and both workers are finished (and there is at least one) -/
theorem holds_sound (o : Obs) (h : Holds o = true) :
    o.returned = true ∧ o.bucket = .fast ∧
    ∃ cs, replay o.log = .ok cs ∧ cs ≠ [] ∧
      ∀ c ∈ cs, Reachable c.s ∧ c.s.m = .returned ∧ c.s.p = .done ∧ c.s.w = .done := by
  simp only [Holds, Bool.and_eq_true, decide_eq_true_eq] at h
  obtain ⟨⟨⟨h1, h2⟩, _⟩, h4⟩ := h
  refine ⟨h1, h2, ?_⟩
  unfold finalDone at h4
  cases hr : replay o.log with
  | error i => simp [hr] at h4
  | ok cs =>
    simp only [hr, Bool.and_eq_true, Bool.not_eq_true', List.all_eq_true, decide_eq_true_eq] at h4
    refine ⟨cs, rfl, ?_, fun c hc => ⟨replay_reachable hr c hc, h4.2 c hc⟩⟩
    intro hnil
    simp [hnil] at h4

/-! ### non-vacuity: concrete reachable states with a dead worker -/

/-- the poller dies (panic) in its 2nd iteration at `wait`, after two sends the writer has not read -/
def sPollerDies2 : State :=
  ⟨.loop, .done, .start, [.notice .poller .panic], [], [.data, .data], false, true⟩

def toPollerDies2 : List Action :=
  [.poller, .poller, .poller, .poller, .pollerTimeout, .poller, .poller, .poller, .pollerDie .panic, .poller, .poller]

example : run init toPollerDies2 = some sPollerDies2 := by decide
example : Reachable sPollerDies2 := run_reachable .init (by decide : run init toPollerDies2 = some sPollerDies2)
example : Ended sPollerDies2 := Or.inl rfl
example : mu sPollerDies2 = 17 := by decide
example : enabled sPollerDies2 .main = true ∧ enabled sPollerDies2 .poller = false := by decide
/-- the backlog is read before the Abort; `run` returns -/
example : (run sPollerDies2 [.main, .mainAbort .writer, .main, .writer, .writer, .writer, .writer, .writer,
    .writer, .writer, .main, .main]).map (·.m) = some .returned := by decide

/-- the writer dies at start-up (`ShmWriter::new` fails) before main has received anything; the poller
    then panics on its first send ("Broken channel to ShmWriter") -/
def sWriterDiesAtStart : State := ⟨.loop, .start, .done, [.notice .writer .panic], [], [], true, false⟩
example : run init [.writerDie .panic, .writer, .writer] = some sWriterDiesAtStart := by decide
example : Ended sWriterDiesAtStart := Or.inr rfl
example : (run sWriterDiesAtStart [.poller, .poller, .poller, .poller]).map (·.p) = some (.exiting .panic) := by decide
example : (run sWriterDiesAtStart [.main, .mainAbort .poller, .main, .poller, .poller, .poller, .poller,
    .poller, .poller, .main, .main]).map (·.m) = some .returned := by decide

/-- both die: the writer returns, the poller panics, before main moves; two notices are queued -/
def sBothDie : State :=
  ⟨.loop, .done, .done, [.notice .writer .terminate, .notice .poller .panic], [], [], false, false⟩
example : run init [.writerDie .terminate, .pollerDie .panic, .writer, .poller, .writer, .poller] = some sBothDie := by decide
example : (run sBothDie [.main, .mainAbort .writer, .main, .main, .main]).map (·.m) = some .returned := by decide
/-- and main alone is enabled there: the other notice is never read -/
example : enabled sBothDie .main = true ∧ enabled sBothDie .poller = false ∧ enabled sBothDie .writer = false := by decide

/-- the hypothesis matters: without a death nothing forces an exit — the initial state can cycle forever
    (the measure is not decreased by the poller's loop) -/
example : (run init [.poller, .poller, .poller, .poller, .pollerTimeout]).map (·.p) = some .top := by decide

/-- why (d) speaks of *productive* threads and not of "every thread's step": after a death the poller
    can still go round its loop (here: clock read fails, mailbox wait times out) and come back to the
    very same state as long as main has not broadcast yet, so no measure decreases on each of its
    steps; what is forced to happen is main's (productive) step -/
def sWriterExiting : State := ⟨.loop, .top, .exiting .panic, [], [], [], true, true⟩
example : run init [.poller, .writerDie .panic] = some sWriterExiting := by decide
example : Ended sWriterExiting := Or.inr rfl
example : run sWriterExiting [.pollerClockFail, .pollerTimeout] = some sWriterExiting := by decide
example : productive sWriterExiting .poller = false ∧ productive sWriterExiting .writer = true := by decide

/-- the oracle on concrete observations: a faithful log is accepted, a log in which the writer keeps
    consuming after the poller died at start-up (no data was ever sent) is not, nor is "never returned" -/
example : Holds ⟨true, .fast, [.visitW .start, .faultP .start .panic, .visitW .opened, .visitW .recv, .returned]⟩ = true := by decide
example : Holds ⟨true, .fast, [.visitW .start, .faultP .start .panic, .visitW .opened, .visitW .recv, .visitW .recv, .returned]⟩ = false := by decide
example : Holds ⟨false, .never, [.visitW .start, .faultP .start .panic, .visitW .opened, .visitW .recv]⟩ = false := by decide

end ClockBound.C15
