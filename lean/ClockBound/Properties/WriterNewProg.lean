/-
  The operations `Crash.newOps` (`Model/WriterNewProg.lean`: `ShmWriter::new` in the shape of the Rust source)
  ARE the `new` part of `Crash.script`, the named events of the C04 crash sweep.
-/
import ClockBound.Model.WriterNewProg
import ClockBound.Proofs.WriterNewProg
namespace ClockBound.WriterNewProg
open ClockBound ClockBound.Crash

/-- `script` = the events of `ShmWriter::new`, then the six events of the first `write` -/
theorem script_split (f : FileA) : script f = newScript f ++ writeScript := Proofs.script_split f

/-- the state-changing operations of `new`, read as the events they are reported as, are exactly the
    operation events of `newScript`, in order: for an unusable prior `File::create`, the five header writes
    (magic 0, magic 1, size, version, generation), the zero fill, `sync_all`, then the version store; for a
    usable one the version store only (`create_dir_all` and the grow-in-place `set_len` have no event) -/
theorem newOps_script (f : FileA) (hasParent : Bool) :
    (newOps f hasParent).filterMap Op.ev = (newScript f).filter Ev.isOp := Proofs.newOps_script f hasParent

/-- non-vacuity: the priors of the crash sweep — wiped and re-created, kept, grown in place -/
example :
    newOps Prior.missing.file false =
      [.create, .writeU32 .wipeMagic0 MAGIC0, .writeU32 .wipeMagic1 MAGIC1, .writeU32 .wipeSegsize 72,
       .writeU16 .wipeVersion 0, .writeU16 .wipeGeneration 0, .writeAll 56, .syncAll, .storeVersion 1] ∧
    newOps (Prior.foreign 4 1).file true = .createDirAll :: newOps Prior.missing.file false ∧
    newOps (Prior.valid 4 1).file false = [.storeVersion 1] ∧
    newOps { (Prior.valid 4 1).file with len := 40 } false = [.setLen 72, .storeVersion 1] := by decide

end ClockBound.WriterNewProg
