/-
  C07 (with the PHC bound) and C19 (the drift reaches the updater) on `ShmUpdater` stated ABOUT THE SOURCE (see `OnCodeClient.lean` for the reading): each theorem mentions the
  regenerated AST `Generated.Code` run by the interpreter, and the oracle of the property; model functions occur only
  as witnesses.  Compositions of `CodeTieUpdater.*` with the `model_holds` theorems of the properties.
-/
import ClockBound.Properties.CodeTieUpdater
import ClockBound.Properties.C07
import ClockBound.Properties.C19
namespace ClockBound.OnCode
open ClockBound ClockBound.Rs ClockBound.Generated

/-- **C07 with the PHC bound, C10, on `process_clock_update`**: one `ClockErrorBoundData` message handled by the
    source publishes (hands to `ShmWrite::write`) exactly one record or panics; when the report classifies as
    Synchronized the record's bound satisfies the C07 oracle with the PHC bound added -/
theorem C07_process_clock_update (u : Updater) (t : Tracking) (phc : Int) (asOf : TimeSpec) (nowNs : Int)
    (hs : classify t nowNs = .synchronized) (hok : (Msg.data t phc asOf nowNs).ok = true) :
    ∃ (u' : Updater) (r : Record),
      run (Code.ctx nowNs) "ShmUpdater::process_clock_update" (updaterValue u)
        [trackingValue t, .int .i64 phc, ctimespecValue asOf] = .ok .unit (updaterValue u') [recordValue r] ∧
      C07.Holds t phc r.bound = true ∧ r.asOf = asOf := by
  rw [CodeTieUpdater.process_clock_update_eq]
  have hr : inI64 ((u.after (abstractMsg (.data t phc asOf nowNs))).asOf.sec + 1000) = true := by
    simp only [abstractMsg, Updater.after, hs]
    simp only [Msg.ok, Bool.and_eq_true] at hok
    simpa using hok.2
  rw [Updater.step_ok hok hr]
  refine ⟨_, _, rfl, ?_, ?_⟩
  · simp only [abstractMsg, Updater.after, hs, Updater.pub]
    simpa using C07.model_holds t phc
  · simp only [abstractMsg, Updater.after, hs, Updater.pub]
    simp

/-- … and `ShmUpdater::new` stores it unchanged, from where `C08_C09_process_messages` (clause "the configured
    drift") carries it into every record -/
theorem C19_updater_new (drift : Nat) (nowNs : Int) :
    run (Code.ctx nowNs) "ShmUpdater::new" .unit [.writer, .int .u32 drift]
      = .ok (updaterValue (Updater.new drift)) .unit [] ∧ (Updater.new drift).drift = drift :=
  ⟨CodeTieUpdater.new_eq drift nowNs, rfl⟩

end ClockBound.OnCode
