/-
  Translation tie, group `Poller`, part `Now`: `ClockErrorBound::now` (clock-bound-shm/src/lib.rs) and the
  clock ids it reads (clock-bound-shm/src/common.rs).

  `now_reads`: for EVERY record, every pair of readings the two `clock_gettime_safe` calls return (the
  first two inputs of ANY input stream) and every environment, the AST regenerated from the Rust source,
  run with the dictionary `Rs/DictPoller.lean`, reads CLOCK_REALTIME (id 0) FIRST and then `CLOCK_MONOTONIC`,
  which on Linux is CLOCK_MONOTONIC_COARSE (id 6) — `clock_ids_eq`, from the regenerated constants of
  common.rs —, i.e. the model's `clientReads`; and its result is the model's `computeBoundAt` of the record
  and of exactly these two readings, first argument the realtime one (`compute_bound_at` is inlined by the
  interpreter from the same table: the right-hand side is the one of `CodeTieClient.compute_bound_at_eq`).
  An `Err` of either read is returned as it is (`now_err_realtime`: after ONE read; `now_err_monotonic`).
  It leaves `self` unchanged, consumes two inputs, and never gets stuck.
-/
import ClockBound.Proofs.RsNow
import ClockBound.Proofs.RsNowS
import ClockBound.Proofs.RsNowF
namespace ClockBound.CodeTieNow
open ClockBound ClockBound.Rs ClockBound.Generated ClockBound.Rs.DictPoller

/-- the context of the group `Poller`: the generated tables, the dictionary, the Linux `use` imports -/
abbrev ctxP (nowNs : Int) (sizes : List (String × Nat)) (inp : Nat → Value) : Ctx :=
  Code.ctxWith nowNs (DictPoller.ext (linuxUses Code.consts)) sizes inp

/-- the constants of common.rs that lib.rs and chrony_poller.rs import, on Linux: `CLOCK_REALTIME` is
    libc's CLOCK_REALTIME (0), `CLOCK_MONOTONIC` is libc's CLOCK_MONOTONIC_COARSE (6) -/
theorem clock_ids_eq :
    linuxUses Code.consts = [("CLOCK_REALTIME", clockId 0), ("CLOCK_MONOTONIC", clockId 6)] :=
  NowProof.linuxUses_eq

theorem now_reads (r : Record) (real mono : TimeSpec) (nowNs : Int) (sizes : List (String × Nat))
    (inp : Nat → Value) (h0 : inp 0 = okTimespec real) (h1 : inp 1 = okTimespec mono) :
    run (ctxP nowNs sizes inp) "ClockErrorBound::now" (recordValue r) []
    = (clientOutcome r (computeBoundAt r real mono)).after
        [evClockRead (clockId 0) (okTimespec real), evClockRead (clockId 6) (okTimespec mono)] := by
  obtain ⟨⟨as, an⟩, ⟨vs, vn⟩, bound, drift, res, status⟩ := r
  obtain ⟨rs, rn⟩ := real
  obtain ⟨ms, mn⟩ := mono
  cases status
  · exact NowProof.now_unknown _ _ _ _ _ _ _ _ _ _ _ _ _ _ h0 h1
  · exact NowProof.now_synchronized _ _ _ _ _ _ _ _ _ _ _ _ _ _ h0 h1
  · exact NowProof.now_freeRunning _ _ _ _ _ _ _ _ _ _ _ _ _ _ h0 h1

/-- the two logged reads are the model's `clientReads` (`Model/World.lean`), in that order -/
theorem now_reads_order (real mono : TimeSpec) :
    [evClockRead (clockId 0) (okTimespec real), evClockRead (clockId 6) (okTimespec mono)].filterMap readActionOf
    = clientReads := rfl

/-- a failed read of CLOCK_REALTIME: the error is returned, the monotonic clock is not read -/
theorem now_err_realtime (r : Record) (e : Value) (nowNs : Int) (sizes : List (String × Nat)) (inp : Nat → Value)
    (h0 : inp 0 = .enumv "Err" [e]) :
    run (ctxP nowNs sizes inp) "ClockErrorBound::now" (recordValue r) []
    = .ok (.enumv "Err" [e]) (recordValue r) [evClockRead (clockId 0) (.enumv "Err" [e])] :=
  NowProof.now_err_real r e nowNs sizes inp h0

/-- a failed read of the monotonic clock: the error is returned -/
theorem now_err_monotonic (r : Record) (real : TimeSpec) (e : Value) (nowNs : Int) (sizes : List (String × Nat))
    (inp : Nat → Value) (h0 : inp 0 = okTimespec real) (h1 : inp 1 = .enumv "Err" [e]) :
    run (ctxP nowNs sizes inp) "ClockErrorBound::now" (recordValue r) []
    = .ok (.enumv "Err" [e]) (recordValue r)
        [evClockRead (clockId 0) (okTimespec real), evClockRead (clockId 6) (.enumv "Err" [e])] :=
  NowProof.now_err_mono r real e nowNs sizes inp h0 h1

theorem now_not_stuck (r : Record) (real mono : TimeSpec) (nowNs : Int) (sizes : List (String × Nat))
    (inp : Nat → Value) (h0 : inp 0 = okTimespec real) (h1 : inp 1 = okTimespec mono) :
    (run (ctxP nowNs sizes inp) "ClockErrorBound::now" (recordValue r) []).isStuck = false := by
  rw [now_reads r real mono nowNs sizes inp h0 h1]
  cases computeBoundAt r real mono <;> rfl

/-- non-vacuity: the hypotheses are satisfiable (an input stream that starts with two readings), and
    without the dictionary the same function is stuck at its first clock read -/
example : ∃ inp : Nat → Value, inp 0 = okTimespec ⟨1700000000, 5⟩ ∧ inp 1 = okTimespec ⟨1000, 4000000⟩ :=
  ⟨fun i => if i = 0 then okTimespec ⟨1700000000, 5⟩ else okTimespec ⟨1000, 4000000⟩, rfl, rfl⟩

example : (run (Code.ctx 0) "ClockErrorBound::now"
    (recordValue ⟨⟨1, 2⟩, ⟨3, 4⟩, 5, 6, 0, .synchronized⟩) []).isStuck = true := by
  simp [rs_eval, rs_code, recordValue, Outcome.isStuck]

end ClockBound.CodeTieNow
