/-
  C09 — No trust is advertised before a first measurement exists.
-/
import ClockBound.Model.OraclesD
import ClockBound.Proofs.Daemon
namespace ClockBound.C09
open ClockBound

/-- a status other than Unknown is only ever published with the bound and as-of of the most
    recent synchronised report -/
theorem model_holds (drift : Nat) (msgs : List Msg) :
    Holds (msgs.map abstractMsg) (Updater.run (Updater.new drift) msgs) = true := by
  exact C09_holds drift msgs

/-- from daemon start until the first synchronised report, whatever chronyd answers, every
    published record says Unknown -/
theorem unknown_until_first_sync (drift : Nat) (msgs : List Msg)
    (h : lastSync (msgs.map abstractMsg) = none) :
    ∀ r ∈ Updater.run (Updater.new drift) msgs, r.status = .unknown := by
  apply run_unknown (Updater.new drift) msgs rfl
  intro m hm
  exact (lastSync_eq_none_iff _).mp h _ (List.mem_map_of_mem hm)

/-- and the client reports Unknown for such a record at every uptime -/
theorem client_sees_unknown (r : Record) (h : r.status = .unknown) (real mono e l : TimeSpec)
    (st : Status) (hout : computeBoundAt r real mono = .ok e l st) : st = .unknown := by
  have h1 := computeBoundAt_ok_status hout
  have h2 : clientStatus r mono = some .unknown := by
    unfold clientStatus; rw [h]
  rw [h2] at h1
  exact (Option.some.inj h1).symm

/-- non-vacuity: a leap-3 report and an in-grace silence right after start publish Unknown -/
example : (Updater.run (Updater.new 1000)
    [.data { leap := 3, refNs := 0, offW := 0, dispW := 0, delayW := 0, intervalW := 0 } 0 ⟨100, 0⟩ 5,
     .missing true]).map (·.status) = [.unknown, .unknown] := by decide +kernel

end ClockBound.C09
