/-
  The closed forms of `Model/HeaderProg.lean` (the header checks in the shape of the Rust source) ARE the
  decisions of `Model/Header.lean` on file bytes.
-/
import ClockBound.Model.HeaderProg
import ClockBound.Proofs.HeaderProg
namespace ClockBound.HeaderProg
open ClockBound

/-- `readHeader` on the bytes of a regular file = `ShmHeader::read`'s three-way test on what `read(2)` returns,
    then `is_valid`'s four checks on the parsed header -/
theorem readHeader_eq_prog (bs : Bytes) : readHeader bs = readProg (readRet bs) 0 (parseHeader bs) :=
  Proofs.readHeader_eq_prog bs

/-- `readerOpenLim` on a regular file = header read, then the mapping, then the size check of `ShmReader::new` -/
theorem readerOpenLim_eq_prog (lim : Option Nat) (bs : Bytes) :
    readerOpenLim lim (.file bs)
    = match readProg (readRet bs) 0 (parseHeader bs) with
      | .error e => .error e
      | .ok h => mapProg (mapFails lim h.segsize) ENOMEM h :=
  Proofs.readerOpenLim_eq_prog lim bs

/-- on 16 or more bytes `readHeader` is `checkHeader` of the parsed fields -/
theorem readHeader_full (bs : Bytes) (h16 : HEADER_SIZE ≤ bs.length) : readHeader bs = checkHeader (parseHeader bs) := by
  unfold readHeader
  rw [if_neg (by omega)]
  rfl

example : checkHeader ⟨MAGIC0, MAGIC1, 72, 1, 2⟩ = .ok ⟨MAGIC0, MAGIC1, 72, 1, 2⟩ ∧
    checkHeader ⟨MAGIC0, MAGIC1, 72, 0, 2⟩ = .error .notInit ∧ checkHeader ⟨MAGIC0, MAGIC1, 8, 1, 2⟩ = .error .malformed ∧
    mapProg false 0 ⟨MAGIC0, MAGIC1, 71, 1, 2⟩ = .error .malformed := by
  refine ⟨?_, ?_, ?_, ?_⟩ <;> rfl

end ClockBound.HeaderProg
