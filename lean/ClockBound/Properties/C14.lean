/-
  C14 — Client calls fail cleanly instead of answering from inconsistent data.
  Theorems about `computeBoundAt` (model of clock-bound-shm/src/lib.rs `compute_bound_at`).
-/
import ClockBound.Model.Oracles
import ClockBound.Proofs.Client
namespace ClockBound.C14
open ClockBound

/-- For all records and readings in the physically meaningful range the call never panics,
    aborts or overflows. -/
theorem no_panic (x : ClientIn) (h : x.meaningful = true) :
    computeBoundAt x.r x.real x.mono ≠ .panic := by
  rcases computeBoundAt_closed x h with ⟨_, ho⟩ | ⟨_, _, ho⟩ | ⟨_, _, e, l, ho, _⟩ <;>
    rw [ho] <;> exact fun hh => Outcome.noConfusion hh

/-- a drift rate of 10^9 ppb or more yields the malformed-segment error, and nothing else does
    (this one needs no range hypothesis) -/
theorem malformed_iff (r : Record) (real mono : TimeSpec) :
    computeBoundAt r real mono = .malformed ↔ r.drift ≥ 1000000000 := by
  unfold computeBoundAt
  by_cases hd : r.drift ≥ 1000000000
  · rw [if_pos hd]; exact ⟨fun _ => hd, fun _ => rfl⟩
  · rw [if_neg hd]
    refine ⟨fun hh => ?_, fun hh => absurd hh hd⟩
    exfalso
    revert hh
    repeat' first | split | dsimp only
    all_goals exact fun hh => Outcome.noConfusion hh

/-- causality error exactly when the monotonic reading precedes as-of by the blur (1000 ns) or more -/
theorem causality_iff (x : ClientIn) (h : x.meaningful = true) (hd : x.r.drift < 1000000000) :
    computeBoundAt x.r x.real x.mono = .causality ↔ x.mono.toNs ≤ x.r.asOf.toNs - 1000 := by
  rcases computeBoundAt_closed x h with ⟨hd', _⟩ | ⟨_, hc, ho⟩ | ⟨_, hc, e, l, ho, _⟩
  · omega
  · exact ⟨fun _ => hc, fun _ => ho⟩
  · rw [ho]
    exact ⟨fun hh => Outcome.noConfusion hh, fun hh => by omega⟩

/-- otherwise an interval is returned -/
theorem ok_otherwise (x : ClientIn) (h : x.meaningful = true) (hd : x.r.drift < 1000000000)
    (hc : x.r.asOf.toNs - 1000 < x.mono.toNs) :
    ∃ e l st, computeBoundAt x.r x.real x.mono = .ok e l st := by
  rcases computeBoundAt_closed x h with ⟨hd', _⟩ | ⟨_, hc', _⟩ | ⟨_, _, e, l, ho, _⟩
  · omega
  · omega
  · exact ⟨e, l, _, ho⟩

/-- inside the blur window the age is treated as zero: the half-width is the stored bound -/
theorem blur_age_zero (x : ClientIn) (h : x.meaningful = true) (hd : x.r.drift < 1000000000)
    (hc : x.r.asOf.toNs - 1000 < x.mono.toNs) (hb : x.mono.toNs < x.r.asOf.toNs) :
    ∃ e l st, computeBoundAt x.r x.real x.mono = .ok e l st ∧
      l.toNs - x.real.toNs = x.r.bound ∧ x.real.toNs - e.toNs = x.r.bound := by
  rcases computeBoundAt_closed x h with ⟨hd', _⟩ | ⟨_, hc', _⟩ | ⟨_, _, e, l, ho, he, hl, _⟩
  · omega
  · omega
  · have ha : x.age = 0 := by rw [age_eq_max]; omega
    rw [ha, growth_zero] at he hl
    exact ⟨e, l, _, ho, by omega, by omega⟩

/-- the decidable statement used as oracle on the implementation holds of the model, for all inputs -/
theorem model_holds (x : ClientIn) : Holds x (computeBoundAt x.r x.real x.mono) = true := by
  unfold Holds
  by_cases h : x.meaningful = true
  · simp only [h, Bool.not_true, Bool.false_eq_true, if_false]
    rcases computeBoundAt_closed x h with ⟨hd, ho⟩ | ⟨hd, hc, ho⟩ |
      ⟨hd, hc, e, l, ho, he, hl, _⟩
    · rw [if_pos hd, ho]; rfl
    · rw [if_neg (by omega), if_pos hc, ho]; rfl
    · rw [if_neg (by omega), if_neg (by omega), ho]
      simp only []
      split_ifs with hb
      · have ha : x.age = 0 := by rw [age_eq_max]; omega
        rw [ha, growth_zero] at he hl
        simp only [decide_eq_true_eq]
        omega
      · rfl
  · simp [h]

/-- non-vacuity: a concrete meaningful input on each branch -/
example : (⟨⟨⟨5,0⟩,⟨1005,0⟩,10000,50000,0,.synchronized⟩,⟨1700000000,7⟩,⟨4,999999001⟩⟩ : ClientIn).meaningful = true := by decide
example : computeBoundAt ⟨⟨5,0⟩,⟨1005,0⟩,10000,50000,0,.synchronized⟩ ⟨1700000000,7⟩ ⟨4,999999000⟩ = .causality := by decide
example : computeBoundAt ⟨⟨5,0⟩,⟨1005,0⟩,10000,50000,0,.synchronized⟩ ⟨1700000000,7⟩ ⟨4,999999001⟩
    = .ok ⟨1699999999,999990007⟩ ⟨1700000000,10007⟩ .synchronized := by decide +kernel

end ClockBound.C14
