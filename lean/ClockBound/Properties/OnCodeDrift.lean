/-
  C19 stated ABOUT THE SOURCE (see `OnCodeClient.lean` for the reading): each theorem mentions the
  regenerated AST `Generated.Code` run by the interpreter, and the oracle of the property; model functions occur only
  as witnesses.  Compositions of `CodeTieDrift.max_drift_ppb_eq` with the `model_holds` theorems of the properties.
-/
import ClockBound.Properties.CodeTieDrift
import ClockBound.Properties.C19
namespace ClockBound.OnCode
open ClockBound ClockBound.Rs ClockBound.Generated

/-- **C19 on the source**: the `--max-drift-rate` conversion in `main` yields a value satisfying the C19 oracle
    (exactly 1000 × the ppm value when that fits a u32; otherwise `main` returns an error; never a wrapped value) -/
theorem C19_max_drift_ppb (rate : Option Nat) (nowNs : Int) :
    ∃ p : Option Nat,
      (findLet "max_drift_ppb" Code.fn_main__main.body).map
        (fun e => evalIn (Code.ctx nowNs) "main" "" e [("args", cliValue rate)])
      = some (driftRes ⟨[("args", cliValue rate)], []⟩ p) ∧ C19.Holds rate p = true :=
  ⟨driftPpb rate, CodeTieDrift.max_drift_ppb_eq rate nowNs, C19.model_holds rate⟩

end ClockBound.OnCode
