/-
  C04 — Daemon death at any point, and its restart, never harm attached clients.

  (a), (b): the theorems of C02 and C03 are stated over `SL.Step`, which contains `wKill` (the writer
  dies between any two of its shared accesses) and `wNew` (a restarted writer takes the segment
  over), so "only complete records, in publication order, and catching up without reopening"
  (`C02.no_mixture_general`, `C03.accepted_monotone`, `C03.catches_up`) already hold across every
  crash/restart sequence. This file adds the FILE level, (c) and (d): every point of
  `ShmWriter::new` + first `write` at which the process can stop, over every prior file state
  (incl. `foreign`: a segment of another layout revision), and what a client that attaches between
  the crash and the restart obtains (`fresh_after_crash`: nothing that was never published).
-/
import ClockBound.Model.Crash
import ClockBound.Proofs.Crash
namespace ClockBound.C04
open ClockBound ClockBound.Crash

def isWipeEv : Ev → Bool
  | .wipeDirs | .wipeCreated | .wipeMagic0 | .wipeMagic1 | .wipeSegsize | .wipeVersion
  | .wipeGeneration | .wipeZeroed | .wipeSynced => true
  | _ => false

/-- (c) a usable segment is taken over in place: start-up performs no wipe step at all -/
theorem usable_never_wiped (f : FileA) (h : f.usable = true) : ∀ e ∈ script f, isWipeEv e = false := by
  rw [script_usable f h]
  intro e he
  simp only [List.mem_cons, List.not_mem_nil, or_false] at he
  rcases he with rfl | rfl | rfl | rfl | rfl | rfl | rfl | rfl | rfl | rfl | rfl | rfl | rfl | rfl <;> rfl

/-- (c) wherever the writer dies during start-up and its first publication over a usable segment,
    the segment stays usable, keeps its length, and is never emptied -/
theorem usable_preserved (f : FileA) (rec : List Nat) (k : Nat) (h : f.usable = true) (hg : f.gen < 65536) :
    (runUntil f rec k).1.usable = true ∧ (runUntil f rec k).1.len = f.len ∧
    (runUntil f rec k).1.present = true ∧
    ((runUntil f rec k).1.cells = f.cells ∨ (runUntil f rec k).1.cells = rec) := by
  have _ := hg   -- not needed: the generation never becomes 0, whatever its width
  obtain ⟨h1, h2, h3, h4, h5, h6, h7⟩ := (usable_iff f).1 h
  have hs := genStart_ne_zero f.gen
  rcases runUntil_usable_cases f rec k h with e | e | e | e | e <;> rw [e] <;>
    refine ⟨?_, ?_, ?_, ?_⟩ <;> simp [usable_iff, finalUsable, genFinish_ne_zero, *]

/-- (d) repair: whatever the file contained, wherever a first incarnation died, after a restarted
    writer's start-up and first publication the segment is usable, holds exactly the published
    record under an even non-zero generation, and a fresh client reads that record back -/
theorem restart_repairs (f : FileA) (rec1 rec2 : List Nat) (k : Nat) (hg : f.gen < 65536) :
    let f2 := runAll (runUntil f rec1 k).1 rec2
    f2.usable = true ∧ f2.cells = rec2 ∧ f2.gen % 2 = 0 ∧ f2.gen ≠ 0 ∧ f2.version = 1 ∧
    (({} : ReaderA).snap f2).cache = rec2 := by
  intro f2
  have _ := hg   -- not needed: `genFinish (genStart g)` is even and non-zero for every `g`
  have key : ∀ g : FileA, (runAll g rec2).usable = true ∧ (runAll g rec2).cells = rec2 ∧
      (runAll g rec2).gen % 2 = 0 ∧ (runAll g rec2).gen ≠ 0 ∧ (runAll g rec2).version = 1 := by
    intro g
    cases hu : g.usable
    · rw [runAll_unusable g rec2 hu]; simp [finalFresh, usable_iff]
    · rw [runAll_usable g rec2 hu]
      exact ⟨finalUsable_usable g rec2 hu, rfl, genFinish_even _ (genStart_odd _), genFinish_ne_zero _, rfl⟩
  obtain ⟨k1, k2, k3, k4, k5⟩ := key (runUntil f rec1 k).1
  refine ⟨k1, k2, k3, k4, k5, ?_⟩
  show (ReaderA.snap {} f2).cache = rec2
  have k3' : f2.gen % 2 = 0 := k3
  have k4' : f2.gen ≠ 0 := k4
  have k5' : f2.version = 1 := k5
  have k2' : f2.cells = rec2 := k2
  simp only [ReaderA.snap]
  rw [if_neg (by simp only [k5']; omega)]
  exact k2'

/-- (d) a file the daemon had to re-create is 72 bytes long with the documented header -/
theorem recreated_layout (f : FileA) (rec : List Nat) (h : f.usable = false) :
    (runAll f rec).len = 72 ∧ (runAll f rec).size = 72 ∧ (runAll f rec).magic0 = true ∧
    (runAll f rec).magic1 = true ∧ (runAll f rec).gen = 2 := by
  rw [runAll_unusable f rec h]; simp [finalFresh]

/-- (d) while an unusable file is being re-created nobody can attach: it stays unusable at every
    crash point up to (and including) the one just before the first generation store takes effect -/
theorem unusable_until_first_publication_starts (f : FileA) (rec : List Nat) (k : Nat)
    (h : f.usable = false) (hk : k ≤ 15 + hdrLoads f) : (runUntil f rec k).1.usable = false := by
  have hn : ∀ g : FileA, (g.len < 16 ∨ g.gen = 0) → g.usable = false := by
    intro g hg
    cases hu : g.usable
    · rfl
    · obtain ⟨_, h2, _, _, _, h6, _⟩ := (usable_iff g).1 hu
      omega
  rcases runUntil_unusable_prefix f rec k h hk with e | e
  · rw [e]; exact h
  · exact hn _ e

/-- (a)+(b) at the file level: a client attached to a usable segment obtains, after the crash, only a
    complete record (the prior one, the first incarnation's, or its empty initial record when the
    prior generation was odd) and, after the restart, the restarted writer's publication — without
    reopening anything -/
theorem attached_reader_across_restart (f : FileA) (rec1 rec2 : List Nat) (k : Nat)
    (h : f.usable = true) (hg : f.gen < 65536) :
    let r0 := ({} : ReaderA).snap f
    let f1 := (runUntil f rec1 k).1
    let r1 := r0.snap f1
    let r2 := r1.snap (runAll f1 rec2)
    (r1.cache = f.cells ∨ r1.cache = rec1 ∨ r1.cache = List.replicate 7 0) ∧ r2.cache = rec2 := by
  obtain ⟨h1, h2, h3, h4, h5, h6, h7⟩ := (usable_iff f).1 h
  have hf1u := (usable_preserved f rec1 k h hg).1
  have hs := genStart_odd f.gen
  have hss := genStart_idem f.gen
  have hso := genStart_of_odd f.gen
  have hn0 := genFinish_ne_zero (genStart f.gen)
  have hne := genFinish_even _ hs
  have hnn := genNext_ne f.gen hg
  have hnlt := genFinish_lt (genStart f.gen)
  have hm0 := genFinish_ne_zero (genStart (genFinish (genStart f.gen)))
  have hme := genFinish_even _ (genStart_odd (genFinish (genStart f.gen)))
  have hmn := genNext_ne _ hnlt
  dsimp only
  rw [runAll_usable _ rec2 hf1u]
  -- five possible files left behind × the `if`s of the three snapshots: arithmetic on the generations
  rcases runUntil_usable_cases f rec1 k h with e | e | e | e | e <;> rw [e] <;>
    simp only [ReaderA.snap, finalUsable, hss] <;> (repeat' split) <;> (dsimp only at *) <;>
    first | omega | simp

/-- nobody reads what was never published: whatever the file contained (usable, foreign, garbage, …),
    wherever the writer died and whatever record it was publishing, a FRESH client that opens the file
    left behind either cannot attach, or its first snapshot is the empty record, the record being
    published, or — only over a usable prior segment — the prior's record. In particular the payload of
    an unusable prior file is never handed out: re-creation truncates it before the header becomes valid -/
theorem fresh_after_crash (f : FileA) (rec : List Nat) (k : Nat) :
    let f1 := (runUntil f rec k).1
    let r := ({} : ReaderA).snap f1
    openText f1 ≠ "ok" ∨ r.cache = List.replicate 7 0 ∨ r.cache = rec ∨
      (f.usable = true ∧ r.cache = f.cells) := by
  dsimp only
  cases h : f.usable
  · by_cases hk : k ≤ 15 + hdrLoads f
    · exact Or.inl (openText_unusable _ (unusable_until_first_publication_starts f rec k h hk))
    · rcases runUntil_unusable_suffix f rec k h (by omega) with e | e | e <;> rw [e] <;>
        simp [ReaderA.snap, finalFresh]
  · refine Or.inr ?_
    rcases runUntil_usable_cases f rec k h with e | e | e | e | e <;> rw [e, snap_fresh_cache] <;>
      split <;>
      first | exact Or.inl rfl | exact Or.inr (Or.inl rfl) | exact Or.inr (Or.inr ⟨rfl, rfl⟩)

/-- the same, on the `fresh:` field of the crashed group of the model's prediction, for every prior,
    crash point and pair of records -/
theorem fresh1_after_crash (p : Prior) (k k1 k2 : Nat) :
    (predict p k k1 k2).fresh1 = "none" ∨
    (predict p k k1 k2).fresh1 = cellsText (List.replicate 7 0) ∨
    (predict p k k1 k2).fresh1 = cellsText (recCells k1) ∨
    (p.file.usable = true ∧ (predict p k k1 k2).fresh1 = cellsText p.file.cells) := by
  rw [predict_fresh1]
  have h := fresh_after_crash p.file (recCells k1) k
  dsimp only at h
  split
  · exact Or.inl rfl
  · rename_i hok
    rcases h with h | h | h | ⟨hu, h⟩
    · exact absurd h hok
    · exact Or.inr (Or.inl (congrArg cellsText h))
    · exact Or.inr (Or.inr (Or.inl (congrArg cellsText h)))
    · exact Or.inr (Or.inr (Or.inr ⟨hu, congrArg cellsText h⟩))

/-- the oracle evaluated on the implementation holds of the model's own prediction -/
theorem model_holds (p : Prior) (k k1 k2 : Nat) (hp : p.file.gen < 65536) :
    HoldsFile p k1 k2 (predict p k k1 k2) = true := by
  have hrep := restart_repairs p.file (recCells k1) (recCells k2) k hp
  dsimp only at hrep
  obtain ⟨_, _, _, _, _, hfresh⟩ := hrep
  have efresh : (predict p k k1 k2).fresh = cellsText (recCells k2) := by
    rw [predict_fresh]; exact congrArg cellsText hfresh
  have emode : (predict p k k1 k2).mode = "644" := rfl
  have efresh1 : ((predict p k k1 k2).fresh1 == "none" ||
      (predict p k k1 k2).fresh1 == cellsText (List.replicate 7 0) ||
      (predict p k k1 k2).fresh1 == cellsText (recCells k1) ||
      (p.file.usable && (predict p k k1 k2).fresh1 == cellsText p.file.cells)) = true := by
    rcases fresh1_after_crash p k k1 k2 with h | h | h | ⟨hu, h⟩
    · rw [h]; simp
    · rw [h]; simp
    · rw [h]; simp
    · rw [h, hu]; simp
  unfold HoldsFile
  rw [efresh1]
  cases hu : p.file.usable
  · simp [efresh, emode, predict_att1_unusable p k k1 k2 hu, predict_att2_unusable p k k1 k2 hu]
  · obtain ⟨q1, q2, q3, _⟩ := usable_preserved p.file (recCells k1) k hu hp
    have hatt := attached_reader_across_restart p.file (recCells k1) (recCells k2) k hu hp
    dsimp only at hatt
    obtain ⟨a1, a2⟩ := hatt
    have hpres : p.file.present = true := ((usable_iff _).1 hu).1
    have hlen := prior_usable_len p hu
    have e1 : (predict p k k1 k2).len1 = 72 := by
      rw [predict_len1, q3, if_pos rfl, q2, hlen]; rfl
    have e2 : (predict p k k1 k2).len2 = 72 := by
      rw [predict_len2, pf2, runAll_usable _ _ q1]
      show ((pf1 p k k1).len : Int) = 72
      rw [q2, hlen]; rfl
    have e3 : (predict p k k1 k2).open1 = "ok" := by
      rw [predict_open1]; exact openText_usable _ q1
    have e4 : (predict p k k1 k2).att2 = cellsText (recCells k2) := by
      rw [predict_att2_usable p k k1 k2 hu]; exact congrArg cellsText a2
    have e5 := predict_att1_usable p k k1 k2 hu
    rw [predict_inodeSame, hpres, efresh, emode, e1, e2, e3, e4, e5]
    rcases a1 with a | a | a <;> rw [a] <;> simp

example : (runUntil (Prior.valid 4 90).file (recCells 1) 9).2 = some .storeGenOdd := by decide
example : (runUntil Prior.missing.file (recCells 1) 7).1.len = 16 := by decide
example : (runAll Prior.garbage.file (recCells 5)).gen = 2 := by decide
-- `fresh_after_crash` at a foreign prior (another layout revision's segment, even generation, payload
-- `recCells 97`) whose re-creation dies right after the second magic word was written (event 4): the
-- file is 8 bytes long, nobody can attach, the foreign payload is gone
example : (runUntil (Prior.foreign 4 97).file (recCells 1) 4).2 = some .wipeMagic1 := by decide
example : (runUntil (Prior.foreign 4 97).file (recCells 1) 4).1.len = 8 := by decide
example : openText (runUntil (Prior.foreign 4 97).file (recCells 1) 4).1 ≠ "ok" := by decide
example : (predict (.foreign 4 97) 4 1 2).fresh1 = "none" := by decide
example : HoldsFile (.foreign 4 97) 1 2 (predict (.foreign 4 97) 4 1 2) = true := by decide
-- what the oracle refuses: the same crash point leaving a valid header over the foreign payload
example : HoldsFile (.foreign 4 97) 1 2
    { predict (.foreign 4 97) 4 1 2 with open1 := "ok", len1 := 72, fresh1 := cellsText (recCells 97) } = false := by decide

end ClockBound.C04
