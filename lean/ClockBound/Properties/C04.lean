/-
  C04 — Daemon death at any point, and its restart, never harm attached clients.

  (a), (b): the theorems of C02 and C03 are stated over `SL.Step`, which contains `wKill` (the writer
  dies between any two of its shared accesses) and `wNew` (a restarted writer takes the segment
  over), so "only complete records, in publication order, and catching up without reopening"
  (`C02.no_mixture_general`, `C03.accepted_monotone`, `C03.catches_up`) already hold across every
  crash/restart sequence. This file adds the FILE level, (c) and (d): every point of
  `ShmWriter::new` + first `write` at which the process can stop, over every prior file state.
-/
import ClockBound.Model.Crash
import ClockBound.Proofs.Crash
namespace ClockBound.C04
open ClockBound ClockBound.Crash

def isWipeEv : Ev → Bool
  | .wipeDirs | .wipeCreated | .wipeMagic0 | .wipeMagic1 | .wipeSegsize | .wipeVersion
  | .wipeGeneration | .wipeZeroed | .wipeSynced => true
  | _ => false

/-- (c) a usable segment is taken over in place: start-up performs no wipe step at all -/
theorem usable_never_wiped (f : FileA) (h : f.usable = true) : ∀ e ∈ script f, isWipeEv e = false := by
  sorry

/-- (c) wherever the writer dies during start-up and its first publication over a usable segment,
    the segment stays usable, keeps its length, and is never emptied -/
theorem usable_preserved (f : FileA) (rec : List Nat) (k : Nat) (h : f.usable = true) (hg : f.gen < 65536) :
    (runUntil f rec k).1.usable = true ∧ (runUntil f rec k).1.len = f.len ∧
    (runUntil f rec k).1.present = true ∧
    ((runUntil f rec k).1.cells = f.cells ∨ (runUntil f rec k).1.cells = rec) := by
  sorry

/-- (d) repair: whatever the file contained, wherever a first incarnation died, after a restarted
    writer's start-up and first publication the segment is usable, holds exactly the published
    record under an even non-zero generation, and a fresh client reads that record back -/
theorem restart_repairs (f : FileA) (rec1 rec2 : List Nat) (k : Nat) (hg : f.gen < 65536) :
    let f2 := runAll (runUntil f rec1 k).1 rec2
    f2.usable = true ∧ f2.cells = rec2 ∧ f2.gen % 2 = 0 ∧ f2.gen ≠ 0 ∧ f2.version = 1 ∧
    (({} : ReaderA).snap f2).cache = rec2 := by
  sorry

/-- (d) a file the daemon had to re-create is 72 bytes long with the documented header -/
theorem recreated_layout (f : FileA) (rec : List Nat) (h : f.usable = false) :
    (runAll f rec).len = 72 ∧ (runAll f rec).size = 72 ∧ (runAll f rec).magic0 = true ∧
    (runAll f rec).magic1 = true ∧ (runAll f rec).gen = 2 := by
  sorry

/-- (d) while an unusable file is being re-created nobody can attach: it stays unusable at every
    crash point up to (and including) the one just before the first generation store takes effect -/
theorem unusable_until_first_publication_starts (f : FileA) (rec : List Nat) (k : Nat)
    (h : f.usable = false) (hk : k ≤ 15 + hdrLoads f) : (runUntil f rec k).1.usable = false := by
  sorry

/-- (a)+(b) at the file level: a client attached to a usable segment obtains, after the crash, only a
    complete record (the prior one, the first incarnation's, or its empty initial record when the
    prior generation was odd) and, after the restart, the restarted writer's publication — without
    reopening anything -/
theorem attached_reader_across_restart (f : FileA) (rec1 rec2 : List Nat) (k : Nat)
    (h : f.usable = true) (hg : f.gen < 65536) :
    let r0 := ({} : ReaderA).snap f
    let f1 := (runUntil f rec1 k).1
    let r1 := r0.snap f1
    let r2 := r1.snap (runAll f1 rec2)
    (r1.cache = f.cells ∨ r1.cache = rec1 ∨ r1.cache = List.replicate 7 0) ∧ r2.cache = rec2 := by
  sorry

/-- the oracle evaluated on the implementation holds of the model's own prediction -/
theorem model_holds (p : Prior) (k k1 k2 : Nat) (hp : p.file.gen < 65536) :
    HoldsFile p k1 k2 (predict p k k1 k2) = true := by
  sorry

example : (runUntil (Prior.valid 4 90).file (recCells 1) 9).2 = some .storeGenOdd := by decide
example : (runUntil Prior.missing.file (recCells 1) 7).1.len = 16 := by decide
example : (runAll Prior.garbage.file (recCells 5)).gen = 2 := by decide

end ClockBound.C04
