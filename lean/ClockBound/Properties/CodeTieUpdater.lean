/-
  Translation tie, part 4: `ShmUpdater` (clock-bound-d/src/shm_writer.rs).

  For every updater state and every message, the ASTs regenerated from the Rust source of
  `process_clock_update`, `process_missing_clock_update` and `new` (and of the functions they call:
  `extract_bound_from_tracking`, `ChronyClockStatus::from`, `write_clock_error_bound`,
  `ClockErrorBound::new`, all inlined by the interpreter from the same table), run by the
  interpreter, leave `self` in exactly the state `Updater.step` computes and hand exactly the record
  `Updater.record` to `ShmWrite::write` — or panic where the model says `none` — and never get stuck.

  No range hypothesis is needed.
-/
import ClockBound.Proofs.RsUpdater
namespace ClockBound.CodeTieUpdater
open ClockBound ClockBound.Rs ClockBound.Generated

/-- `Message::ClockErrorBoundData((tracking, phc_error_bound, as_of))`, handled at realtime `nowNs` -/
theorem process_clock_update_eq (u : Updater) (t : Tracking) (phc : Int) (asOf : TimeSpec) (nowNs : Int) :
    run (Code.ctx nowNs) "ShmUpdater::process_clock_update" (updaterValue u)
      [trackingValue t, .int .i64 phc, ctimespecValue asOf]
    = updaterOutcome (u.step (.data t phc asOf nowNs)) :=
  UpdaterProof.tie_data u t phc asOf nowNs

/-- the four "no usable reply" messages -/
theorem process_missing_eq (u : Updater) (withinGrace : Bool) (nowNs : Int) :
    run (Code.ctx nowNs) "ShmUpdater::process_missing_clock_update" (updaterValue u) [.bool withinGrace]
    = updaterOutcome (u.step (.missing withinGrace)) :=
  UpdaterProof.tie_missing u withinGrace nowNs

/-- `ShmUpdater::new(writer, max_drift_ppb)` -/
theorem new_eq (drift : Nat) (nowNs : Int) :
    run (Code.ctx nowNs) "ShmUpdater::new" .unit [.writer, .int .u32 drift]
    = .ok (updaterValue (Updater.new drift)) .unit [] :=
  UpdaterProof.tie_new drift nowNs

/-- the ranges the Rust types force (not needed above) -/
def Updater.inRange (u : Updater) : Bool :=
  decide (u.drift < 4294967296) && inI64 u.bound && inI64 u.asOf.sec && inI64 u.asOf.nsec &&
  decide (u.reserved < 4294967296)

example : Updater.inRange ⟨1000, .synchronized, 4811080296, ⟨123456, 789⟩, 0, true⟩ = true := by decide

end ClockBound.CodeTieUpdater
