/-
  C03 (second half) — …and catch up once the writer is idle.
-/
import ClockBound.Model.SeqlockSys
import ClockBound.Proofs.SeqlockReader
namespace ClockBound.C03
open ClockBound ClockBound.SL ClockBound.SLR

/-- reachable reader views are consistent with the log, so the catch-up theorems apply to them -/
theorem reachable_viewOk (a : Ann) (ver gen : Nat) (cells0 : List Nat)
    (s : Sys) (hr : Reachable a (Sys.init ver gen cells0) s) : ViewOk s.log s.r.view := by
  exact (sysInv_reachable (sysInv_init ver gen cells0) hr).view

/-- run a whole `snapshot()` call with fresh reads (every load returns the newest message) on a
    log that does not change during the call (no update in flight) -/
def freshCall (a : Ann) (log : Log) (r : Reader) (fuel : Nat) : Reader × Option RResult :=
  (List.range fuel).foldl (fun (st : Reader × Option RResult) _ =>
    if st.2.isSome then st else
    let out := rStep a log st.1 0 0
    (out.1, out.2.1)) (r.call, none)

/-- (ii) catch-up: if no update is in flight (latest generation even and non-zero, version non-zero)
    and the cached generation differs from the live one, a call with fresh reads returns the record
    of the latest completed publication — not a cached older one -/
theorem catches_up (a : Ann) (log : Log) (r : Reader) (hidle : r.pc = .idle)
    (hv : latest log .version ≠ 0) (hg : latest log .gen ≠ 0) (he : latest log .gen % 2 = 0)
    (hne : r.cacheGen ≠ latest log .gen) (hview : ViewOk log r.view)
    (hcells : ∀ c, c < N → ∃ j, lastBefore log (.cell c) log.length = some j) :
    (freshCall a log r (N + 4)).2 = some (.ok ((List.range N).map (fun c => latest log (.cell c)))) := by
  -- `hidle`, `hcells` are not needed: `Reader.call` overwrites the pc, and a cell without any
  -- message reads as 0, which is also its `latest`
  have _ := hidle; have _ := hcells
  exact fresh_catches_up a log r hv hg he hne hview.2.2

/-- the documented exception: the cached generation coincides with the live one ⇒ the cache is served -/
theorem same_generation_serves_cache (a : Ann) (log : Log) (r : Reader) (hidle : r.pc = .idle)
    (hv : latest log .version ≠ 0) (heq : r.cacheGen = latest log .gen) (hview : ViewOk log r.view) :
    (freshCall a log r 2).2 = some (.ok r.cache) := by
  have _ := hidle
  exact fresh_same_generation a log r hv heq hview.2.2


example : (freshCall {} (initBlock 1 4 [11,12,13,14,15,16,2]) {} (N + 4)).2 = some (.ok [11,12,13,14,15,16,2]) := by decide

end ClockBound.C03
