/-
  C06 — Client never reports a status stronger than the record's age justifies.
-/
import ClockBound.Model.Oracles
import ClockBound.Proofs.Client
namespace ClockBound.C06
open ClockBound

/-- total characterisation of the reported status, all three stored statuses, all readings -/
theorem status_char (x : ClientIn) (h : x.meaningful = true) (e l : TimeSpec) (st : Status)
    (hout : computeBoundAt x.r x.real x.mono = .ok e l st) : st = expected x := by
  exact (ok_closed x h e l st hout).2.2.1

/-- Synchronized only if stored Synchronized and younger than the 5 s grace period -/
theorem synchronized_only_if (x : ClientIn) (h : x.meaningful = true) (e l : TimeSpec)
    (hout : computeBoundAt x.r x.real x.mono = .ok e l .synchronized) :
    x.r.status = .synchronized ∧ x.mono.toNs < x.r.asOf.toNs + 5000000000 := by
  have hs := (ok_closed x h e l _ hout).2.2.1
  unfold expected at hs
  cases hst : x.r.status <;> rw [hst] at hs <;> simp only [] at hs
  · cases hs
  · refine ⟨rfl, ?_⟩
    by_contra hc
    rw [if_neg hc] at hs
    split_ifs at hs
  · exfalso
    split_ifs at hs

/-- FreeRunning only if stored Synchronized or FreeRunning and void-after not passed -/
theorem freeRunning_only_if (x : ClientIn) (h : applicable x = true) (e l : TimeSpec)
    (hout : computeBoundAt x.r x.real x.mono = .ok e l .freeRunning) :
    (x.r.status = .synchronized ∨ x.r.status = .freeRunning) ∧ x.mono.toNs < x.r.voidAfter.toNs := by
  simp only [applicable, Bool.and_eq_true, decide_eq_true_eq] at h
  obtain ⟨hm, hv⟩ := h
  have hs := (ok_closed x hm e l _ hout).2.2.1
  unfold expected at hs
  cases hst : x.r.status <;> rw [hst] at hs <;> simp only [] at hs
  · cases hs
  · refine ⟨Or.inl rfl, ?_⟩
    split_ifs at hs
    omega
  · refine ⟨Or.inr rfl, ?_⟩
    split_ifs at hs <;> omega

/-- a record marked Unknown, or one older than void-after, always yields Unknown -/
theorem unknown_always (x : ClientIn) (h : applicable x = true) (e l : TimeSpec) (st : Status)
    (hout : computeBoundAt x.r x.real x.mono = .ok e l st)
    (hu : x.r.status = .unknown ∨ x.r.voidAfter.toNs ≤ x.mono.toNs) : st = .unknown := by
  simp only [applicable, Bool.and_eq_true, decide_eq_true_eq] at h
  obtain ⟨hm, hv⟩ := h
  rw [(ok_closed x hm e l st hout).2.2.1]
  unfold expected
  cases hst : x.r.status <;> simp only []
  all_goals
    rcases hu with hu | hu
    · rw [hst] at hu; cases hu
    · rw [if_neg (by omega), if_neg (by omega)]

/-- a fresh record's status is passed through unchanged -/
theorem fresh_passthrough (x : ClientIn) (h : x.meaningful = true) (e l : TimeSpec) (st : Status)
    (hout : computeBoundAt x.r x.real x.mono = .ok e l st)
    (hf : x.mono.toNs < x.r.asOf.toNs + 5000000000) : st = x.r.status := by
  rw [(ok_closed x h e l st hout).2.2.1]
  unfold expected
  cases hst : x.r.status <;> simp only []
  all_goals rw [if_pos hf]

/-- every daemon-written record (void-after = (as-of.sec + 1000, 0)) satisfies C06's hypothesis -/
theorem daemon_record_applicable (asOf : TimeSpec) (h : asOf.normalized) :
    asOf.toNs + 5000000000 ≤ (⟨asOf.sec + 1000, 0⟩ : TimeSpec).toNs := by
  unfold TimeSpec.normalized at h
  unfold TimeSpec.toNs
  unfold NANOS at *
  simp only []
  omega

theorem model_holds (x : ClientIn) : Holds x (computeBoundAt x.r x.real x.mono) = true := by
  unfold Holds
  by_cases h : applicable x = true
  · simp only [h, Bool.not_true, Bool.false_eq_true, if_false]
    have hm : x.meaningful = true := by
      simp only [applicable, Bool.and_eq_true] at h; exact h.1
    cases hout : computeBoundAt x.r x.real x.mono with
    | ok e l st =>
      simp only []
      rw [status_char x hm e l st hout]
      cases expected x <;> rfl
    | _ => rfl
  · simp [h]

example : applicable ⟨⟨⟨5,0⟩,⟨1005,0⟩,10000,50000,0,.synchronized⟩,⟨1700000000,7⟩,⟨10,0⟩⟩ = true := by decide
example : computeBoundAt ⟨⟨5,0⟩,⟨1005,0⟩,10000,50000,0,.synchronized⟩ ⟨1700000000,7⟩ ⟨9,999999999⟩
    = .ok ⟨1699999999,999740008⟩ ⟨1700000000,260006⟩ .synchronized := by decide +kernel
  -- (expected value corrected: age = 4999999999 ns, 4.999999999 s · 50000 ppb = 249999.99995,
  --  truncated to 249999, so the half-width is 259999 ns, not 260000)
example : computeBoundAt ⟨⟨5,0⟩,⟨1005,0⟩,10000,50000,0,.synchronized⟩ ⟨1700000000,7⟩ ⟨10,0⟩
    = .ok ⟨1699999999,999740007⟩ ⟨1700000000,260007⟩ .freeRunning := by decide +kernel

end ClockBound.C06
