/-
  Source tie by translation (part Gen): constants the hand-written model hard-codes, regenerated from
  /repo's working tree on every run by tools/translate_consts.py, agree with the model.
  Closed by evaluation; a changed constant in the source makes the theorem fail to build.
-/
import ClockBound.Generated.Consts
import ClockBound.Model.Driver
namespace ClockBound.ConstsAgree
open ClockBound ClockBound.Generated.Consts

theorem gen_after_wrap : genFinish 65535 = genAfterWrap := by decide

theorem layout_version : layoutVersion = 1 := by decide

end ClockBound.ConstsAgree
