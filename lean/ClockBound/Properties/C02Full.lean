/-
  C02 at full strength — without the hypothesis that fewer than 32767 updates complete between the
  two generation reads of one attempt — is FALSE of the protocol, because the generation is a 16-bit
  counter: a reader stalled inside one attempt while exactly 32767 updates complete re-reads the
  same generation value and accepts a mixture (known finding K1; replayed on the real code by the
  `slaba` scenario). This file proves the negation with an explicit execution of the model.
-/
import ClockBound.Model.SeqlockSys
import ClockBound.Proofs.SeqlockAba
namespace ClockBound.C02
open ClockBound ClockBound.SL

def cellsA : List Nat := List.replicate N 7
def cellsB : List Nat := List.replicate N 9

/-- the set a returned record must belong to (as in `C02.Good`) -/
def GoodFull (cells0 : List Nat) (s : Sys) (c : List Nat) : Prop :=
  c = zerosN ∨ c = cells0 ∨ c ∈ s.written

/-- even with the adequate (repaired) annotation there is a reachable state in which `snapshot` has
    returned a record that is neither the empty one, nor the pre-existing one, nor one ever passed to
    `write`: the first three cells of the old record followed by four cells of the new one. -/
theorem full_false :
    ∃ s : Sys, Reachable ({} : Ann) (Sys.init 1 4 cellsA) s ∧
      ∃ c ∈ s.returned, ¬ GoodFull cellsA s c := by
  obtain ⟨s, hr, hret, hw⟩ := SLA.aba_execution
  refine ⟨s, hr, [7, 7, 7, 9, 9, 9, 9], by rw [hret]; exact List.mem_singleton.mpr rfl, ?_⟩
  rintro (h | h | h)
  · exact absurd h (by decide)
  · exact absurd h (by decide)
  · exact absurd (hw _ h) (by decide)

/-- the arithmetic heart: 32767 completed updates bring the 16-bit generation back to where it was -/
theorem generation_cycle (g : Nat) (hg : g % 2 = 0) (h2 : 2 ≤ g) (h : g < 65536) :
    (List.range 32767).foldl (fun x _ => genFinish (genStart x)) g = g :=
  SLA.iter_cycle g hg h2 h

end ClockBound.C02
