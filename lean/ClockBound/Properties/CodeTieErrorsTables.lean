/-
  Translation tie, group `Errors`, part: the regenerated TABLES (enums, discriminants, declared types) of the
  two client crates against the model's `ErrKind` / `ErrKind.code` / `Status.code`.  No interpreter run is
  involved: these are statements about `Generated/Code.lean` alone, in a module of their own so that they are
  checked (and reported) independently of the proofs about the functions.  See `Properties/CodeTieErrors.lean`.
-/
import ClockBound.Proofs.RsEval
import ClockBound.Generated.Code
import ClockBound.Rs.EmbedErrors
set_option linter.unusedSimpArgs false
namespace ClockBound.CodeTieErrors
open ClockBound ClockBound.Rs ClockBound.Generated ClockBound.Rs.DictErrors ClockBound.Rs.EmbedErrors

/-- the regenerated `#[repr(C)] enum clockbound_err_kind` has exactly the model's kinds, numbered by
    `ErrKind.code` (the discriminants Rust assigns: 0, 1, ..) -/
theorem ffi_kind_table :
    Code.enumDiscr.lookup "clockbound_err_kind" =
      some ([ErrKind.none, .syscall, .notInit, .malformed, .causality].map fun k => (ffiKindName k, (k.code : Int))) := by
  simp [rs_code, List.lookup, ffiKindName, ErrKind.code]

/-- so the kind the C caller reads (`kind as u32`, a C `enum`) is `ErrKind.code` -/
theorem ffi_kind_code (k : ErrKind) (st : St) :
    primCast Code.enumDiscr "u32" (ffiKindValue k) st = some (.val (.int .u32 k.code) st) := by
  cases k <;> simp [rs_eval, rs_code, ffiKindValue, ffiKindName, ErrKind.code]

/-- the Rust client's `ClockBoundErrorKind` has exactly the four error kinds, in the model's order -/
theorem client_kind_table :
    Code.enums.lookup "ClockBoundErrorKind" =
      some [("Syscall", 0), ("SegmentNotInitialized", 0), ("SegmentMalformed", 0), ("CausalityBreach", 0)] ∧
    [ErrKind.syscall, .notInit, .malformed, .causality].map clientKindValue =
      ["Syscall", "SegmentNotInitialized", "SegmentMalformed", "CausalityBreach"].map
        fun v => Value.enumv ("ClockBoundErrorKind::" ++ v) [] := by
  constructor
  · simp [rs_code, List.lookup]
  · rfl

/-- and `ShmError` itself has exactly the four variants of `ShmErrorV` -/
theorem shm_error_table :
    Code.enums.lookup "ShmError" =
      some [("SyscallError", 2), ("SegmentNotInitialized", 0), ("SegmentMalformed", 0), ("CausalityBreach", 0)] := by
  simp [rs_code, List.lookup]

/-- the discriminants of `clockbound_clock_status` are `Status.code` -/
theorem ffi_status_table :
    Code.enumDiscr.lookup "clockbound_clock_status" =
      some ([Status.unknown, .synchronized, .freeRunning].map fun s => (ffiStatusName s, (s.code : Int))) := by
  simp [rs_code, List.lookup, ffiStatusName, Status.code]

/-- the declared types of the destinations of `e.into()`, `clock_status.into()`, `Default::default()` in
    the C API: `ctx.err` and the pointee of `clockbound_open`'s `err` are `clockbound_err`, the status field of
    the result is `clockbound_clock_status` -/
theorem into_destinations :
    (Code.structs.lookup "clockbound_ctx").bind (·.lookup "err") = some "clockbound_err" ∧
    (Code.structs.lookup "clockbound_now_result").bind (·.lookup "clock_status") = some "clockbound_clock_status" ∧
    Code.fn_ffi_lib__clockbound_open.params.map (·.2) = ["*const c_char", "*mut clockbound_err"] := by
  simp [rs_code, List.lookup]

end ClockBound.CodeTieErrors
