/-
  C02 — A snapshot is never a mixture of two published records.
  For every interleaving of the writer's and the reader's individual accesses, every crash/restart
  of the writer, every admissible (stale) load result of the release/acquire memory, and every
  annotation of the real code that is `adequate`.
-/
import ClockBound.Model.SeqlockSys
import ClockBound.Proofs.Seqlock
namespace ClockBound.C02
open ClockBound ClockBound.SL

/-- the set a returned record must belong to -/
def Good (cells0 : List Nat) (s : Sys) (c : List Nat) : Prop :=
  c = zerosN ∨ c = cells0 ∨ c ∈ s.written

/-- Writer invariant, part 1: in every reachable log, the record in the segment as of any even,
    non-zero generation message is one complete record: the pre-existing one or one passed to `write`. -/
theorem even_generation_is_complete (a : Ann) (ha : a.adequate = true)
    (ver gen : Nat) (cells0 : List Nat) (hc : cells0.length = N) (hg : gen < 65536)
    (s : Sys) (hr : Reachable a (Sys.init ver gen cells0) s)
    (e : Nat) (m : SL.Msg) (hm : s.log[e]? = some m) (hgen : m.loc = .gen) (hev : m.val % 2 = 0) (hnz : m.val ≠ 0) :
    pubCells s.log e = cells0 ∨ pubCells s.log e ∈ s.written := by
  exact (reachable_inv hc hg hr).log.pub e m hm hgen hev hnz

/-- Reader side, precise form: when a `snapshot` attempt is accepted and fewer than 32767 updates
    completed between the generation message it started from (`g1Idx`) and the message its re-check
    read, the cells it copied are exactly the record as of that generation message. -/
theorem accept_consistent (a : Ann) (ha : a.adequate = true)
    (ver gen : Nat) (cells0 : List Nat) (hc : cells0.length = N) (hg : gen < 65536)
    (s : Sys) (hr : Reachable a (Sys.init ver gen cells0) s)
    (g1 retries : Nat) (got : List (Nat × Nat)) (pm : Nat)
    (hpc : s.r.pc = .gen2 g1 retries got)
    (hacc : (load s.log s.r.view .gen a.rGen2 pm).1 = g1)
    (hnowrap : evenGenBetween s.log s.r.g1Idx (load s.log s.r.view .gen a.rGen2 pm).2.1 < 32767) :
    assemble got = pubCells s.log s.r.g1Idx ∧
    (∃ m, s.log[s.r.g1Idx]? = some m ∧ m.loc = .gen ∧ m.val = g1 ∧ g1 % 2 = 0 ∧ g1 ≠ 0) := by
  have hI := reachable_inv hc hg hr
  exact accept_core hI.log hc ha (hI.rd ha) hpc pm hacc hnowrap

/-- C02 for histories with fewer than 32767 completed updates (no 16-bit wrap can bite): every record
    ever returned is the empty initial record, the pre-existing record or one passed to `write`. -/
theorem no_mixture (a : Ann) (ha : a.adequate = true)
    (ver gen : Nat) (cells0 : List Nat) (hc : cells0.length = N) (hg : gen < 65536)
    (s : Sys) (hr : Reachable a (Sys.init ver gen cells0) s)
    (hnowrap : completedUpdates s.log < 32767) :
    ∀ c ∈ s.returned, Good cells0 s c := by
  exact (reachable_cinv_few hc hg ha hr hnowrap).ret

/-- C02 in general: as long as every accepted attempt had fewer than 32767 completed updates between
    its two generation reads (stated as a hypothesis on every reachable predecessor state). -/
theorem no_mixture_general (a : Ann) (ha : a.adequate = true)
    (ver gen : Nat) (cells0 : List Nat) (hc : cells0.length = N) (hg : gen < 65536)
    (s : Sys) (hr : Reachable a (Sys.init ver gen cells0) s)
    (hnowrap : ∀ t, Reachable a (Sys.init ver gen cells0) t → ∀ g1 retries got pm,
        t.r.pc = .gen2 g1 retries got → (load t.log t.r.view .gen a.rGen2 pm).1 = g1 →
        evenGenBetween t.log t.r.g1Idx (load t.log t.r.view .gen a.rGen2 pm).2.1 < 32767) :
    ∀ c ∈ s.returned, Good cells0 s c := by
  exact (reachable_cinv_general hc hg ha hnowrap hr).ret

/-- the unfenced code (the tree before the repair) is NOT adequate, and neither is a relaxed re-check -/
example : ({ wFence := none, rFence := none } : Ann).adequate = false := by decide
example : ({ rGen2 := .relaxed } : Ann).adequate = false := by decide
example : ({} : Ann).adequate = true := by decide
example : ({ wStore1 := .relaxed, rVersion := .relaxed, wLoad := .relaxed } : Ann).adequate = true := by decide

end ClockBound.C02
