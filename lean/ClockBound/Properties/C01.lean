/-
  C01 — True time lies inside every trusted interval (end-to-end containment).
-/
import ClockBound.Model.World
import ClockBound.Proofs.World
namespace ClockBound.C01
open ClockBound

/-- Provenance (uses C07–C09): every record ever published with a status other than Unknown —
    whatever the history of reports, outages and restarts — carries the bound and as-of of one poll
    whose report was classified synchronised. -/
theorem provenance (w : World) (evs : List WEvent) (r : Record)
    (hr : r ∈ (DaemonState.run w evs).published) (hst : r.status ≠ .unknown) :
    ∃ ta tq tp t phc g, WEvent.poll ta tq tp (some t) phc g ∈ evs ∧
      classify t (w.Rc tp).floor = .synchronized ∧
      r.bound = boundF t + phc ∧ r.asOf = TimeSpec.ofNs (w.Mc ta).floor ∧
      r.voidAfter = ⟨r.asOf.sec + 1000, 0⟩ ∧ r.drift = w.rho := by
  sorry

/-- The arithmetic core: from a valid report at `tq`, a bound that covers it up to `eB`, a growth
    term that covers the drift over the *read* ages up to `1 + eG`, and the clock hypotheses. -/
theorem containment_core (w : World) (hw : w.Good) (ta tq tr tm : Rat)
    (h1 : ta ≤ tq) (h2 : tq ≤ tr) (h3 : tr ≤ tm)
    (E eB eG : Rat) (bound growth : Int)
    (hvalid : absR (w.Rc tq - tq) ≤ E) (hbound : E ≤ (bound : Rat) + eB)
    (hgrowth : (w.rho : Rat) * (((w.Mc tm).floor - (w.Mc ta).floor : Int) : Rat) / 1000000000 - 1 - eG ≤ (growth : Rat)) :
    absR ((((w.Rc tr).floor : Int) : Rat) - tr) <
      ((bound + growth : Int) : Rat) + 2 + (w.rho : Rat) / 1000000000 + eB + eG := by
  sorry

/-- End-to-end containment: for every history of events satisfying the hypotheses, every record
    published by it (so also a stale one), and every client query made afterwards whose status is
    Synchronized or FreeRunning, true time at the instant the realtime clock was read lies within
    [earliest − σ, latest + σ], σ = 2 + ρ/10^9 + 2^-10 ns. -/
theorem containment (w : World) (hw : w.Good) (hrho : w.rho < 1000000000)
    (evs : List WEvent) (hev : ∀ e ∈ evs, e.ok w)
    (r : Record) (hr : r ∈ (DaemonState.run w evs).published)
    (tr tm : Rat) (hrm : tr ≤ tm) (hafter : ∀ e ∈ evs, ∀ t, e.endTime = some t → t ≤ tr)
    (hR : 0 ≤ (w.Rc tr).floor ∧ (w.Rc tr).floor < 2147483648000000000)
    (hM : (w.Mc tm).floor < 2147483648000000000)
    (e l : TimeSpec) (st : Status)
    (hout : clientQuery w r tr tm = .ok e l st) (hst : st ≠ .unknown) :
    (e.toNs : Rat) - sigma w < tr ∧ tr < (l.toNs : Rat) + sigma w := by
  sorry

/-- the oracle evaluated on the implementation is this statement -/
theorem model_holds (w : World) (hw : w.Good) (hrho : w.rho < 1000000000)
    (evs : List WEvent) (hev : ∀ e ∈ evs, e.ok w)
    (r : Record) (hr : r ∈ (DaemonState.run w evs).published)
    (tr tm : Rat) (hrm : tr ≤ tm) (hafter : ∀ e ∈ evs, ∀ t, e.endTime = some t → t ≤ tr)
    (hR : 0 ≤ (w.Rc tr).floor ∧ (w.Rc tr).floor < 2147483648000000000)
    (hM : (w.Mc tm).floor < 2147483648000000000) :
    Holds w tr (clientQuery w r tr tm) = true := by
  sorry

/-- non-vacuity: a world with a constant 100 ns offset and ideal rates satisfies the hypotheses -/
def exampleWorld : World := ⟨fun t => t + 100, fun t => t, 50000⟩
theorem exampleWorld_good : exampleWorld.Good := by
  sorry

end ClockBound.C01
