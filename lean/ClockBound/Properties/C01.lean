/-
  C01 — True time lies inside every trusted interval (end-to-end containment).
-/
import ClockBound.Model.World
import ClockBound.Proofs.World
namespace ClockBound.C01
open ClockBound

/-- Provenance (uses C07–C09): every record ever published with a status other than Unknown —
    whatever the history of reports, outages and restarts — carries the bound and as-of of one poll
    whose report was classified synchronised. -/
theorem provenance (w : World) (evs : List WEvent) (r : Record)
    (hr : r ∈ (DaemonState.run w evs).published) (hst : r.status ≠ .unknown) :
    ∃ ta tq tp t phc g, WEvent.poll ta tq tp (some t) phc g ∈ evs ∧
      classify t (w.Rc tp).floor = .synchronized ∧
      r.bound = boundF t + phc ∧ r.asOf = TimeSpec.ofNs (w.Mc ta).floor ∧
      r.voidAfter = ⟨r.asOf.sec + 1000, 0⟩ ∧ r.drift = w.rho := by
  obtain ⟨⟨ta, tq, tp, t, phc, g, hmem, hcls, hb, ha⟩, hv, hd⟩ := (PInv.run w evs).pub r hr hst
  exact ⟨ta, tq, tp, t, phc, g, hmem, hcls, hb, ha, hv, hd⟩

/-- The arithmetic core: from a valid report at `tq`, a bound that covers it up to `eB`, a growth
    term that covers the drift over the *read* ages up to `1 + eG`, and the clock hypotheses. -/
theorem containment_core (w : World) (hw : w.Good) (ta tq tr tm : Rat)
    (h1 : ta ≤ tq) (h2 : tq ≤ tr) (h3 : tr ≤ tm)
    (E eB eG : Rat) (bound growth : Int)
    (hvalid : absR (w.Rc tq - tq) ≤ E) (hbound : E ≤ (bound : Rat) + eB)
    (hgrowth : (w.rho : Rat) * (((w.Mc tm).floor - (w.Mc ta).floor : Int) : Rat) / 1000000000 - 1 - eG ≤ (growth : Rat)) :
    absR ((((w.Rc tr).floor : Int) : Rat) - tr) <
      ((bound + growth : Int) : Rat) + 2 + (w.rho : Rat) / 1000000000 + eB + eG := by
  exact containment_core_aux w hw ta tq tr tm h1 h2 h3 E eB eG bound growth hvalid hbound hgrowth

/-- End-to-end containment: for every history of events satisfying the hypotheses, every record
    published by it (so also a stale one), and every client query made afterwards whose status is
    Synchronized or FreeRunning, true time at the instant the realtime clock was read lies within
    [earliest − σ, latest + σ], σ = 2 + ρ/10^9 + 2^-10 ns. -/
theorem containment (w : World) (hw : w.Good) (hrho : w.rho < 1000000000)
    (evs : List WEvent) (hev : ∀ e ∈ evs, e.ok w)
    (r : Record) (hr : r ∈ (DaemonState.run w evs).published)
    (tr tm : Rat) (hrm : tr ≤ tm) (hafter : ∀ e ∈ evs, ∀ t, e.endTime = some t → t ≤ tr)
    (hR : 0 ≤ (w.Rc tr).floor ∧ (w.Rc tr).floor < 2147483648000000000)
    (hM : (w.Mc tm).floor < 2147483648000000000)
    (e l : TimeSpec) (st : Status)
    (hout : clientQuery w r tr tm = .ok e l st) (hst : st ≠ .unknown) :
    (e.toNs : Rat) - sigma w < tr ∧ tr < (l.toNs : Rat) + sigma w := by
  exact containment_aux w hw hrho evs hev r hr tr tm hrm hafter hR hM e l st hout hst

/-- the oracle evaluated on the implementation is this statement -/
theorem model_holds (w : World) (hw : w.Good) (hrho : w.rho < 1000000000)
    (evs : List WEvent) (hev : ∀ e ∈ evs, e.ok w)
    (r : Record) (hr : r ∈ (DaemonState.run w evs).published)
    (tr tm : Rat) (hrm : tr ≤ tm) (hafter : ∀ e ∈ evs, ∀ t, e.endTime = some t → t ≤ tr)
    (hR : 0 ≤ (w.Rc tr).floor ∧ (w.Rc tr).floor < 2147483648000000000)
    (hM : (w.Mc tm).floor < 2147483648000000000) :
    Holds w tr (clientQuery w r tr tm) = true := by
  cases hout : clientQuery w r tr tm with
  | ok e l st =>
    unfold Holds
    simp only []
    by_cases hu : st = .unknown
    · subst hu; rfl
    · have hne : (st == Status.unknown) = false := by cases st <;> first | rfl | exact absurd rfl hu
      rw [hne]
      obtain ⟨c1, c2⟩ := containment w hw hrho evs hev r hr tr tm hrm hafter hR hM e l st hout hu
      simp only [Bool.false_eq_true, if_false, Bool.and_eq_true, decide_eq_true_eq]
      exact ⟨c1, c2⟩
  | malformed => rfl
  | causality => rfl
  | panic => rfl

/-- non-vacuity: a world with a constant 100 ns offset and ideal rates satisfies the hypotheses -/
def exampleWorld : World := ⟨fun t => t + 100, fun t => t, 50000⟩
theorem exampleWorld_good : exampleWorld.Good := by
  refine ⟨?_, ?_⟩
  · intro t1 t2 h
    exact h
  · intro t1 t2 h
    show (t2 + 100 - t2) - (t1 + 100 - t1) ≤ ((50000 : Nat) : Rat) * (t2 - t1) / 1000000000 ∧
      (t1 + 100 - t1) - (t2 + 100 - t2) ≤ ((50000 : Nat) : Rat) * (t2 - t1) / 1000000000
    have : (0 : Rat) ≤ ((50000 : Nat) : Rat) * (t2 - t1) / 1000000000 := by
      have : (0 : Rat) ≤ t2 - t1 := by linarith
      positivity
    constructor <;> linarith

end ClockBound.C01
