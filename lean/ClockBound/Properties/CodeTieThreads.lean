/-
  Translation tie, group `Threads` (C15): the main thread `thread_manager::run` (with `broadcast_abort`,
  `DispatchBox::{send, keys}`) and `Drop for Context::drop`, as REACTIVE programs.

  The interpreter runs the regenerated AST with the dictionary `Rs/DictThreads.lean` against an input stream: the
  i-th operation on the outside world (`new_channel_web`, `get_mailbox`, `spawn`, `recv`, `send`, `join`,
  `panicking`) returns `inp i` and is logged with its arguments and its result.  The theorems say, for ALL input
  streams that are shaped as the operations' types demand, what the log is and how the function ends, in terms of
  the operations of the model thread (`Model/ThreadsProg.lean`: `MainOp`, proved in `Properties/ThreadsProg.lean` to
  be the steps `stepMain` / `step _ (.mainAbort w)` / `stepPoller` / `stepWriter` of `Model/Threads.lean`).

  `main_eq` — for every iteration order `ks` of the dispatch box (the six permutations), every number `k` and
  sequence `pre` of received messages that are not notices, every result `stop` that is a `ThreadTerminate(_)`, a
  `ThreadPanic(_)` or a receive error, every outcome of the two sends and of the two joins, and every fuel
  ≥ k + 200: `run` creates the web, takes the poller's mailbox and spawns `chrony_poller::run(ctx_P, phc_info)`,
  takes the writer's mailbox and spawns `shm_writer::run(ctx_W, max_drift_ppb)`, takes its own mailbox
  (`startEvents`); receives the `k` messages and ignores them; receives `stop`; sends `ThreadAbort` to every channel
  of the box except `MainThread`, in the order `ks`, the second send also when the first failed; joins the poller's
  handle, then the writer's; returns `()`.  Nothing else is logged, `run` never panics and is never stuck.
  `main_ops_tail` / `main_ops_pre` read this log as the model's program `ThreadsProg.mainProg` (whose run by
  `stepMain` from `MainPc.loop` to `returned` is `ThreadsProgProps.main_prog_run`).
  Hypotheses are the shapes of the inputs only: `get_mailbox` finds the three ids that `run` itself registered
  (so the `unimplemented!` arms are not reached), handles are handles, `send`/`join` return a `Result`.

  `drop_eq` — for every thread id, box, value of `panicking()` and outcome of the send: exactly one send, to
  `MainThread`, of `ThreadPanic(id)` if `panicking()` else `ThreadTerminate(id)`; a failed send changes nothing
  (it is only logged by `error!`); `drop` returns `()` and leaves the Context as it was (= the model's
  `exiting k → dropping` step, `ThreadsProgProps.drop_step_poller/_writer`).
-/
import ClockBound.Proofs.RsThreadsMain
import ClockBound.Proofs.RsThreadsDrop
import ClockBound.Properties.ThreadsProg
import ClockBound.Rs.Embed
namespace ClockBound.CodeTieThreads
open ClockBound ClockBound.Rs ClockBound.Generated ClockBound.Rs.DictThreads ClockBound.Rs.EmbedThreads
open ClockBound.Threads ClockBound.Rs.ThreadsProof

theorem main_eq (ks : List Thread) (hks : isOrder ks = true) (drift : Nat) (phc : Option (Nat × Value))
    (nP nW : String) (k F : Nat) (pre : Nat → RMsg) (hnot : ∀ i, i < k → (pre i).isNotice = false)
    (stop : Recv) (hstops : stop.stops = true) (ok1 ok2 okP okW : Bool) (nowNs : Int) (inp : Nat → Value)
    (h0 : inp 0 = .tuple [mailboxValue, dispatchValue ks])
    (h1 : inp 1 = .enumv "Some" [rxValue (chanValue .poller)])
    (h2 : inp 2 = handleValue nP)
    (h3 : inp 3 = .enumv "Some" [rxValue (chanValue .writer)])
    (h4 : inp 4 = handleValue nW)
    (h5 : inp 5 = .enumv "Some" [rxValue (chanValue .main)])
    (hpre : ∀ i, i < k → inp (6 + i) = (Recv.ok (pre i)).value)
    (hstop : inp (6 + k) = stop.value)
    (hs1 : inp (6 + k + 1) = sendResult ok1 RMsg.abort.value)
    (hs2 : inp (6 + k + 2) = sendResult ok2 RMsg.abort.value)
    (hj1 : inp (6 + k + 3) = joinResult okP)
    (hj2 : inp (6 + k + 4) = joinResult okW) :
    runFuel (F + k + 200) (Code.ctxWith nowNs DictThreads.ext [] inp) "thread_manager::run" .unit
      [.int .u32 drift, phcValue phc]
    = .ok .unit .unit (startEvents ks phc drift nP nW ++
        (mainEvs k pre stop ks ok1 ok2 nP nW okP okW).map MainEv.value) :=
  main_tie ks hks drift phc nP nW k F pre hnot stop hstops ok1 ok2 okP okW nowNs inp h0 h1 h2 h3 h4 h5 hpre hstop
    hs1 hs2 hj1 hj2

/-- the first worker the box yields -/
def firstWorker (ks : List Thread) : Worker := (ks.filterMap workerOf).headD .poller

/-- every ignored message is a receive of a model message that is not a notice -/
theorem main_ops_pre (m : RMsg) (h : m.isNotice = false) :
    ∃ x, MainEv.abs (.recv (.ok m)) = some (.recv x) ∧ x.isNotice = false := by
  cases m with
  | data p => exact ⟨.data, rfl, rfl⟩
  | noData n => exact ⟨.data, rfl, rfl⟩
  | abort => exact ⟨.abort, rfl, rfl⟩
  | terminate c => simp [RMsg.isNotice] at h
  | panic c => simp [RMsg.isNotice] at h

/-- from the notice on, the log read as model operations is the tail of `ThreadsProg.mainProg`: the receive of the
    notice, Abort to the first worker of the box, Abort to the other one, join poller, join writer -/
theorem main_ops_tail (ks : List Thread) (hks : isOrder ks = true) (m : RMsg) (n : Threads.Msg) (hm : m.abs = some n)
    (ok1 ok2 okP okW : Bool) (nP nW : String) :
    (mainEvs 0 (fun _ => m) (.ok m) ks ok1 ok2 nP nW okP okW).filterMap MainEv.abs
    = ThreadsProg.mainProg [] n (firstWorker ks) := by
  rcases isOrder_cases hks with h | h | h | h | h | h <;> subst h <;>
    simp [mainEvs, bcastEvs, MainEv.abs, hm, ThreadsProg.mainProg, firstWorker, workerOf, ThreadsProg.other] <;>
    (try decide)

theorem drop_eq (c : Thread) (ks : List Thread) (p ok : Bool) (nowNs : Int) (inp : Nat → Value)
    (h0 : inp 0 = .bool p) (h1 : inp 1 = sendResult ok (noticeOf c p).value) :
    run (Code.ctxWith nowNs DictThreads.ext [] inp) "Drop for Context::drop" (contextValue c ks) []
    = .ok .unit (contextValue c ks)
        [evPanicking (.bool p),
         evSend (chanValue .main) (noticeOf c p).value (sendResult ok (noticeOf c p).value)] :=
  drop_tie c ks p ok nowNs inp h0 h1

/-- the notice of a worker is the model's `notice w k` -/
example : (noticeOf .poller true).abs = some (.notice .poller .panic) ∧
    (noticeOf .writer false).abs = some (.notice .writer .terminate) := ⟨rfl, rfl⟩

/-! ### non-vacuity -/

/-- the hypotheses of `main_eq` are satisfiable: a concrete input stream (box iterating writer, main, poller;
    two ignored messages; the poller's panic notice; the first send fails) -/
def demoInp : Nat → Value
  | 0 => .tuple [mailboxValue, dispatchValue [.writer, .main, .poller]]
  | 1 => .enumv "Some" [rxValue (chanValue .poller)]
  | 2 => handleValue "h1"
  | 3 => .enumv "Some" [rxValue (chanValue .writer)]
  | 4 => handleValue "h2"
  | 5 => .enumv "Some" [rxValue (chanValue .main)]
  | 6 => (Recv.ok .abort).value
  | 7 => (Recv.ok (.noData .chrony)).value
  | 8 => (Recv.ok (.panic .poller)).value
  | 9 => sendResult false RMsg.abort.value
  | 10 => sendResult true RMsg.abort.value
  | 11 => joinResult false
  | _ => joinResult true

example : isOrder [.writer, .main, .poller] = true := by decide

example : runFuel 202 (Code.ctxWith 0 DictThreads.ext [] demoInp) "thread_manager::run" .unit
      [.int .u32 1000, phcValue none]
    = .ok .unit .unit (startEvents [.writer, .main, .poller] none 1000 "h1" "h2" ++
        (mainEvs 2 (fun i => if i = 0 then .abort else .noData .chrony) (.ok (.panic .poller))
          [.writer, .main, .poller] false true "h1" "h2" false true).map MainEv.value) := by
  refine main_eq [.writer, .main, .poller] (by decide) 1000 none "h1" "h2" 2 0 _ ?_ _ rfl false true false true 0
    demoInp rfl rfl rfl rfl rfl rfl ?_ rfl rfl rfl rfl rfl
  · intro i hi
    match i, hi with
    | 0, _ => rfl
    | 1, _ => rfl
  · intro i hi
    match i, hi with
    | 0, _ => rfl
    | 1, _ => rfl

/-- ... and the Abort sends of that run go to the writer first, then to the poller -/
example : bcastEvs [.writer, .main, .poller] false true = [.abort .writer false, .abort .poller true] := rfl

/-- without the dictionary `run` is stuck at its first operation -/
example : (run (Code.ctx 0) "Drop for Context::drop" (contextValue .poller [.main, .poller, .writer]) []).isStuck
    = true := by
  simp [rs_eval, rs_code, contextValue, dispatchValue, Outcome.isStuck]

end ClockBound.CodeTieThreads
