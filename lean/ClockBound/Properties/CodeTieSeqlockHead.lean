/-
  The seqlock tie at HEAD: the annotation found in the source (`CodeTieSeqlock.ann`) IS the model's default `{}`,
  so the theorems of `Properties/CodeTieSeqlock.lean` specialise to the pinned statements (Acquire load, Release
  stores, Release fence; Acquire loads, Acquire fence).  This module is INFORMATIVE about the current source: it is
  expected to stop building when a refactoring strengthens an ordering of `write` / `snapshot` (the theorems of
  `CodeTieSeqlock` keep building then).
-/
import ClockBound.Properties.CodeTieSeqlock
namespace ClockBound.CodeTieSeqlockHead
open ClockBound ClockBound.Rs ClockBound.Generated ClockBound.Rs.DictShm ClockBound.Rs.EmbedShm ClockBound.Rs.SeqlockProof

set_option maxRecDepth 8000 in
set_option maxHeartbeats 2000000 in
theorem ann_default : CodeTieSeqlock.ann = {} := by
  eval_bodyLog hbl
  eval_preLog hpl
  simp [CodeTieSeqlock.ann, snapAnn, writeAnn, writeProbeLog, hbl, hpl, evOrd, isFenceEv, lastOf, ordOfValue, evLoad, evFence,
    evStore, rs_eval, rs_code, rawInp, writerValue, wordsValue, wordStores]

theorem write_eq (inp : Nat → Nat) (cells : List Nat) (segsize : Nat) (nowNs : Int) (sizes : List (String × Nat)) :
    run (CodeTieSeqlock.ctx nowNs sizes inp) "ShmWrite for ShmWriter::write" (writerValue segsize) [wordsValue cells]
    = .ok .unit (writerValue segsize) ((SL.writerProg {} (inp 0 % 65536) cells).map accValue) := by
  rw [← ann_default]; exact CodeTieSeqlock.write_eq inp cells segsize nowNs sizes

/-- the accesses spelt out -/
theorem write_ann (inp : Nat → Nat) (cells : List Nat) (segsize : Nat) (nowNs : Int) (sizes : List (String × Nat)) :
    run (CodeTieSeqlock.ctx nowNs sizes inp) "ShmWrite for ShmWriter::write" (writerValue segsize) [wordsValue cells]
    = .ok .unit (writerValue segsize)
        ([evLoad (.str "generation") (ordering "Acquire") (.int .u16 (inp 0 % 65536 : Nat)),
          evStore (.str "generation") (.int .u16 (genStart (inp 0 % 65536))) (ordering "Release"),
          evFence (ordering "Release")] ++
         ((List.range cells.length).map fun c =>
            evStore (cellLoc c) (.int .u64 ((cells[c]?.getD 0 : Nat) : Int)) (ordering "Relaxed")) ++
         [evStore (.str "generation") (.int .u16 (genFinish (genStart (inp 0 % 65536)))) (ordering "Release")]) := by
  rw [write_eq]
  simp [SL.writerProg, accValue, locValue, locTy, ordValue, List.map_map, Function.comp_def]

theorem snapshot_eq (inp : Nat → Nat) (cacheGen : Nat) (cache : List Nat) (nowNs : Int) (sizes : List (String × Nat))
    (fuel : Nat) (hfuel : SL.RETRIES + 200 ≤ fuel) :
    runFuel fuel (CodeTieSeqlock.ctx nowNs sizes inp) "ShmReader::snapshot" (readerValue cacheGen cache) []
    = readerOutcome (SL.readerProg {} (typedInp inp) cacheGen cache) := by
  rw [← ann_default]; exact CodeTieSeqlock.snapshot_eq inp cacheGen cache nowNs sizes fuel hfuel

end ClockBound.CodeTieSeqlockHead
