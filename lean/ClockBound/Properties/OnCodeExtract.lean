/-
  C07 and C10 stated ABOUT THE SOURCE (see `OnCodeClient.lean` for the reading): each theorem mentions the
  regenerated AST `Generated.Code` run by the interpreter, and the oracle of the property; model functions occur only
  as witnesses.  Compositions of `CodeTieExtract.extract_eq` with the `model_holds` theorems of the properties.
-/
import ClockBound.Properties.CodeTieExtract
import ClockBound.Properties.C07
import ClockBound.Properties.C10
namespace ClockBound.OnCode
open ClockBound ClockBound.Rs ClockBound.Generated

/-- **C07 and C10 on the source**: for every tracking reply and every reading of CLOCK_REALTIME,
    `extract_bound_from_tracking` returns a pair `(bound, status)` — it does not panic and is not stuck —, the
    bound satisfies the C07 oracle (= |offset| + dispersion + delay/2 in ns within 2^-51 relative and 1 ns, from
    the magnitude of the offset) and the status is the one C10 prescribes (Synchronized only for leap ≤ 2 and a
    reference time neither in the future nor older than 8 update intervals) -/
theorem C07_C10_extract (t : Tracking) (nowNs : Int) :
    ∃ (b : Int) (cs : ChronyStatus),
      run (Code.ctx nowNs) "shm_writer::extract_bound_from_tracking" .unit [trackingValue t]
        = .ok (.tuple [.int .i64 b, chronyValue cs]) .unit [] ∧
      C07.Holds t 0 b = true ∧ C10.Holds t nowNs cs = true := by
  refine ⟨boundF t, classify t nowNs, CodeTieExtract.extract_eq t nowNs, ?_, C10.model_holds t nowNs⟩
  have := C07.model_holds t 0
  simpa using this

/-- the bound is a function of the MAGNITUDE of the offset (defect D1 was exactly a violation of this) -/
theorem C07_sign_irrelevant (t t' : Tracking) (nowNs : Int)
    (h : F64.chronyFloat t'.offW = - F64.chronyFloat t.offW) (hd : t'.dispW = t.dispW) (hl : t'.delayW = t.delayW) :
    ∃ (b : Int) (cs cs' : ChronyStatus),
      run (Code.ctx nowNs) "shm_writer::extract_bound_from_tracking" .unit [trackingValue t]
        = .ok (.tuple [.int .i64 b, chronyValue cs]) .unit [] ∧
      run (Code.ctx nowNs) "shm_writer::extract_bound_from_tracking" .unit [trackingValue t']
        = .ok (.tuple [.int .i64 b, chronyValue cs']) .unit [] := by
  refine ⟨boundF t, classify t nowNs, classify t' nowNs, CodeTieExtract.extract_eq t nowNs, ?_⟩
  rw [CodeTieExtract.extract_eq t' nowNs, C07.sign_irrelevant t t' h hd hl]

end ClockBound.OnCode
