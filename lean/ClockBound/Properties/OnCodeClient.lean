/-
  The client properties C05, C06, C14 (and the client half of C12) stated ABOUT THE SOURCE: each theorem
  below mentions only
    * the AST `Generated.Code` that the translator regenerates from /repo on every run, run by the
      interpreter `Rs.run` (trusted: `Rs/Interp.lean`, `Rs/DictPoller.lean` for the two clock reads), and
    * the oracle of the property (`C05.Holds`, `C06.Holds`, `C14.Holds`: the decidable predicates the
      correspondence check also evaluates on the real code's answers).
  The hand-written model `computeBoundAt` occurs only as the witness of an existential: "the code's answer
  is the embedding of SOME outcome `o`, and `o` satisfies the oracle".  (`clientOutcome r` is injective on
  outcomes — `clientOutcome_inj` —, so the `o` is the code's answer, decoded.)

  They are compositions of the tie theorems (`CodeTieClient.compute_bound_at_eq`, `CodeTieNow.now_reads`)
  with the property theorems (`C05.model_holds`, …).  A change of the source that breaks the tie breaks these;
  a change of the model that keeps the tie but loses the property breaks these as well: they are the
  statements a reader should look at first.
-/
import ClockBound.Properties.CodeTieClient
import ClockBound.Properties.CodeTieNow
import ClockBound.Properties.C05
import ClockBound.Properties.C06
import ClockBound.Properties.C14
namespace ClockBound.OnCode
open ClockBound ClockBound.Rs ClockBound.Generated

/-- decoding is unambiguous: two outcomes with the same embedding are equal -/
theorem clientOutcome_inj (r : Record) (o1 o2 : ClockBound.Outcome)
    (h : clientOutcome r o1 = clientOutcome r o2) : o1 = o2 := by
  cases o1 <;> cases o2 <;> simp [clientOutcome, ctimespecValue, statusValue] at h ⊢
  case ok.ok e1 l1 s1 e2 l2 s2 =>
    obtain ⟨⟨he1, he2⟩, ⟨hl1, hl2⟩, hs⟩ := h
    refine ⟨?_, ?_, ?_⟩
    · cases e1; cases e2; simp_all
    · cases l1; cases l2; simp_all
    · cases s1 <;> cases s2 <;> simp_all [statusName]

/-- what `compute_bound_at` of the current source returns on `x`, decoded -/
def Answers (x : ClientIn) (nowNs : Int) (o : ClockBound.Outcome) : Prop :=
  run (Code.ctx nowNs) "ClockErrorBound::compute_bound_at" (recordValue x.r)
    [ctimespecValue x.real, ctimespecValue x.mono] = clientOutcome x.r o

/-- the source answers every input (it never leaves the fragment the interpreter has rules for) -/
theorem answers_total (x : ClientIn) (nowNs : Int) : ∃ o, Answers x nowNs o :=
  ⟨_, CodeTieClient.compute_bound_at_eq x.r x.real x.mono nowNs⟩

theorem answers_model (x : ClientIn) (nowNs : Int) (o : ClockBound.Outcome) (h : Answers x nowNs o) :
    o = computeBoundAt x.r x.real x.mono :=
  clientOutcome_inj x.r _ _ (h.symm.trans (CodeTieClient.compute_bound_at_eq x.r x.real x.mono nowNs))

/-- **C05 on the source**: whatever `compute_bound_at` answers satisfies the C05 oracle (interval centred on
    the realtime reading, half-width = bound + growth, growth within 2^-51 relative and 1 ns of the exact product) -/
theorem C05_compute_bound_at (x : ClientIn) (nowNs : Int) (o : ClockBound.Outcome) (h : Answers x nowNs o) :
    C05.Holds x o = true := by
  rw [answers_model x nowNs o h]; exact C05.model_holds x

/-- **C05(c) on the source**: an older reading of the monotonic clock never narrows the interval -/
theorem C05_mono_compute_bound_at (x : ClientIn) (mono2 : TimeSpec) (nowNs : Int) (o1 o2 : ClockBound.Outcome)
    (h1 : Answers x nowNs o1) (h2 : Answers ⟨x.r, x.real, mono2⟩ nowNs o2) :
    C05.HoldsMono x mono2 o1 o2 = true := by
  rw [answers_model x nowNs o1 h1, answers_model _ nowNs o2 h2]; exact C05.mono_holds x mono2

/-- **C06 on the source** -/
theorem C06_compute_bound_at (x : ClientIn) (nowNs : Int) (o : ClockBound.Outcome) (h : Answers x nowNs o) :
    C06.Holds x o = true := by
  rw [answers_model x nowNs o h]; exact C06.model_holds x

/-- **C14 on the source**: in range, no panic; malformed iff drift ≥ 10^9; causality iff older than 1 µs -/
theorem C14_compute_bound_at (x : ClientIn) (nowNs : Int) (o : ClockBound.Outcome) (h : Answers x nowNs o) :
    C14.Holds x o = true := by
  rw [answers_model x nowNs o h]; exact C14.model_holds x

/-- C14, the panic clause spelled out: on meaningful inputs the source does not panic -/
theorem C14_no_panic (x : ClientIn) (hm : x.meaningful = true) (nowNs : Int) :
    run (Code.ctx nowNs) "ClockErrorBound::compute_bound_at" (recordValue x.r)
      [ctimespecValue x.real, ctimespecValue x.mono] ≠ .panic := by
  rw [CodeTieClient.compute_bound_at_eq]
  have := C14.no_panic x hm
  cases ho : computeBoundAt x.r x.real x.mono <;> simp_all [clientOutcome]

/-! `ClockErrorBound::now()` — the function applications call: the two clock reads and `compute_bound_at`. -/

/-- what `now()` of the current source does when the two `clock_gettime` calls return `real` and `mono`:
    the reads it logs and the answer, decoded -/
def NowAnswers (x : ClientIn) (nowNs : Int) (sizes : List (String × Nat)) (inp : Nat → Value)
    (o : ClockBound.Outcome) : Prop :=
  run (CodeTieNow.ctxP nowNs sizes inp) "ClockErrorBound::now" (recordValue x.r) []
  = (clientOutcome x.r o).after
      [DictPoller.evClockRead (DictPoller.clockId 0) (okTimespec x.real),
       DictPoller.evClockRead (DictPoller.clockId 6) (okTimespec x.mono)]

theorem after_inj (r : Record) (o1 o2 : ClockBound.Outcome) (l : List Value)
    (h : (clientOutcome r o1).after l = (clientOutcome r o2).after l) : o1 = o2 := by
  apply clientOutcome_inj r
  cases o1 <;> cases o2 <;> simp_all [clientOutcome, Outcome.after]

/-- **C05, C06, C14 on `now()`**: for every record, every pair of readings delivered by the two clock reads and
    every environment, `now()` reads REALTIME then MONOTONIC_COARSE (C12's client half: the log is part of
    `NowAnswers`) and its answer satisfies the three oracles -/
theorem now_holds (x : ClientIn) (nowNs : Int) (sizes : List (String × Nat)) (inp : Nat → Value)
    (h0 : inp 0 = okTimespec x.real) (h1 : inp 1 = okTimespec x.mono) :
    ∃ o, NowAnswers x nowNs sizes inp o ∧ C05.Holds x o = true ∧ C06.Holds x o = true ∧ C14.Holds x o = true :=
  ⟨_, CodeTieNow.now_reads x.r x.real x.mono nowNs sizes inp h0 h1, C05.model_holds x, C06.model_holds x,
    C14.model_holds x⟩

theorem now_unique (x : ClientIn) (nowNs : Int) (sizes : List (String × Nat)) (inp : Nat → Value)
    (h0 : inp 0 = okTimespec x.real) (h1 : inp 1 = okTimespec x.mono)
    (o : ClockBound.Outcome) (h : NowAnswers x nowNs sizes inp o) :
    C05.Holds x o = true ∧ C06.Holds x o = true ∧ C14.Holds x o = true := by
  have := after_inj x.r _ _ _ (h.symm.trans (CodeTieNow.now_reads x.r x.real x.mono nowNs sizes inp h0 h1))
  subst this
  exact ⟨C05.model_holds x, C06.model_holds x, C14.model_holds x⟩

/-- non-vacuity: a record 2 s old, drift 1 ppm: the source answers with a half-width of bound + 2000 ns -/
example : ∃ e l st, Answers ⟨⟨⟨100, 0⟩, ⟨1100, 0⟩, 5000, 1000, 0, .synchronized⟩, ⟨1700000000, 0⟩, ⟨102, 0⟩⟩ 0 (.ok e l st)
    ∧ l.toNs - e.toNs = 2 * (5000 + 2000) := by
  refine ⟨⟨1699999999, 999993000⟩, ⟨1700000000, 7000⟩, .synchronized, ?_, by decide⟩
  unfold Answers
  rw [CodeTieClient.compute_bound_at_eq]
  have : computeBoundAt ⟨⟨100, 0⟩, ⟨1100, 0⟩, 5000, 1000, 0, .synchronized⟩ ⟨1700000000, 0⟩ ⟨102, 0⟩
      = .ok ⟨1699999999, 999993000⟩ ⟨1700000000, 7000⟩ .synchronized := by decide +kernel
  simp only [this]

end ClockBound.OnCode
