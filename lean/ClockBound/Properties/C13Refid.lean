/-
  C13, last clause ("the PHC error bound is added exactly when the configured reference id matches the report's") and C07's
  "(+PHC)", at the level of what is TYPED on the command line: `refidOf` (= `refid_to_u32`) is the exact big-endian packing of at
  most four ASCII bytes, injective on strings of equal length (so "phc0" and "PHC0", or "EC2A" and its reading as a hexadecimal
  number, are different ids), and the record the model expects from a `phcrun` scenario satisfies the oracle `HoldsPhcRun`.
-/
import ClockBound.Model.Config
import ClockBound.Properties.C07
namespace ClockBound.C13
open ClockBound

theorem refid_four (a b c d : Nat) (ha : a < 128) (hb : b < 128) (hc : c < 128) (hd : d < 128) :
    refidOf [a, b, c, d] = some (a * 16777216 + b * 65536 + c * 256 + d) := by
  have hc4 : ([a, b, c, d].length ≤ 4 ∧ [a, b, c, d].all (· < 128) = true) := by
    refine ⟨Nat.le_refl 4, ?_⟩
    simp only [List.all_cons, List.all_nil, Bool.and_true, Bool.and_eq_true, decide_eq_true_eq]
    exact ⟨ha, hb, hc, hd⟩
  have hf : [a, b, c, d].foldl (fun x y => x * 256 + y) 0 = a * 16777216 + b * 65536 + c * 256 + d := by
    simp only [List.foldl]; omega
  unfold refidOf
  rw [if_pos hc4, hf]

/-- more than four bytes, or a byte that is not ASCII: not a reference id -/
theorem refid_refused (bs : List Nat) (h : 4 < bs.length ∨ ∃ b ∈ bs, 128 ≤ b) : refidOf bs = none := by
  unfold refidOf
  rw [if_neg]
  rintro ⟨hl, ha⟩
  rcases h with h | ⟨b, hb, h⟩
  · omega
  · have := List.all_eq_true.mp ha b hb
    simp only [decide_eq_true_eq] at this
    omega

/-- two spellings of the same length denote the same id only if they are the same bytes -/
theorem refid_injective (bs bs' : List Nat) (hl : bs.length = bs'.length) (r : Nat)
    (h : refidOf bs = some r) (h' : refidOf bs' = some r) : bs = bs' := by
  unfold refidOf at h h'
  split at h <;> [skip; cases h]
  split at h' <;> [skip; cases h']
  rename_i h1 h2
  obtain ⟨l1, a1⟩ := h1
  obtain ⟨l2, a2⟩ := h2
  have e : bs.foldl (fun a b => a * 256 + b) 0 = bs'.foldl (fun a b => a * 256 + b) 0 := by
    have e1 := Option.some.inj h
    have e2 := Option.some.inj h'
    omega
  match bs, bs', hl with
  | [], [], _ => rfl
  | [a], [a'], _ => simp only [List.foldl] at e; simp only [List.cons.injEq, and_true]; omega
  | [a, b], [a', b'], _ =>
    simp only [List.all_cons, List.all_nil, Bool.and_true, Bool.and_eq_true, decide_eq_true_eq] at a1 a2
    simp only [List.foldl] at e; simp only [List.cons.injEq, and_true]; omega
  | [a, b, c], [a', b', c'], _ =>
    simp only [List.all_cons, List.all_nil, Bool.and_true, Bool.and_eq_true, decide_eq_true_eq] at a1 a2
    simp only [List.foldl] at e; simp only [List.cons.injEq, and_true]; omega
  | [a, b, c, d], [a', b', c', d'], _ =>
    simp only [List.all_cons, List.all_nil, Bool.and_true, Bool.and_eq_true, decide_eq_true_eq] at a1 a2
    simp only [List.foldl] at e; simp only [List.cons.injEq, and_true]; omega
  | _ :: _ :: _ :: _ :: _ :: _, _, _ => simp at l1

/-- the ids are case-sensitive, and a string of hexadecimal digits is not read as a number -/
example : refidOf [0x70, 0x68, 0x63, 0x30] ≠ refidOf [0x50, 0x48, 0x43, 0x30] ∧
    refidOf [0x45, 0x43, 0x32, 0x41] = some 0x45433241 ∧ refidOf [0x45, 0x43, 0x32, 0x41] ≠ some 0xEC2A := by decide

theorem refMatches_fake (r c : Nat) : refMatches (some r) (fakeTracking c) = decide (r = c) := rfl

/-- the PHC value is part of the expected bound exactly when the configured id is the report's -/
theorem added_iff (cfg : List Nat) (chrony : Nat) (phc : Int) (hp : phc ≠ 0) (r : Nat) (hr : refidOf cfg = some r) :
    phcExpected cfg chrony (some phc) = some (boundF (fakeTracking chrony) + phc) ↔ r = chrony := by
  unfold phcExpected
  rw [hr]
  simp only [Option.bind_some, refMatches_fake]
  by_cases h : r = chrony
  · simp [h]
  · have hd : decide (r = chrony) = false := by simpa using h
    simp only [hd, Bool.false_eq_true, if_false, Option.some.injEq]
    constructor
    · intro e; omega
    · intro e; exact absurd e h

/-- an attribute that is not a number, with the PHC as reference: no trusted record at all -/
theorem unparsable_not_a_measurement (cfg : List Nat) (r : Nat) (hr : refidOf cfg = some r) :
    phcExpected cfg r none = none := by
  unfold phcExpected
  rw [hr]
  simp [refMatches_fake]

theorem idMatches_self (cfg : List Nat) (r : Nat) : idMatches cfg r r ≠ some false := by
  unfold idMatches
  split
  · simp
  · simp

theorem idMatches_ne (cfg : List Nat) (r c : Nat) (h : r ≠ c) : idMatches cfg r c ≠ some true := by
  unfold idMatches
  split
  · simpa using h
  · split <;> simp

/-- the model's expectation satisfies the oracle the correspondence evaluates on the daemon's record -/
theorem phc_model_holds (cfg : List Nat) (chrony : Nat) (phc : Option Int) :
    HoldsPhcRun cfg chrony phc ((phcExpected cfg chrony phc).map (fun b => (b, 1))) = true := by
  unfold HoldsPhcRun phcExpected
  cases hr : refidOf cfg with
  | none => rfl
  | some r =>
    simp only [Option.bind_some, refMatches_fake]
    have h0 := C07.model_holds (fakeTracking chrony) 0
    simp only [Int.add_zero] at h0
    by_cases e : r = chrony
    · subst e
      simp only [decide_true, if_true]
      cases phc with
      | none =>
        simp only [Option.map_none, Option.isNone_none]
        cases hm : idMatches cfg r r with
        | none => rfl
        | some b =>
          cases b with
          | true => rfl
          | false => exact absurd hm (idMatches_self cfg r)
      | some p =>
        have h := C07.model_holds (fakeTracking r) p
        simp only [Option.map_some, BEq.rfl, Bool.true_and]
        cases hm : idMatches cfg r r with
        | none => simp only [h, Bool.true_or]
        | some b =>
          cases b with
          | true => exact h
          | false => exact absurd hm (idMatches_self cfg r)
    · simp only [e, decide_false, Bool.false_eq_true, if_false, Option.map_some, BEq.rfl, Bool.true_and]
      cases phc with
      | none =>
        cases hm : idMatches cfg r chrony with
        | none => simp only [h0, Bool.or_true]
        | some b =>
          cases b with
          | true => exact absurd hm (idMatches_ne cfg r chrony e)
          | false => exact h0
      | some p =>
        cases hm : idMatches cfg r chrony with
        | none => simp only [h0, Bool.or_true]
        | some b =>
          cases b with
          | true => exact absurd hm (idMatches_ne cfg r chrony e)
          | false => exact h0

/-- non-vacuity: the scenario's report is in C07's meaningful range, so the oracle does constrain the record -/
example : C07.applicable (fakeTracking 1346913072) 250000 = true ∧ refidOf [0x50, 0x48, 0x43, 0x30] = some 1346913072 := by
  constructor <;> decide +kernel

end ClockBound.C13
