/-
  Translation tie, group `Shm`, part 3: `ShmWriter::new` (clock-bound-shm/src/writer.rs) with
  `is_usable_segment` (and through it `ShmReader::new`, `FdGuard::new`, `MmapGuard::new`, `ShmHeader::read`,
  `is_valid`), `wipe`, `mmap_segment_at`, `segment_size` inlined.

  For EVERY prior state of the path that is not a directory (missing; a file that is too short, has a wrong
  magic number / version 0 / generation 0 / a declared size below 16 or below 72; a usable segment, long enough or
  shorter than 72 bytes), every file descriptor number and every parent directory text, with every operation
  succeeding (`EmbedShm.newAnswers`), the AST regenerated from the Rust source, run with the dictionary
  `Rs/DictShm.lean` (part D: the file operations), returns `Ok(ShmWriter { .. })` over the mapping and performs
  EXACTLY the state-changing operations `Crash.newOps` — same operations, same order, same values: for an
  unusable prior `create_dir_all` (iff there is a parent directory), `File::create`, `write_u32(MAGIC0)`,
  `write_u32(MAGIC1)`, `write_u32(72)`, `write_u16(0)`, `write_u16(0)`, `write_all` of 56 zero bytes, `sync_all`;
  for a usable but short file `set_len(72)`; in every case finally `version.store(1, <ordering>)` through the
  mapping (the ordering is whatever the source names, see `new_eq`).  `Properties/WriterNewProg.lean` proves that these are the operation events of `Crash.script`.
  (Queries — open, read, errno, mmap, metadata, stream_position — are not compared: `isMutEv`.)
-/
import ClockBound.Proofs.RsWriterNewFinal
import ClockBound.Properties.WriterNewProg
import ClockBound.Properties.CodeTieHeader
namespace ClockBound.CodeTieWriterNew
open ClockBound ClockBound.Rs ClockBound.Generated ClockBound.Rs.DictShm ClockBound.Rs.EmbedShm

/-- the interpreter's context: generated tables, the dictionary, the two struct sizes, an input stream -/
abbrev ctx (inp : Nat → Value) : Ctx := Code.ctxWith 0 DictShm.ext EmbedShm.sizes inp

/-- `o` is the memory ordering the source names for the final version store (`Relaxed` at HEAD), found by
    evaluation; it is the model's `SL.Ann.wVersion`, which no property constrains (`Ann.adequate` does not mention
    it), so the statement does not pin it: a refactoring that strengthens it keeps the theorem. -/
theorem new_eq (st : FileState) (hdir : st ≠ .directory) (hst : CodeTieHeader.FileState.hdrInRange st)
    (parent : String) (fd : Nat) (hfd : fd ≤ 2147483647) :
    ∃ o : SL.Ord,
    (run (ctx (streamOf (newAnswers fd (parent != "") st))) "ShmWriter::new" .unit [pathObj "shm" parent]).okWith isMutEv
    = some (writerValue SEGMENT_SIZE,
        (Crash.newOps (Crash.fileAOf st) (parent != "")).map (opValue o (pathObj "shm" parent) (pathObj parent ""))) :=
  WriterNewProof.new_tie st hdir (by intro bs h; subst h; exact hst) parent fd hfd

/-- … hence, as events of the crash sweep: the operations the code performs are the operation events of
    `Crash.script` on that prior, up to `new:versioned` -/
theorem new_ops_script (st : FileState) (hasParent : Bool) :
    (Crash.newOps (Crash.fileAOf st) hasParent).filterMap Crash.Op.ev
    = (Crash.newScript (Crash.fileAOf st)).filter Crash.Ev.isOp :=
  WriterNewProg.newOps_script _ _

/-- the abstraction of the sweep's priors: a missing path and the byte images of a wiped and of a valid
    segment are the `FileA`s of `Crash.Prior` (up to the cells, which `new` does not look at) -/
example : Crash.fileAOf .missing = Crash.Prior.missing.file ∧
    (Crash.fileAOf (.file wipeBytes)).usable = false ∧
    (Crash.fileAOf (.file (encodeHeader ⟨MAGIC0, MAGIC1, 72, 1, 4⟩ ++ List.replicate 56 0))).usable = true ∧
    (Crash.fileAOf (.file (encodeHeader ⟨MAGIC0, MAGIC1, 72, 1, 4⟩ ++ List.replicate 20 0))).len = 36 := by
  refine ⟨rfl, ?_, ?_, ?_⟩ <;> decide

/-- without the dictionary `new` is stuck at its first file operation -/
example : (run (Code.ctxWith 0 Ext.none EmbedShm.sizes (fun _ => .unit)) "ShmWriter::new" .unit [pathObj "shm" ""]).isStuck = true := by
  simp [rs_eval, rs_code, EmbedShm.sizes, chkInt, HEADER_SIZE, RECORD_SIZE, pathObj, Outcome.isStuck]

end ClockBound.CodeTieWriterNew
