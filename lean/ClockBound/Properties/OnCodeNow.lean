/-
  C12, client half, stated ABOUT THE SOURCE: `ClockErrorBound::now()` (clock-bound-shm/src/lib.rs) reads the
  realtime clock BEFORE the monotonic clock, and therefore (C12's theorem `client_delay_widens`) any delay
  between the two reads only widens the interval it returns.  Compositions of `CodeTieNow.now_reads` /
  `now_err_*` with `Properties/C12.lean`; `NowAnswers` (what `now()` logs and answers, decoded) is the one of
  `OnCodeClient.lean`.  The model `computeBoundAt` does not occur in the statements.
-/
import ClockBound.Properties.OnCodeClient
import ClockBound.Properties.C12
namespace ClockBound.OnCode
open ClockBound ClockBound.Rs ClockBound.Generated ClockBound.Rs.DictPoller

/-- **C12(i), client half, on the source**: whatever the two `clock_gettime` calls return (readings or errors) and
    whatever the record, the clock reads `now()` performs are, in this order, a prefix of the model's `clientReads` =
    [REALTIME, MONOTONIC_COARSE] — both of them unless the first fails — and it performs nothing else -/
theorem C12_now_read_order (r : Record) (nowNs : Int) (sizes : List (String × Nat)) (inp : Nat → Value)
    (res0 res1 : Value)
    (h0 : inp 0 = res0) (h1 : inp 1 = res1)
    (hres0 : (∃ real, res0 = okTimespec real) ∨ ∃ e, res0 = .enumv "Err" [e])
    (hres1 : (∃ mono, res1 = okTimespec mono) ∨ ∃ e, res1 = .enumv "Err" [e]) :
    run (CodeTieNow.ctxP nowNs sizes inp) "ClockErrorBound::now" (recordValue r) [] = .panic ∨
    ∃ v self log, run (CodeTieNow.ctxP nowNs sizes inp) "ClockErrorBound::now" (recordValue r) [] = .ok v self log ∧
      log.filterMap readActionOf = clientReads.take log.length ∧ 1 ≤ log.length ∧
      ((∃ real, res0 = okTimespec real) → log.filterMap readActionOf = clientReads) := by
  rcases hres0 with ⟨real, rfl⟩ | ⟨e, rfl⟩
  · rcases hres1 with ⟨mono, rfl⟩ | ⟨e, rfl⟩
    · rw [CodeTieNow.now_reads r real mono nowNs sizes inp h0 h1]
      cases computeBoundAt r real mono <;> first
        | exact Or.inl rfl
        | exact Or.inr ⟨_, _, _, rfl, rfl, by simp, fun _ => rfl⟩
    · rw [CodeTieNow.now_err_monotonic r real e nowNs sizes inp h0 h1]
      exact Or.inr ⟨_, _, _, rfl, rfl, by simp, fun _ => rfl⟩
  · rw [CodeTieNow.now_err_realtime r e nowNs sizes inp h0]
    refine Or.inr ⟨_, _, _, rfl, rfl, by simp, ?_⟩
    rintro ⟨real, h⟩
    simp [okTimespec] at h

/-- **C12(ii-a), client half, on the source**: two calls of `now()` on the same record with the same realtime
    reading, the second one's monotonic read delayed (`m1 ≤ m2`): if both answer with an interval, the later
    monotonic reading gives the wider one — `latest` does not move down, `earliest` does not move up.  (The first
    input of each call is the realtime reading, the second the monotonic one: the order `C12_now_read_order`
    states; a delay between the two reads is a larger second input.) -/
theorem C12_now_delay_widens (r : Record) (real m1 m2 : TimeSpec) (nowNs : Int) (sizes : List (String × Nat))
    (inp1 inp2 : Nat → Value)
    (h10 : inp1 0 = okTimespec real) (h11 : inp1 1 = okTimespec m1)
    (h20 : inp2 0 = okTimespec real) (h21 : inp2 1 = okTimespec m2)
    (e1 l1 e2 l2 : TimeSpec) (s1 s2 : Status)
    (hx : (⟨r, real, m1⟩ : ClientIn).meaningful = true) (hd : r.drift < 1000000000)
    (h2 : m2.inRange = true) (hle : m1.toNs ≤ m2.toNs)
    (a1 : NowAnswers ⟨r, real, m1⟩ nowNs sizes inp1 (.ok e1 l1 s1))
    (a2 : NowAnswers ⟨r, real, m2⟩ nowNs sizes inp2 (.ok e2 l2 s2)) :
    l1.toNs - real.toNs ≤ l2.toNs - real.toNs ∧ e2.toNs ≤ e1.toNs := by
  have o1 := after_inj r _ _ _ (a1.symm.trans (CodeTieNow.now_reads r real m1 nowNs sizes inp1 h10 h11))
  have o2 := after_inj r _ _ _ (a2.symm.trans (CodeTieNow.now_reads r real m2 nowNs sizes inp2 h20 h21))
  exact C12.client_delay_widens r real m1 m2 e1 l1 e2 l2 s1 s2 hx hd h2 hle o1.symm o2.symm

/-- non-vacuity of `C12_now_delay_widens`: a record 2 s old at the first call (answer: half-width bound + 2000 ns),
    the monotonic read of the second call delayed by 3 s: the hypotheses hold -/
example :
    let r : Record := ⟨⟨100, 0⟩, ⟨1100, 0⟩, 5000, 1000, 0, .synchronized⟩
    (⟨r, ⟨1700000000, 0⟩, ⟨102, 0⟩⟩ : ClientIn).meaningful = true ∧ (⟨105, 0⟩ : TimeSpec).inRange = true ∧
    (⟨102, 0⟩ : TimeSpec).toNs ≤ (⟨105, 0⟩ : TimeSpec).toNs ∧ r.drift < 1000000000 ∧
    computeBoundAt r ⟨1700000000, 0⟩ ⟨102, 0⟩ = .ok ⟨1699999999, 999993000⟩ ⟨1700000000, 7000⟩ .synchronized := by
  refine ⟨by decide +kernel, by decide, by decide, by decide, by decide +kernel⟩

end ClockBound.OnCode
