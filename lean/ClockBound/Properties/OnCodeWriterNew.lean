/-
  C04 / C16, the writer (repair) half, stated ABOUT THE SOURCE: each theorem mentions only
    * the AST `Generated.Code` regenerated from clock-bound-shm/src/{writer,reader,shm_header}.rs, run by the interpreter with
      the context of the `Shm` group (`CodeTieWriterNew.ctx`; the environment's answers are `EmbedShm.newAnswers`: every
      operation succeeds), and
    * the crash script `Crash.script` of C04 (the named events the crash sweep kills the writer at) resp. the byte-level
      repair `writerNew` of C16;
  the closed form `Crash.newOps` occurs only as an existential witness (`ops`).

  Decoding: a logged state-changing operation is the image `opValue o path parent op` of an `op : Crash.Op` (`opValue` is
  injective on the operations that occur, up to the role tag of a header write, which is the POSITION of the write), and
  `Crash.Op.ev` names the event of the crash script it is reported as.
-/
import ClockBound.Proofs.OnCodeWriterNew
import ClockBound.Properties.C04
namespace ClockBound.OnCode
open ClockBound ClockBound.Rs ClockBound.Generated ClockBound.Rs.DictShm ClockBound.Rs.EmbedShm

/-- what the interpreted `ShmWriter::new(path)` does on the prior state `st` of the path: it returns `Ok(writer)` over the
    mapping, and its state-changing operations (file: create / write / sync / set_len / mkdir; mapping: store), in order,
    are the images of `ops`, the version store having the ordering `o` -/
def NewDoes (st : FileState) (parent : String) (fd : Nat) (o : SL.Ord) (ops : List Crash.Op) : Prop :=
  (run (CodeTieWriterNew.ctx (streamOf (newAnswers fd (parent != "") st))) "ShmWriter::new" .unit [pathObj "shm" parent]).okWith isMutEv
  = some (writerValue SEGMENT_SIZE, ops.map (opValue o (pathObj "shm" parent) (pathObj parent "")))

/-- **C04 on the source, the script**: for EVERY prior state of the path that is not a directory, the interpreted
    `ShmWriter::new` succeeds and its operations, read as events of the crash sweep, are exactly the operation events of
    `Crash.script` on that prior up to the first `write` — the script splits into the part of `new` (`pre`) and the six
    events of the first `write` (`Crash.writeScript`, covered by `C11_write_stores` / `CodeTieSeqlock.write_eq`). -/
theorem C04_new_is_script (st : FileState) (hdir : st ≠ .directory) (hst : CodeTieHeader.FileState.hdrInRange st)
    (parent : String) (fd : Nat) (hfd : fd ≤ 2147483647) :
    ∃ o ops pre, NewDoes st parent fd o ops ∧
      Crash.script (Crash.fileAOf st) = pre ++ Crash.writeScript ∧
      ops.filterMap Crash.Op.ev = pre.filter Crash.Ev.isOp := by
  obtain ⟨o, h⟩ := CodeTieWriterNew.new_eq st hdir hst parent fd hfd
  exact ⟨o, _, _, h, WriterNewProg.script_split _, WriterNewProg.newOps_script _ _⟩

/-- **C04(d) on the source: a usable segment is taken over in place.**  If `ShmReader::new` would accept the prior file
    (`fileAOf st` usable: ≥ 16 bytes, magic, version ≠ 0, generation ≠ 0, declared size ≥ 72), the interpreted `new`
    performs NO create / truncate / header write / zero fill: at most a `set_len(72)` that grows a short file, then the
    version store.  Hence (`C04.usable_never_wiped`) none of the wipe events of the crash script can occur. -/
theorem C04_usable_kept (st : FileState) (hdir : st ≠ .directory) (hst : CodeTieHeader.FileState.hdrInRange st)
    (hu : (Crash.fileAOf st).usable = true) (parent : String) (fd : Nat) (hfd : fd ≤ 2147483647) :
    ∃ o ops, NewDoes st parent fd o ops ∧
      (∀ op ∈ ops, op = .setLen SEGMENT_SIZE ∨ op = .storeVersion 1) ∧
      (∀ e ∈ Crash.script (Crash.fileAOf st), C04.isWipeEv e = false) := by
  obtain ⟨o, h⟩ := CodeTieWriterNew.new_eq st hdir hst parent fd hfd
  refine ⟨o, _, h, ?_, C04.usable_never_wiped _ hu⟩
  intro op hop
  simp only [Crash.newOps, hu, if_true] at hop
  split at hop <;> simp at hop <;> simp [hop]

/-- **C04 on the source: anything else is re-created, truncation first.**  If the prior is not usable, the operations are,
    in this order: `create_dir_all` (iff the path has a parent directory), `File::create` (which TRUNCATES: the payload of
    the unusable file is gone before any header byte is written), the five header writes — magic 0, magic 1, size 72,
    version 0, generation 0 —, 56 zero bytes, `sync_all`, and only then the version store through the mapping. -/
theorem C04_unusable_recreated (st : FileState) (hdir : st ≠ .directory) (hst : CodeTieHeader.FileState.hdrInRange st)
    (hu : (Crash.fileAOf st).usable = false) (parent : String) (fd : Nat) (hfd : fd ≤ 2147483647) :
    ∃ o, NewDoes st parent fd o
      ((if (parent != "") = true then [Crash.Op.createDirAll] else []) ++
       [.create, .writeU32 .wipeMagic0 MAGIC0, .writeU32 .wipeMagic1 MAGIC1, .writeU32 .wipeSegsize SEGMENT_SIZE,
        .writeU16 .wipeVersion 0, .writeU16 .wipeGeneration 0, .writeAll (SEGMENT_SIZE - HEADER_SIZE), .syncAll,
        .storeVersion 1]) := by
  obtain ⟨o, h⟩ := CodeTieWriterNew.new_eq st hdir hst parent fd hfd
  refine ⟨o, ?_⟩
  unfold NewDoes
  rw [h]
  simp [Crash.newOps, hu]

/-- **C04 headline, for the script the source runs**: wherever the writer dies in `new; write rec` over the prior the
    source was shown to follow the script of, a FRESH client that opens the file left behind either cannot attach, or
    obtains the empty record, the record being published or — over a usable prior only — the prior's record. -/
theorem C04_fresh_after_crash (st : FileState) (hdir : st ≠ .directory) (hst : CodeTieHeader.FileState.hdrInRange st)
    (parent : String) (fd : Nat) (hfd : fd ≤ 2147483647) (rec : List Nat) (k : Nat) :
    ∃ o ops pre, NewDoes st parent fd o ops ∧
      Crash.script (Crash.fileAOf st) = pre ++ Crash.writeScript ∧ ops.filterMap Crash.Op.ev = pre.filter Crash.Ev.isOp ∧
      (let f1 := (Crash.runUntil (Crash.fileAOf st) rec k).1
       let r := ({} : Crash.ReaderA).snap f1
       Crash.openText f1 ≠ "ok" ∨ r.cache = List.replicate 7 0 ∨ r.cache = rec ∨
         ((Crash.fileAOf st).usable = true ∧ r.cache = (Crash.fileAOf st).cells)) := by
  obtain ⟨o, ops, pre, h1, h2, h3⟩ := C04_new_is_script st hdir hst parent fd hfd
  exact ⟨o, ops, pre, h1, h2, h3, C04.fresh_after_crash _ rec k⟩

/-- non-vacuity: the hypotheses hold for a missing path, a wiped file and a valid segment, and the two paths differ -/
example : CodeTieHeader.FileState.hdrInRange .missing ∧ (Crash.fileAOf .missing).usable = false ∧
    CodeTieHeader.FileState.hdrInRange (.file (encodeHeader ⟨MAGIC0, MAGIC1, 72, 1, 4⟩ ++ List.replicate 56 0)) ∧
    (Crash.fileAOf (.file (encodeHeader ⟨MAGIC0, MAGIC1, 72, 1, 4⟩ ++ List.replicate 56 0))).usable = true := by
  refine ⟨trivial, rfl, ?_, ?_⟩ <;> decide

/-! ## C16, the repair half: the FILE the operations of `new` leave

  `applyOp` (in `Proofs/OnCodeWriterNew.lean`, part of these statements) is the effect of one operation on the bytes of the
  file: `File::create` creates or truncates, the writes append, `set_len(72)` grows a shorter file with zeros, the version
  store patches bytes 12..13 through the mapping. -/

/-- **C16 on the source, repair**: for every prior state of the path (not a directory) the file the operations of the
    interpreted `ShmWriter::new` leave behind is the file of the model's `writerNew` — the function the repair clause of C16
    (`startAndPublish`, `C16.repair_roundtrip`, the oracle `C16.HoldsSeg`) is about —, re-created exactly when the prior
    does not open. -/
theorem C16_new_leaves_writerNew (st : FileState) (hdir : st ≠ .directory) (hst : CodeTieHeader.FileState.hdrInRange st)
    (parent : String) (fd : Nat) (hfd : fd ≤ 2147483647) :
    ∃ o ops bs0 rc, NewDoes st parent fd o ops ∧ ops.foldl applyOp (fileOf st) = some bs0 ∧
      writerNew st = .ok (.file bs0, rc) ∧ (rc = true ↔ ∀ h, readerOpen st ≠ .ok h) := by
  obtain ⟨o, h⟩ := CodeTieWriterNew.new_eq st hdir hst parent fd hfd
  obtain ⟨bs0, rc, hw, hfold, hrc⟩ := newOps_bytes st hdir (parent != "")
  refine ⟨o, _, bs0, rc, h, hfold, hw, ?_⟩
  rw [hrc]
  cases st with
  | directory => exact absurd rfl hdir
  | missing => simp [Crash.fileAOf, Crash.FileA.usable, readerOpen, readerOpenLim]
  | file bs =>
    constructor
    · intro hu h hok
      have := (usable_iff_open bs).mpr ⟨h, hok⟩
      rw [hu] at this; cases this
    · intro hno
      cases hu : (Crash.fileAOf (.file bs)).usable
      · rfl
      · obtain ⟨h, hok⟩ := (usable_iff_open bs).mp hu
        exact absurd hok (hno h)

/-- **C16 repair round trip, on the source**: … and therefore, after the first publication of a record `r` on the file
    the source leaves (`writeRecord`: the byte image of the first `write`, cf. `CodeTieSeqlock.write_eq` and
    `C01Pipeline.cellsOf_bytes`), clients can open it (layout version 1, even non-zero generation), it was re-created
    exactly when the prior did not open, and a fresh reader reads back exactly `r`. -/
theorem C16_repair_roundtrip (st : FileState) (hdir : st ≠ .directory) (hst : CodeTieHeader.FileState.hdrInRange st)
    (parent : String) (fd : Nat) (hfd : fd ≤ 2147483647) (r : Record) (pad : Bytes) (hr : r.inRange) :
    ∃ o ops bs0 rc, NewDoes st parent fd o ops ∧ ops.foldl applyOp (fileOf st) = some bs0 ∧
      (∃ h, readerOpen (.file (writeRecord bs0 r pad)) = .ok h ∧ h.version = 1 ∧ h.generation ≠ 0 ∧ h.generation % 2 = 0) ∧
      (rc = true ↔ ∀ h, readerOpen st ≠ .ok h) ∧
      (rc = true → writeRecord bs0 r pad = encodeSegmentP ⟨MAGIC0, MAGIC1, 72, 1, 2⟩ r pad) ∧
      snapshotOfFile (.file (writeRecord bs0 r pad)) = .record r := by
  obtain ⟨o, ops, bs0, rc, h1, h2, hw, _⟩ := C16_new_leaves_writerNew st hdir hst parent fd hfd
  obtain ⟨bs', rc', hsp, hopen, hrc, hre, _, hsn⟩ := C16.repair_roundtrip st r pad hdir hr
  have hsp' : startAndPublish st r pad = .ok (.file (writeRecord bs0 r pad), rc) := by
    unfold startAndPublish; rw [hw]; rfl
  rw [hsp'] at hsp
  injection hsp with hsp
  injection hsp with hb hc
  injection hb with hb
  subst hb; subst hc
  exact ⟨o, ops, bs0, rc, h1, h2, hopen, hrc, fun h => (hre h).1, hsn⟩

example : Record.inRange ⟨⟨1, 2⟩, ⟨3, 4⟩, 5, 6, 7, .synchronized⟩ := by decide

end ClockBound.OnCode
