/-
  The seqlock properties C11, C18, C02, C03 stated ABOUT THE SOURCE: each theorem mentions only
    * the AST `Generated.Code` regenerated from clock-bound-shm/src/{writer,reader}.rs, run by the interpreter with the
      context of the `Shm` group (`CodeTieSeqlock.ctx`: dictionary `Rs/DictShm.lean`, raw load results), and
    * the oracle / headline statement of the property (`C11.Holds`, the invariant of `C11.history_invariant`, the bound
      `SL.stepBound` of C18, the theorems of `Properties/C02.lean` / `C03.lean`);
  the model (`SL.writerProg`, `SL.readerProg`, the machines) occurs only as an existential witness or — for C02/C03, whose
  statements are about interleaved executions the per-thread interpreter does not have — as the system the code is
  identified with thread by thread (see the note at `C02_C03_bridge`).
-/
import ClockBound.Proofs.OnCodeSeqlock
import ClockBound.Properties.C02
import ClockBound.Properties.C03
namespace ClockBound.OnCode
open ClockBound ClockBound.Rs ClockBound.Generated ClockBound.Rs.DictShm ClockBound.Rs.EmbedShm

/-! ## C11: the generation protocol of `ShmWriter::write` -/

/-- **C11 on the source**: for EVERY value `g` the generation load returns (every `u16`: `inp 0 % 65536`), every record
    and every environment, the interpreted `ShmWriter::write` makes exactly two stores to the generation field,
    `inflight` and then `final`, and they satisfy the C11 oracle: `inflight` is odd (`g + 1` if `g` is even, `g` itself
    if an interrupted update left it odd), `final` is even, non-zero, different from `g`, the successor of `inflight`
    except that 65535 is followed by 2. -/
theorem C11_write_stores (inp : Nat → Nat) (cells : List Nat) (segsize : Nat) (nowNs : Int) (sizes : List (String × Nat)) :
    ∃ inflight final,
      genStores (eventsOf (run (CodeTieSeqlock.ctx nowNs sizes inp) "ShmWrite for ShmWriter::write" (writerValue segsize)
        [wordsValue cells])) = [inflight, final] ∧
      C11.Holds (inp 0 % 65536) inflight final = true := by
  refine ⟨genStart (inp 0 % 65536), genFinish (genStart (inp 0 % 65536)), ?_, C11.model_holds _ (Nat.mod_lt _ (by decide))⟩
  rw [CodeTieSeqlock.write_eq]
  exact genStores_writerProg _ _ _

/-- what the generation field holds after one interpreted `write` that found `g` there: the second store if the call
    completed, the first if the writer died between the two -/
def afterWrite (g : Nat) (completed : Bool) : Nat :=
  let stores := genStores (eventsOf (run (CodeTieSeqlock.ctx 0 [] (fun _ => g)) "ShmWrite for ShmWriter::write"
    (writerValue 72) [wordsValue []]))
  if completed then stores.getLastD g else stores.headD g

theorem afterWrite_eq (g : Nat) (hg : g < 65536) (c : Bool) :
    afterWrite g c = if c then genFinish (genStart g) else genStart g := by
  unfold afterWrite
  rw [CodeTieSeqlock.write_eq]
  simp only [eventsOf, genStores_writerProg, Nat.mod_eq_of_lt hg]
  cases c <;> rfl

/-- the generation field after a history of calls of the interpreted `write` (each completed or interrupted), from `g0` -/
def afterHistory (g0 : Nat) (calls : List Bool) : Nat := calls.foldl afterWrite g0

/-- **C11 over histories, on the source**: after ANY history of completed and interrupted calls of the interpreted
    `write` from any `u16` start value, the generation field is what SOME run of the protocol machine `GState` leaves
    (the witness), and therefore (`C11.history_invariant`) it is a `u16`, is never 0 once a store was made, and is even
    and non-zero whenever the last update completed. -/
theorem C11_history (g0 : Nat) (h0 : g0 < 65536) (calls : List Bool) :
    ∃ evs, afterHistory g0 calls = (GState.run g0 evs).g ∧
      (GState.run g0 evs).g < 65536 ∧
      ((GState.run g0 evs).stores > 0 → afterHistory g0 calls ≠ 0) ∧
      ((GState.run g0 evs).mid = false → (GState.run g0 evs).stale = false → (GState.run g0 evs).finishes > 0 →
        afterHistory g0 calls % 2 = 0 ∧ afterHistory g0 calls ≠ 0) := by
  have hrun := run_calls calls { g := g0 } rfl
  have hinv := C11.history_invariant g0 h0 (callEvents calls)
  have key : afterHistory g0 calls = (GState.run g0 (callEvents calls)).g := by
    unfold GState.run
    rw [hrun.2]
    unfold afterHistory
    -- every intermediate generation is a u16, so each call is the closed form
    have : ∀ (l : List Bool) g, g < 65536 →
        l.foldl afterWrite g = l.foldl (fun g c => if c then genFinish (genStart g) else genStart g) g := by
      intro l
      induction l with
      | nil => intro g _; rfl
      | cons c l ih =>
        intro g hg
        simp only [List.foldl_cons]
        rw [afterWrite_eq g hg c]
        apply ih
        cases c
        · exact (C11.start_odd g hg).2
        · exact (C11.finish_props g hg).2.2.2
    exact this calls g0 h0
  refine ⟨callEvents calls, key, hinv.1, ?_, ?_⟩
  · intro hs; rw [key]; exact hinv.2.2.2.2 hs
  · intro hm hst hf; rw [key]; exact hinv.2.2.2.1 hm hst hf

/-- … in particular: right after a completed call the generation is even, non-zero and has changed -/
theorem C11_after_completed (g : Nat) (hg : g < 65536) :
    afterWrite g true % 2 = 0 ∧ afterWrite g true ≠ 0 ∧ afterWrite g true ≠ g ∧ afterWrite g true < 65536 := by
  rw [afterWrite_eq g hg]; exact C11.finish_props g hg

/-- non-vacuity: an interrupted update at 65534 is repaired by the next call, which rolls over to 2 (not 0) -/
example : afterHistory 65534 [false, true] = 2 := by
  unfold afterHistory
  simp only [List.foldl_cons, List.foldl_nil]
  rw [afterWrite_eq 65534 (by decide), afterWrite_eq _ (by decide)]
  decide

/-! ## C18: `snapshot()` never blocks or spins for ever -/

/-- **C18 on the source**: for ALL streams of load results (whatever the daemon does or has stopped doing), every cache
    and every fuel ≥ RETRIES + 200, the interpreted `ShmReader::snapshot` RETURNS — it does not panic, does not leave the
    interpreted fragment, does not run out of fuel — after at most `SL.stepBound = 2 + RETRIES·(N+2)` shared accesses
    (loads and fences: the length of its event list), and what it returns is `Ok(&snapshot)` or the documented error
    `Err(ShmError::SegmentNotInitialized)`.  (Witnesses: the result and final state of the reader machine, which
    `C18.bounded` is about.) -/
theorem C18_snapshot_bounded (inp : Nat → Nat) (cacheGen : Nat) (cache : List Nat) (nowNs : Int)
    (sizes : List (String × Nat)) (fuel : Nat) (hfuel : SL.RETRIES + 200 ≤ fuel) :
    ∃ res self' evs,
      runFuel fuel (CodeTieSeqlock.ctx nowNs sizes inp) "ShmReader::snapshot" (readerValue cacheGen cache) []
        = .ok res self' evs ∧
      evs.length ≤ SL.stepBound ∧
      ((∃ cells, res = .enumv "Ok" [wordsValue cells]) ∨ res = .enumv "Err" [.enumv "ShmError::SegmentNotInitialized" []]) := by
  obtain ⟨res, _, hrun⟩ := CodeTieSeqlock.snapshot_machine inp { cacheGen := cacheGen, cache := cache } nowNs sizes fuel hfuel
    SL.stepBound (Nat.le_refl _)
  refine ⟨_, _, _, hrun, ?_, ?_⟩
  · rw [List.length_map]
    have := readerRunG_length CodeTieSeqlock.ann (typedInp inp) SL.stepBound
      ({ cacheGen := cacheGen, cache := cache } : SL.Reader).call 0 []
    simpa using this
  · cases res with
    | ok cells => exact Or.inl ⟨cells, rfl⟩
    | errNotInit => exact Or.inr rfl

/-- **C18, second clause, on the source**: while the segment is being re-initialised (version 0) the call answers from
    its previous snapshot after ONE load -/
theorem C18_version_zero (inp : Nat → Nat) (h0 : inp 0 % 65536 = 0) (cacheGen : Nat) (cache : List Nat) (nowNs : Int)
    (sizes : List (String × Nat)) (fuel : Nat) (hfuel : SL.RETRIES + 200 ≤ fuel) :
    ∃ evs, runFuel fuel (CodeTieSeqlock.ctx nowNs sizes inp) "ShmReader::snapshot" (readerValue cacheGen cache) []
        = .ok (.enumv "Ok" [wordsValue cache]) (readerValue cacheGen cache) evs ∧ evs.length = 1 := by
  rw [CodeTieSeqlock.snapshot_eq inp cacheGen cache nowNs sizes fuel hfuel]
  have hv : typedInp inp 0 = 0 := by simpa [typedInp, loadCard] using h0
  simp [readerOutcome, SL.readerProg, hv, resultValue]

/-- … and while an update is in flight (odd generation) or the generation is 0, after TWO loads -/
theorem C18_in_flight (inp : Nat → Nat) (hv : inp 0 % 65536 ≠ 0) (hg : inp 1 % 65536 % 2 = 1 ∨ inp 1 % 65536 = 0)
    (cacheGen : Nat) (cache : List Nat) (nowNs : Int) (sizes : List (String × Nat)) (fuel : Nat)
    (hfuel : SL.RETRIES + 200 ≤ fuel) :
    ∃ evs, runFuel fuel (CodeTieSeqlock.ctx nowNs sizes inp) "ShmReader::snapshot" (readerValue cacheGen cache) []
        = .ok (.enumv "Ok" [wordsValue cache]) (readerValue cacheGen cache) evs ∧ evs.length = 2 := by
  rw [CodeTieSeqlock.snapshot_eq inp cacheGen cache nowNs sizes fuel hfuel]
  have hv' : typedInp inp 0 ≠ 0 := by simpa [typedInp, loadCard] using hv
  have hg' : typedInp inp 1 = 0 ∨ typedInp inp 1 = cacheGen ∨ typedInp inp 1 % 2 = 1 := by
    have : typedInp inp 1 = inp 1 % 65536 := by simp [typedInp, loadCard]
    rw [this]; rcases hg with h | h
    · exact Or.inr (Or.inr h)
    · exact Or.inl h
  simp [readerOutcome, SL.readerProg, hv', hg', resultValue]

example : SL.stepBound = 9000002 := by decide
example : (fun k : Nat => if k = 0 then 1 else 7) 0 % 65536 ≠ 0 ∧ (fun k : Nat => if k = 0 then 1 else 7) 1 % 65536 % 2 = 1 := by decide

/-! ## C02 / C03: no mixture, no going back

  The statements of `Properties/C02.lean` and `C03.lean` are about `SL.Reachable a (Sys.init ..) s`: every interleaving
  of the individual accesses of one writer machine (`SL.wStep a`) and one reader machine (`SL.rStep a`) over a
  release/acquire memory, with crashes and restarts, for an annotation `a` with `a.adequate = true`.  The interpreter
  runs ONE function of ONE thread against a stream of load results; it has no memory model and no interleaving.  The
  bridge is therefore thread by thread, and it is complete on each side:
    * the annotation is the one READ OFF THE SOURCE (`CodeTieSeqlock.ann`, by probe runs) and it is adequate;
    * the interpreted `snapshot()` IS the reader machine: for every stream of answers the memory may give, result, new cache
      and accesses (location, ordering, value) are those of `SL.readerRunG ann` — and `SL.rStepG` is `SL.rStep` with the
      memory's answer passed in (`SeqlockProg.rStep_eq_G`), whose control never looks at anything but the value
      (`SeqlockProg.rStepG_control`);
    * the interpreted `write()` IS the writer machine: its accesses are `SL.writerProg ann g cells`, and the `3 + N (+1)`
      steps of `SL.wStep ann` append exactly the stores of `SL.writerProg ann (latest log .gen) rec`
      (`SeqlockProg.writerRun_eq_prog`).
  What is NOT derived from the source: that the hardware/compiler give these accesses the release/acquire semantics of
  `SL.load`/`SL.storeMsg` (the memory model is an assumption of C02), and the scheduler (`SL.Step`). -/

/-- the per-thread identification of the source with the machines of C02/C03, instantiated with the source's annotation -/
theorem C02_C03_bridge :
    CodeTieSeqlock.ann.adequate = true ∧
    (∀ (inp : Nat → Nat) (r : SL.Reader) (nowNs : Int) (sizes : List (String × Nat)) (fuel : Nat),
      SL.RETRIES + 200 ≤ fuel → ∀ mfuel, SL.stepBound ≤ mfuel →
      let out := SL.readerRunG CodeTieSeqlock.ann (typedInp inp) mfuel r.call 0 []
      ∃ res, out.2.1 = some res ∧
        runFuel fuel (CodeTieSeqlock.ctx nowNs sizes inp) "ShmReader::snapshot" (readerValue r.cacheGen r.cache) []
        = .ok (resultValue res) (readerValue out.1.cacheGen out.1.cache) (out.2.2.map accValue)) ∧
    (∀ (inp : Nat → Nat) (log : SL.Log) (w : SL.Writer) (rec : List Nat) (segsize : Nat) (nowNs : Int)
        (sizes : List (String × Nat)), rec.length = SL.N → inp 0 % 65536 = SL.latest log .gen →
      let out := SL.writerRun CodeTieSeqlock.ann (3 + SL.N + (if CodeTieSeqlock.ann.wFence.isSome then 1 else 0)) log
        { w with pc := .loadGen rec }
      out.2.pc = .idle ∧ ∃ msgs accs, out.1 = log ++ msgs ∧
        run (CodeTieSeqlock.ctx nowNs sizes inp) "ShmWrite for ShmWriter::write" (writerValue segsize) [wordsValue rec]
          = .ok .unit (writerValue segsize) (accs.map accValue) ∧
        msgs.map (fun m => (m.loc, m.val)) = SL.storesOf accs) := by
  refine ⟨CodeTieSeqlock.ann_adequate, ?_, ?_⟩
  · intro inp r nowNs sizes fuel hfuel mfuel hm
    exact CodeTieSeqlock.snapshot_machine inp r nowNs sizes fuel hfuel mfuel hm
  · intro inp log w rec segsize nowNs sizes hl hg
    obtain ⟨hidle, msgs, hlog, hst⟩ := SeqlockProg.writerRun_eq_prog CodeTieSeqlock.ann log w rec hl
    refine ⟨hidle, msgs, _, hlog, ?_, hst⟩
    rw [CodeTieSeqlock.write_eq, hg]

/-- **C02 for the system whose two threads are the interpreted source** (annotation of the source, proved adequate):
    in every reachable state of the interleaved system with fewer than 32767 completed updates, every record a
    `snapshot` returned is the empty initial record, the pre-existing record, or a record some `write` was given —
    never a mixture. -/
theorem C02_no_mixture (ver gen : Nat) (cells0 : List Nat) (hc : cells0.length = SL.N) (hg : gen < 65536)
    (s : SL.Sys) (hr : SL.Reachable CodeTieSeqlock.ann (SL.Sys.init ver gen cells0) s)
    (hnowrap : SL.completedUpdates s.log < 32767) :
    ∀ c ∈ s.returned, C02.Good cells0 s c :=
  C02.no_mixture CodeTieSeqlock.ann CodeTieSeqlock.ann_adequate ver gen cells0 hc hg s hr hnowrap

/-- **C03(i)**, same system: the publication behind the reader's cache never moves backwards -/
theorem C03_accepted_monotone (s t : SL.Sys) (hst : SL.Step CodeTieSeqlock.ann s t)
    (hopen : t.r ≠ ({} : SL.Reader) ∨ s.r = ({} : SL.Reader))
    (ver gen : Nat) (cells0 : List Nat) (hc : cells0.length = SL.N) (hg : gen < 65536)
    (hr : SL.Reachable CodeTieSeqlock.ann (SL.Sys.init ver gen cells0) s)
    (hnowrap : SL.completedUpdates t.log < 32767) :
    s.r.acceptedIdx ≤ t.r.acceptedIdx :=
  C03.accepted_monotone CodeTieSeqlock.ann CodeTieSeqlock.ann_adequate s t hst hopen ver gen cells0 hc hg hr hnowrap

/-- **C03**, same system: the cached record is the record as of the accepted publication -/
theorem C03_cache_is_publication (ver gen : Nat) (cells0 : List Nat) (hc : cells0.length = SL.N) (hg : gen < 65536)
    (s : SL.Sys) (hr : SL.Reachable CodeTieSeqlock.ann (SL.Sys.init ver gen cells0) s)
    (hnowrap : SL.completedUpdates s.log < 32767) :
    (s.r.cacheGen = 0 ∧ s.r.cache = SL.zerosN) ∨
    (s.r.cache = SL.pubCells s.log s.r.acceptedIdx ∧
      ∃ m, s.log[s.r.acceptedIdx]? = some m ∧ m.loc = .gen ∧ m.val = s.r.cacheGen) :=
  C03.cache_is_accepted_publication CodeTieSeqlock.ann CodeTieSeqlock.ann_adequate ver gen cells0 hc hg s hr hnowrap

/-- non-vacuity of the reachability hypotheses: the initial state is reachable -/
example : SL.Reachable CodeTieSeqlock.ann (SL.Sys.init 1 2 (List.replicate SL.N 0)) (SL.Sys.init 1 2 (List.replicate SL.N 0)) :=
  .refl

end ClockBound.OnCode
