/-
  Source tie by translation (part Drift): constants the hand-written model hard-codes, regenerated from
  /repo's working tree on every run by tools/translate_consts.py, agree with the model.
  Closed by evaluation; a changed constant in the source makes the theorem fail to build.
-/
import ClockBound.Generated.Consts
import ClockBound.Model.Driver
namespace ClockBound.ConstsAgree
open ClockBound ClockBound.Generated.Consts

/-- main.rs: default drift and the ppm → ppb factor -/
theorem default_drift : driftPpb none = some defaultDriftPpb := by decide

theorem ppm_to_ppb : driftPpb (some 7) = some (7 * ppmToPpb) := by decide

end ClockBound.ConstsAgree
