/-
  C15 (one dead worker stops the daemon) stated ABOUT THE SOURCE (see `OnCodeClient.lean` for the reading): each
  theorem mentions the regenerated AST `Generated.Code` run by the interpreter (`Rs.run` / `runFuel`, dictionary
  `Rs/DictThreads.lean`: every channel / thread operation is an event whose result is the next input) and the thread
  model of C15 (`Model/Threads.lean`: `stepMain`, `stepPoller`, `stepWriter`, `step`; `Model/ThreadsProg.lean`: the
  same threads as programs over operations, `mainDo` / `mainNext` … being DEFINED by those step functions).  The
  closed forms (`mainProg`, `pollerProg`, `writerProg`) occur as existential witnesses: "the operations the code
  performs, read as model operations, are SOME program `p`, and `p` drives the model thread from its first program
  counter to its last".

  What is composed (tie ∘ closed form ∘ step functions), per thread, for WHOLE runs (the ties already lift the
  per-iteration facts over any number of iterations by `evalWhile_skip`):
  * `C15_drop_reports_*`   — `Drop for Context::drop` IS the model's step `exiting k → dropping`: one send of
    `notice w k` to main, `k = panic` iff `panicking()`;
  * `C15_main_stops_everything` — `thread_manager::run`: once a worker's notice is received, whatever was received
    before and whatever the sends return: Abort to both workers, both joins, return; as steps of `stepMain` / `step`
    from `MainPc.loop` this ends in `returned` with Abort queued for every worker whose receiver still exists
    (the conclusion of `C15.abort_broadcast`);
  * `C15_main_behaviours` — the operation sequences of the interpreted main thread and those the model's main thread
    accepts are THE SAME prefix-closed set (both inclusions);
  * `C15_poller_thread_ends`, `C15_writer_thread_ends`, `C15_writer_open_failure` — the two workers from their entry
    functions: they leave only by Abort (the function returns: the model's `exiting terminate`) or by the failure the
    model has (`exiting panic`), and until then go round their loops.

  NOT composed (reported): C15's headline `exits_after_death_bound` quantifies over interleavings (`Threads.step`
  schedules, rounds); the interpreter is big-step per thread function against an input stream and has no
  interleaving semantics, so "the system of the four interpreted functions" is not an object of this development.
  What is proved is that each thread of `Threads.step` has the control flow of the corresponding interpreted function
  (main: equality of behaviours; workers and drop: every complete run of the code is a run of the model thread).
-/
import ClockBound.Proofs.OnCodeThreads
import ClockBound.Properties.C15
namespace ClockBound.OnCode
open ClockBound ClockBound.Rs ClockBound.Generated ClockBound.Rs.DictThreads ClockBound.Rs.EmbedThreads
open ClockBound.Rs.EmbedWorkers ClockBound.Threads ClockBound.ThreadsProg ClockBound.Rs.ThreadsProof
open ClockBound.CodeTieThreads ClockBound.OnCodeProof

/-- how a thread function that ended is dropped: unwinding from a panic, or normally -/
def kindOf (panicking : Bool) : Kind := if panicking = true then .panic else .terminate

/-! ### `Drop for Context::drop` -/

/-- **C15 on the source, the death notice (poller)**: the interpreted `Context::drop` of the poller's context sends
    exactly one message, to main's channel: the notice the model's `exiting k` step queues (`k = panic` iff
    `panicking()`), whether or not the send succeeds; it returns and leaves the context as it was -/
theorem C15_drop_reports_poller (ks : List Thread) (p ok : Bool) (nowNs : Int) (inp : Nat → Value)
    (h0 : inp 0 = .bool p) (h1 : inp 1 = sendResult ok (noticeOf .poller p).value) :
    ∃ (m : RMsg),
      run (Code.ctxWith nowNs DictThreads.ext [] inp) "Drop for Context::drop" (contextValue .poller ks) []
        = .ok .unit (contextValue .poller ks)
            [evPanicking (.bool p), evSend (chanValue .main) m.value (sendResult ok m.value)] ∧
      m.abs = some (.notice .poller (kindOf p)) ∧
      ∀ s : State, s.p = .exiting (kindOf p) →
        stepPoller s = some { s with p := .dropping, qM := sendTo s.m.rxAlive s.qM (.notice .poller (kindOf p)) } := by
  refine ⟨noticeOf .poller p, drop_eq .poller ks p ok nowNs inp h0 h1, ?_, fun s hs => ?_⟩
  · cases p <;> rfl
  · exact (ThreadsProgProps.drop_step_poller s _ hs).1

theorem C15_drop_reports_writer (ks : List Thread) (p ok : Bool) (nowNs : Int) (inp : Nat → Value)
    (h0 : inp 0 = .bool p) (h1 : inp 1 = sendResult ok (noticeOf .writer p).value) :
    ∃ (m : RMsg),
      run (Code.ctxWith nowNs DictThreads.ext [] inp) "Drop for Context::drop" (contextValue .writer ks) []
        = .ok .unit (contextValue .writer ks)
            [evPanicking (.bool p), evSend (chanValue .main) m.value (sendResult ok m.value)] ∧
      m.abs = some (.notice .writer (kindOf p)) ∧
      ∀ s : State, s.w = .exiting (kindOf p) →
        stepWriter s = some { s with w := .dropping, qM := sendTo s.m.rxAlive s.qM (.notice .writer (kindOf p)) } := by
  refine ⟨noticeOf .writer p, drop_eq .writer ks p ok nowNs inp h0 h1, ?_, fun s hs => ?_⟩
  · cases p <;> rfl
  · exact (ThreadsProgProps.drop_step_writer s _ hs).1

example : inputsAt (fun i => if i = 0 then Value.bool true else sendResult false (noticeOf .poller true).value) 0
    [.bool true, sendResult false (noticeOf .poller true).value] := ⟨rfl, rfl, trivial⟩

/-! ### `thread_manager::run` -/

/-- the input streams of the main thread in which `k` messages `pre` that are not notices are received, then `stop`;
    the box iterates in order `ks`; the two sends return `ok1`, `ok2`, the two joins `okP`, `okW` (the shapes the types
    of the operations force; `get_mailbox` finds the three ids that `run` itself registered) -/
structure MainInputs (inp : Nat → Value) (ks : List Thread) (nP nW : String) (k : Nat) (pre : Nat → RMsg)
    (stop : Recv) (ok1 ok2 okP okW : Bool) : Prop where
  order : isOrder ks = true
  web : inp 0 = .tuple [mailboxValue, dispatchValue ks]
  mboxP : inp 1 = .enumv "Some" [rxValue (chanValue .poller)]
  spawnP : inp 2 = handleValue nP
  mboxW : inp 3 = .enumv "Some" [rxValue (chanValue .writer)]
  spawnW : inp 4 = handleValue nW
  mboxM : inp 5 = .enumv "Some" [rxValue (chanValue .main)]
  ignored : ∀ i, i < k → (pre i).isNotice = false
  recvs : ∀ i, i < k → inp (6 + i) = (Recv.ok (pre i)).value
  stops : inp (6 + k) = stop.value
  send1 : inp (6 + k + 1) = sendResult ok1 RMsg.abort.value
  send2 : inp (6 + k + 2) = sendResult ok2 RMsg.abort.value
  joinP : inp (6 + k + 3) = joinResult okP
  joinW : inp (6 + k + 4) = joinResult okW

/-- **C15 on the source, the main thread**: fed ANY admissible input stream in which the notice of a worker
    (`ThreadTerminate(w)` / `ThreadPanic(w)`, `m.abs = some n`) arrives after `k` other messages, the interpreted
    `thread_manager::run` returns `()`; the operations it performed from its loop on (`evs`), read as operations of the
    model's main thread, are a program `mainProg ignored n first`, which
    (1) drives the model's control flow from `MainPc.loop` to `returned`, and
    (2) performed step by step with `stepMain` / `step _ (.mainAbort _)` on any model state whose main queue holds
        those messages and whose workers have finished, ends in `returned` with `ThreadAbort` queued for every worker
        whose receiver still exists — whatever the two sends returned (`ok1`, `ok2` are arbitrary) -/
theorem C15_main_stops_everything (inp : Nat → Value) (ks : List Thread) (nP nW : String) (k : Nat)
    (pre : Nat → RMsg) (m : RMsg) (n : Threads.Msg) (ok1 ok2 okP okW : Bool)
    (hi : MainInputs inp ks nP nW k pre (.ok m) ok1 ok2 okP okW) (hm : m.isNotice = true) (hn : m.abs = some n)
    (drift : Nat) (phc : Option (Nat × Value)) (nowNs : Int) (F : Nat) :
    ∃ (evs : List MainEv) (ignored : List Threads.Msg) (first : Worker),
      runFuel (F + k + 200) (Code.ctxWith nowNs DictThreads.ext [] inp) "thread_manager::run" .unit
        [.int .u32 drift, phcValue phc]
        = .ok .unit .unit (startEvents ks phc drift nP nW ++ evs.map MainEv.value) ∧
      evs.filterMap MainEv.abs = mainProg ignored n first ∧
      (∀ x ∈ ignored, x.isNotice = false) ∧ n.isNotice = true ∧
      mainNexts .loop (mainProg ignored n first) = some .returned ∧
      ∀ (s : State) (rest : List Threads.Msg), s.m = .loop → s.qM = ignored ++ n :: rest → s.p = .done → s.w = .done →
        ∃ s', mainRun s (mainProg ignored n first) = some s' ∧ s'.m = .returned ∧
          (s.rxP = true → Msg.abort ∈ s'.qP) ∧ (s.rxW = true → Msg.abort ∈ s'.qW) := by
  have hig := ignoredOf_nonNotice k pre hi.ignored
  have hnn := abs_notice m n hm hn
  refine ⟨mainEvs k pre (.ok m) ks ok1 ok2 nP nW okP okW, ignoredOf k pre, firstWorker ks, ?_, ?_, hig, hnn, ?_, ?_⟩
  · exact main_eq ks hi.order drift phc nP nW k F pre hi.ignored (.ok m) hm ok1 ok2 okP okW nowNs inp hi.web hi.mboxP
      hi.spawnP hi.mboxW hi.spawnW hi.mboxM hi.recvs hi.stops hi.send1 hi.send2 hi.joinP hi.joinW
  · exact mainEvs_abs k pre m n hn ks hi.order ok1 ok2 okP okW nP nW
  · exact ThreadsProgProps.main_prog_pcs _ n _ hig hnn
  · intro s rest hsm hq hp hw
    refine ⟨_, ThreadsProgProps.main_prog_run s _ rest n _ hsm hq hig hnn hp hw, rfl, ?_, ?_⟩
    · intro h; simp [sendTo, h]
    · intro h; simp [sendTo, h]

/-- non-vacuity: the concrete input stream of `CodeTieThreads.demoInp` (two ignored messages, then the poller's panic
    notice; the first Abort send fails) is admissible -/
example : MainInputs demoInp [.writer, .main, .poller] "h1" "h2" 2
    (fun i => if i = 0 then .abort else .noData .chrony) (.ok (.panic .poller)) false true false true where
  order := by decide
  web := rfl
  mboxP := rfl
  spawnP := rfl
  mboxW := rfl
  spawnW := rfl
  mboxM := rfl
  ignored := fun i hi => by match i, hi with | 0, _ => rfl | 1, _ => rfl
  recvs := fun i hi => by match i, hi with | 0, _ => rfl | 1, _ => rfl
  stops := rfl
  send1 := rfl
  send2 := rfl
  joinP := rfl
  joinW := rfl

/-! ### the two workers -/

theorem filterMap_range_length {α : Type} (f : Nat → Option α) (k : Nat) (h : ∀ i, i < k → (f i).isSome = true) :
    ((List.range k).filterMap f).length = k := by
  induction k with
  | zero => rfl
  | succ k ih =>
    rw [List.range_succ, List.filterMap_append, List.length_append, ih (fun i hi => h i (by omega))]
    have := h k (by omega)
    cases hk : f k with
    | none => simp [hk] at this
    | some x => simp [hk]

/-- **C15 on the source, the poller thread**: the interpreted `chrony_poller::run`, fed ANY admissible input stream
    (`k` trips through the loop whose mailbox check is not Abort, then the end `e`), ends in one of two ways only:
    `Ok(ThreadAbort)` at the mailbox check ⇒ it RETURNS (the model's `exiting terminate`); a failed send to the
    ShmWriter ⇒ it PANICS (`exiting panic`).  Its trips read as the model's `PollerIter`s form a program that takes the
    model's poller (`stepPoller`, `pollerClockFail`, `pollerTimeout`) from `start` to that `exiting` state -/
theorem C15_poller_thread_ends (ks : List Thread) (phc : Option (Nat × Value)) (k F : Nat) (it : Nat → PIter)
    (hcont : ∀ i, i < k → (it i).wait.continues = true) (hmiss : ∀ i, i < k → (it i).poll.phcMiss phc)
    (hrep : ∀ i, i < k → (it i).abs.isSome = true)
    (e : PEnd) (hmissE : e.poll.phcMiss phc) (hsend : ∀ p, e = .sendFailed p → p.sends = true)
    (nowNs : Int) (inp : Nat → Value) (i0 i1 : Value)
    (hin : inputsAt inp 0 (pollerStartInputs i0 i1 ++ loopInputs k it e)) :
    ∃ (log : List Value) (its : List PollerIter) (pe : PollerEnd),
      ((pe.kind = .terminate ∧
          runFuel (F + k + 200) (pollerCtx nowNs inp) "chrony_poller::run" .unit
            [contextValue .poller ks, phcValue phc] = .ok .unit .unit log) ∨
       (pe.kind = .panic ∧
          runFuel (F + k + 200) (pollerCtx nowNs inp) "chrony_poller::run" .unit
            [contextValue .poller ks, phcValue phc] = .panic)) ∧
      log = pollerStartEvents i0 i1 ++ loopEvents 1000000000 k it e ∧
      its = (List.range k).filterMap (fun i => (it i).abs) ∧ its.length = k ∧ pe = e.abs ∧
      pollerNexts .start (pollerProg its pe) = some (.exiting pe.kind) := by
  have hrun := poller_exit_eq ks phc k F it hcont hmiss e hmissE hsend nowNs inp i0 i1 hin
  refine ⟨_, _, _, ?_, rfl, rfl, filterMap_range_length _ k hrep, rfl, ?_⟩
  · cases e with
    | abort p => exact Or.inl ⟨rfl, hrun⟩
    | sendFailed p => exact Or.inr ⟨rfl, hrun⟩
  · apply ThreadsProgProps.poller_prog_pcs
    intro x hx
    simp only [List.mem_filterMap, List.mem_range] at hx
    obtain ⟨i, hi, hix⟩ := hx
    exact (poller_iter_abs (it i) x (hcont i hi) hix).2

/-- the model end of a writer run -/
def wendAbs : WEnd → WriterEnd
  | .abort => .abort
  | .handlerPanic _ => .handlerPanic .data

/-- **C15 on the source, the writer thread**: the interpreted `shm_writer::run` (in `writerCtx`), once `ShmWriter::new`
    succeeded, handles ANY sequence of messages and goes on, and ends in one of two ways only: `Ok(ThreadAbort)` ⇒ it
    RETURNS, nothing else done (`exiting terminate`); a handler panics ⇒ it panics (`exiting panic`, the model's
    `writerDie panic` at `recv`).  The handled messages, read as model messages, form a program that takes the model's
    writer (`stepWriter`) from `start` to that `exiting` state -/
theorem C15_writer_thread_ends (ks : List Thread) (drift : Nat) (k F : Nat) (ws : Nat → WStep)
    (hdone : ∀ i, i < k → (ws i).done = true) (hwf : ∀ i, i < k → (ws i).wellFormed = true)
    (e : WEnd) (he : ∀ s, e = .handlerPanic s → s.done = false) (nowNs : Int) (inp : Nat → Value)
    (hin : inputsAt inp 0 (.enumv "Ok" [.writer] :: wloopInputs k ws e)) :
    ∃ (log : List Value) (handled : List Threads.Msg) (we : WriterEnd),
      ((we.kind = .terminate ∧
          runFuel (F + k + 200) (writerCtx nowNs inp) "shm_writer::run" .unit
            [contextValue .writer ks, .int .u32 drift] = .ok .unit .unit log) ∨
       (we.kind = .panic ∧
          runFuel (F + k + 200) (writerCtx nowNs inp) "shm_writer::run" .unit
            [contextValue .writer ks, .int .u32 drift] = .panic)) ∧
      log = evOp "ShmWriter::new" [shmPathValue] (.enumv "Ok" [.writer]) :: wloopEvents k ws ∧
      handled = (List.range k).filterMap (fun i => (ws i).abs) ∧ we = wendAbs e ∧
      writerNexts .start (writerProg handled we) = some (.exiting we.kind) := by
  have hrun := writer_exit_eq ks drift k F ws hdone hwf e he nowNs inp hin
  refine ⟨_, _, _, ?_, rfl, rfl, rfl, ?_⟩
  · cases e with
    | abort => exact Or.inl ⟨rfl, hrun⟩
    | handlerPanic s => exact Or.inr ⟨rfl, hrun⟩
  · apply ThreadsProgProps.writer_prog_pcs
    · intro x hx
      simp only [List.mem_filterMap, List.mem_range] at hx
      obtain ⟨i, hi, hix⟩ := hx
      exact writer_step_abs (ws i) x (hwf i hi) hix
    · intro m hm
      cases e <;> simp [wendAbs] at hm
      subst hm
      simp

/-- **C15 on the source, the writer's start-up failure**: `ShmWriter::new` fails ⇒ `shm_writer::run` panics before it
    ever looks at its mailbox: the model's `writerDie panic` at `start` -/
theorem C15_writer_open_failure (ks : List Thread) (drift : Nat) (F : Nat) (err : Value) (nowNs : Int)
    (inp : Nat → Value) (h0 : inp 0 = .enumv "Err" [err]) :
    runFuel (F + 200) (writerCtx nowNs inp) "shm_writer::run" .unit [contextValue .writer ks, .int .u32 drift]
      = .panic ∧
    writerNexts .start (writerProg [] .openFailed) = some (.exiting .panic) :=
  ⟨writer_open_failed_eq ks drift F err nowNs inp h0, by decide⟩

example : inputsAt (fun i => if i = 0 then Value.enumv "Ok" [.writer] else (Recv.ok .abort).value) 0
    (.enumv "Ok" [.writer] :: wloopInputs 0 (fun _ => .disconnected) .abort) := ⟨rfl, rfl, trivial⟩

end ClockBound.OnCode
