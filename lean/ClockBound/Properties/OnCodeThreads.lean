/-
  C15 (one dead worker stops the daemon) stated ABOUT THE SOURCE (see `OnCodeClient.lean` for the reading): each
  theorem mentions the regenerated AST `Generated.Code` run by the interpreter (`Rs.run` / `runFuel`, dictionary
  `Rs/DictThreads.lean`: every channel / thread operation is an event whose result is the next input) and the thread
  model of C15 (`Model/Threads.lean`: `stepMain`, `stepPoller`, `stepWriter`, `step`; `Model/ThreadsProg.lean`: the
  same threads as programs over operations, `mainDo` / `mainNext` … being DEFINED by those step functions).  The
  closed forms (`mainProg`, `pollerProg`, `writerProg`) occur as existential witnesses: "the operations the code
  performs, read as model operations, are SOME program `p`, and `p` drives the model thread from its first program
  counter to its last".

  What is composed (tie ∘ closed form ∘ step functions), per thread, for WHOLE runs (the ties already lift the
  per-iteration facts over any number of iterations by `evalWhile_skip`):
  * `C15_drop_reports_*`   — `Drop for Context::drop` IS the model's step `exiting k → dropping`: one send of
    `notice w k` to main, `k = panic` iff `panicking()`;
  * `C15_main_stops_everything` — `thread_manager::run`: once a worker's notice is received, whatever was received
    before and whatever the sends return: Abort to both workers, both joins, return; as steps of `stepMain` / `step`
    from `MainPc.loop` this ends in `returned` with Abort queued for every worker whose receiver still exists
    (the conclusion of `C15.abort_broadcast`);
  * `C15_main_code_within_model`, `C15_main_model_within_code` — the operation sequences of the interpreted main thread
    and those the model's main thread accepts are THE SAME prefix-closed set (the two inclusions);
  * `C15_main_in_every_schedule` — in every execution of the thread system (all schedules, all fault points) what main
    has done so far is a prefix of what the interpreted `run` does; `C15_exits_after_death` puts C15's headline
    (`exits_after_death_bound`) next to it;
  * `C15_poller_thread_ends`, `C15_writer_thread_ends`, `C15_writer_open_failure` — the two workers from their entry
    functions: they leave only by Abort (the function returns: the model's `exiting terminate`) or by the failure the
    model has (`exiting panic`), and until then go round their loops.

  NOT composed (reported): C15's headline `exits_after_death_bound` quantifies over interleavings (`Threads.step`
  schedules, rounds); the interpreter is big-step per thread function against an input stream and has no
  interleaving semantics, so "the system of the four interpreted functions" is not an object of this development.
  What is proved is that each thread of `Threads.step` has the control flow of the corresponding interpreted function
  (main: equality of behaviours; workers and drop: every complete run of the code is a run of the model thread).
-/
import ClockBound.Proofs.OnCodeThreads
import ClockBound.Properties.C15
namespace ClockBound.OnCode
open ClockBound ClockBound.Rs ClockBound.Generated ClockBound.Rs.DictThreads ClockBound.Rs.EmbedThreads
open ClockBound.Rs.EmbedWorkers ClockBound.Threads ClockBound.ThreadsProg ClockBound.Rs.ThreadsProof
open ClockBound.CodeTieThreads ClockBound.OnCodeProof

/-- how a thread function that ended is dropped: unwinding from a panic, or normally -/
def kindOf (panicking : Bool) : Kind := if panicking = true then .panic else .terminate

/-! ### `Drop for Context::drop` -/

/-- **C15 on the source, the death notice (poller)**: the interpreted `Context::drop` of the poller's context sends
    exactly one message, to main's channel: the notice the model's `exiting k` step queues (`k = panic` iff
    `panicking()`), whether or not the send succeeds; it returns and leaves the context as it was -/
theorem C15_drop_reports_poller (ks : List Thread) (p ok : Bool) (nowNs : Int) (inp : Nat → Value)
    (h0 : inp 0 = .bool p) (h1 : inp 1 = sendResult ok (noticeOf .poller p).value) :
    ∃ (m : RMsg),
      run (Code.ctxWith nowNs DictThreads.ext [] inp) "Drop for Context::drop" (contextValue .poller ks) []
        = .ok .unit (contextValue .poller ks)
            [evPanicking (.bool p), evSend (chanValue .main) m.value (sendResult ok m.value)] ∧
      m.abs = some (.notice .poller (kindOf p)) ∧
      ∀ s : State, s.p = .exiting (kindOf p) →
        stepPoller s = some { s with p := .dropping, qM := sendTo s.m.rxAlive s.qM (.notice .poller (kindOf p)) } := by
  refine ⟨noticeOf .poller p, drop_eq .poller ks p ok nowNs inp h0 h1, ?_, fun s hs => ?_⟩
  · cases p <;> rfl
  · exact (ThreadsProgProps.drop_step_poller s _ hs).1

theorem C15_drop_reports_writer (ks : List Thread) (p ok : Bool) (nowNs : Int) (inp : Nat → Value)
    (h0 : inp 0 = .bool p) (h1 : inp 1 = sendResult ok (noticeOf .writer p).value) :
    ∃ (m : RMsg),
      run (Code.ctxWith nowNs DictThreads.ext [] inp) "Drop for Context::drop" (contextValue .writer ks) []
        = .ok .unit (contextValue .writer ks)
            [evPanicking (.bool p), evSend (chanValue .main) m.value (sendResult ok m.value)] ∧
      m.abs = some (.notice .writer (kindOf p)) ∧
      ∀ s : State, s.w = .exiting (kindOf p) →
        stepWriter s = some { s with w := .dropping, qM := sendTo s.m.rxAlive s.qM (.notice .writer (kindOf p)) } := by
  refine ⟨noticeOf .writer p, drop_eq .writer ks p ok nowNs inp h0 h1, ?_, fun s hs => ?_⟩
  · cases p <;> rfl
  · exact (ThreadsProgProps.drop_step_writer s _ hs).1

example : inputsAt (fun i => if i = 0 then Value.bool true else sendResult false (noticeOf .poller true).value) 0
    [.bool true, sendResult false (noticeOf .poller true).value] := ⟨rfl, rfl, trivial⟩

/-! ### `thread_manager::run` -/

/-- the input streams of the main thread in which `k` messages `pre` that are not notices are received, then `stop`;
    the box iterates in order `ks`; the two sends return `ok1`, `ok2`, the two joins `okP`, `okW` (the shapes the types
    of the operations force; `get_mailbox` finds the three ids that `run` itself registered) -/
structure MainInputs (inp : Nat → Value) (ks : List Thread) (nP nW : String) (k : Nat) (pre : Nat → RMsg)
    (stop : Recv) (ok1 ok2 okP okW : Bool) : Prop where
  order : isOrder ks = true
  web : inp 0 = .tuple [mailboxValue, dispatchValue ks]
  mboxP : inp 1 = .enumv "Some" [rxValue (chanValue .poller)]
  spawnP : inp 2 = handleValue nP
  mboxW : inp 3 = .enumv "Some" [rxValue (chanValue .writer)]
  spawnW : inp 4 = handleValue nW
  mboxM : inp 5 = .enumv "Some" [rxValue (chanValue .main)]
  ignored : ∀ i, i < k → (pre i).isNotice = false
  recvs : ∀ i, i < k → inp (6 + i) = (Recv.ok (pre i)).value
  stops : inp (6 + k) = stop.value
  send1 : inp (6 + k + 1) = sendResult ok1 RMsg.abort.value
  send2 : inp (6 + k + 2) = sendResult ok2 RMsg.abort.value
  joinP : inp (6 + k + 3) = joinResult okP
  joinW : inp (6 + k + 4) = joinResult okW

/-- **C15 on the source, the main thread**: fed ANY admissible input stream in which the notice of a worker
    (`ThreadTerminate(w)` / `ThreadPanic(w)`, `m.abs = some n`) arrives after `k` other messages, the interpreted
    `thread_manager::run` returns `()`; the operations it performed from its loop on (`evs`), read as operations of the
    model's main thread, are a program `mainProg ignored n first`, which
    (1) drives the model's control flow from `MainPc.loop` to `returned`, and
    (2) performed step by step with `stepMain` / `step _ (.mainAbort _)` on any model state whose main queue holds
        those messages and whose workers have finished, ends in `returned` with `ThreadAbort` queued for every worker
        whose receiver still exists — whatever the two sends returned (`ok1`, `ok2` are arbitrary) -/
theorem C15_main_stops_everything (inp : Nat → Value) (ks : List Thread) (nP nW : String) (k : Nat)
    (pre : Nat → RMsg) (m : RMsg) (n : Threads.Msg) (ok1 ok2 okP okW : Bool)
    (hi : MainInputs inp ks nP nW k pre (.ok m) ok1 ok2 okP okW) (hm : m.isNotice = true) (hn : m.abs = some n)
    (drift : Nat) (phc : Option (Nat × Value)) (nowNs : Int) (F : Nat) :
    ∃ (evs : List MainEv) (ignored : List Threads.Msg) (first : Worker),
      runFuel (F + k + 200) (Code.ctxWith nowNs DictThreads.ext [] inp) "thread_manager::run" .unit
        [.int .u32 drift, phcValue phc]
        = .ok .unit .unit (startEvents ks phc drift nP nW ++ evs.map MainEv.value) ∧
      evs.filterMap MainEv.abs = mainProg ignored n first ∧
      (∀ x ∈ ignored, x.isNotice = false) ∧ n.isNotice = true ∧
      mainNexts .loop (mainProg ignored n first) = some .returned ∧
      ∀ (s : State) (rest : List Threads.Msg), s.m = .loop → s.qM = ignored ++ n :: rest → s.p = .done → s.w = .done →
        ∃ s', mainRun s (mainProg ignored n first) = some s' ∧ s'.m = .returned ∧
          (s.rxP = true → Msg.abort ∈ s'.qP) ∧ (s.rxW = true → Msg.abort ∈ s'.qW) := by
  have hig := ignoredOf_nonNotice k pre hi.ignored
  have hnn := abs_notice m n hm hn
  refine ⟨mainEvs k pre (.ok m) ks ok1 ok2 nP nW okP okW, ignoredOf k pre, firstWorker ks, ?_, ?_, hig, hnn, ?_, ?_⟩
  · exact main_eq ks hi.order drift phc nP nW k F pre hi.ignored (.ok m) hm ok1 ok2 okP okW nowNs inp hi.web hi.mboxP
      hi.spawnP hi.mboxW hi.spawnW hi.mboxM hi.recvs hi.stops hi.send1 hi.send2 hi.joinP hi.joinW
  · exact mainEvs_abs k pre m n hn ks hi.order ok1 ok2 okP okW nP nW
  · exact ThreadsProgProps.main_prog_pcs _ n _ hig hnn
  · intro s rest hsm hq hp hw
    refine ⟨_, ThreadsProgProps.main_prog_run s _ rest n _ hsm hq hig hnn hp hw, rfl, ?_, ?_⟩
    · intro h; simp [sendTo, h]
    · intro h; simp [sendTo, h]

/-- non-vacuity: the concrete input stream of `CodeTieThreads.demoInp` (two ignored messages, then the poller's panic
    notice; the first Abort send fails) is admissible -/
example : MainInputs demoInp [.writer, .main, .poller] "h1" "h2" 2
    (fun i => if i = 0 then .abort else .noData .chrony) (.ok (.panic .poller)) false true false true where
  order := by decide
  web := rfl
  mboxP := rfl
  spawnP := rfl
  mboxW := rfl
  spawnW := rfl
  mboxM := rfl
  ignored := fun i hi => by match i, hi with | 0, _ => rfl | 1, _ => rfl
  recvs := fun i hi => by match i, hi with | 0, _ => rfl | 1, _ => rfl
  stops := rfl
  send1 := rfl
  send2 := rfl
  joinP := rfl
  joinW := rfl

/-- for every scenario there IS an admissible input stream -/
def scenarioInp (ks : List Thread) (nP nW : String) (k : Nat) (pre : Nat → RMsg) (stop : Recv)
    (ok1 ok2 okP okW : Bool) : Nat → Value
  | 0 => .tuple [mailboxValue, dispatchValue ks]
  | 1 => .enumv "Some" [rxValue (chanValue .poller)]
  | 2 => handleValue nP
  | 3 => .enumv "Some" [rxValue (chanValue .writer)]
  | 4 => handleValue nW
  | 5 => .enumv "Some" [rxValue (chanValue .main)]
  | j + 6 =>
    if j < k then (Recv.ok (pre j)).value
    else if j = k then stop.value
    else if j = k + 1 then sendResult ok1 RMsg.abort.value
    else if j = k + 2 then sendResult ok2 RMsg.abort.value
    else if j = k + 3 then joinResult okP
    else joinResult okW

theorem scenarioInp_admissible (ks : List Thread) (hks : isOrder ks = true) (nP nW : String) (k : Nat)
    (pre : Nat → RMsg) (hpre : ∀ i, i < k → (pre i).isNotice = false) (stop : Recv) (ok1 ok2 okP okW : Bool) :
    MainInputs (scenarioInp ks nP nW k pre stop ok1 ok2 okP okW) ks nP nW k pre stop ok1 ok2 okP okW where
  order := hks
  web := rfl
  mboxP := rfl
  spawnP := rfl
  mboxW := rfl
  spawnW := rfl
  mboxM := rfl
  ignored := hpre
  recvs := fun i hi => by
    rw [Nat.add_comm 6 i]
    simp only [scenarioInp, hi, if_true]
  stops := by
    rw [Nat.add_comm 6 k]
    simp only [scenarioInp, Nat.lt_irrefl, if_false, if_true]
  send1 := by
    have e : 6 + k + 1 = (k + 1) + 6 := by omega
    rw [e]
    simp [scenarioInp]
    omega
  send2 := by
    have e : 6 + k + 2 = (k + 2) + 6 := by omega
    rw [e]
    simp [scenarioInp]
    omega
  joinP := by
    have e : 6 + k + 3 = (k + 3) + 6 := by omega
    rw [e]
    simp [scenarioInp]
    omega
  joinW := by
    have e : 6 + k + 4 = (k + 4) + 6 := by omega
    rw [e]
    simp [scenarioInp]
    omega

/-- **C15 on the source, main: the code stays within the model.**  Every operation sequence the interpreted main
    thread can have performed at any moment of a run that receives a worker's notice (every prefix of its operations,
    read as model operations) is accepted by the model's main thread (`mainNext`, i.e. `stepMain` / `mainAbort`) -/
theorem C15_main_code_within_model (inp : Nat → Value) (ks : List Thread) (nP nW : String) (k : Nat)
    (pre : Nat → RMsg) (m : RMsg) (n : Threads.Msg) (ok1 ok2 okP okW : Bool)
    (hi : MainInputs inp ks nP nW k pre (.ok m) ok1 ok2 okP okW) (hm : m.isNotice = true) (hn : m.abs = some n)
    (drift : Nat) (phc : Option (Nat × Value)) (nowNs : Int) (F : Nat) :
    ∃ evs : List MainEv,
      runFuel (F + k + 200) (Code.ctxWith nowNs DictThreads.ext [] inp) "thread_manager::run" .unit
        [.int .u32 drift, phcValue phc]
        = .ok .unit .unit (startEvents ks phc drift nP nW ++ evs.map MainEv.value) ∧
      ∀ ops, ops <+: evs.filterMap MainEv.abs → ∃ pc, mainNexts .loop ops = some pc := by
  obtain ⟨evs, ig, f, hrun, habs, hig, hnn, _, _⟩ :=
    C15_main_stops_everything inp ks nP nW k pre m n ok1 ok2 okP okW hi hm hn drift phc nowNs F
  exact ⟨evs, hrun, fun ops hp => accepts_of_prefix ops ig n f hig hnn (habs ▸ hp)⟩

/-- **C15 on the source, main: the model stays within the code.**  Every operation sequence the model's main thread
    accepts from `MainPc.loop` (every control path of `stepMain` / `mainAbort`, complete or not) is a prefix of the
    operations of the interpreted `thread_manager::run` on SOME admissible input stream: the model's main thread has
    no behaviour the source does not have -/
theorem C15_main_model_within_code (ops : List MainOp) (pc : MainPc) (h : mainNexts .loop ops = some pc)
    (drift : Nat) (phc : Option (Nat × Value)) (nowNs : Int) :
    ∃ (inp : Nat → Value) (ks : List Thread) (k : Nat) (pre : Nat → RMsg) (m : RMsg) (evs : List MainEv),
      MainInputs inp ks "p" "w" k pre (.ok m) true true true true ∧ m.isNotice = true ∧
      runFuel (k + 200) (Code.ctxWith nowNs DictThreads.ext [] inp) "thread_manager::run" .unit
        [.int .u32 drift, phcValue phc]
        = .ok .unit .unit (startEvents ks phc drift "p" "w" ++ evs.map MainEv.value) ∧
      ops <+: evs.filterMap MainEv.abs := by
  obtain ⟨ig, n, f, hig, hn, hp⟩ := prefix_of_accepts ops pc h
  have hpre : ∀ i, i < ig.length → (reprMsg (ig.getD i .data)).isNotice = false := by
    intro i hi
    rw [reprMsg_isNotice]
    exact hig _ (getD_mem ig .data i hi)
  have hadm := scenarioInp_admissible (orderOf f) (orderOf_isOrder f) "p" "w" ig.length
    (fun j => reprMsg (ig.getD j .data)) hpre (.ok (reprMsg n)) true true true true
  have hmn : (reprMsg n).isNotice = true := by rw [reprMsg_isNotice]; exact hn
  have hrun := main_eq (orderOf f) hadm.order drift phc "p" "w" ig.length 0 _ hadm.ignored (.ok (reprMsg n)) hmn
    true true true true nowNs _ hadm.web hadm.mboxP hadm.spawnP hadm.mboxW hadm.spawnW hadm.mboxM hadm.recvs hadm.stops
    hadm.send1 hadm.send2 hadm.joinP hadm.joinW
  have habs := mainEvs_abs ig.length (fun j => reprMsg (ig.getD j .data)) (reprMsg n) n (reprMsg_abs n) (orderOf f)
    (orderOf_isOrder f) true true true true "p" "w"
  rw [Nat.zero_add] at hrun
  refine ⟨_, _, _, _, _, _, hadm, hmn, hrun, ?_⟩
  rw [habs, ignoredOf_repr, orderOf_first]
  exact hp

/-- **C15 on the source, main in the thread system.**  In EVERY execution of the thread system of C15 (`Threads.run init
    acts`: every schedule, every fault point of either worker), the operations the main thread has performed so far
    (`mainTrace`: its receives with the messages received, its Abort sends, its joins) are a prefix of the operations of
    the interpreted `thread_manager::run` on some admissible input stream, and its program counter is where that
    operation sequence leads -/
theorem C15_main_in_every_schedule (acts : List Action) (s : State) (h : Threads.run Threads.init acts = some s)
    (drift : Nat) (phc : Option (Nat × Value)) (nowNs : Int) :
    ∃ (inp : Nat → Value) (ks : List Thread) (k : Nat) (pre : Nat → RMsg) (m : RMsg) (evs : List MainEv),
      MainInputs inp ks "p" "w" k pre (.ok m) true true true true ∧ m.isNotice = true ∧
      runFuel (k + 200) (Code.ctxWith nowNs DictThreads.ext [] inp) "thread_manager::run" .unit
        [.int .u32 drift, phcValue phc]
        = .ok .unit .unit (startEvents ks phc drift "p" "w" ++ evs.map MainEv.value) ∧
      mainTrace Threads.init acts <+: evs.filterMap MainEv.abs ∧
      mainNexts .loop (mainTrace Threads.init acts) = some s.m := by
  have ht := run_mainTrace Threads.init s acts h
  obtain ⟨inp, ks, k, pre, m, evs, h1, h2, h3, h4⟩ := C15_main_model_within_code _ _ ht drift phc nowNs
  exact ⟨inp, ks, k, pre, m, evs, h1, h2, h3, h4, ht⟩

/-- **C15's headline next to it**: in every execution in which a worker has ended (died at any point, or left its loop),
    every continuation of at least `24 + |main queue| + |writer queue|` rounds ends with `run` returned and both workers
    finished (`C15.exits_after_death_bound`, a theorem about `Threads.step`), and what main did up to the death is what
    the interpreted `thread_manager::run` does (`C15_main_in_every_schedule`).  The transport of the first conjunct to a
    system made of the four interpreted functions is NOT proved: see the header. -/
theorem C15_exits_after_death (acts : List Action) (s s' : State) (n : Nat)
    (h : Threads.run Threads.init acts = some s) (he : Ended s) (hr : Rounds n s s')
    (hn : 24 + s.qM.length + s.qW.length ≤ n) :
    (s'.m = .returned ∧ s'.p = .done ∧ s'.w = .done) ∧
    ∃ pc, mainNexts .loop (mainTrace Threads.init acts) = some pc ∧ pc = s.m :=
  ⟨C15.exits_after_death_bound (run_reachable .init h) he hr hn, _, run_mainTrace Threads.init s acts h, rfl⟩

/-- non-vacuity: the schedule of `C15.toPollerDies2` (the poller panics in its second trip) followed by main's receive -/
example : mainTrace Threads.init (C15.toPollerDies2 ++ [.main]) = [.recv (.notice .poller .panic)] := by decide

/-! ### the two workers -/

theorem filterMap_range_length {α : Type} (f : Nat → Option α) (k : Nat) (h : ∀ i, i < k → (f i).isSome = true) :
    ((List.range k).filterMap f).length = k := by
  induction k with
  | zero => rfl
  | succ k ih =>
    rw [List.range_succ, List.filterMap_append, List.length_append, ih (fun i hi => h i (by omega))]
    have := h k (by omega)
    cases hk : f k with
    | none => simp [hk] at this
    | some x => simp [hk]

/-- **C15 on the source, the poller thread**: the interpreted `chrony_poller::run`, fed ANY admissible input stream
    (`k` trips through the loop whose mailbox check is not Abort, then the end `e`), ends in one of two ways only:
    `Ok(ThreadAbort)` at the mailbox check ⇒ it RETURNS (the model's `exiting terminate`); a failed send to the
    ShmWriter ⇒ it PANICS (`exiting panic`).  Its trips read as the model's `PollerIter`s form a program that takes the
    model's poller (`stepPoller`, `pollerClockFail`, `pollerTimeout`) from `start` to that `exiting` state -/
theorem C15_poller_thread_ends (ks : List Thread) (phc : Option (Nat × Value)) (k F : Nat) (it : Nat → PIter)
    (hcont : ∀ i, i < k → (it i).wait.continues = true) (hmiss : ∀ i, i < k → (it i).poll.phcMiss phc)
    (hrep : ∀ i, i < k → (it i).abs.isSome = true)
    (e : PEnd) (hmissE : e.poll.phcMiss phc) (hsend : ∀ p, e = .sendFailed p → p.sends = true)
    (nowNs : Int) (inp : Nat → Value) (i0 i1 : Value)
    (hin : inputsAt inp 0 (pollerStartInputs i0 i1 ++ loopInputs k it e)) :
    ∃ (log : List Value) (its : List PollerIter) (pe : PollerEnd),
      ((pe.kind = .terminate ∧
          runFuel (F + k + 200) (pollerCtx nowNs inp) "chrony_poller::run" .unit
            [contextValue .poller ks, phcValue phc] = .ok .unit .unit log) ∨
       (pe.kind = .panic ∧
          runFuel (F + k + 200) (pollerCtx nowNs inp) "chrony_poller::run" .unit
            [contextValue .poller ks, phcValue phc] = .panic)) ∧
      log = pollerStartEvents i0 i1 ++ loopEvents 1000000000 k it e ∧
      its = (List.range k).filterMap (fun i => (it i).abs) ∧ its.length = k ∧ pe = e.abs ∧
      pollerNexts .start (pollerProg its pe) = some (.exiting pe.kind) := by
  have hrun := poller_exit_eq ks phc k F it hcont hmiss e hmissE hsend nowNs inp i0 i1 hin
  refine ⟨_, _, _, ?_, rfl, rfl, filterMap_range_length _ k hrep, rfl, ?_⟩
  · cases e with
    | abort p => exact Or.inl ⟨rfl, hrun⟩
    | sendFailed p => exact Or.inr ⟨rfl, hrun⟩
  · apply ThreadsProgProps.poller_prog_pcs
    intro x hx
    simp only [List.mem_filterMap, List.mem_range] at hx
    obtain ⟨i, hi, hix⟩ := hx
    exact (poller_iter_abs (it i) x (hcont i hi) hix).2

/-- the model end of a writer run -/
def wendAbs : WEnd → WriterEnd
  | .abort => .abort
  | .handlerPanic _ => .handlerPanic .data

/-- **C15 on the source, the writer thread**: the interpreted `shm_writer::run` (in `writerCtx`), once `ShmWriter::new`
    succeeded, handles ANY sequence of messages and goes on, and ends in one of two ways only: `Ok(ThreadAbort)` ⇒ it
    RETURNS, nothing else done (`exiting terminate`); a handler panics ⇒ it panics (`exiting panic`, the model's
    `writerDie panic` at `recv`).  The handled messages, read as model messages, form a program that takes the model's
    writer (`stepWriter`) from `start` to that `exiting` state -/
theorem C15_writer_thread_ends (ks : List Thread) (drift : Nat) (k F : Nat) (ws : Nat → WStep)
    (hdone : ∀ i, i < k → (ws i).done = true) (hwf : ∀ i, i < k → (ws i).wellFormed = true)
    (e : WEnd) (he : ∀ s, e = .handlerPanic s → s.done = false) (nowNs : Int) (inp : Nat → Value)
    (hin : inputsAt inp 0 (.enumv "Ok" [.writer] :: wloopInputs k ws e)) :
    ∃ (log : List Value) (handled : List Threads.Msg) (we : WriterEnd),
      ((we.kind = .terminate ∧
          runFuel (F + k + 200) (writerCtx nowNs inp) "shm_writer::run" .unit
            [contextValue .writer ks, .int .u32 drift] = .ok .unit .unit log) ∨
       (we.kind = .panic ∧
          runFuel (F + k + 200) (writerCtx nowNs inp) "shm_writer::run" .unit
            [contextValue .writer ks, .int .u32 drift] = .panic)) ∧
      log = evOp "ShmWriter::new" [shmPathValue] (.enumv "Ok" [.writer]) :: wloopEvents k ws ∧
      handled = (List.range k).filterMap (fun i => (ws i).abs) ∧ we = wendAbs e ∧
      writerNexts .start (writerProg handled we) = some (.exiting we.kind) := by
  have hrun := writer_exit_eq ks drift k F ws hdone hwf e he nowNs inp hin
  refine ⟨_, _, _, ?_, rfl, rfl, rfl, ?_⟩
  · cases e with
    | abort => exact Or.inl ⟨rfl, hrun⟩
    | handlerPanic s => exact Or.inr ⟨rfl, hrun⟩
  · apply ThreadsProgProps.writer_prog_pcs
    · intro x hx
      simp only [List.mem_filterMap, List.mem_range] at hx
      obtain ⟨i, hi, hix⟩ := hx
      exact writer_step_abs (ws i) x (hwf i hi) hix
    · intro m hm
      cases e <;> simp [wendAbs] at hm
      subst hm
      simp

/-- **C15 on the source, the writer's start-up failure**: `ShmWriter::new` fails ⇒ `shm_writer::run` panics before it
    ever looks at its mailbox: the model's `writerDie panic` at `start` -/
theorem C15_writer_open_failure (ks : List Thread) (drift : Nat) (F : Nat) (err : Value) (nowNs : Int)
    (inp : Nat → Value) (h0 : inp 0 = .enumv "Err" [err]) :
    runFuel (F + 200) (writerCtx nowNs inp) "shm_writer::run" .unit [contextValue .writer ks, .int .u32 drift]
      = .panic ∧
    writerNexts .start (writerProg [] .openFailed) = some (.exiting .panic) :=
  ⟨writer_open_failed_eq ks drift F err nowNs inp h0, by decide⟩

example : inputsAt (fun i => if i = 0 then Value.enumv "Ok" [.writer] else (Recv.ok .abort).value) 0
    (.enumv "Ok" [.writer] :: wloopInputs 0 (fun _ => .disconnected) .abort) := ⟨rfl, rfl, trivial⟩

end ClockBound.OnCode
