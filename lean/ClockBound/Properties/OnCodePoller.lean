/-
  C13 and the daemon half of C12 stated ABOUT THE SOURCE (see `OnCodeClient.lean` for the reading): each theorem
  mentions the regenerated AST `Generated.Code` of clock-bound-d/src/chrony_poller.rs run by the interpreter with the
  dictionary `Rs/DictPoller.lean`, and the oracle of the property (`C13.Holds`, `C12d.Holds` / `C12d.HoldsIter`: the
  decidable predicates the correspondence check evaluates on the real daemon's messages and read logs).  The model
  (`pollStep`, `Poller.run`) occurs only as the witness of an existential: "the messages in the code's event log are
  the embedding of SOME list `msgs`, and `msgs` satisfies the oracle for the environment's history".
  Compositions of `CodeTiePoller.run_eq` / `loop_eq` / `iteration_eq` with `C13.model_holds`, `C12d.holds_from`,
  `C12d.holdsIter_step`, `C13.startup_run_all_unknown`; bridging lemmas in `Proofs/OnCodePoller.lean`:
  `sentOf` (the messages of the `send` events of a log), `obsLogOf` (the harness's observation codes of its
  events), `chunksOf` (the log cut after every wait on the mailbox: one chunk per loop iteration).

  What the environment is: a history `xs ++ [last]` of loop iterations, each with the model's inputs (`PollIter`:
  the monotonic reading, chronyd's reply, the `Instant` readings, the state of the sysfs file) and the rest
  (`IterEnv`: what `send` and `recv_timeout` return, ..); `recv_timeout` returns `Ok(ThreadAbort)` exactly in the
  last one; every `send` succeeds; the input stream provides what these iterations consume (`pollRunInputs`).

  A limit of the tie shows here: when the thread panics (`expect` on an unparsable sysfs value) the interpreter's
  result is `Outcome.panic`, which carries no log.  So for a panicking run the theorems say that it panics and
  that the model's message list for this history ends in `panic` (and satisfies the oracle), but the messages sent
  BEFORE the panic are not stated about the code.
-/
import ClockBound.Proofs.OnCodePoller
namespace ClockBound.OnCode
open ClockBound ClockBound.Rs ClockBound.Generated ClockBound.Rs.DictPoller

/-- decoding is unambiguous: two messages (not the model's pseudo-message `panic`) with the same embedding are equal -/
theorem pollMsgValue_inj (m1 m2 : PollMsg) (h1 : m1 ≠ .panic) (h2 : m2 ≠ .panic)
    (h : pollMsgValue m1 = pollMsgValue m2) : m1 = m2 := by
  cases m1 <;> cases m2 <;> simp [pollMsgValue, trackingValue, ctimespecValue] at h h1 h2 ⊢
  case data.data t1 p1 a1 t2 p2 a2 =>
    obtain ⟨⟨h1, h2, h3, h4, h5, h6, h7⟩, hp, ha1, ha2⟩ := h
    refine ⟨?_, hp, ?_⟩
    · cases t1; cases t2; simp_all
    · cases a1; cases a2; simp_all

/-- **C13 on the source** — the poller thread's entry point `chrony_poller::run(ctx, phc_info)` of the current
    source (`ClockErrorBoundPoller::default()` at `Instant` `tStart`, then the loop), on ANY history of iterations
    ending with `ThreadAbort`: either it runs to completion, returns `()`, and the messages it sent to the
    ShmWriter channel, in order (`sentOf log`), one per iteration, are the embedding of a list `msgs` that satisfies
    the C13 oracle for this history (silence: FreeRunning-class iff the last accepted Tracking reply is less than
    5 s old, Unknown-class at once when there never was one; matching PHC reference: the sysfs value is attached,
    an unreadable file gives a failure message, never a measurement; other reference / no PHC: bound 0); or the
    thread panics, and the oracle-satisfying list ends in the model's `panic`. -/
theorem C13_run (nowNs : Int) (inp : Nat → Value) (refid : Option Nat) (e0 : IterEnv)
    (hsleep : e0.sleepNs = 1000000000) (last : IterIn) (hlast : last.ok e0) (habort : last.env.isAbort = true)
    (xs : List IterIn) (hxs : ∀ x ∈ xs, x.ok e0 ∧ x.env.isAbort = false) (tStart : Int)
    (ht : instantLo ≤ tStart - GRACE_NS) (h0 : inp 0 = instant tStart)
    (hin : inputsAt inp 1 (pollRunInputs refid (Poller.init tStart) (xs ++ [last]))) (F : Nat)
    (hF : xs.length + 85 ≤ F) :
    ∃ msgs : List PollMsg,
      C13.Holds tStart refid ((xs ++ [last]).map IterIn.it) msgs = true ∧
      ((runFuel F (CodeTiePoller.ctxP nowNs inp) "chrony_poller::run" .unit
          [contextValue "ChannelId::ClockErrorBoundPoller", optPhcValue e0.path refid] = .panic ∧
        PollMsg.panic ∈ msgs) ∨
       (∃ log, runFuel F (CodeTiePoller.ctxP nowNs inp) "chrony_poller::run" .unit
          [contextValue "ChannelId::ClockErrorBoundPoller", optPhcValue e0.path refid] = .ok .unit .unit log ∧
        sentOf log = msgs.map pollMsgValue ∧ PollMsg.panic ∉ msgs ∧ msgs.length = xs.length + 1)) := by
  refine ⟨Poller.run tStart refid ((xs ++ [last]).map IterIn.it), C13.model_holds _ _ _, ?_⟩
  rw [CodeTiePoller.run_eq nowNs inp refid e0 hsleep last hlast habort xs hxs tStart ht h0 hin F hF]
  cases hr : pollRun refid (Poller.init tStart) (xs ++ [last]) with
  | none => exact Or.inl ⟨rfl, (pollRun_none_iff_runFrom_panics _ _ _).1 hr⟩
  | some p =>
    obtain ⟨s', l⟩ := p
    obtain ⟨hs, hnp⟩ := pollRun_sent refid _ _ _ _ hr
    refine Or.inr ⟨_, rfl, ?_, hnp, ?_⟩
    · show sentOf ([evInstantNow (instant tStart)] ++ l) = _
      rw [sentOf_append, hs]; rfl
    · have := Poller.runFrom_length_of_no_panic refid _ _ hnp
      simpa [Poller.run] using this

/-- **C13 on the source, start-up clause spelled out**: a daemon that never gets a Tracking reply (every reply
    is a silence: `Err` or a non-Tracking body) and whose `Instant` readings do not go backwards sends
    `Message::ChronyNotResponding` — the Unknown-class message, never the grace-period one — in EVERY iteration,
    from the first one on -/
theorem C13_startup_run (nowNs : Int) (inp : Nat → Value) (refid : Option Nat) (e0 : IterEnv)
    (hsleep : e0.sleepNs = 1000000000) (last : IterIn) (hlast : last.ok e0) (habort : last.env.isAbort = true)
    (xs : List IterIn) (hxs : ∀ x ∈ xs, x.ok e0 ∧ x.env.isAbort = false) (tStart : Int)
    (ht : instantLo ≤ tStart - GRACE_NS) (h0 : inp 0 = instant tStart)
    (hin : inputsAt inp 1 (pollRunInputs refid (Poller.init tStart) (xs ++ [last]))) (F : Nat)
    (hF : xs.length + 85 ≤ F)
    (hsil : ∀ x ∈ xs ++ [last], x.it.reply.isSilence = true)
    (hmono : C13.Monotone tStart refid ((xs ++ [last]).map IterIn.it)) :
    ∃ log, runFuel F (CodeTiePoller.ctxP nowNs inp) "chrony_poller::run" .unit
        [contextValue "ChannelId::ClockErrorBoundPoller", optPhcValue e0.path refid] = .ok .unit .unit log ∧
      sentOf log = (xs ++ [last]).map (fun _ => .enumv "Message::ChronyNotResponding" []) := by
  have hall : ∀ i ∈ (xs ++ [last]).map IterIn.it, i.reply.isSilence = true := by
    intro i hi
    obtain ⟨x, hx, rfl⟩ := List.mem_map.1 hi
    exact hsil x hx
  have hrun := C13.startup_run_all_unknown tStart refid _ hall hmono
  obtain ⟨msgs, -, hcase⟩ := C13_run nowNs inp refid e0 hsleep last hlast habort xs hxs tStart ht h0 hin F hF
  rw [CodeTiePoller.run_eq nowNs inp refid e0 hsleep last hlast habort xs hxs tStart ht h0 hin F hF]
  cases hr : pollRun refid (Poller.init tStart) (xs ++ [last]) with
  | none =>
    have := (pollRun_none_iff_runFrom_panics _ _ _).1 hr
    rw [show Poller.runFrom refid (Poller.init tStart) _ = Poller.run tStart refid _ from rfl, hrun] at this
    simp at this
  | some p =>
    obtain ⟨s', l⟩ := p
    obtain ⟨hs, -⟩ := pollRun_sent refid _ _ _ _ hr
    refine ⟨_, rfl, ?_⟩
    show sentOf ([evInstantNow (instant tStart)] ++ l) = _
    rw [sentOf_append, hs, show Poller.runFrom refid (Poller.init tStart) _ = Poller.run tStart refid _ from rfl, hrun]
    simp [sentOf, sentMsg, evInstantNow, pollMsgValue, Function.comp_def]

/-- **C12 (daemon half) on the source** — the loop `run_clock_error_bound_poller` of the current source, from ANY
    poller state, on any history ending with `ThreadAbort`: if it does not panic, its event log, cut after every
    wait on the mailbox, is one chunk per iteration, and the messages it sent together with the observation logs of
    the chunks (clock ids of the reads, query, send, wait — what the interposer of the harness sees) satisfy the C12
    oracle: in every iteration the CLOCK_MONOTONIC_COARSE read comes before the query to chronyd, and a data message
    carries as its as-of exactly the value that read returned (`PollIter.asOf` of the history), nothing read later -/
theorem C12_loop (nowNs : Int) (inp : Nat → Value) (refid : Option Nat) (e0 : IterEnv) (last : IterIn)
    (hlast : last.ok e0) (habort : last.env.isAbort = true) (xs : List IterIn)
    (hxs : ∀ x ∈ xs, x.ok e0 ∧ x.env.isAbort = false) (s : PollerState)
    (hin : inputsAt inp 0 (pollRunInputs refid s (xs ++ [last]))) (F : Nat) (hF : xs.length + 75 ≤ F) :
    runFuel F (CodeTiePoller.ctxP nowNs inp) "chrony_poller::run_clock_error_bound_poller" .unit
      [contextValue "ChannelId::ClockErrorBoundPoller", pollerValue s, optPhcValue e0.path refid, .duration e0.sleepNs]
      = .panic ∨
    ∃ (log : List Value) (msgs : List PollMsg),
      runFuel F (CodeTiePoller.ctxP nowNs inp) "chrony_poller::run_clock_error_bound_poller" .unit
        [contextValue "ChannelId::ClockErrorBoundPoller", pollerValue s, optPhcValue e0.path refid, .duration e0.sleepNs]
        = .ok .unit .unit log ∧
      sentOf log = msgs.map pollMsgValue ∧ (chunksOf log).length = xs.length + 1 ∧
      C12d.Holds ((xs ++ [last]).map IterIn.it) (msgs.zip ((chunksOf log).map obsLogOf)) = true := by
  rw [CodeTiePoller.loop_eq nowNs inp refid e0 last hlast habort xs hxs s hin F hF]
  cases hr : pollRun refid s (xs ++ [last]) with
  | none => exact Or.inl rfl
  | some p =>
    obtain ⟨s', l⟩ := p
    obtain ⟨hs, hnp⟩ := pollRun_sent refid _ _ _ _ hr
    have hc := pollRun_chunks refid _ _ _ _ hr
    refine Or.inr ⟨l, Poller.runFrom refid s ((xs ++ [last]).map IterIn.it), rfl, hs, ?_, ?_⟩
    · have := congrArg List.length hc
      rw [List.length_map, logsFrom_length_of_no_panic refid _ _ hnp] at this
      simpa using this
    · rw [hc]; exact C12d.holds_from refid _ s

/-- **C12 (daemon half) and C13 on ONE TURN of the loop** (`Rs.findLoop`, `Rs.turnIs`) of the current source, from any loop-top state whose
    `last_tracking_data` is what the specification's ghost says (`last` = the `Instant` at which the latest Tracking
    reply was accepted, `tStart − 5 s` when there was none), for all inputs of the iteration (`it`), every fuel
    `≥ 60`: there are events `evs`, a message `m` and a new poller state such that the turn panics (when `m` is the model's
    `panic`), or ends the loop (`recv_timeout` returned `Ok(ThreadAbort)`), or goes on from the top state with the new
    poller state — with `evs` appended to the log and one input consumed per event —; at most the one message `m` is sent; `m` satisfies the C13 clauses for this iteration; the
    observation log of `evs` starts with the MONOTONIC_COARSE read (6) followed by the query (−1) and, with `m`,
    satisfies the C12 oracle (a data message carries `it.asOf`, the value of that first read); the ghost relation
    holds again afterwards -/
theorem C12_C13_iteration (e : IterEnv) (s : PollerState) (it : PollIter) (refid : Option Nat)
    (tStart : Int) (last : Option Int) (hghost : s.lastGood = last.getD (tStart - GRACE_NS))
    (nowNs : Int) (inp : Nat → Value) (log : List Value) (pos : Nat) (pre : List Stmt) (c : Expr) (body : List Stmt)
    (hfl : findLoop Code.fn_chrony_poller__run_clock_error_bound_poller.body = some (pre, c, body))
    (hother : e.other ≠ "ReplyBody::Tracking") (hsend : e.sendRes = okUnit)
    (hin : inputsAt inp pos ((IterIn.trace refid s ⟨it, e⟩).map (pollEvInput e)))
    (K : Nat) (hK : 60 ≤ K) :
    ∃ (evs : List Value) (m : PollMsg) (s' : PollerState),
      turnIs (CodeTiePoller.ctxP nowNs inp) CodeTiePoller.frP c body K
        (evalWhile (K + 2) (CodeTiePoller.ctxP nowNs inp) CodeTiePoller.frP c body
          (CodeTiePoller.topP nowNs inp pre e s refid log pos))
        (if m = .panic then .panic
         else if e.isAbort = true then .done (log ++ evs) (pos + evs.length)
         else .next (CodeTiePoller.topP nowNs inp pre e s' refid (log ++ evs) (pos + evs.length))) ∧
      sentOf evs = (if m = .panic then [] else [pollMsgValue m]) ∧
      C13.HoldsIter tStart refid last it m = true ∧
      (obsLogOf evs).take 2 = [6, -1] ∧
      C12d.HoldsIter it.asOf (obsLogOf evs) m = true ∧
      s'.lastGood = (C13.accept last it).getD (tStart - GRACE_NS) := by
  refine ⟨(IterIn.trace refid s ⟨it, e⟩).map (pollEvValue e), (it.step refid s).2, (it.step refid s).1, ?_, ?_, ?_, ?_, ?_, ?_⟩
  · have := CodeTiePoller.iteration_eq e s it.asOf it.reply it.tReply it.tGrace refid it.file nowNs inp log pos pre c
      body hfl hother hsend hin K hK
    rw [List.length_map]
    exact this
  · exact iter_sent e refid s ⟨it, e⟩
  · exact C13.holdsIter_step tStart refid last s it hghost
  · rw [iter_obs e refid s ⟨it, e⟩]
    obtain ⟨rest, h⟩ := C12d.obsLog_prefix it.reply (it.phc refid)
    show (obsLog (pollActions it.reply (it.phc refid))).take 2 = _
    rw [h]; rfl
  · rw [iter_obs e refid s ⟨it, e⟩]
    exact C12d.holdsIter_step refid s it
  · exact PollIter.step_lastGood refid s it last _ hghost

/-! ### non-vacuity -/

private def trk (refid : Nat) : Tracking :=
  { leap := 0, refNs := 0, offW := 0, dispW := 0, delayW := 0, intervalW := 0, refid := refid }

/-- a history satisfying the hypotheses of `C13_run` / `C12_loop`: a start-up silence (an unexpected message is in
    the mailbox), a Tracking reply, a silence 3 s later (then `ThreadAbort`): the oracle-satisfying message list
    is `[ChronyNotResponding, data, ChronyNotRespondingGracePeriod]`, 15 inputs are consumed -/
example :
    let e1 : IterEnv := ⟨"/sys/x", 1000000000, "ReplyBody::Null", [], true, okUnit, true, "Message::ChronyNotResponding", []⟩
    let e2 : IterEnv := ⟨"/sys/x", 1000000000, "ReplyBody::Null", [], true, okUnit, false, "RecvTimeoutError::Timeout", []⟩
    let e3 : IterEnv := ⟨"/sys/x", 1000000000, "ReplyBody::Null", [], true, okUnit, true, "Message::ThreadAbort", []⟩
    let xs : List IterIn := [⟨⟨⟨5, 6⟩, .none, 0, 7000000000, .unreadable⟩, e1⟩,
                             ⟨⟨⟨6, 6⟩, .tracking (trk 0), 8000000000, 0, .unreadable⟩, e2⟩]
    let last : IterIn := ⟨⟨⟨7, 6⟩, .other, 0, 11000000000, .unreadable⟩, e3⟩
    Poller.run 6000000000 none ((xs ++ [last]).map IterIn.it) = [.nr, .data (trk 0) 0 ⟨6, 6⟩, .nrGrace] ∧
    (pollRunInputs none (Poller.init 6000000000) (xs ++ [last])).length = 15 ∧
    (pollRun none (Poller.init 6000000000) (xs ++ [last])).isSome = true ∧
    e1.isAbort = false ∧ e2.isAbort = false ∧ e3.isAbort = true ∧ e3.sleepNs = 1000000000 ∧
    C13.Monotone 6000000000 none ((xs ++ [last]).map IterIn.it) := by
  refine ⟨by decide, by decide, by decide, by decide, by decide, by decide, rfl, ?_⟩
  unfold C13.Monotone; decide

/-- the oracles are not trivially true of a log: the C12 oracle rejects an iteration whose observation log has
    the query before the read, the C13 oracle an in-grace message at start-up -/
example : C12d.HoldsIter ⟨12, 500⟩ (obsLogOf [evQuery (.enumv "RequestBody::Tracking" []) (.ext "ClientOptions" []) .unit,
    evClockRead (clockId 6) (okTimespec ⟨12, 500⟩)]) .nr = false := by decide
example : C13.Holds 0 none [⟨⟨1, 0⟩, .none, 0, 5, .unreadable⟩] [.nrGrace] = false := by decide

end ClockBound.OnCode
