/-
  C02 / C03 for any number of readers: the N-reader system projects onto the one-reader system.
-/
import ClockBound.Model.SeqlockSysN
import ClockBound.Proofs.SeqlockN
namespace ClockBound.C02
open ClockBound ClockBound.SL

/-- Projection: for every reachable state of the N-reader system and every reader index i that exists
    in it, there is a reachable state of the one-reader system with the same log, the same writer, the
    same `written`, whose reader is reader i and whose `returned` list is what reader i has been
    handed since it joined (a reader that joins late is a reader that re-opened: `rOpen`). -/
theorem projection (a : Ann) (ver gen : Nat) (cells0 : List Nat)
    (s : SysN) (hr : ReachableN a (SysN.init ver gen cells0) s) (i : Nat) (r : Reader) (hi : s.rs[i]? = some r) :
    ∃ t : Sys, Reachable a (Sys.init ver gen cells0) t ∧ t.log = s.log ∧ t.w = s.w ∧ t.written = s.written ∧
      t.r = r ∧ ∀ c ∈ (s.returned[i]?.getD []), c ∈ t.returned := by
  exact (SLN.inv_reachable hr).each i r hi

/-- C02 for any number of readers (histories with fewer than 32767 completed updates) -/
theorem no_mixture_any_readers (a : Ann) (ha : a.adequate = true)
    (ver gen : Nat) (cells0 : List Nat) (hc : cells0.length = N) (hg : gen < 65536)
    (s : SysN) (hr : ReachableN a (SysN.init ver gen cells0) s)
    (hnowrap : completedUpdates s.log < 32767) (i : Nat) :
    ∀ c ∈ (s.returned[i]?.getD []), c = zerosN ∨ c = cells0 ∨ c ∈ s.written := by
  intro c hcm
  cases hi : s.rs[i]? with
  | none =>
    have hlen := (SLN.inv_reachable hr).len
    have hge : s.rs.length ≤ i := List.getElem?_eq_none_iff.1 hi
    rw [List.getElem?_eq_none (by omega)] at hcm
    exact absurd hcm List.not_mem_nil
  | some r =>
    obtain ⟨t, ht, hlog, _, hwr, _, hret⟩ := projection a ver gen cells0 s hr i r hi
    have hgood : Good cells0 t c :=
      no_mixture a ha ver gen cells0 hc hg t ht (by rw [hlog]; exact hnowrap) c (hret c hcm)
    unfold Good at hgood
    rw [hwr] at hgood
    exact hgood

end ClockBound.C02
