/-
  Translation tie, group `Poller`, part `Dispatch`: the writer thread's loop `process_messages`
  (clock-bound-d/src/shm_writer.rs), with `ShmUpdater::process_clock_update` /
  `process_missing_clock_update` (and what they call) inlined by the interpreter from the same table.

  `process_messages_eq`: for ALL lists `ms` of messages the mailbox delivers before `Message::ThreadAbort`
  (`WMsg`: `ClockErrorBoundData((tracking, phc, as_of))`, the four "missing" messages, or ANY other variant of
  `Message` with any payload — `ThreadTerminate`, `ThreadPanic`, ..), every updater state, every input stream
  that provides `Ok(m)` for these messages and then `Ok(ThreadAbort)` (`inputsAt`), every fuel
  `≥ ms.length + 110`: the regenerated `process_messages`, run with the dictionary `Rs/DictPoller.lean`, logs
  exactly the model's `writerRun`: per message the `recv`, and — for a message the updater acts on — the
  record `Updater.step` publishes through `ShmWrite::write` (ClockErrorBoundData ↦ `.data`,
  ChronyNotRespondingGracePeriod / PhcErrorBoundRetrievalFailedGracePeriod ↦ `.missing true`, ChronyNotResponding /
  PhcErrorBoundRetrievalFailed ↦ `.missing false`; other messages are ignored), then the `recv` of
  `ThreadAbort`, which ends the loop; it returns `()`.  Where `Updater.step` says panic (`none`) the thread
  panics.  `records_eq`: the records among the log entries are `Updater.run` over the mapped messages.
  `iteration_eq`: the same for ONE TURN of the loop (`Rs.findLoop`, `Rs.turnIs`: however the loop is written) from any
  loop-top state (what the loop proof uses).

  All messages of a run are handled at the same CLOCK_REALTIME reading `nowNs` (`ref_time.elapsed()` is the
  core's `Ctx.nowNs`, a constant of the run): `Updater.run` over messages with different `nowNs` is covered
  message by message by `iteration_eq` (any `nowNs` per iteration), not by `process_messages_eq`.

  The handlers: `CodeTieUpdater.process_clock_update_eq` / `process_missing_eq` are statements about
  `run (Code.ctx nowNs)` (fuel 200, no dictionary); inside the loop the same calls run with less fuel and
  with this group's dictionary.  Rather than a fuel/dictionary-independence meta-theorem, the tactic of
  `Proofs/RsUpdater.lean` is re-run on the iteration (`Proofs/RsDispatch.lean`, `RsDispatchData.lean`): the
  right-hand side is the same `Updater.step`.

  NOT covered: `shm_writer::run` (= `ShmWriter::new(path)` — mmap, ftruncate, file I/O of writer.rs —, then
  `ShmUpdater::new` (`CodeTieUpdater.new_eq`) and `process_messages`): `ShmWriter::new` is in the function
  table, so the interpreter inlines it, and its body is outside the fragment of this dictionary.
-/
import ClockBound.Proofs.RsDispatchLoop
namespace ClockBound.CodeTieDispatch
open ClockBound ClockBound.Rs ClockBound.Generated ClockBound.Rs.DictPoller

/-- the context of the group (`CodeTieNow.clock_ids_eq`) -/
abbrev ctxP (nowNs : Int) (inp : Nat → Value) : Ctx :=
  Code.ctxWith nowNs (DictPoller.ext (linuxUses Code.consts)) [] inp

/-- frame of `process_messages` -/
abbrev frW : Frame := ⟨"shm_writer", "", "()"⟩

theorem process_messages_eq (nowNs : Int) (inp : Nat → Value) (ms : List WMsg) (hwf : ∀ m ∈ ms, m.wf = true)
    (u : Updater) (hin : inputsAt inp 0 (ms.map WMsg.recvd ++ [recvAbort])) (F : Nat) (hF : ms.length + 110 ≤ F) :
    runFuel F (ctxP nowNs inp) "shm_writer::process_messages" .unit
      [contextValue "ChannelId::ShmWriter", updaterValue u]
    = match writerRun nowNs u ms with
      | none => .panic
      | some (_, l) => .ok .unit .unit (l ++ [evRecv recvAbort]) :=
  DispatchProof.process_messages_run nowNs inp ms hwf u hin F hF

/-- the records written are `Updater.run` over the mapped messages (when no step panics) -/
theorem records_eq (nowNs : Int) (ms : List WMsg) (u u' : Updater) (l : List Value)
    (h : writerRun nowNs u ms = some (u', l)) :
    (l ++ [evRecv recvAbort]).filter isRecordValue
    = (Updater.run u (ms.filterMap (WMsg.toMsg nowNs))).map recordValue := by
  rw [List.filter_append, DispatchProof.writerRun_records nowNs ms u u' l h]
  simp [isRecordValue, evRecv]

/-- the state at the top of the loop of `process_messages` (however the loop is written) with updater state `u`:
    computed by the interpreter from the arguments and the statements `pre` before the loop (`Rs.topSt`) -/
abbrev topW (nowNs : Int) (inp : Nat → Value) (pre : List Stmt) (u : Updater) (log : List Value) (pos : Nat) : St :=
  topSt (ctxP nowNs inp) Code.fn_shm_writer__process_messages (writerArgs u) pre log pos

/-- ONE TURN of the loop (`Rs.findLoop`: a `while` or a `loop`) on the message `m`, from any top state, for every fuel
    `K ≥ 100`: a message without handler is only received; a message the updater acts on publishes the record of
    `Updater.step` (or panics where the model says so); in all these cases the loop goes on from the top state with
    the new updater state -/
theorem iteration_eq (nowNs : Int) (u : Updater) (m : WMsg) (hwf : m.wf = true) (inp : Nat → Value)
    (log : List Value) (pos : Nat) (pre : List Stmt) (c : Expr) (body : List Stmt)
    (hfl : findLoop Code.fn_shm_writer__process_messages.body = some (pre, c, body))
    (hin : inp pos = m.recvd) (K : Nat) (hK : 100 ≤ K) :
    turnIs (ctxP nowNs inp) frW c body K
      (evalWhile (K + 2) (ctxP nowNs inp) frW c body (topW nowNs inp pre u log pos))
      (match m.toMsg nowNs with
       | none => .next (topW nowNs inp pre u (log ++ [evRecv m.recvd]) (pos + 1))
       | some msg =>
         match u.step msg with
         | none => .panic
         | some (u', r) => .next (topW nowNs inp pre u' (log ++ [evRecv m.recvd, recordValue r]) (pos + 1))) := by
  have := DispatchProof.disp_iter nowNs u m hwf inp log pos pre c body hfl hin K hK
  cases hm : m.toMsg nowNs with
  | none => rw [hm] at this; exact this
  | some msg =>
    rw [hm] at this
    simp only [] at this
    cases hs : u.step msg with
    | none => rw [hs] at this; simpa [hs, DispatchProof.stepSpec] using this
    | some q => obtain ⟨u', r⟩ := q; rw [hs] at this; simpa [hs, DispatchProof.stepSpec] using this

/-- `Ok(Message::ThreadAbort)` ends the loop and writes nothing -/
theorem iteration_abort (nowNs : Int) (u : Updater) (inp : Nat → Value) (log : List Value) (pos : Nat)
    (pre : List Stmt) (c : Expr) (body : List Stmt)
    (hfl : findLoop Code.fn_shm_writer__process_messages.body = some (pre, c, body))
    (hin : inp pos = recvAbort) (K : Nat) (hK : 100 ≤ K) :
    turnIs (ctxP nowNs inp) frW c body K
      (evalWhile (K + 2) (ctxP nowNs inp) frW c body (topW nowNs inp pre u log pos))
      (.done (log ++ [evRecv recvAbort]) (pos + 1)) :=
  DispatchProof.disp_abort nowNs u inp log pos pre c body hfl hin K hK

/-- non-vacuity: three messages (a missing one, one without handler, a missing one) on a fresh updater: two
    records, the first FreeRunning-class input on an updater without measurement publishes Unknown -/
example : (writerRun 0 (Updater.new 1000) [.nrGrace, .ignored "Message::ThreadPanic" [], .nr]).isSome = true ∧
    ((Updater.run (Updater.new 1000) ([WMsg.nrGrace, .ignored "Message::ThreadPanic" [], .nr].filterMap (WMsg.toMsg 0))).length = 2) ∧
    WMsg.wf (.ignored "Message::ThreadPanic" []) = true := by
  decide

end ClockBound.CodeTieDispatch
