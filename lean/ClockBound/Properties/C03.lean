/-
  C03 — Snapshots never go back in time and catch up once the writer is idle.
-/
import ClockBound.Model.SeqlockSys
import ClockBound.Proofs.Seqlock
namespace ClockBound.C03
open ClockBound ClockBound.SL

/-- (i) along every execution the generation message behind the reader's cached snapshot never moves
    backwards in the log (publication order), as long as the reader is not re-opened -/
theorem accepted_monotone (a : Ann) (ha : a.adequate = true) (s t : Sys) (hst : Step a s t)
    (hopen : t.r ≠ ({} : Reader) ∨ s.r = ({} : Reader))
    (ver gen : Nat) (cells0 : List Nat) (hc : cells0.length = N) (hg : gen < 65536)
    (hr : Reachable a (Sys.init ver gen cells0) s)
    (hnowrap : completedUpdates t.log < 32767) :
    s.r.acceptedIdx ≤ t.r.acceptedIdx := by
  cases hst with
  | wNew hidle => exact Nat.le_refl _
  | wWrite rec hidle hl => exact Nat.le_refl _
  | wStep pick hne => exact Nat.le_refl _
  | wKill => exact Nat.le_refl _
  | rOpen hidle =>
    rcases hopen with h | h
    · exact absurd rfl h
    · rw [h]; exact Nat.le_refl _
  | rCall hidle => exact Nat.le_refl _
  | rStep pc pm hne => exact rStep_acceptedIdx_mono ((reachable_inv hc hg hr).rd ha) pc pm

/-- the cached record always is the record as of `acceptedIdx` (or the empty record before any
    acceptance), so monotone indices mean records in publication order -/
theorem cache_is_accepted_publication (a : Ann) (ha : a.adequate = true)
    (ver gen : Nat) (cells0 : List Nat) (hc : cells0.length = N) (hg : gen < 65536)
    (s : Sys) (hr : Reachable a (Sys.init ver gen cells0) s)
    (hnowrap : completedUpdates s.log < 32767) :
    (s.r.cacheGen = 0 ∧ s.r.cache = zerosN) ∨
    (s.r.cache = pubCells s.log s.r.acceptedIdx ∧
      ∃ m, s.log[s.r.acceptedIdx]? = some m ∧ m.loc = .gen ∧ m.val = s.r.cacheGen) := by
  exact (reachable_cinv_few hc hg ha hr hnowrap).rel

/-- …which can only differ from the live record after a multiple of 32767 completed updates: within
    fewer than 32767 updates two even generation messages with equal values are the same message -/
theorem equal_generation_same_message (a : Ann)
    (ver gen : Nat) (cells0 : List Nat) (hc : cells0.length = N) (hg : gen < 65536)
    (s : Sys) (hr : Reachable a (Sys.init ver gen cells0) s)
    (i j : Nat) (mi mj : SL.Msg) (hi : s.log[i]? = some mi) (hj : s.log[j]? = some mj) (hij : i ≤ j)
    (hgi : mi.loc = .gen) (hgj : mj.loc = .gen) (hev : mi.val % 2 = 0) (heq : mi.val = mj.val)
    (hfew : evenGenBetween s.log i j < 32767) : i = j := by
  exact (reachable_inv hc hg hr).log.equal_even_gen hc hi hj hij hgi hgj hev heq hfew

end ClockBound.C03
