/-
  Source tie by translation (part Reader): constants the hand-written model hard-codes, regenerated from
  /repo's working tree on every run by tools/translate_consts.py, agree with the model.
  Closed by evaluation; a changed constant in the source makes the theorem fail to build.
-/
import ClockBound.Generated.Consts
import ClockBound.Model.Driver
namespace ClockBound.ConstsAgree
open ClockBound ClockBound.Generated.Consts

/-- clock-bound-shm/src/reader.rs: the retry budget -/
theorem reader_retries : readerRetries = SL.RETRIES := by decide

end ClockBound.ConstsAgree
