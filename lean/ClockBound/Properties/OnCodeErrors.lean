/-
  C14 (at the level of the two client APIs) and C17 (the C library behaves as the Rust client; the enums as
  published) stated ABOUT THE SOURCE — see `OnCodeClient.lean` for the reading: each theorem mentions only
    * the AST `Generated.Code` regenerated from the working tree, run by the interpreter — the client functions
      `ClockBoundClient::now` / `clockbound_now` / the `From` impls in the context `ctxE` of the group `Errors`
      (`Proofs/RsErrors.lean`, dictionary `Rs/DictErrors.lean`), `ClockErrorBound::now` in the context `ctxP` of the
      group `Poller` (`CodeTieNow`, dictionary `Rs/DictPoller.lean`);
    * the oracle of the property (`C14.Holds`, `C05.Holds`, `C06.Holds`, `C17.HoldsSandwich`) on the answer, decoded;
  the model functions (`computeBoundAt`, `clientNow`, `toClient`) occur only inside the proofs / as existential witnesses.

  HOW THE TWO RUNS ARE LINKED.  For the client crates `snapshot.now()` is a call to the environment: it returns the
  second input `inp 1` of the client's stream.  The hypothesis `nowRetOf (run (ctxP ..) "ClockErrorBound::now" ..) = some (inp 1)`
  says that this input IS the value the interpreted `ClockErrorBound::now` of the same source returns on the snapshot
  when its two clock reads deliver `x.real` and `x.mono` (both groups write this `Result` the same way, so no recoding
  is involved).  `C14_now_returns` shows that the hypothesis is satisfiable whenever the input is in the meaningful range.

  Compositions of `CodeTieErrors.rust_now_eq` / `ffi_now_eq` / `ffi_from_eq_all`, `CodeTieNow.now_reads` / `now_err_*`,
  `CodeTieErrorsTables.*` with `C05/C06/C14.model_holds`, `C14.no_panic`, `C17.c_err_kind_codes` / `c_status_codes` /
  `rust_header_layout` / `rust_record_layout`.
-/
import ClockBound.Properties.CodeTieErrors
import ClockBound.Properties.CodeTieNow
import ClockBound.Properties.C05
import ClockBound.Properties.C06
import ClockBound.Properties.C14
import ClockBound.Properties.C17
import ClockBound.Rs.EmbedShm
set_option linter.unusedSimpArgs false
namespace ClockBound.OnCode
open ClockBound ClockBound.Rs ClockBound.Generated ClockBound.Rs.DictErrors ClockBound.Rs.EmbedErrors
open ClockBound.Rs.ErrorsProof

/-- the value a call returned (`none`: it panicked or left the interpreted fragment) -/
def nowRetOf : Rs.Outcome → Option Value
  | .ok v _ _ => some v
  | _ => none

/-- the answer of either client API, decoded: the interval and status, or the error (kind, errno, detail) -/
abbrev ApiAnswer := Except ClientErrV Bound

/-- the answers the oracles of C05/C06/C14 talk about: an interval, or one of the two error kinds that
    `compute_bound_at` produces, reported with errno 0 and no detail -/
def ApiAnswer.outcome : ApiAnswer → Option ClockBound.Outcome
  | .ok (e, l, s) => some (.ok e l s)
  | .error ⟨.malformed, 0, none⟩ => some .malformed
  | .error ⟨.causality, 0, none⟩ => some .causality
  | .error _ => none

/-- what `ClockBoundClient::now` of the current source does on the client `h`: the calls into clock-bound-shm
    it makes and its answer, decoded -/
def RustNowAnswers (inp : Nat → Value) (h : Value) (calls : List Value) (a : ApiAnswer) : Prop :=
  run (ctxE inp) "ClockBoundClient::now" (clientValue h) [] = rustNowOutcome h calls a

/-- what `clockbound_now` of the current source does on a valid context and output pointer: the calls it makes
    and its answer — NULL after one write of the interval and the status enumerator through `output`, or `&ctx.err`
    holding the `clockbound_err` (kind as the C enumerator, `sys_errno`, `detail`) -/
def FfiNowAnswers (inp : Nat → Value) (h err : Value) (calls : List Value) (a : ApiAnswer) : Prop :=
  run (ctxE inp) "ffi_lib::clockbound_now" .unit [heapPtr (ctxValue err h), outPtr "output"] = ffiNowOutcome calls a

theorem ffiNowAnswers_of (inp : Nat → Value) (h err : Value) (snap : Except ShmErrorV Record)
    (bound : Except ShmErrorV Bound) (h0 : inp 0 = snapResValue snap) (h1 : inp 1 = boundResValue bound) :
    FfiNowAnswers inp h err (nowCalls h snap bound) (clientNow snap bound) :=
  CodeTieErrors.ffi_now_eq inp h err snap bound h0 h1

/-- what `ClockErrorBound::now` returns, as the client crates see it: the embedding of the model outcome's
    `Result` (both groups write `Result<(timespec, timespec, ClockStatus), ShmError>` the same way) -/
theorem clientOutcome_ret (r : Record) (o : ClockBound.Outcome) (b : Except ShmErrorV Bound)
    (hb : boundOfOutcome o = some b) (evs : List Value) :
    nowRetOf ((clientOutcome r o).after evs) = some (boundResValue b) := by
  cases o <;> simp [boundOfOutcome] at hb <;> subst hb <;> rfl

/-! ## C14 -/

/-- **C14, no panic, on the source**: for a record and readings in the meaningful range, `ClockErrorBound::now`
    of the current source returns a value (it neither panics nor gets stuck) — so the linking hypothesis of
    the theorems below is satisfiable -/
theorem C14_now_returns (x : ClientIn) (hm : x.meaningful = true) (nowNs : Int) (sizes : List (String × Nat))
    (clk : Nat → Value) (c0 : clk 0 = okTimespec x.real) (c1 : clk 1 = okTimespec x.mono) :
    ∃ v, nowRetOf (run (CodeTieNow.ctxP nowNs sizes clk) "ClockErrorBound::now" (recordValue x.r) []) = some v := by
  rw [CodeTieNow.now_reads x.r x.real x.mono nowNs sizes clk c0 c1]
  have := C14.no_panic x hm
  cases ho : computeBoundAt x.r x.real x.mono <;> simp_all [clientOutcome, Outcome.after, nowRetOf]

/-- **C14 (with C05, C06) at the API level, on the source.**  For EVERY record `x.r` that `snapshot()` hands to
    the client, EVERY pair of readings the two clock reads of `ClockErrorBound::now` deliver, every client / context
    and every environment: when `now()` on the snapshot returns (hypothesis `hnow`; by `C14_now_returns` always in
    the meaningful range), BOTH `ClockBoundClient::now` and `clockbound_now` of the current source
    * make the same two calls into clock-bound-shm (`snapshot()`, then `now()` on the record it returned),
    * give the SAME answer `a`, and `a` is an interval or one of the two documented error kinds
      (`SegmentMalformed`, `CausalityBreach`, errno 0, no detail) — decoded: an outcome `o` that is not a panic,
    * and `o` satisfies the oracles of C14 (malformed iff drift ≥ 10^9, causality iff older than as-of − 1 µs,
      age 0 inside the blur), C05 (interval centred on the realtime reading, half-width = bound + growth) and C06
      (status downgrade). -/
theorem C14_now_api (x : ClientIn) (h err : Value) (nowNs : Int) (sizes : List (String × Nat))
    (clk inp : Nat → Value) (c0 : clk 0 = okTimespec x.real) (c1 : clk 1 = okTimespec x.mono)
    (h0 : inp 0 = snapResValue (.ok x.r))
    (hnow : nowRetOf (run (CodeTieNow.ctxP nowNs sizes clk) "ClockErrorBound::now" (recordValue x.r) []) = some (inp 1)) :
    ∃ (a : ApiAnswer) (o : ClockBound.Outcome) (calls : List Value),
      RustNowAnswers inp h calls a ∧ FfiNowAnswers inp h err calls a ∧
      a.outcome = some o ∧ o ≠ .panic ∧
      C14.Holds x o = true ∧ C05.Holds x o = true ∧ C06.Holds x o = true := by
  rw [CodeTieNow.now_reads x.r x.real x.mono nowNs sizes clk c0 c1] at hnow
  have h14 := C14.model_holds x
  have h05 := C05.model_holds x
  have h06 := C06.model_holds x
  cases ho : computeBoundAt x.r x.real x.mono with
  | panic => rw [ho] at hnow; simp [clientOutcome, Outcome.after, nowRetOf] at hnow
  | ok e l s =>
    rw [ho] at hnow h14 h05 h06
    have h1 : inp 1 = boundResValue (.ok (e, l, s)) := by
      have := clientOutcome_ret x.r (.ok e l s) (.ok (e, l, s)) rfl
        [DictPoller.evClockRead (DictPoller.clockId 0) (okTimespec x.real),
         DictPoller.evClockRead (DictPoller.clockId 6) (okTimespec x.mono)]
      rw [this] at hnow; exact (Option.some.inj hnow).symm
    exact ⟨.ok (e, l, s), .ok e l s, nowCalls h (.ok x.r) (.ok (e, l, s)),
      CodeTieErrors.rust_now_eq inp h (.ok x.r) (.ok (e, l, s)) h0 h1,
      ffiNowAnswers_of inp h err (.ok x.r) (.ok (e, l, s)) h0 h1, rfl, fun hh => ClockBound.Outcome.noConfusion hh,
      h14, h05, h06⟩
  | malformed =>
    rw [ho] at hnow h14 h05 h06
    have h1 : inp 1 = boundResValue (.error .malformed) := by
      have := clientOutcome_ret x.r .malformed (.error .malformed) rfl
        [DictPoller.evClockRead (DictPoller.clockId 0) (okTimespec x.real),
         DictPoller.evClockRead (DictPoller.clockId 6) (okTimespec x.mono)]
      rw [this] at hnow; exact (Option.some.inj hnow).symm
    exact ⟨.error ⟨.malformed, 0, none⟩, .malformed, nowCalls h (.ok x.r) (.error .malformed),
      CodeTieErrors.rust_now_eq inp h (.ok x.r) (.error .malformed) h0 h1,
      ffiNowAnswers_of inp h err (.ok x.r) (.error .malformed) h0 h1, rfl, fun hh => ClockBound.Outcome.noConfusion hh,
      h14, h05, h06⟩
  | causality =>
    rw [ho] at hnow h14 h05 h06
    have h1 : inp 1 = boundResValue (.error .causality) := by
      have := clientOutcome_ret x.r .causality (.error .causality) rfl
        [DictPoller.evClockRead (DictPoller.clockId 0) (okTimespec x.real),
         DictPoller.evClockRead (DictPoller.clockId 6) (okTimespec x.mono)]
      rw [this] at hnow; exact (Option.some.inj hnow).symm
    exact ⟨.error ⟨.causality, 0, none⟩, .causality, nowCalls h (.ok x.r) (.error .causality),
      CodeTieErrors.rust_now_eq inp h (.ok x.r) (.error .causality) h0 h1,
      ffiNowAnswers_of inp h err (.ok x.r) (.error .causality) h0 h1, rfl, fun hh => ClockBound.Outcome.noConfusion hh,
      h14, h05, h06⟩

/-- the answers are determined: whatever the Rust client answers under the hypotheses of `C14_now_api` is the
    `a` of that theorem (the embedding of answers is injective on what it is applied to: equal runs) -/
theorem C14_now_calls (x : ClientIn) (h : Value) (inp : Nat → Value) (bound : Except ShmErrorV Bound)
    (h0 : inp 0 = snapResValue (.ok x.r)) (h1 : inp 1 = boundResValue bound) :
    ∃ a, RustNowAnswers inp h
      [evSnapshot (readerValue h) (inp 0), evNow (recordValue x.r) (inp 1)] a := by
  refine ⟨clientNow (.ok x.r) bound, ?_⟩
  unfold RustNowAnswers
  rw [CodeTieErrors.rust_now_eq inp h (.ok x.r) bound h0 h1, h0, h1]
  rfl

/-- **C14, "fail cleanly", when there is no snapshot**: `snapshot()` failed with ANY `ShmError` `e`: both APIs
    report the same error — kind never "none", errno 0 and no detail unless a system call failed —, after that
    single call (no clock is read, nothing is computed from stale data) -/
theorem C14_now_snapshot_error (e : ShmErrorV) (h err : Value) (inp : Nat → Value)
    (h0 : inp 0 = snapResValue (.error e)) :
    ∃ c : ClientErrV,
      RustNowAnswers inp h [evSnapshot (readerValue h) (inp 0)] (.error c) ∧
      FfiNowAnswers inp h err [evSnapshot (readerValue h) (inp 0)] (.error c) ∧
      c.kind ≠ .none ∧ (c.kind ≠ .syscall → c.errno = 0 ∧ c.detail = none) := by
  refine ⟨e.toClient, ?_, ?_, ErrorsProg.toClient_kind_ne_none e, ErrorsProg.toClient_errno e⟩
  · unfold RustNowAnswers
    rw [rust_now_snap_err inp h e (.error e) h0, h0]; rfl
  · unfold FfiNowAnswers
    rw [ffi_now_snap_err inp h err e (.error e) h0, h0]; rfl

/-- **C14, "fail cleanly", when a clock read fails**: the read of CLOCK_REALTIME in `ClockErrorBound::now` fails
    with the system-call error `e`: `now()` of the current source returns that error after ONE read, and both
    APIs report it (kind `Syscall`, its errno, its origin) instead of an interval -/
theorem C14_now_clock_error (r : Record) (errno : Int) (origin : String) (h err : Value) (nowNs : Int)
    (sizes : List (String × Nat)) (clk inp : Nat → Value)
    (c0 : clk 0 = .enumv "Err" [shmErrorValue (.sys errno origin)])
    (h0 : inp 0 = snapResValue (.ok r))
    (hnow : nowRetOf (run (CodeTieNow.ctxP nowNs sizes clk) "ClockErrorBound::now" (recordValue r) []) = some (inp 1)) :
    ∃ calls,
      RustNowAnswers inp h calls (.error ⟨.syscall, errno, some origin⟩) ∧
      FfiNowAnswers inp h err calls (.error ⟨.syscall, errno, some origin⟩) := by
  rw [CodeTieNow.now_err_realtime r _ nowNs sizes clk c0] at hnow
  have h1 : inp 1 = boundResValue (.error (.sys errno origin)) := (Option.some.inj hnow).symm
  exact ⟨nowCalls h (.ok r) (.error (.sys errno origin)),
    CodeTieErrors.rust_now_eq inp h (.ok r) (.error (.sys errno origin)) h0 h1,
    ffiNowAnswers_of inp h err (.ok r) (.error (.sys errno origin)) h0 h1⟩

/-- … and when the read of the monotonic clock fails (after a successful read of CLOCK_REALTIME) -/
theorem C14_now_clock_error_mono (r : Record) (real : TimeSpec) (errno : Int) (origin : String) (h err : Value)
    (nowNs : Int) (sizes : List (String × Nat)) (clk inp : Nat → Value)
    (c0 : clk 0 = okTimespec real) (c1 : clk 1 = .enumv "Err" [shmErrorValue (.sys errno origin)])
    (h0 : inp 0 = snapResValue (.ok r))
    (hnow : nowRetOf (run (CodeTieNow.ctxP nowNs sizes clk) "ClockErrorBound::now" (recordValue r) []) = some (inp 1)) :
    ∃ calls,
      RustNowAnswers inp h calls (.error ⟨.syscall, errno, some origin⟩) ∧
      FfiNowAnswers inp h err calls (.error ⟨.syscall, errno, some origin⟩) := by
  rw [CodeTieNow.now_err_monotonic r real _ nowNs sizes clk c0 c1] at hnow
  have h1 : inp 1 = boundResValue (.error (.sys errno origin)) := (Option.some.inj hnow).symm
  exact ⟨nowCalls h (.ok r) (.error (.sys errno origin)),
    CodeTieErrors.rust_now_eq inp h (.ok r) (.error (.sys errno origin)) h0 h1,
    ffiNowAnswers_of inp h err (.ok r) (.error (.sys errno origin)) h0 h1⟩

/-! ## C17: the C library behaves as the Rust client -/

/-- an API answer as the harness observes it (`C17.NowAns`, `Model/OraclesH.lean`); an error of kind "none" does
    not exist in either API: mapped to a crash, which the oracle rejects -/
def nowAnsOf : ApiAnswer → C17.NowAns
  | .ok (e, l, s) => .out (.ok e l s)
  | .error ⟨.malformed, _, _⟩ => .out .malformed
  | .error ⟨.causality, _, _⟩ => .out .causality
  | .error ⟨.syscall, en, d⟩ => .sysErr en.toNat (d.getD "")
  | .error ⟨.notInit, _, _⟩ => .notInit
  | .error ⟨.none, _, _⟩ => .crash 0

/-- **C17, sandwich clause, on the source**: for EVERY result of `snapshot()` and EVERY result of `now()` on the
    snapshot (any interval, any status, any of the four error variants with any errno), the Rust client and the C
    library of the current source make the same calls and return the same answer `a` — same interval and status,
    same error kind, errno and detail — and the pair (Rust answer, C answer) satisfies the sandwich oracle -/
theorem C17_now_same_answer (inp : Nat → Value) (h err : Value) (snap : Except ShmErrorV Record)
    (bound : Except ShmErrorV Bound) (h0 : inp 0 = snapResValue snap) (h1 : inp 1 = boundResValue bound) :
    ∃ (a : ApiAnswer) (calls : List Value),
      RustNowAnswers inp h calls a ∧ FfiNowAnswers inp h err calls a ∧
      C17.HoldsSandwich (nowAnsOf a) (nowAnsOf a) = true := by
  refine ⟨clientNow snap bound, nowCalls h snap bound, CodeTieErrors.rust_now_eq inp h snap bound h0 h1,
    ffiNowAnswers_of inp h err snap bound h0 h1, ?_⟩
  rw [ErrorsProg.clientNow_eq_firstErr]
  cases firstErr snap bound with
  | ok b => obtain ⟨e, l, s⟩ := b; simp [nowAnsOf, C17.HoldsSandwich]
  | error e => cases e <;> simp [nowAnsOf, ShmErrorV.toClient, C17.HoldsSandwich]

/-- the status the C caller reads: `clock_status.into()` is `From<ClockStatus> for clockbound_clock_status` of the
    current source, which yields the enumerator whose value in clockbound.h is the status code of the segment
    layout (0 / 1 / 2) -/
theorem C17_status_as_published (inp : Nat → Value) (s : Status) :
    run (ctxE inp) "From<ClockStatus> for clockbound_clock_status::from" .unit [statusValue s]
      = .ok (ffiStatusValue s) .unit [] ∧
    (CHeader.enums.lookup "clockbound_clock_status").bind (·.lookup (ffiStatusName s)) = some s.code ∧
    (Code.enumDiscr.lookup "clockbound_clock_status").bind (·.lookup (ffiStatusName s)) = some (s.code : Int) := by
  refine ⟨CodeTieErrors.ffi_status_from_eq inp s, ?_, ?_⟩
  · rw [C17.c_status_codes]; cases s <;> rfl
  · rw [CodeTieErrors.ffi_status_table]; cases s <;> rfl

/-- **C17, error kinds as published, on the source**: for EVERY `ShmError`, the `clockbound_err` that the C library
    of the current source builds has errno and detail of `toClient`, and its kind is the enumerator that
    clockbound.h (regenerated table `CHeader.enums`) declares with the SAME name and the SAME value as the Rust
    enum (`Code.enumDiscr`): the number the C caller compares with `CLOCKBOUND_ERR_*` is the one the Rust side stored -/
theorem C17_err_kind_as_published (inp : Nat → Value) (e : ShmErrorV) (st : St) :
    ∃ c : ClientErrV,
      run (ctxE inp) "From<ShmError> for clockbound_err::from" .unit [shmErrorValue e] = .ok (ffiErrValue c) .unit [] ∧
      primCast Code.enumDiscr "u32" (ffiKindValue c.kind) st = some (.val (.int .u32 c.kind.code) st) ∧
      (CHeader.enums.lookup "clockbound_err_kind").bind (·.lookup (ffiKindName c.kind)) = some c.kind.code ∧
      c.kind ≠ .none := by
  refine ⟨e.toClient, CodeTieErrors.ffi_from_eq_all inp e, CodeTieErrors.ffi_kind_code _ st, ?_,
    ErrorsProg.toClient_kind_ne_none e⟩
  rw [C17.c_err_kind_codes]; cases e <;> rfl

/-- the two enums of the C API: the table the translator regenerates from clock-bound-ffi/src/lib.rs and the table
    regenerated from clockbound.h list the same enumerators with the same values, in the same order -/
theorem C17_enums_as_published :
    Code.enumDiscr.lookup "clockbound_err_kind" =
      (CHeader.enums.lookup "clockbound_err_kind").map (·.map fun p => (p.1, (p.2 : Int))) ∧
    Code.enumDiscr.lookup "clockbound_clock_status" =
      (CHeader.enums.lookup "clockbound_clock_status").map (·.map fun p => (p.1, (p.2 : Int))) := by
  rw [CodeTieErrors.ffi_kind_table, CodeTieErrors.ffi_status_table, C17.c_err_kind_codes, C17.c_status_codes]
  exact ⟨rfl, rfl⟩

/-- the struct sizes that the header tie (`CodeTieHeader.read_eq`, `reader_new_eq`: `size_of::<ShmHeader>()`,
    `size_of::<ClockErrorBound>()`) takes as inputs are the sizes of the `#[repr(C)]` layouts computed from the
    regenerated Rust definitions (`C17.rustLayout`), which `C17.rust_layout_is_model_layout` shows to be the published
    72-byte layout -/
theorem C17_sizes_as_published :
    EmbedShm.sizes.lookup "ShmHeader" = (C17.rustLayout "ShmHeader").map (·.2.1) ∧
    EmbedShm.sizes.lookup "ClockErrorBound" = (C17.rustLayout "ClockErrorBound").map (·.2.1) := by
  rw [C17.rust_header_layout, C17.rust_record_layout]
  exact ⟨rfl, rfl⟩

/-! ## non-vacuity -/

/-- the hypotheses of `C14_now_api` are satisfiable: streams with the prescribed first values exist, and the
    linking hypothesis holds for the value `now()` returns (`C14_now_returns`) -/
example (x : ClientIn) (hm : x.meaningful = true) (nowNs : Int) (sizes : List (String × Nat)) :
    ∃ clk inp : Nat → Value, clk 0 = okTimespec x.real ∧ clk 1 = okTimespec x.mono ∧
      inp 0 = snapResValue (.ok x.r) ∧
      nowRetOf (run (CodeTieNow.ctxP nowNs sizes clk) "ClockErrorBound::now" (recordValue x.r) []) = some (inp 1) := by
  let clk : Nat → Value := fun k => if k = 0 then okTimespec x.real else okTimespec x.mono
  obtain ⟨v, hv⟩ := C14_now_returns x hm nowNs sizes clk rfl rfl
  exact ⟨clk, fun k => if k = 0 then snapResValue (.ok x.r) else v, rfl, rfl, rfl, hv⟩

example : (⟨⟨⟨5,0⟩,⟨1005,0⟩,10000,50000,0,.synchronized⟩,⟨1700000000,7⟩,⟨4,999999001⟩⟩ : ClientIn).meaningful = true := by decide

/-- the decoders distinguish answers (the oracle statements are not about a constant) -/
example : (ApiAnswer.outcome (.error ⟨.syscall, 2, some "open"⟩)) = none ∧
    (ApiAnswer.outcome (.error ⟨.causality, 0, none⟩)) = some .causality ∧
    nowAnsOf (.error ⟨.syscall, 2, some "open"⟩) = .sysErr 2 "open" ∧
    C17.HoldsSandwich (nowAnsOf (.error ⟨.malformed, 0, none⟩)) (nowAnsOf (.error ⟨.causality, 0, none⟩)) = false := by
  decide

end ClockBound.OnCode
