/-
  Source tie by translation (part Updater): constants the hand-written model hard-codes, regenerated from
  /repo's working tree on every run by tools/translate_consts.py, agree with the model.
  Closed by evaluation; a changed constant in the source makes the theorem fail to build.
-/
import ClockBound.Generated.Consts
import ClockBound.Model.Driver
namespace ClockBound.ConstsAgree
open ClockBound ClockBound.Generated.Consts

/-- shm_writer.rs: void-after distance, stale threshold, seconds → ns -/
theorem void_after_distance : ∀ a : TimeSpec, a.sec = 7 →
    ((({ drift := 0, asOf := a } : Updater).record).map (·.voidAfter.sec)) = some (a.sec + voidAfterSec) := by
  intro a h; simp [Updater.record, chk, inI64, I64_MIN, I64_MAX, h, voidAfterSec]

/-- numbering of the translated FSM table: 0 = Unknown, 1 = Synchronized, 2 = FreeRunning -/
def stOfNat : Nat → Option Status
  | 0 => some .unknown | 1 => some .synchronized | 2 => some .freeRunning | _ => none
def csOfNat : Nat → Option ChronyStatus
  | 0 => some .unknown | 1 => some .synchronized | 2 => some .freeRunning | _ => none

/-- clock_state_fsm.rs: every row of the transition table extracted from the nine `bstate!` arms is the
    model's `fsmStep`, and the table has all nine (state, input) pairs -/
theorem fsm_table_agrees :
    fsmTable.all (fun r => match stOfNat r.1, csOfNat r.2.1, stOfNat r.2.2 with
      | some s, some c, some n => fsmStep s c == n
      | _, _, _ => false) = true
    ∧ (fsmTable.map (fun r => (r.1, r.2.1))) =
        [(0,0),(0,1),(0,2),(1,0),(1,1),(1,2),(2,0),(2,1),(2,2)] := by decide

/-- `impl Default for ShmClockState`: the FSM starts where the model's `Updater` starts -/
theorem fsm_initial_agrees : stOfNat fsmInitial = some ({ drift := 0 } : Updater).fsm := by decide

end ClockBound.ConstsAgree
