/-
  Source tie by translation (part Updater): constants the hand-written model hard-codes, regenerated from
  /repo's working tree on every run by tools/translate_consts.py, agree with the model.
  Closed by evaluation; a changed constant in the source makes the theorem fail to build.
-/
import ClockBound.Generated.Consts
import ClockBound.Model.Driver
namespace ClockBound.ConstsAgree
open ClockBound ClockBound.Generated.Consts

/-- shm_writer.rs: void-after distance, stale threshold, seconds → ns -/
theorem void_after_distance : ∀ a : TimeSpec, a.sec = 7 →
    ((({ drift := 0, asOf := a } : Updater).record).map (·.voidAfter.sec)) = some (a.sec + voidAfterSec) := by
  intro a h; simp [Updater.record, chk, inI64, I64_MIN, I64_MAX, h, voidAfterSec]

end ClockBound.ConstsAgree
