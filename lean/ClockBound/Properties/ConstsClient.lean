/-
  Source tie by translation (part Client): constants the hand-written model hard-codes, regenerated from
  /repo's working tree on every run by tools/translate_consts.py, agree with the model.
  Closed by evaluation; a changed constant in the source makes the theorem fail to build.
-/
import ClockBound.Generated.Consts
import ClockBound.Model.Driver
namespace ClockBound.ConstsAgree
open ClockBound ClockBound.Generated.Consts

/-- clock-bound-shm/src/lib.rs: the 5 s restart grace period and the 1000 ns causality blur -/
theorem client_grace : (⟨clientGraceSec, clientGraceNsec⟩ : TimeSpec) = GRACE := by decide

theorem client_blur : (⟨blurSec, blurNsec⟩ : TimeSpec) = BLUR := by decide

/-- `max_drift_ppb >= 1_000_000_000` is the malformed threshold `computeBoundAt` uses -/
theorem drift_threshold : driftMalformedThreshold = 1000000000 ∧
    computeBoundAt { Record.empty with drift := driftMalformedThreshold } ⟨0, 0⟩ ⟨0, 0⟩ = .malformed ∧
    computeBoundAt { Record.empty with drift := driftMalformedThreshold - 1 } ⟨0, 0⟩ ⟨0, 0⟩ ≠ .malformed := by decide +kernel

theorem ns_divisor : nsPerSecDivisor = 1000000000 := by decide

/-- status discriminants -/
theorem status_codes : Status.unknown.code = statusUnknown ∧ Status.synchronized.code = statusSynchronized ∧
    Status.freeRunning.code = statusFreeRunning := by decide

end ClockBound.ConstsAgree
