/-
  Translation tie, part 1: `ClockErrorBound::compute_bound_at` (clock-bound-shm/src/lib.rs).

  For every record and every pair of clock readings, the AST that the translator regenerated from the
  Rust source (`Generated.Code.fns`), run by the interpreter `Rs.run`, yields exactly the embedding of
  the hand-written model `computeBoundAt`: `Ok((earliest, latest, status))`, the two `Err`s, a panic
  where the model says `panic` — and it never gets stuck.

  No range hypothesis is needed: the interpreter checks every arithmetic result against the range of
  its Rust type exactly where the model does, and the inputs are only read.
-/
import ClockBound.Proofs.RsClient
namespace ClockBound.CodeTieClient
open ClockBound ClockBound.Rs ClockBound.Generated

theorem compute_bound_at_eq (r : Record) (real mono : TimeSpec) (nowNs : Int) :
    run (Code.ctx nowNs) "ClockErrorBound::compute_bound_at" (recordValue r)
      [ctimespecValue real, ctimespecValue mono]
    = clientOutcome r (computeBoundAt r real mono) := by
  obtain ⟨⟨as, an⟩, ⟨vs, vn⟩, bound, drift, res, status⟩ := r
  obtain ⟨rs, rn⟩ := real
  obtain ⟨ms, mn⟩ := mono
  cases status
  · exact ClientProof.tie_unknown ..
  · exact ClientProof.tie_synchronized ..
  · exact ClientProof.tie_freeRunning ..

/-- the generated code never leaves the fragment the interpreter has rules for -/
theorem compute_bound_at_not_stuck (r : Record) (real mono : TimeSpec) (nowNs : Int) :
    (run (Code.ctx nowNs) "ClockErrorBound::compute_bound_at" (recordValue r)
      [ctimespecValue real, ctimespecValue mono]).isStuck = false := by
  rw [compute_bound_at_eq]
  cases computeBoundAt r real mono <;> rfl

/-- the well-formedness predicate of the Rust types (not needed by the theorems above; stated so
    that the quantification is visibly over at least every value the Rust types allow) -/
def Record.inRange (r : Record) : Bool :=
  inI64 r.asOf.sec && inI64 r.asOf.nsec && inI64 r.voidAfter.sec && inI64 r.voidAfter.nsec &&
  inI64 r.bound && decide (r.drift < 4294967296) && decide (r.reserved < 4294967296)

example : Record.inRange ⟨⟨1700000000, 5⟩, ⟨1700001000, 0⟩, 12345, 1000, 0, .synchronized⟩ = true := by decide

end ClockBound.CodeTieClient
