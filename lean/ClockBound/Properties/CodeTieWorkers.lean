/-
  Translation tie, group `Threads` (C15), part 2: the two worker threads, from their entry functions
  (`chrony_poller::run`, `shm_writer::run`) to the point where their `Context` is dropped, as reactive programs
  (same set-up as `Properties/CodeTieThreads.lean`: dictionary `Rs/DictThreads.lean`, input stream, event log;
  descriptions of what a thread observes: `Rs/EmbedWorkers.lean`).

  Poller — `poller_exit_eq` (`chrony_poller::run`) and `poller_loop_eq` (`run_clock_error_bound_poller`, for every
  `impl ChronyOperations` value and sleep duration): for every number `k` and sequence of trips through the loop
  whose mailbox check returns anything but `Ok(ThreadAbort)` — a time-out, a disconnected mailbox, any other message
  — the loop goes round; each trip reads the clock, and unless that failed asks chrony (and `is_within_grace_period`
  when there is no reply), sends ONE message to the ShmWriter channel and checks the mailbox.  It ends in exactly two
  ways: `Ok(ThreadAbort)` at the mailbox check ⇒ the function RETURNS `()` (log: all operations, in order); the send
  to the ShmWriter fails ⇒ it PANICS, without looking at the mailbox again.  The message built is whatever
  `Poll.msg` says (an opaque payload for this group; its selection logic is group `Poller`'s), under `Poll.phcMiss`:
  a reply never carries the configured PHC's reference id (otherwise the PHC file is read — group `Poller`).
  Context: `pollerCtx` = the regenerated tables minus the two methods of `impl ChronyOperations for
  ClockErrorBoundPoller` (operations of the environment here; they are group `Poller`'s: `CodeTiePoller`).
  Model: `ThreadsProg.pollerProg` / `PollerEnd.kind` (`poller_iter_abs`, `poller_end_kind`; the program runs
  `stepPoller` from `start` to `exiting kind`: `ThreadsProgProps.poller_prog_pcs`, `pollerDo_next`).

  Writer — in the context `writerCtx` (the regenerated tables minus `ShmWriter::new` and the two
  `ShmUpdater::process_*` methods, which are operations of the environment there: they are tied by `CodeTieUpdater`
  resp. belong to group `Shm`): `writer_exit_eq` (`shm_writer::run`), `writer_open_failed_eq`, `writer_loop_eq`
  (`process_messages` for EVERY updater state).  `ShmWriter::new` fails ⇒ the thread panics before it ever looks at
  its mailbox; otherwise every received message is handled (`ClockErrorBoundData` ⇒ `process_clock_update(payload)`,
  the four data-less ones ⇒ `process_missing_clock_update(grace)`, a notice or a receive error ⇒ nothing) and the
  loop goes on, until `Ok(ThreadAbort)` ⇒ the function RETURNS with nothing else done (no further write), or a
  handler panics ⇒ it panics.  Model: `ThreadsProg.writerProg` / `WriterEnd.kind`.
-/
import ClockBound.Proofs.RsThreadsPollerRun
import ClockBound.Proofs.RsThreadsWriterRun
import ClockBound.Properties.ThreadsProg
namespace ClockBound.CodeTieThreads
open ClockBound ClockBound.Rs ClockBound.Generated ClockBound.Rs.DictThreads ClockBound.Rs.EmbedThreads
open ClockBound.Rs.EmbedWorkers ClockBound.Threads ClockBound.Rs.ThreadsProof

theorem poller_exit_eq (ks : List Thread) (phc : Option (Nat × Value)) (k F : Nat) (it : Nat → PIter)
    (hcont : ∀ i, i < k → (it i).wait.continues = true) (hmiss : ∀ i, i < k → (it i).poll.phcMiss phc)
    (e : PEnd) (hmissE : e.poll.phcMiss phc) (hsend : ∀ p, e = .sendFailed p → p.sends = true)
    (nowNs : Int) (inp : Nat → Value) (i0 i1 : Value)
    (hin : inputsAt inp 0 (pollerStartInputs i0 i1 ++ loopInputs k it e)) :
    runFuel (F + k + 200) (pollerCtx nowNs inp) "chrony_poller::run" .unit
      [contextValue .poller ks, phcValue phc]
    = pollerOutcome e (pollerStartEvents i0 i1 ++ loopEvents 1000000000 k it e) :=
  poller_run_tie ks phc k F it hcont hmiss e hmissE hsend nowNs inp i0 i1 hin

theorem poller_loop_eq (ks : List Thread) (fs : List (String × Value)) (phc : Option (Nat × Value)) (d : Int)
    (k F : Nat) (it : Nat → PIter) (hcont : ∀ i, i < k → (it i).wait.continues = true)
    (hmiss : ∀ i, i < k → (it i).poll.phcMiss phc) (e : PEnd) (hmissE : e.poll.phcMiss phc)
    (hsend : ∀ p, e = .sendFailed p → p.sends = true) (nowNs : Int) (inp : Nat → Value)
    (hin : inputsAt inp 0 (loopInputs k it e)) :
    runFuel (F + k + 100) (pollerCtx nowNs inp)
      "chrony_poller::run_clock_error_bound_poller" .unit
      [contextValue .poller ks, .struct "ClockErrorBoundPoller" fs, phcValue phc, .duration d]
    = pollerOutcome e (loopEvents d k it e) := by
  have h := poller_loop_tie ks fs phc d k F it hcont hmiss e hmissE hsend nowNs inp [] [] 0 hin
  have hl : (pollerCtx nowNs inp).fns.lookup "chrony_poller::run_clock_error_bound_poller"
      = some Code.fn_chrony_poller__run_clock_error_bound_poller := by simp [rs_eval, rs_code, abstractedP, List.lookup]
  simp only [runFuel, hl, h]
  cases e <;> simp [loopResult, pollerOutcome, rs_eval]

theorem writer_exit_eq (ks : List Thread) (drift : Nat) (k F : Nat) (ws : Nat → WStep)
    (hdone : ∀ i, i < k → (ws i).done = true) (hwf : ∀ i, i < k → (ws i).wellFormed = true)
    (e : WEnd) (he : ∀ s, e = .handlerPanic s → s.done = false) (nowNs : Int) (inp : Nat → Value)
    (hin : inputsAt inp 0 (.enumv "Ok" [.writer] :: wloopInputs k ws e)) :
    runFuel (F + k + 200) (writerCtx nowNs inp) "shm_writer::run" .unit [contextValue .writer ks, .int .u32 drift]
    = writerOutcome e (evOp "ShmWriter::new" [shmPathValue] (.enumv "Ok" [.writer]) :: wloopEvents k ws) :=
  writer_run_tie ks drift k F ws hdone hwf e he nowNs inp hin

theorem writer_open_failed_eq (ks : List Thread) (drift : Nat) (F : Nat) (err : Value) (nowNs : Int)
    (inp : Nat → Value) (h0 : inp 0 = .enumv "Err" [err]) :
    runFuel (F + 200) (writerCtx nowNs inp) "shm_writer::run" .unit [contextValue .writer ks, .int .u32 drift]
    = .panic :=
  writer_run_open_failed ks drift F err nowNs inp h0

theorem writer_loop_eq (ks : List Thread) (u : Updater) (k F : Nat) (ws : Nat → WStep)
    (hdone : ∀ i, i < k → (ws i).done = true) (hwf : ∀ i, i < k → (ws i).wellFormed = true)
    (e : WEnd) (he : ∀ s, e = .handlerPanic s → s.done = false) (nowNs : Int) (inp : Nat → Value)
    (hin : inputsAt inp 0 (wloopInputs k ws e)) :
    runFuel (F + k + 100) (writerCtx nowNs inp) "shm_writer::process_messages" .unit
      [contextValue .writer ks, updaterValue u]
    = writerOutcome e (wloopEvents k ws) := by
  have h := writer_loop_tie ks u k F ws hdone hwf e he nowNs inp [] [] 0 hin
  have hl : (writerCtx nowNs inp).fns.lookup "shm_writer::process_messages"
      = some Code.fn_shm_writer__process_messages := by simp [rs_eval, rs_code, abstracted, List.lookup]
  simp only [runFuel, hl, h]
  cases e <;> simp [wloopResult, writerOutcome, rs_eval]

/-! ### reading as the model's programs -/

/-- a trip that lets the loop go on is a `PollerIter` whose mailbox check is not Abort -/
theorem poller_iter_abs (it : PIter) (m : ThreadsProg.PollerIter) (hc : it.wait.continues = true)
    (h : it.abs = some m) : m.clockOk = it.poll.clockOk ∧ m.wait ≠ some .abort := by
  obtain ⟨poll, wait⟩ := it
  cases wait with
  | ok x =>
    cases x <;> simp [PIter.abs, RecvT.abs, RMsg.abs, RecvT.continues, RMsg.isAbort] at h hc ⊢
    all_goals first
      | (subst h; simp)
      | (rename_i c; cases c <;> simp at h <;> subst h <;> simp)
  | timeout => simp [PIter.abs, RecvT.abs] at h; subst h; simp
  | disconnected => simp [PIter.abs, RecvT.abs] at h

/-- the function returns iff the model thread ends by `terminate`, panics iff by `panic` -/
theorem poller_end_kind (e : PEnd) (log : List Value) :
    (pollerOutcome e log = .panic ↔ e.abs.kind = .panic) ∧
    (pollerOutcome e log = .ok .unit .unit log ↔ e.abs.kind = .terminate) := by
  cases e <;> simp [pollerOutcome, PEnd.abs, ThreadsProg.PollerEnd.kind]

/-- a handled message is a model message other than Abort -/
theorem writer_step_abs (s : WStep) (m : Threads.Msg) (hw : s.wellFormed = true) (h : s.abs = some m) :
    m ≠ .abort := by
  cases s with
  | data t p a d => simp [WStep.abs] at h; subst h; simp
  | noData n d => simp [WStep.abs] at h; subst h; simp
  | notice x =>
    cases x <;> simp [WStep.wellFormed, RMsg.isNotice, WStep.abs, RMsg.abs] at hw h
    all_goals (rename_i c; cases c <;> simp at h <;> subst h <;> simp)
  | disconnected => simp [WStep.abs] at h

/-! ### non-vacuity -/

/-- a concrete poller run: one trip (no reply from chrony, within grace; time-out at the mailbox), then a reply
    whose send fails: the hypotheses of `poller_exit_eq` are satisfiable, and it panics -/
def demoPollerInputs : List Value :=
  pollerStartInputs .unit .unit ++ (PIter.mk (.noReply ⟨0, 0⟩ true) .timeout).inputs ++
    (PEnd.sendFailed (.noReply ⟨0, 0⟩ false)).inputs

example : runFuel 201 (pollerCtx 0 (fun i => demoPollerInputs.getD i .unit)) "chrony_poller::run"
      .unit [contextValue .poller [.main, .poller, .writer], phcValue none] = .panic := by
  refine poller_exit_eq [.main, .poller, .writer] none 1 0 (fun _ => ⟨.noReply ⟨0, 0⟩ true, .timeout⟩)
    (fun _ _ => rfl) (fun _ _ => trivial) (.sendFailed (.noReply ⟨0, 0⟩ false)) trivial ?_ 0 _ .unit .unit ?_
  · intro p hp
    cases hp
    rfl
  · simp [inputsAt, demoPollerInputs, pollerStartInputs, loopInputs, PIter.inputs, PEnd.inputs, Poll.inputs,
      RecvT.value, List.range_succ]

example : ThreadsProg.pollerNexts .start (ThreadsProg.pollerProg [⟨true, none⟩] (PEnd.sendFailed (.noReply ⟨0, 0⟩ false)).abs)
    = some (.exiting .panic) := by decide

example : ThreadsProg.writerNexts .start (ThreadsProg.writerProg [.data] .abort) = some (.exiting .terminate) := by
  decide

end ClockBound.CodeTieThreads
