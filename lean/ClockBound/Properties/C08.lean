/-
  C08 — Published record tracks the chrony history: freeze on loss, advance on sync.
-/
import ClockBound.Model.OraclesD
import ClockBound.Proofs.Daemon
namespace ClockBound.C08
open ClockBound

/-- Refinement to the one-line spec: for every finite message list from a fresh updater the k-th
    published record is `spec` of the first k+1 outcomes. -/
theorem refinement (drift : Nat) (msgs : List Msg) (hok : ∀ m ∈ msgs, m.ok = true) :
    Updater.run (Updater.new drift) msgs = specs drift (msgs.map abstractMsg) := by
  sorry

/-- every outcome results in a publication -/
theorem one_publication_per_outcome (drift : Nat) (msgs : List Msg) (hok : ∀ m ∈ msgs, m.ok = true) :
    (Updater.run (Updater.new drift) msgs).length = msgs.length := by
  sorry

/-- (c) every published record carries the configured drift rate -/
theorem drift_published (drift : Nat) (msgs : List Msg) :
    ∀ r ∈ Updater.run (Updater.new drift) msgs, r.drift = drift := by
  sorry

/-- (b) void-after is 1000 s after as-of, rounded down to a whole second -/
theorem void_after (drift : Nat) (msgs : List Msg) :
    ∀ r ∈ Updater.run (Updater.new drift) msgs, r.voidAfter = ⟨r.asOf.sec + 1000, 0⟩ := by
  sorry

theorem model_holds (drift : Nat) (msgs : List Msg) (hok : ∀ m ∈ msgs, m.ok = true) :
    Holds drift (msgs.map abstractMsg) (Updater.run (Updater.new drift) msgs) = true := by
  sorry

end ClockBound.C08
