/-
  C08 — Published record tracks the chrony history: freeze on loss, advance on sync.
-/
import ClockBound.Model.OraclesD
import ClockBound.Proofs.Daemon
namespace ClockBound.C08
open ClockBound

/-- Refinement to the one-line spec: for every finite message list from a fresh updater the k-th
    published record is `spec` of the first k+1 outcomes. -/
theorem refinement (drift : Nat) (msgs : List Msg) (hok : ∀ m ∈ msgs, m.ok = true) :
    Updater.run (Updater.new drift) msgs = specs drift (msgs.map abstractMsg) := by
  exact specs_eq_run drift msgs hok

/-- every outcome results in a publication -/
theorem one_publication_per_outcome (drift : Nat) (msgs : List Msg) (hok : ∀ m ∈ msgs, m.ok = true) :
    (Updater.run (Updater.new drift) msgs).length = msgs.length := by
  rw [refinement drift msgs hok]
  simp [specs]

/-- (c) every published record carries the configured drift rate -/
theorem drift_published (drift : Nat) (msgs : List Msg) :
    ∀ r ∈ Updater.run (Updater.new drift) msgs, r.drift = drift := by
  intro r hr
  exact (Updater.run_drift_void (Updater.new drift) msgs r hr).1

/-- (b) void-after is 1000 s after as-of, rounded down to a whole second -/
theorem void_after (drift : Nat) (msgs : List Msg) :
    ∀ r ∈ Updater.run (Updater.new drift) msgs, r.voidAfter = ⟨r.asOf.sec + 1000, 0⟩ := by
  intro r hr
  exact (Updater.run_drift_void (Updater.new drift) msgs r hr).2

theorem model_holds (drift : Nat) (msgs : List Msg) (hok : ∀ m ∈ msgs, m.ok = true) :
    Holds drift (msgs.map abstractMsg) (Updater.run (Updater.new drift) msgs) = true := by
  rw [refinement drift msgs hok]
  exact holds_specs drift _

end ClockBound.C08
