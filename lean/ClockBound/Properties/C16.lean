/-
  C16 — Segment files are validated on open, and repaired by the daemon.

  Model: Model/Header.lean (`readerOpen` = `ShmReader::new`, `writerNew` = `ShmWriter::new`,
  `writerFirstWrite` = the first `ShmWriter::write`, `snapshotOfFile` = a fresh reader's first
  snapshot).  Quantifiers: every list of bytes (of any length; the elements need not even be < 256)
  as the prior content, the three kinds of path, every in-range record, every content of the four
  padding bytes the record copy carries along.
-/
import ClockBound.Model.OraclesH
import ClockBound.Proofs.Header
namespace ClockBound.C16
open ClockBound

/-! ### opening -/

/-- a regular file opens exactly when it has a whole header, the magic number, a non-zero version,
    a non-zero generation and a declared size of at least 16 + 56 (its real length does not matter
    beyond the 16 header bytes) -/
theorem open_ok_iff (bs : Bytes) (h : Header) :
    readerOpen (.file bs) = .ok h ↔
      16 ≤ bs.length ∧ h = parseHeader bs ∧ h.magic0 = MAGIC0 ∧ h.magic1 = MAGIC1 ∧
      h.version ≠ 0 ∧ h.generation ≠ 0 ∧ 72 ≤ h.segsize := readerOpen_ok_iff bs h

/-- with an address-space limit (`lim = some L`: `mmap` grants at most `L` bytes) the declared size
    must in addition fit; this is the only way a huge declared size can fail -/
theorem open_ok_iff_lim (L : Nat) (bs : Bytes) (h : Header) :
    readerOpenLim (some L) (.file bs) = .ok h ↔ readerOpen (.file bs) = .ok h ∧ h.segsize ≤ L := by
  rcases hdr_cases bs with hn | hg
  · have e1 : readerOpenLim (some L) (.file bs) = .error .notInit := by
      rw [readerOpenLim_file, readHeader_notInit bs hn]
    rw [e1, readerOpen_notInit bs hn]
    constructor
    · intro x; cases x
    · rintro ⟨x, _⟩; cases x
  · by_cases h16 : 16 ≤ (parseHeader bs).segsize
    · rw [readerOpenLim_good L bs hg h16, readerOpen_good bs hg]
      by_cases hL : L < (parseHeader bs).segsize
      · rw [if_pos hL]
        constructor
        · intro x; cases x
        · rintro ⟨x, y⟩
          split at x
          · cases x
          · injection x with x; subst x; omega
      · rw [if_neg hL]
        constructor
        · intro x
          refine ⟨x, ?_⟩
          split at x
          · cases x
          · injection x with x; subst x; omega
        · rintro ⟨x, _⟩; exact x
    · have e1 : readerOpenLim (some L) (.file bs) = .error .malformed := by
        rw [readerOpenLim_file, readHeader_good bs hg, if_pos (by omega)]
      rw [e1, readerOpen_good bs hg, if_pos (by omega)]
      constructor
      · intro x; cases x
      · rintro ⟨x, _⟩; cases x

/-- observed on the 64-bit host without such a limit: a declared size of 2^32 − 1 on a 72-byte file
    opens (the mapping extends past the end of the file; only touching it there would fault) -/
example : (readerOpen (.file (encodeSegment ⟨MAGIC0, MAGIC1, 4294967295, 1, 2⟩ Record.empty))).isOk = true := by
  decide

/-- otherwise the error is that of the first failing check: not-initialised for a short file, a wrong
    magic number, version 0 or generation 0 (whatever the declared size says), malformed for a
    declared size below 72 -/
theorem open_error_kind (bs : Bytes) :
    (bs.length < 16 ∨ ¬ ((parseHeader bs).magic0 = MAGIC0 ∧ (parseHeader bs).magic1 = MAGIC1) ∨
        (parseHeader bs).version = 0 ∨ (parseHeader bs).generation = 0 →
      readerOpen (.file bs) = .error .notInit) ∧
    (16 ≤ bs.length ∧ (parseHeader bs).magic0 = MAGIC0 ∧ (parseHeader bs).magic1 = MAGIC1 ∧
        (parseHeader bs).version ≠ 0 ∧ (parseHeader bs).generation ≠ 0 ∧ (parseHeader bs).segsize < 72 →
      readerOpen (.file bs) = .error .malformed) := by
  constructor
  · exact readerOpen_notInit bs
  · rintro ⟨a, b, c, d, e, f⟩
    rw [readerOpen_good bs ⟨a, b, c, d, e⟩, if_pos f]

/-- a missing file: the failing system call is `open`, errno ENOENT -/
theorem open_missing : readerOpen .missing = .error (.sys 2 .open_) := rfl

/-- a directory: `open` succeeds, the failing system call is the header `read`, errno EISDIR -/
theorem open_directory : readerOpen .directory = .error (.sys 21 .read) := rfl

/-- under an address-space limit the additional outcome is ENOMEM from `mmap` -/
theorem open_mmap_refused (L : Nat) (bs : Bytes) (h : Header) (hok : readerOpen (.file bs) = .ok h)
    (hL : L < h.segsize) : readerOpenLim (some L) (.file bs) = .error (.sys 12 .mmap) := by
  obtain ⟨a, rfl, b, c, d, e, f⟩ := (open_ok_iff bs _).mp hok
  rw [readerOpenLim_good L bs ⟨a, b, c, d, e⟩ (by omega), if_pos hL]
  rfl

/-- opening is total, and these are all its outcomes.  By construction the model has no further
    outcome (`readerOpen` is a total function into `Except ShmErr Header`); that the implementation
    has none either — no panic, no signal — is what the harness observes under `catch_unwind` on
    every generated file and path. -/
theorem open_total (st : FileState) :
    (∃ h, readerOpen st = .ok h) ∨ readerOpen st = .error .notInit ∨ readerOpen st = .error .malformed ∨
    (st = .missing ∧ readerOpen st = .error (.sys 2 .open_)) ∨
    (st = .directory ∧ readerOpen st = .error (.sys 21 .read)) := by
  cases st with
  | missing => exact Or.inr (Or.inr (Or.inr (Or.inl ⟨rfl, rfl⟩)))
  | directory => exact Or.inr (Or.inr (Or.inr (Or.inr ⟨rfl, rfl⟩)))
  | file bs =>
    rcases hdr_cases bs with hn | hg
    · exact Or.inr (Or.inl (readerOpen_notInit bs hn))
    · rw [readerOpen_good bs hg]
      split
      · exact Or.inr (Or.inr (Or.inl rfl))
      · exact Or.inl ⟨_, rfl⟩

theorem validBytes_iff (bs : Bytes) :
    validBytes bs = true ↔ hdrGood bs ∧ 72 ≤ (parseHeader bs).segsize := by
  unfold validBytes magicOk hdrGood HEADER_SIZE SEGMENT_SIZE
  simp only [Bool.and_eq_true, decide_eq_true_eq]
  constructor
  · rintro ⟨⟨⟨⟨a, b, c⟩, d⟩, e⟩, f⟩; exact ⟨⟨a, b, c, d, e⟩, f⟩
  · rintro ⟨⟨a, b, c, d, e⟩, f⟩; exact ⟨⟨⟨⟨a, b, c⟩, d⟩, e⟩, f⟩

theorem specOpen_file (bs : Bytes) :
    specOpen (.file bs) =
      if validBytes bs then .ok
      else if bs.length < HEADER_SIZE ∨ !magicOk bs ∨ (parseHeader bs).version = 0 ∨ (parseHeader bs).generation = 0
        then .err .notInit
      else .err .malformed := rfl

theorem notInitCond_iff (bs : Bytes) :
    (bs.length < HEADER_SIZE ∨ (!magicOk bs) = true ∨ (parseHeader bs).version = 0 ∨ (parseHeader bs).generation = 0)
      ↔ hdrNotInit bs := by
  unfold magicOk hdrNotInit HEADER_SIZE
  simp only [Bool.not_eq_true', decide_eq_false_iff_not]

/-- the model agrees with the documented outcome table `specOpen` -/
theorem open_spec (st : FileState) : Res.ofExcept (readerOpen st) = specOpen st := by
  cases st with
  | missing => rfl
  | directory => rfl
  | file bs =>
    rw [specOpen_file]
    rcases hdr_cases bs with hn | hg
    · rw [readerOpen_notInit bs hn]
      rw [if_neg (fun hv => hdr_excl bs hn ((validBytes_iff bs).mp hv).1)]
      rw [if_pos ((notInitCond_iff bs).mpr hn)]
      rfl
    · rw [readerOpen_good bs hg]
      by_cases hs : (parseHeader bs).segsize < 72
      · rw [if_pos hs]
        rw [if_neg (fun hv => by have := ((validBytes_iff bs).mp hv).2; omega)]
        rw [if_neg (fun hc => hdr_excl bs ((notInitCond_iff bs).mp hc) hg)]
        rfl
      · rw [if_neg hs, if_pos ((validBytes_iff bs).mpr ⟨hg, by omega⟩)]
        rfl

/-- the oracle holds of the model: all three ways of opening report the documented outcome, the two
    client libraries through their `From<ShmError>` conversions -/
theorem model_holds_open (st : FileState) :
    HoldsOpen st (some (Res.ofExcept (readerOpen st)))
      (some ((Res.ofExcept (readerOpen st)).map ShmErr.toClient))
      (some ((Res.ofExcept (readerOpen st)).map ShmErr.toClient)) = true := by
  unfold HoldsOpen
  rw [open_spec]
  simp

/-! ### repair: `ShmWriter::new`, the first `write`, a fresh reader -/

/-- a directory at the path: start-up is refused (`File::create` fails with EISDIR); this is the one
    kind of path the daemon does not repair -/
theorem start_directory (r : Record) (pad : Bytes) : startAndPublish .directory r pad = .error 21 := rfl

/-- what a fresh reader gets from a file that opens, is at least 72 bytes long, has an even
    generation and holds the encoding of `r` in its record area -/
theorem snapshot_of (bs : Bytes) (h : Header) (r : Record) (pad : Bytes) (hok : readerOpen (.file bs) = .ok h)
    (hlen : 72 ≤ bs.length) (heven : h.generation % 2 = 0)
    (hrec : slice bs HEADER_SIZE RECORD_SIZE = encodeRecordP r pad) (hr : r.inRange) :
    snapshotOfFile (.file bs) = .record r := by
  have h1 : ¬ bs.length < SEGMENT_SIZE := by unfold SEGMENT_SIZE; omega
  unfold snapshotOfFile
  rw [hok]
  simp only []
  rw [if_neg h1, if_neg (by omega), hrec, decodeRecord_encodeRecordP r pad hr]

/-- **C16, repair clause.**  For every prior state of the path other than a directory, every
    in-range record and every content of the record's four padding bytes, daemon start-up followed
    by the first publication succeeds and leaves a file that
    * clients can open (layout version 1, even non-zero generation);
    * was re-created exactly when the prior state did not open, and is then precisely the documented
      72-byte image: header {magic, size 72, version 1, generation 2}, the record, the padding;
    * otherwise is the prior file taken over in place: same magic, same declared size, same length —
      except that a file that ended before byte 72 is now 72 bytes long (see `truncated_extended`);
    * and from which a fresh reader reads back exactly the record published. -/
theorem repair_roundtrip (st : FileState) (r : Record) (pad : Bytes) (hd : st ≠ .directory) (hr : r.inRange) :
    ∃ bs' rc, startAndPublish st r pad = .ok (.file bs', rc) ∧
      (∃ h, readerOpen (.file bs') = .ok h ∧ h.version = 1 ∧ h.generation ≠ 0 ∧ h.generation % 2 = 0) ∧
      (rc = true ↔ ∀ h, readerOpen st ≠ .ok h) ∧
      (rc = true → bs' = encodeSegmentP ⟨MAGIC0, MAGIC1, 72, 1, 2⟩ r pad ∧ bs'.length = 72) ∧
      (∀ bs h, st = .file bs → readerOpen st = .ok h →
          bs'.length = max bs.length 72 ∧ (parseHeader bs').segsize = h.segsize ∧
          (parseHeader bs').magic0 = MAGIC0 ∧ (parseHeader bs').magic1 = MAGIC1 ∧
          (parseHeader bs').generation = genFinish (genStart h.generation)) ∧
      snapshotOfFile (.file bs') = .record r := by
  by_cases hu : ∃ h, readerOpen st = .ok h
  · -- a usable segment: taken over in place (grown to 72 bytes first if shorter)
    obtain ⟨h, hok⟩ := hu
    cases st with
    | missing => cases hok
    | directory => cases hok
    | file bs =>
      obtain ⟨hl, rfl, hm0, hm1, hv, hg, hs⟩ := (open_ok_iff bs h).mp hok
      have hW := parseHeader_takeover_ext bs r pad hl
      have hlenW := length_takeover_ext bs r pad
      have hokW : readerOpen (.file (writeRecord (patch (extendToSegment bs) 12 (encU16 1)) r pad)) =
          .ok { parseHeader bs with version := 1, generation := genFinish (genStart (parseHeader bs).generation) } := by
        rw [open_ok_iff]
        refine ⟨by omega, hW.symm, hm0, hm1, Nat.one_ne_zero, genFinish_ne_zero _, hs⟩
      refine ⟨writeRecord (patch (extendToSegment bs) 12 (encU16 1)) r pad, false, ?_, ?_, ?_, ?_, ?_, ?_⟩
      · exact startAndPublish_usable bs _ r pad hok
      · exact ⟨_, hokW, rfl, genFinish_ne_zero _, genFinish_genStart_even _⟩
      · constructor
        · intro x; cases x
        · intro x; exact absurd hok (x _)
      · intro x; cases x
      · intro bs2 h2 e1 e2
        injection e1 with e1; subst e1
        rw [hok] at e2; injection e2 with e2; subst e2
        rw [hW]
        exact ⟨hlenW, rfl, hm0, hm1, rfl⟩
      · exact snapshot_of _ _ r pad hokW (by omega) (genFinish_genStart_even _)
          (record_after_takeover_ext bs r pad) hr
  · -- anything else: wiped and re-created
    have hno : ∀ h, readerOpen st ≠ .ok h := fun h hc => hu ⟨h, hc⟩
    have hH : (⟨MAGIC0, MAGIC1, 72, 1, 2⟩ : Header).inRange := by decide
    have hp : parseHeader (encodeSegmentP ⟨MAGIC0, MAGIC1, 72, 1, 2⟩ r pad) = ⟨MAGIC0, MAGIC1, 72, 1, 2⟩ := by
      unfold encodeSegmentP; exact parseHeader_encodeHeader_append _ _ hH
    have hokW : readerOpen (.file (encodeSegmentP ⟨MAGIC0, MAGIC1, 72, 1, 2⟩ r pad)) = .ok ⟨MAGIC0, MAGIC1, 72, 1, 2⟩ := by
      rw [open_ok_iff]
      exact ⟨by rw [length_encodeSegmentP]; decide, hp.symm, rfl, rfl, by decide, by decide, by decide⟩
    have hrec : slice (encodeSegmentP ⟨MAGIC0, MAGIC1, 72, 1, 2⟩ r pad) HEADER_SIZE RECORD_SIZE = encodeRecordP r pad := by
      unfold encodeSegmentP slice HEADER_SIZE RECORD_SIZE
      rw [List.drop_left' (length_encodeHeader _), List.take_of_length_le (by rw [length_encodeRecordP]; decide)]
    refine ⟨encodeSegmentP ⟨MAGIC0, MAGIC1, 72, 1, 2⟩ r pad, true, ?_, ?_, ?_, ?_, ?_, ?_⟩
    · unfold startAndPublish; rw [writerNew_unusable st hd hno]
      simp only [writerFirstWrite]
      rw [recreated_bytes]; rfl
    · exact ⟨_, hokW, rfl, by decide, by decide⟩
    · exact ⟨fun _ => hno, fun _ => rfl⟩
    · intro _; exact ⟨rfl, length_encodeSegmentP _ r pad⟩
    · intro bs h e1 e2; exact absurd e2 (hno h)
    · exact snapshot_of _ _ r pad hokW (by rw [length_encodeSegmentP]; decide) (by decide) hrec hr

/-- the former gap in the repair, closed: a file whose header the readers accept but which ends before
    byte 72 (e.g. a 16-byte file declaring 72) is taken over, not re-created, and grown: after start-up
    and the first publication it is exactly 72 bytes long — its first twelve bytes (magic number,
    declared size) as they were, version 1, the generation advanced by one publication, the record with
    its padding; whatever it held from byte 16 on is overwritten by the record — and a fresh reader
    reads back exactly the record published -/
theorem truncated_extended (bs : Bytes) (h : Header) (r : Record) (pad : Bytes)
    (hok : readerOpen (.file bs) = .ok h) (hshort : bs.length < 72) (hr : r.inRange) :
    ∃ bs', startAndPublish (.file bs) r pad = .ok (.file bs', false) ∧ bs'.length = 72 ∧
      bs' = slice bs 0 12 ++ encU16 1 ++ encU16 (genFinish (genStart h.generation)) ++ encodeRecordP r pad ∧
      snapshotOfFile (.file bs') = .record r := by
  obtain ⟨hl, rfl, hm0, hm1, hv, hg, hs⟩ := (open_ok_iff bs h).mp hok
  have hW := parseHeader_takeover_ext bs r pad hl
  have hlenW : (writeRecord (patch (extendToSegment bs) 12 (encU16 1)) r pad).length = 72 := by
    rw [length_takeover_ext]; omega
  have hokW : readerOpen (.file (writeRecord (patch (extendToSegment bs) 12 (encU16 1)) r pad)) =
      .ok { parseHeader bs with version := 1, generation := genFinish (genStart (parseHeader bs).generation) } := by
    rw [open_ok_iff]
    exact ⟨by omega, hW.symm, hm0, hm1, Nat.one_ne_zero, genFinish_ne_zero _, hs⟩
  refine ⟨_, startAndPublish_usable bs _ r pad hok, hlenW, extended_bytes bs r pad hl (by omega), ?_⟩
  exact snapshot_of _ _ r pad hokW (by omega) (genFinish_genStart_even _) (record_after_takeover_ext bs r pad) hr

/-- the oracle holds of the model's own answer, for every prior state the repair clause speaks about
    (all but a directory) -/
theorem model_holds_seg (st : FileState) (r : Record) (pad : Bytes) (hr : r.inRange)
    (happ : segApplicable st = true) : HoldsSeg st r (modelSeg st r pad) = true := by
  simp only [segApplicable, decide_eq_true_eq] at happ
  have hd := happ
  obtain ⟨bs', rc, hsp, ⟨h', hopen, _, _, _⟩, hrc, hre, hto, hsn⟩ := repair_roundtrip st r pad hd hr
  unfold modelSeg
  rw [hsp]
  simp only [HoldsSeg, hsn, decide_true, Bool.true_and, Bool.and_eq_true, decide_eq_true_eq]
  have hspec : specValid st = true ↔ ∃ h, readerOpen st = .ok h := by
    unfold specValid
    rw [← open_spec]
    cases readerOpen st with
    | ok h => simp [Res.ofExcept, Res.isOk]
    | error e => simp [Res.ofExcept, Res.isOk]
  cases rc with
  | true =>
    have hno := hrc.mp rfl
    obtain ⟨hb, hl⟩ := hre rfl
    refine ⟨?_, ?_⟩
    · have : specValid st = false := by
        cases hsv : specValid st with
        | false => rfl
        | true => obtain ⟨h, hh⟩ := hspec.mp hsv; exact absurd hh (hno h)
      rw [this]; rfl
    · simp only [if_true, SEGMENT_SIZE]
      apply decide_eq_true
      refine ⟨?_, hl⟩
      -- the padding observed in the image is the padding written
      have hpad : slice bs' 68 4 = padBytes pad := by
        rw [hb]
        unfold encodeSegmentP encodeRecordP encodeHeader
        simp only [slice, encI64, encU32, encU16, encLE, List.cons_append, List.nil_append, List.drop_succ_cons,
          List.drop_zero]
        exact List.take_of_length_le (by rw [length_padBytes]; decide)
      rw [hpad, hb]
      unfold encodeSegmentP encodeRecordP
      have : padBytes (padBytes pad) = padBytes pad := by
        obtain ⟨a, b, c, d, e⟩ := padBytes_eq pad
        rw [e]; rfl
      rw [this]
  | false =>
    have hyes : ∃ h, readerOpen st = .ok h := by
      cases hro : readerOpen st with
      | ok h => exact ⟨h, rfl⟩
      | error e =>
        have := hrc.mpr (fun h hh => by rw [hro] at hh; cases hh)
        cases this
    obtain ⟨h, hok⟩ := hyes
    cases st with
    | missing => cases hok
    | directory => cases hok
    | file bs =>
      obtain ⟨e1, e2, _⟩ := hto bs h rfl hok
      have hh : h = parseHeader bs := ((open_ok_iff bs h).mp hok).2.1
      refine ⟨?_, ?_⟩
      · rw [hspec.mpr ⟨h, hok⟩]; rfl
      · simp only [Bool.false_eq_true, if_false]
        rw [Bool.and_eq_true]
        refine ⟨decide_eq_true ⟨e1, by rw [e2, hh]; rfl⟩, ?_⟩
        cases htr : truncatedValid (.file bs) with
        | false => rfl
        | true =>
          have hshort : bs.length < 72 := by
            simp only [truncatedValid, Bool.and_eq_true] at htr
            exact of_decide_eq_true htr.2
          -- the image is the one `truncated_extended` describes, with the padding as observed in it
          obtain ⟨bs2, hsp2, _, hb2, _⟩ := truncated_extended bs h r pad hok hshort hr
          rw [hsp] at hsp2
          injection hsp2 with hsp2
          injection hsp2 with hsp2 _
          injection hsp2 with hsp2
          subst hsp2
          have h12 : (slice bs 0 12).length = 12 :=
            length_slice bs 0 12 (by have := ((open_ok_iff bs h).mp hok).1; omega)
          have hpad : slice bs' 68 4 = padBytes pad := by
            rw [hb2]; exact pad_of_image _ _ _ r pad h12
          rw [hpad, encodeRecordP_padBytes]
          simp only [Bool.not_true, Bool.false_or, Bool.true_and]
          apply decide_eq_true
          rw [hh] at hb2
          exact hb2

/-! ### non-vacuity -/

/-- a published segment opens -/
example : (readerOpen (.file (encodeSegment ⟨MAGIC0, MAGIC1, 72, 1, 2⟩ Record.empty))).toOption
    = some ⟨MAGIC0, MAGIC1, 72, 1, 2⟩ := by decide
/-- empty file, bad magic (the bytes docs/PROTOCOL.md prints), version 0, generation 0, small size -/
example : Res.ofExcept (readerOpen (.file [])) = .err .notInit := by decide
example : Res.ofExcept (readerOpen (.file ([0x41, 0x4D, 0x5A, 0x4E, 0x43, 0x42, 0x02, 0x00] ++
    (encodeSegment ⟨0, 0, 72, 1, 2⟩ Record.empty).drop 8))) = .err .notInit := by decide
example : Res.ofExcept (readerOpen (.file (encodeSegment ⟨MAGIC0, MAGIC1, 15, 0, 2⟩ Record.empty))) = .err .notInit := by decide
example : Res.ofExcept (readerOpen (.file (encodeSegment ⟨MAGIC0, MAGIC1, 15, 1, 0⟩ Record.empty))) = .err .notInit := by decide
example : Res.ofExcept (readerOpen (.file (encodeSegment ⟨MAGIC0, MAGIC1, 71, 1, 2⟩ Record.empty))) = .err .malformed := by decide
example : Res.ofExcept (readerOpen (.file (encodeSegment ⟨MAGIC0, MAGIC1, 15, 1, 2⟩ Record.empty))) = .err .malformed := by decide
/-- a bare header declaring 72 bytes opens: only the declared size is checked -/
example : (readerOpen (.file (encodeHeader ⟨MAGIC0, MAGIC1, 72, 1, 2⟩))).isOk = true := by decide
/-- …and is the truncated-valid case, which the repair clause now covers like every other file -/
example : truncatedValid (.file (encodeHeader ⟨MAGIC0, MAGIC1, 72, 1, 2⟩)) = true ∧
    segApplicable (.file (encodeHeader ⟨MAGIC0, MAGIC1, 72, 1, 2⟩)) = true := by decide
example : segApplicable .missing = true ∧ segApplicable (.file []) = true ∧ segApplicable .directory = false := by decide
/-- repair of an empty file, concretely -/
example : (startAndPublish (.file []) ⟨⟨1, 2⟩, ⟨3, 4⟩, -5, 6, 7, .freeRunning⟩ [0xc7, 0x55, 0, 0]).toOption =
    some (.file [0x4E, 0x5A, 0x4D, 0x41, 0x00, 0x02, 0x42, 0x43, 72, 0, 0, 0, 1, 0, 2, 0,
                1, 0, 0, 0, 0, 0, 0, 0, 2, 0, 0, 0, 0, 0, 0, 0, 3, 0, 0, 0, 0, 0, 0, 0, 4, 0, 0, 0, 0, 0, 0, 0,
                251, 255, 255, 255, 255, 255, 255, 255, 6, 0, 0, 0, 7, 0, 0, 0, 2, 0, 0, 0, 0xc7, 0x55, 0, 0], true) := by
  decide +kernel

/-- a 16-byte usable file (header only: declared size 72, version 1, generation 10) is grown to 72
    bytes, not re-created: magic and declared size kept, version 1, generation 12, the record -/
example : (startAndPublish (.file [0x4E, 0x5A, 0x4D, 0x41, 0x00, 0x02, 0x42, 0x43, 0x48, 0, 0, 0, 1, 0, 0x0a, 0])
      ⟨⟨1, 2⟩, ⟨3, 4⟩, 5, 6, 7, .synchronized⟩ [0, 0, 0, 0]).toOption =
    some (.file [0x4E, 0x5A, 0x4D, 0x41, 0x00, 0x02, 0x42, 0x43, 72, 0, 0, 0, 1, 0, 0x0c, 0,
                1, 0, 0, 0, 0, 0, 0, 0, 2, 0, 0, 0, 0, 0, 0, 0, 3, 0, 0, 0, 0, 0, 0, 0, 4, 0, 0, 0, 0, 0, 0, 0,
                5, 0, 0, 0, 0, 0, 0, 0, 6, 0, 0, 0, 7, 0, 0, 0, 1, 0, 0, 0, 0, 0, 0, 0], false) := by
  decide +kernel
/-- …the result is 72 bytes long, a fresh reader reads back the record, and the oracle accepts the
    model's answer (and rejects the former behaviour: the 16-byte file left as it was, `short`) -/
example : modelSeg (.file [0x4E, 0x5A, 0x4D, 0x41, 0x00, 0x02, 0x42, 0x43, 0x48, 0, 0, 0, 1, 0, 0x0a, 0])
      ⟨⟨1, 2⟩, ⟨3, 4⟩, 5, 6, 7, .synchronized⟩ [0, 0, 0, 0] =
    .done false true (encodeSegment ⟨MAGIC0, MAGIC1, 72, 1, 12⟩ ⟨⟨1, 2⟩, ⟨3, 4⟩, 5, 6, 7, .synchronized⟩)
      (.record ⟨⟨1, 2⟩, ⟨3, 4⟩, 5, 6, 7, .synchronized⟩) := by decide +kernel
example : (encodeSegment ⟨MAGIC0, MAGIC1, 72, 1, 12⟩ ⟨⟨1, 2⟩, ⟨3, 4⟩, 5, 6, 7, .synchronized⟩).length = 72 := by decide
example : HoldsSeg (.file [0x4E, 0x5A, 0x4D, 0x41, 0x00, 0x02, 0x42, 0x43, 0x48, 0, 0, 0, 1, 0, 0x0a, 0])
      ⟨⟨1, 2⟩, ⟨3, 4⟩, 5, 6, 7, .synchronized⟩
      (.done false true (encodeSegment ⟨MAGIC0, MAGIC1, 72, 1, 12⟩ ⟨⟨1, 2⟩, ⟨3, 4⟩, 5, 6, 7, .synchronized⟩)
        (.record ⟨⟨1, 2⟩, ⟨3, 4⟩, 5, 6, 7, .synchronized⟩)) = true := by decide +kernel
example : HoldsSeg (.file [0x4E, 0x5A, 0x4D, 0x41, 0x00, 0x02, 0x42, 0x43, 0x48, 0, 0, 0, 1, 0, 0x0a, 0])
      ⟨⟨1, 2⟩, ⟨3, 4⟩, 5, 6, 7, .synchronized⟩
      (.done false true [0x4E, 0x5A, 0x4D, 0x41, 0x00, 0x02, 0x42, 0x43, 0x48, 0, 0, 0, 1, 0, 0x0c, 0] .short) = false := by
  decide +kernel

end ClockBound.C16
