/-
  C13 — Chronyd outages and PHC read failures degrade status on schedule.

  Subject: the model of clock-bound-d/src/chrony_poller.rs in Model/Poller.lean
  (`pollStep`, `Poller.run`).  Time = `Instant` readings in ns; `GRACE_NS` = 5 s.
  `Poller.msgAfter tStart refid pre it` is the message of iteration `it` when it runs after the
  iterations `pre` of a daemon whose poller was created at Instant `tStart` (`run_getElem` ties it
  to `Poller.run`).  `C13.lastAccepted pre` is the Instant at which the latest Tracking reply of
  `pre` was accepted (spec-level: it does not mention the poller's state).
-/
import ClockBound.Model.Poller
import ClockBound.Proofs.Poller
namespace ClockBound.C13
open ClockBound

/-- hypothesis "time readings are non-decreasing": all `Instant` readings the run makes, starting
    with the one in `ClockErrorBoundPoller::default()`, in program order -/
def Monotone (tStart : Int) (refid : Option Nat) (iters : List PollIter) : Prop :=
  nonDecreasing (Poller.readings tStart refid iters) = true

/-- `msgAfter` is the message at position `pre.length` of the run (as long as the thread is alive) -/
theorem run_getElem (tStart : Int) (refid : Option Nat) (pre post : List PollIter) (it : PollIter)
    (h : PollMsg.panic ∉ Poller.run tStart refid pre) :
    (Poller.run tStart refid (pre ++ it :: post))[pre.length]?
      = some (Poller.msgAfter tStart refid pre it) := by
  unfold Poller.run at h ⊢
  rw [Poller.runFrom_append refid pre (it :: post) _ h]
  have hl := Poller.runFrom_length_of_no_panic refid pre _ h
  rw [List.getElem?_append_right (by omega), hl, Nat.sub_self]
  unfold Poller.msgAfter
  simp only [Poller.runFrom]
  split
  · next hp => simp [hp]
  · simp

/-! ### silences -/

/-- every timing, no hypothesis on the clock: a silence (no reply or a non-Tracking reply) yields
    one of the two not-responding messages, the in-grace one iff the grace read is less than 5 s
    after the acceptance of the latest Tracking reply — or, if there was none, after
    `tStart − 5 s` (possible only if the clock ran backwards) -/
theorem silence_grace_iff_general (tStart : Int) (refid : Option Nat) (pre : List PollIter)
    (it : PollIter) (hs : it.reply.isSilence = true) :
    (Poller.msgAfter tStart refid pre it = .nrGrace ∨ Poller.msgAfter tStart refid pre it = .nr) ∧
    (Poller.msgAfter tStart refid pre it = .nrGrace ↔
      it.tGrace - (lastAccepted pre).getD (tStart - GRACE_NS) < GRACE_NS) ∧
    (Poller.msgAfter tStart refid pre it = .nr ↔
      GRACE_NS ≤ it.tGrace - (lastAccepted pre).getD (tStart - GRACE_NS)) := by
  unfold Poller.msgAfter PollIter.step
  rw [pollStep_silence _ _ _ _ _ _ hs]
  simp only []
  rw [← Poller.stateAfter_init tStart refid pre]
  cases hg : (Poller.stateAfter refid (Poller.init tStart) pre).withinGrace it.tGrace
  · have := (PollerState.withinGrace_false_iff _ _).1 hg
    rw [if_neg Bool.false_ne_true]
    exact ⟨Or.inr rfl, ⟨(fun h => nomatch h), fun h => by omega⟩, fun _ => this, fun _ => rfl⟩
  · have := (PollerState.withinGrace_iff _ _).1 hg
    rw [if_pos rfl]
    exact ⟨Or.inl rfl, ⟨fun _ => this, fun _ => rfl⟩, (fun h => nomatch h), fun h => by omega⟩

/-- under non-decreasing readings the latest acceptance is not after the grace read: the "age" of
    the last good answer is a genuine, non-negative duration -/
theorem last_le_grace (tStart : Int) (refid : Option Nat) (pre : List PollIter) (it : PollIter)
    (hs : it.reply.isSilence = true) (hmono : Monotone tStart refid (pre ++ [it])) :
    tStart ≤ it.tGrace ∧ ∀ tL, lastAccepted pre = some tL → tL ≤ it.tGrace := by
  unfold Monotone Poller.readings at hmono
  have hr : PollIter.readings refid it = [it.tGrace] := by
    unfold PollIter.readings
    cases hrep : it.reply with
    | tracking t => rw [hrep] at hs; simp [ReplyKind.isSilence] at hs
    | none => rfl
    | other => rfl
  rw [List.flatMap_append, List.flatMap_cons, List.flatMap_nil, List.append_nil, hr] at hmono
  constructor
  · exact nonDecreasing_head_le _ _ hmono _ (List.mem_append.2 (Or.inr (List.mem_singleton.2 rfl)))
  · intro tL hL
    rcases foldl_accept_mem refid pre none tL hL with h | h
    · cases h
    · exact nonDecreasing_append_le _ _ (nonDecreasing_tail _ _ hmono) tL h _ (List.mem_singleton.2 rfl)

/-- C13, silences: for every sequence of iterations with non-decreasing readings, chronyd not
    answering yields the FreeRunning-class message exactly while the last good answer is less than
    5 s old, and the Unknown-class message exactly when it is 5 s old or older or there never was one -/
theorem silence_grace_iff (tStart : Int) (refid : Option Nat) (pre : List PollIter) (it : PollIter)
    (hs : it.reply.isSilence = true) (hmono : Monotone tStart refid (pre ++ [it])) :
    (Poller.msgAfter tStart refid pre it = .nrGrace ↔
      ∃ tL, lastAccepted pre = some tL ∧ 0 ≤ it.tGrace - tL ∧ it.tGrace - tL < GRACE_NS) ∧
    (Poller.msgAfter tStart refid pre it = .nr ↔
      lastAccepted pre = none ∨ ∃ tL, lastAccepted pre = some tL ∧ GRACE_NS ≤ it.tGrace - tL) := by
  obtain ⟨_, hg, hn⟩ := silence_grace_iff_general tStart refid pre it hs
  obtain ⟨h0, hle⟩ := last_le_grace tStart refid pre it hs hmono
  rw [hg, hn]
  cases hL : lastAccepted pre with
  | none =>
    simp only [Option.getD_none]
    unfold GRACE_NS at *
    constructor
    · constructor
      · intro h; omega
      · rintro ⟨tL, h, _⟩; cases h
    · constructor
      · intro _; exact Or.inl (by simp)
      · intro _; omega
  | some tL =>
    have := hle tL hL
    simp only [Option.getD_some]
    constructor
    · constructor
      · intro h; exact ⟨tL, rfl, by omega, h⟩
      · rintro ⟨tL', h, _, h2⟩; cases h; exact h2
    · constructor
      · intro h; exact Or.inr ⟨tL, rfl, h⟩
      · rintro (h | ⟨tL', h, h2⟩)
        · cases h
        · cases h; exact h2

/-- before any Tracking reply was accepted, the latest-acceptance ghost is empty -/
theorem lastAccepted_none_of_silences (pre : List PollIter)
    (h : ∀ i ∈ pre, i.reply.isSilence = true) : lastAccepted pre = none := by
  unfold lastAccepted
  induction pre with
  | nil => rfl
  | cons i rest ih =>
    rw [List.foldl_cons]
    have hi := h i (List.mem_cons_self ..)
    have : accept none i = none := by
      unfold accept
      cases hr : i.reply with
      | tracking t => rw [hr] at hi; simp [ReplyKind.isSilence] at hi
      | none => rfl
      | other => rfl
    rw [this]
    exact ih (fun j hj => h j (List.mem_cons_of_mem _ hj))

/-- sharp form: right after daemon start, with no answer ever received, a silence whose grace read
    is not before the poller's creation yields the Unknown-class message — at once, not after 5 s
    (`init = tStart − 5 s`) -/
theorem startup_never_grace_of_le (tStart : Int) (refid : Option Nat) (pre : List PollIter)
    (it : PollIter) (hpre : ∀ i ∈ pre, i.reply.isSilence = true) (hs : it.reply.isSilence = true)
    (hle : tStart ≤ it.tGrace) : Poller.msgAfter tStart refid pre it = .nr := by
  obtain ⟨_, _, hn⟩ := silence_grace_iff_general tStart refid pre it hs
  rw [hn, lastAccepted_none_of_silences pre hpre]
  simp only [Option.getD_none]
  omega

/-- C13, start-up: with non-decreasing readings, every silence before the first accepted Tracking
    reply yields the Unknown-class message -/
theorem startup_never_grace (tStart : Int) (refid : Option Nat) (pre : List PollIter)
    (it : PollIter) (hpre : ∀ i ∈ pre, i.reply.isSilence = true) (hs : it.reply.isSilence = true)
    (hmono : Monotone tStart refid (pre ++ [it])) : Poller.msgAfter tStart refid pre it = .nr :=
  startup_never_grace_of_le tStart refid pre it hpre hs (last_le_grace tStart refid pre it hs hmono).1

/-- what the hypothesis buys: if the clock ran backwards past the creation instant, the start-up
    silence is reported in-grace -/
theorem startup_grace_if_backwards (tStart : Int) (refid : Option Nat) (it : PollIter)
    (hs : it.reply.isSilence = true) (hlt : it.tGrace < tStart) :
    Poller.msgAfter tStart refid [] it = .nrGrace := by
  obtain ⟨_, hg, _⟩ := silence_grace_iff_general tStart refid [] it hs
  rw [hg]
  simp only [lastAccepted, List.foldl_nil, Option.getD_none]
  omega

/-- the whole run: a daemon that never gets a Tracking reply only ever sends the Unknown-class
    message, one per iteration -/
theorem startup_run_all_unknown (tStart : Int) (refid : Option Nat) (iters : List PollIter)
    (hall : ∀ i ∈ iters, i.reply.isSilence = true) (hmono : Monotone tStart refid iters) :
    Poller.run tStart refid iters = iters.map (fun _ => PollMsg.nr) := by
  have key : ∀ (its : List PollIter), (∀ i ∈ its, i.reply.isSilence = true) →
      (∀ i ∈ its, tStart ≤ i.tGrace) →
      Poller.runFrom refid (Poller.init tStart) its = its.map (fun _ => PollMsg.nr) := by
    intro its
    induction its with
    | nil => intro _ _; rfl
    | cons i rest ih =>
      intro hs hle
      have hi := hs i (List.mem_cons_self ..)
      have hg : (Poller.init tStart).withinGrace i.tGrace = false := by
        rw [PollerState.withinGrace_false_iff]
        have := hle i (List.mem_cons_self ..)
        simp only [Poller.init]
        omega
      simp only [Poller.runFrom, PollIter.step, pollStep_silence _ _ _ _ _ _ hi, hg,
        Bool.false_eq_true, if_false, List.map_cons]
      rw [if_neg (by intro h; cases h)]
      rw [ih (fun j hj => hs j (List.mem_cons_of_mem _ hj)) (fun j hj => hle j (List.mem_cons_of_mem _ hj))]
  apply key iters hall
  intro i hi
  unfold Monotone Poller.readings at hmono
  apply nonDecreasing_head_le _ _ hmono
  rw [List.mem_flatMap]
  refine ⟨i, hi, ?_⟩
  have := hall i hi
  unfold PollIter.readings
  cases hr : i.reply with
  | tracking t => rw [hr] at this; simp [ReplyKind.isSilence] at this
  | none => simp
  | other => simp

/-- a well-formed reply that is not Tracking counts as silence: same message, same state -/
theorem other_reply_is_silence (s : PollerState) (asOf : TimeSpec) (tReply tGrace : Int)
    (phc : Option PhcCfg) :
    pollStep s asOf .other tReply tGrace phc = pollStep s asOf .none tReply tGrace phc := rfl

/-! ### PHC -/

/-- the configured PHC is the reference of report `t` -/
def PhcMatches (phc : Option PhcCfg) (t : Tracking) : Prop :=
  ∃ cfg, phc = some cfg ∧ cfg.refid = t.refid

/-- C13, PHC term: the sysfs error bound is consulted exactly when a Tracking reply arrives and the
    configured reference id equals the report's; then a readable value `v` is attached to the
    report, and in every other case (no PHC configured, other reference id) the report is passed on
    with 0 — in any poller state and at any time -/
theorem phc_added_iff_refid_matches (s : PollerState) (asOf : TimeSpec) (reply : ReplyKind)
    (tReply tGrace : Int) (phc : Option PhcCfg) :
    (PollAction.readPhc ∈ pollActions reply phc ↔ ∃ t, reply = .tracking t ∧ PhcMatches phc t) ∧
    (∀ t, reply = .tracking t → ¬ PhcMatches phc t →
      (pollStep s asOf reply tReply tGrace phc).2 = .data t 0 asOf) ∧
    (∀ t cfg v, reply = .tracking t → phc = some cfg → cfg.refid = t.refid → cfg.file = .ok v →
      inI64 v = true → (pollStep s asOf reply tReply tGrace phc).2 = .data t v asOf) := by
  refine ⟨?_, ?_, ?_⟩
  · cases reply with
    | tracking t =>
      cases phc with
      | none => simp [pollActions, PhcMatches]
      | some cfg =>
        by_cases hm : cfg.refid = t.refid
        · simp [pollActions, PhcMatches, hm]
        · simp [pollActions, PhcMatches, hm]
    | none => simp [pollActions]
    | other => simp [pollActions]
  · intro t ht hno
    subst ht
    cases phc with
    | none => rfl
    | some cfg =>
      have hm : ¬ cfg.refid = t.refid := fun h => hno ⟨cfg, rfl, h⟩
      simp [pollStep, hm]
  · intro t cfg v ht hp hm hf hv
    subst ht; subst hp
    simp [pollStep, hm, hf, PhcFile.read, hv]

/-- C13, PHC failure: when the PHC is chronyd's reference and its error bound cannot be obtained,
    no data message is sent — the report is not used as a measurement. Unreadable file: one of the
    two PHC-failure messages; unparsable contents (or a value outside i64): the thread panics.
    The writer thread, for its part, leaves bound, as-of and the measurement flag untouched on a
    failure message. -/
theorem phc_failure_not_a_measurement (s : PollerState) (asOf : TimeSpec) (t : Tracking)
    (tReply tGrace : Int) (cfg : PhcCfg) (hm : cfg.refid = t.refid) :
    (cfg.file = .unreadable →
      (pollStep s asOf (.tracking t) tReply tGrace (some cfg)).2 = .phcGrace ∨
      (pollStep s asOf (.tracking t) tReply tGrace (some cfg)).2 = .phcFail) ∧
    (cfg.file.read = none → (pollStep s asOf (.tracking t) tReply tGrace (some cfg)).2 = .panic) ∧
    ((∀ v, cfg.file.read ≠ some (some v)) →
      (pollStep s asOf (.tracking t) tReply tGrace (some cfg)).2.isData = false) ∧
    (∀ (m : PollMsg) (now : Int) (w : Msg) (u u' : Updater) (r : Record),
      (m = .phcGrace ∨ m = .phcFail) → m.toWriter now = some w → u.step w = some (u', r) →
      u'.bound = u.bound ∧ u'.asOf = u.asOf ∧ u'.hasMeasurement = u.hasMeasurement ∧
      r.bound = u.bound ∧ r.asOf = u.asOf) := by
  refine ⟨?_, ?_, ?_, ?_⟩
  · intro hf
    simp only [pollStep, hm, if_true, hf, PhcFile.read]
    cases PollerState.withinGrace ⟨tReply⟩ tGrace
    · exact Or.inr rfl
    · exact Or.inl rfl
  · intro hf
    simp only [pollStep, hm, if_true, hf]
  · intro hf
    simp only [pollStep, hm, if_true]
    cases hr : cfg.file.read with
    | none => rfl
    | some o =>
      cases o with
      | none =>
        simp only []
        cases PollerState.withinGrace ⟨tReply⟩ tGrace <;> rfl
      | some v => exact absurd hr (hf v)
  · intro m now w u u' r hmsg hw hstep
    have hw' : ∃ g, w = .missing g := by
      rcases hmsg with rfl | rfl
      · exact ⟨true, by simpa [PollMsg.toWriter] using hw.symm⟩
      · exact ⟨false, by simpa [PollMsg.toWriter] using hw.symm⟩
    obtain ⟨g, rfl⟩ := hw'
    simp only [Updater.step, Updater.record, bind, Option.bind] at hstep
    cases hc : chk (u.asOf.sec + 1000) with
    | none => simp [hc] at hstep
    | some v =>
      simp only [hc, Option.some.injEq, Prod.mk.injEq] at hstep
      obtain ⟨rfl, rfl⟩ := hstep
      exact ⟨rfl, rfl, rfl, rfl, rfl⟩

/-- C13, PHC failure timing. The grace test after a failed PHC read compares against the reply
    accepted *in this very iteration*: the not-in-grace message is sent iff the grace read is 5 s
    or more after that acceptance. Hence with the real poller, whenever the sysfs read takes less
    than 5 s (`hfast`), `PhcErrorBoundRetrievalFailed` cannot occur, whatever the earlier history;
    without that hypothesis it occurs exactly when `tGrace − tReply ≥ 5 s`. -/
theorem nongrace_phc_failure_unreachable (s : PollerState) (asOf : TimeSpec) (t : Tracking)
    (tReply tGrace : Int) (cfg : PhcCfg) (hm : cfg.refid = t.refid) (hf : cfg.file = .unreadable) :
    (tGrace - tReply < GRACE_NS →
      (pollStep s asOf (.tracking t) tReply tGrace (some cfg)).2 = .phcGrace) ∧
    ((pollStep s asOf (.tracking t) tReply tGrace (some cfg)).2 = .phcFail ↔
      GRACE_NS ≤ tGrace - tReply) := by
  simp only [pollStep, hm, if_true, hf, PhcFile.read]
  cases hg : PollerState.withinGrace ⟨tReply⟩ tGrace
  · have := (PollerState.withinGrace_false_iff _ _).1 hg
    simp only [] at this
    rw [if_neg Bool.false_ne_true]
    exact ⟨fun h => by omega, fun _ => this, fun _ => rfl⟩
  · have := (PollerState.withinGrace_iff _ _).1 hg
    simp only [] at this
    rw [if_pos rfl]
    exact ⟨fun _ => rfl, (fun h => nomatch h), fun h => by omega⟩

/-- so, in a run: a PHC read failure is always reported in-grace when the sysfs read is fast, even
    if chronyd had been silent for hours before this reply -/
theorem phc_failure_in_grace_in_run (tStart : Int) (refid : Nat) (pre : List PollIter) (it : PollIter)
    (t : Tracking) (hr : it.reply = .tracking t) (hm : refid = t.refid) (hf : it.file = .unreadable)
    (hfast : it.tGrace - it.tReply < GRACE_NS) :
    Poller.msgAfter tStart (some refid) pre it = .phcGrace := by
  unfold Poller.msgAfter PollIter.step
  rw [hr]
  exact (nongrace_phc_failure_unreachable _ it.asOf t it.tReply it.tGrace ⟨refid, it.file⟩ hm hf).1 hfast

/-! ### the oracle -/

/-- the decidable statement of C13 (the one `cbmodel` evaluates on the implementation's messages)
    holds of the model's messages, for every start instant, PHC configuration and sequence of
    iterations — monotone or not -/
theorem model_holds (tStart : Int) (refid : Option Nat) (iters : List PollIter) :
    Holds tStart refid iters (Poller.run tStart refid iters) = true :=
  holdsFrom_runFrom tStart refid iters none (Poller.init tStart) rfl

/-! ### non-vacuity -/

private def trk (refid : Nat) : Tracking :=
  { leap := 0, refNs := 0, offW := 0, dispW := 0, delayW := 0, intervalW := 0, refid := refid }

/-- start-up silence, an answer at 2 s, then silences 5 s − 1 ns, 5 s and 5 s + 1 ns later -/
example : Poller.run 1000000000 none
    [⟨⟨1, 0⟩, .none, 0, 1000000000, .unreadable⟩,
     ⟨⟨2, 0⟩, .tracking (trk 0), 2000000000, 0, .unreadable⟩,
     ⟨⟨3, 0⟩, .none, 0, 6999999999, .unreadable⟩,
     ⟨⟨4, 0⟩, .other, 0, 7000000000, .unreadable⟩,
     ⟨⟨5, 0⟩, .none, 0, 7000000001, .unreadable⟩]
    = [.nr, .data (trk 0) 0 ⟨2, 0⟩, .nrGrace, .nr, .nr] := by decide

example : Monotone 1000000000 none
    [⟨⟨1, 0⟩, .none, 0, 1000000000, .unreadable⟩,
     ⟨⟨2, 0⟩, .tracking (trk 0), 2000000000, 0, .unreadable⟩,
     ⟨⟨3, 0⟩, .none, 0, 6999999999, .unreadable⟩] := by unfold Monotone; decide

/-- PHC: matching id adds the value, id off by one adds 0, unreadable file is a failure message,
    unparsable contents kill the thread and nothing after is sent -/
example : Poller.run 0 (some 7)
    [⟨⟨1, 0⟩, .tracking (trk 7), 10, 20, .ok 12345⟩,
     ⟨⟨2, 0⟩, .tracking (trk 8), 30, 40, .ok 12345⟩,
     ⟨⟨3, 0⟩, .tracking (trk 7), 50, 60, .unreadable⟩,
     ⟨⟨4, 0⟩, .tracking (trk 7), 70, 70 + 5000000000, .unreadable⟩,
     ⟨⟨5, 0⟩, .tracking (trk 7), 80, 90, .unparsable⟩,
     ⟨⟨6, 0⟩, .tracking (trk 7), 100, 110, .ok 1⟩]
    = [.data (trk 7) 12345 ⟨1, 0⟩, .data (trk 8) 0 ⟨2, 0⟩, .phcGrace, .phcFail, .panic] := by decide

/-- the oracle is not trivially true: it rejects an in-grace message at start-up, a data message
    on a PHC failure, a missing PHC term and a late in-grace message -/
example : Holds 0 none [⟨⟨1, 0⟩, .none, 0, 5, .unreadable⟩] [.nrGrace] = false := by decide
example : Holds 0 (some 7) [⟨⟨1, 0⟩, .tracking (trk 7), 10, 20, .unreadable⟩]
    [.data (trk 7) 0 ⟨1, 0⟩] = false := by decide
example : Holds 0 (some 7) [⟨⟨1, 0⟩, .tracking (trk 7), 10, 20, .ok 5⟩]
    [.data (trk 7) 0 ⟨1, 0⟩] = false := by decide
example : Holds 0 none [⟨⟨1, 0⟩, .tracking (trk 0), 10, 20, .unreadable⟩,
    ⟨⟨2, 0⟩, .none, 0, 5000000010, .unreadable⟩] [.data (trk 0) 0 ⟨1, 0⟩, .nrGrace] = false := by decide

end ClockBound.C13
