/-
  C16, client half (segment files are validated on open — through BOTH client APIs), and the open clause of C17
  (same error kind, errno and detail from both client libraries), stated ABOUT THE SOURCE — see `OnCodeClient.lean` for
  the reading.  Each theorem mentions only
    * the regenerated AST run by the interpreter: `ShmReader::new` (with `FdGuard::new`, `ShmHeader::read`,
      `is_valid`, `MmapGuard::new` inlined) in the context `CodeTieHeader.ctx` of the group `Shm`, against the system-call
      answers `EmbedShm.openAnswers none fd st` for the file state `st`; `ClockBoundClient::new_with_path` /
      `clockbound_open` / `From<ShmError> for clockbound_err` in the context `ctxE` of the group `Errors`;
    * the oracles `C16.HoldsOpen` (all three ways of opening report the documented outcome `specOpen st`) and
      `C17.HoldsOpen` (the two client libraries agree) on the answers, decoded;
  `readerOpen` / `toClient` occur only in the proofs.

  HOW THE TWO RUNS ARE LINKED.  For the client crates `ShmReader::new(path)` is a call to the environment that returns
  the first input `inp 0`.  The hypothesis `hopen` says that this input IS the value `v` the interpreted
  `ShmReader::new` of the same source returns, RECODED: the groups `Shm` and `Errors` write `errno::Errno` and the
  `&'static CStr` origin differently (`ErrorsProof.recodeResult`, `Proofs/OnCodeErrors.lean`); a returned reader is
  passed on unchanged (the struct `EmbedShm.freshReaderValue`).

  Compositions of `CodeTieHeader.reader_new_eq`, `CodeTieErrors.rust_open_eq` / `ffi_open_eq` / `ffi_from_eq_all` (and their
  struct-reader forms `ErrorsProof.rust_open_ok_struct` / `ffi_open_ok_struct`) with `C16.model_holds_open`,
  `C17.model_holds_open`, `ErrorsProg.toClient_full`.
-/
import ClockBound.Properties.CodeTieErrors
import ClockBound.Properties.CodeTieHeader
import ClockBound.Proofs.OnCodeErrors
import ClockBound.Properties.C16
import ClockBound.Properties.C17
set_option linter.unusedSimpArgs false
namespace ClockBound.OnCode
open ClockBound ClockBound.Rs ClockBound.Generated ClockBound.Rs.DictErrors ClockBound.Rs.EmbedErrors
open ClockBound.Rs.ErrorsProof ClockBound.Rs.EmbedShm

/-- the value a call returned (`none`: it panicked or left the interpreted fragment) -/
def retOfOpen : Rs.Outcome → Option Value
  | .ok v _ _ => some v
  | _ => none

/-- the answer of either `open`, decoded: the reader that was handed on, or the error (kind, errno, origin) -/
abbrev OpenAnswer := Except ClientErr Value

/-- `Result<ClockBoundClient, ClockBoundError>` -/
def rustOpenValue : OpenAnswer → Value
  | .ok rd => .enumv "Ok" [clientOf rd]
  | .error c => .enumv "Err" [clientErrValue c.full]

/-- what `ClockBoundClient::new_with_path("path")` of the current source does: ONE call `ShmReader::new` on the
    path as a C string (which returned `inp 0`), and its answer, decoded -/
def RustOpenAnswers (inp : Nat → Value) (a : OpenAnswer) : Prop :=
  run (ctxE inp) "ClockBoundClient::new_with_path" .unit [.str "path"]
    = .ok (rustOpenValue a) .unit [evOpen cstrValue (inp 0)]

/-- what `clockbound_open("path", err)` of the current source does (`err` NULL or valid): the same single call;
    then a new context holding the reader and the default error {NONE, 0, NULL}, or NULL — after `err.write(e.into())` when `err` is not NULL, where the
    `From<ShmError> for clockbound_err` of the same source turns that `e` into the error of the answer -/
def FfiOpenAnswers (inp : Nat → Value) (errNull : Bool) (a : OpenAnswer) : Prop :=
  match a with
  | .ok rd =>
    run (ctxE inp) "ffi_lib::clockbound_open" .unit [cptr (.str "path"), errArg errNull]
      = .ok (heapPtr (ctxOf (ffiErrValue ⟨.none, 0, none⟩) rd)) .unit [evOpen cstrValue (inp 0)]
  | .error c =>
    ∃ e : ShmErrorV,
      run (ctxE inp) "ffi_lib::clockbound_open" .unit [cptr (.str "path"), errArg errNull]
        = .ok nullPtr .unit (evOpen cstrValue (inp 0) ::
            (if errNull then [] else [evWrite "err" (intoValue (shmErrorValue e))])) ∧
      run (ctxE inp) "From<ShmError> for clockbound_err::from" .unit [shmErrorValue e] = .ok (ffiErrValue c.full) .unit []

/-- what the harness compares: ok, or the error -/
def OpenAnswer.res (a : OpenAnswer) : C16.Res ClientErr := C16.Res.ofExcept a

theorem retOfOpen_noLog (o : Rs.Outcome) (v s : Value) (h : o.noLog = .ok v s []) : retOfOpen o = some v := by
  cases o <;> simp_all [Outcome.noLog, retOfOpen]

/-- **C16 (client half) and C17 (open clause), on the source.**  For EVERY state `st` of the path — missing, a
    directory, a file with ANY bytes (header fields within their widths) —, any descriptor number, `err` NULL or
    valid, when the system calls answer as that state prescribes:
    * `ShmReader::new` of the current source returns a value `v` that decodes to `sr` — ok, or a `ShmError`;
    * fed with that value, BOTH `ClockBoundClient::new_with_path` and `clockbound_open` of the current source make
      exactly one call `ShmReader::new(path)` and give the SAME answer `a`: the reader handed on (inside a
      `ClockBoundClient` / a new `clockbound_ctx`), or the error converted by their `From<ShmError>`;
    * the three answers satisfy the C16 oracle: each is the documented outcome for `st` (`specOpen`: ok iff magic,
      version ≠ 0, generation ≠ 0 and declared size ≥ 72; else not-initialised / malformed / the failing system call
      with its errno and origin), the client ones with kind, errno and detail of that error;
    * and the C17 oracle: the Rust client and the C library agree. -/
theorem C16_C17_open_api (st : FileState) (hst : CodeTieHeader.FileState.hdrInRange st) (fd : Nat) (hfd : fd ≤ 2147483647)
    (errNull : Bool) (inp : Nat → Value)
    (hopen : ∃ v, retOfOpen (run (CodeTieHeader.ctx (streamOf (openAnswers none fd st))) "ShmReader::new" .unit [cstrValue])
        = some v ∧ inp 0 = recodeResult v) :
    ∃ (sr : Except ShmErr Header) (a : OpenAnswer),
      retOfOpen (run (CodeTieHeader.ctx (streamOf (openAnswers none fd st))) "ShmReader::new" .unit [cstrValue])
        = some (openValue sr) ∧
      RustOpenAnswers inp a ∧ FfiOpenAnswers inp errNull a ∧
      C16.HoldsOpen st (some (C16.Res.ofExcept sr)) (some a.res) (some a.res) = true ∧
      C17.HoldsOpen (some a.res) (some a.res) = true := by
  have hnew := retOfOpen_noLog _ _ _ (CodeTieHeader.reader_new_eq none st hst fd hfd)
  obtain ⟨v, hv, h0⟩ := hopen
  rw [hnew] at hv
  have hv' : v = openValue (readerOpenLim none st) := (Option.some.inj hv).symm
  subst hv'
  rw [recodeResult_openValue] at h0
  have hspec := C16.model_holds_open st
  have hnul : ("path" : String).contains (Char.ofNat 0) = false := by simp
  unfold readerOpen at hspec
  cases hr : readerOpenLim none st with
  | ok hd =>
    rw [hr] at h0 hspec
    refine ⟨.ok hd, .ok (freshReaderValue hd.segsize), hnew.trans (by rw [hr]), ?_, ?_, hspec, C17.model_holds_open _⟩
    · exact rust_open_ok_struct inp "path" _ hnul h0
    · exact ffi_open_ok_struct inp (.str "path") errNull _ h0
  | error e =>
    rw [hr] at h0 hspec
    have h0' : inp 0 = openResValue (.error e.full) := h0
    refine ⟨.error e, .error e.toClient, hnew.trans (by rw [hr]), ?_, ⟨e.full, ?_, ?_⟩, hspec, C17.model_holds_open _⟩
    · unfold RustOpenAnswers
      rw [CodeTieErrors.rust_open_eq inp "path" (.error e.full) hnul h0', h0']
      simp only [rustOpenOutcome, clientOpen, EmbedErrors.resultValue, rustOpenValue, ErrorsProg.toClient_full]
      rfl
    · rw [CodeTieErrors.ffi_open_eq inp (.str "path") errNull (.error e.full) h0', h0']
      rfl
    · rw [← ErrorsProg.toClient_full]; exact CodeTieErrors.ffi_from_eq_all inp e.full

/-- the linking hypothesis is satisfiable for every file state: `ShmReader::new` of the current source returns a
    value (it neither panics nor gets stuck — "never a crash"), so a client stream that starts with its recoding exists -/
theorem C16_reader_new_returns (st : FileState) (hst : CodeTieHeader.FileState.hdrInRange st) (fd : Nat) (hfd : fd ≤ 2147483647) :
    ∃ (v : Value) (inp : Nat → Value),
      retOfOpen (run (CodeTieHeader.ctx (streamOf (openAnswers none fd st))) "ShmReader::new" .unit [cstrValue]) = some v ∧
      inp 0 = recodeResult v :=
  ⟨_, fun _ => recodeResult (openValue (readerOpenLim none st)),
    retOfOpen_noLog _ _ _ (CodeTieHeader.reader_new_eq none st hst fd hfd), rfl⟩

/-- C16, the kinds spelled out through both APIs: a missing file is ENOENT from `open`, a directory EISDIR from `read`,
    an empty file not-initialised, a valid header that declares 71 bytes malformed, a complete segment opens -/
example : C16.specOpen .missing = .err (.sys ENOENT .open_) ∧ C16.specOpen .directory = .err (.sys EISDIR .read) ∧
    C16.specOpen (.file []) = .err .notInit ∧
    C16.specOpen (.file (encodeHeader ⟨MAGIC0, MAGIC1, 71, 1, 2⟩ ++ List.replicate 56 0)) = .err .malformed ∧
    C16.specOpen (.file (encodeHeader ⟨MAGIC0, MAGIC1, 72, 1, 2⟩ ++ List.replicate 56 0)) = .ok := by
  refine ⟨rfl, rfl, rfl, ?_, ?_⟩ <;> decide

/-- the range hypothesis is satisfiable, and the oracle is not trivially true -/
example : CodeTieHeader.FileState.hdrInRange (.file (encodeHeader ⟨MAGIC0, MAGIC1, 72, 1, 2⟩ ++ List.replicate 56 0)) := by decide
example : C16.HoldsOpen .missing (some (.err (.sys ENOENT .open_))) (some (.err ⟨.syscall, 2, some .open_⟩))
    (some (.err ⟨.notInit, 0, none⟩)) = false := by decide

end ClockBound.OnCode
