/-
  Axiom audit of the poller theorems (C13, C12 daemon half) and their helper lemmas: every line must
  report a subset of {propext, Classical.choice, Quot.sound}.
  Run: `lake env lean ClockBound/Audit/Poller.lean`
-/
import ClockBound.Properties.C13
import ClockBound.Properties.C12d
open ClockBound
#print axioms C13.run_getElem
#print axioms C13.silence_grace_iff_general
#print axioms C13.last_le_grace
#print axioms C13.silence_grace_iff
#print axioms C13.lastAccepted_none_of_silences
#print axioms C13.startup_never_grace_of_le
#print axioms C13.startup_never_grace
#print axioms C13.startup_grace_if_backwards
#print axioms C13.startup_run_all_unknown
#print axioms C13.other_reply_is_silence
#print axioms C13.phc_added_iff_refid_matches
#print axioms C13.phc_failure_not_a_measurement
#print axioms C13.nongrace_phc_failure_unreachable
#print axioms C13.phc_failure_in_grace_in_run
#print axioms C13.model_holds
#print axioms C12d.asof_read_precedes_query
#print axioms C12d.trace_actions
#print axioms C12d.trace_send_is_step_msg
#print axioms C12d.step_data_asof
#print axioms C12d.data_asof_is_first_read
#print axioms C12d.data_msg_independent_of_delay
#print axioms C12d.obsLog_prefix
#print axioms C12d.holdsIter_step
#print axioms C12d.holds_from
#print axioms C12d.model_holds
#print axioms Poller.elapsed_lt_grace_iff
#print axioms PollerState.withinGrace_iff
#print axioms PollerState.withinGrace_false_iff
#print axioms pollStep_silence
#print axioms pollStep_tracking_state
#print axioms PollIter.step_lastGood
#print axioms Poller.stateAfter_lastGood
#print axioms Poller.stateAfter_init
#print axioms Poller.runFrom_append
#print axioms Poller.runFrom_length_le
#print axioms Poller.runFrom_length_of_no_panic
#print axioms nonDecreasing_head_le
#print axioms nonDecreasing_tail
#print axioms nonDecreasing_append_le
#print axioms C13.foldl_accept_mem
#print axioms C13.holdsIter_step
#print axioms C13.holdsFrom_runFrom
