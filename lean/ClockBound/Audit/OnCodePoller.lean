import ClockBound.Properties.OnCodePoller
import ClockBound.Properties.OnCodeNow
import ClockBound.Properties.OnCodePipeline
#print axioms ClockBound.OnCode.pollMsgValue_inj
#print axioms ClockBound.OnCode.C13_run
#print axioms ClockBound.OnCode.C13_startup_run
#print axioms ClockBound.OnCode.C12_loop
#print axioms ClockBound.OnCode.C12_C13_iteration
#print axioms ClockBound.OnCode.C12_now_read_order
#print axioms ClockBound.OnCode.C12_now_delay_widens
#print axioms ClockBound.OnCode.C13_C08_C09_pipeline
