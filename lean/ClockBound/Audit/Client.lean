import ClockBound.Properties.C05
import ClockBound.Properties.C06
import ClockBound.Properties.C14
open ClockBound
#print axioms C05.symmetric
#print axioms C05.growth_bounds
#print axioms C05.growth_exact_whole_seconds
#print axioms C05.growth_mono
#print axioms C05.mono_holds
#print axioms C05.model_holds
#print axioms C06.status_char
#print axioms C06.synchronized_only_if
#print axioms C06.freeRunning_only_if
#print axioms C06.unknown_always
#print axioms C06.fresh_passthrough
#print axioms C06.daemon_record_applicable
#print axioms C06.model_holds
#print axioms C14.no_panic
#print axioms C14.malformed_iff
#print axioms C14.causality_iff
#print axioms C14.ok_otherwise
#print axioms C14.blur_age_zero
#print axioms C14.model_holds
