import ClockBound.Properties.OnCodeErrors
import ClockBound.Properties.OnCodeOpen
open ClockBound
#print axioms OnCode.C14_now_returns
#print axioms OnCode.C14_now_api
#print axioms OnCode.C14_now_calls
#print axioms OnCode.C14_now_snapshot_error
#print axioms OnCode.C14_now_clock_error
#print axioms OnCode.C14_now_clock_error_mono
#print axioms OnCode.C17_now_same_answer
#print axioms OnCode.C17_status_as_published
#print axioms OnCode.C17_err_kind_as_published
#print axioms OnCode.C17_enums_as_published
#print axioms OnCode.C17_sizes_as_published
#print axioms OnCode.C16_C17_open_api
#print axioms OnCode.C16_reader_new_returns
#print axioms OnCode.ffiNowAnswers_of
#print axioms Rs.ErrorsProof.rust_open_ok_struct
#print axioms Rs.ErrorsProof.ffi_open_ok_struct
#print axioms Rs.ErrorsProof.recodeResult_openValue
