/-
  Axioms of the `Threads` translation-tie theorems: every line must end in [propext, Classical.choice, Quot.sound]
  (or a subset).  `lake env lean ClockBound/Audit/RsThreads.lean`
-/
import ClockBound.Properties.CodeTieThreads
import ClockBound.Properties.CodeTieWorkers
import ClockBound.Properties.OnCodeThreads
#print axioms ClockBound.CodeTieThreads.main_eq
#print axioms ClockBound.CodeTieThreads.drop_eq
#print axioms ClockBound.CodeTieThreads.main_ops_pre
#print axioms ClockBound.CodeTieThreads.main_ops_tail
#print axioms ClockBound.Rs.ThreadsProof.bcast_eq
#print axioms ClockBound.Rs.ThreadsProof.evalWhile_skip
#print axioms ClockBound.ThreadsProgProps.mainDo_next
#print axioms ClockBound.ThreadsProgProps.pollerDo_next
#print axioms ClockBound.ThreadsProgProps.writerDo_next
#print axioms ClockBound.ThreadsProgProps.main_prog_pcs
#print axioms ClockBound.ThreadsProgProps.main_prog_run
#print axioms ClockBound.ThreadsProgProps.poller_prog_pcs
#print axioms ClockBound.ThreadsProgProps.writer_prog_pcs
#print axioms ClockBound.ThreadsProgProps.drop_step_poller
#print axioms ClockBound.ThreadsProgProps.drop_step_writer
#print axioms ClockBound.CodeTieThreads.poller_exit_eq
#print axioms ClockBound.CodeTieThreads.poller_loop_eq
#print axioms ClockBound.CodeTieThreads.writer_exit_eq
#print axioms ClockBound.CodeTieThreads.writer_open_failed_eq
#print axioms ClockBound.CodeTieThreads.writer_loop_eq
#print axioms ClockBound.CodeTieThreads.poller_iter_abs
#print axioms ClockBound.CodeTieThreads.poller_end_kind
#print axioms ClockBound.CodeTieThreads.writer_step_abs
#print axioms ClockBound.OnCode.C15_drop_reports_poller
#print axioms ClockBound.OnCode.C15_drop_reports_writer
#print axioms ClockBound.OnCode.C15_main_stops_everything
#print axioms ClockBound.OnCode.scenarioInp_admissible
#print axioms ClockBound.OnCode.C15_main_code_within_model
#print axioms ClockBound.OnCode.C15_main_model_within_code
#print axioms ClockBound.OnCode.C15_main_in_every_schedule
#print axioms ClockBound.OnCode.C15_exits_after_death
#print axioms ClockBound.OnCode.C15_poller_thread_ends
#print axioms ClockBound.OnCode.C15_writer_thread_ends
#print axioms ClockBound.OnCode.C15_writer_open_failure
