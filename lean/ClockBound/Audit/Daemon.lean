import ClockBound.Properties.C07
import ClockBound.Properties.C08
import ClockBound.Properties.C09
import ClockBound.Properties.C10
import ClockBound.Properties.C11
import ClockBound.Properties.C19
open ClockBound
#print axioms C07.bound_bounds
#print axioms C07.sign_irrelevant
#print axioms C07.model_holds
#print axioms C07.strict_false
#print axioms C08.refinement
#print axioms C08.one_publication_per_outcome
#print axioms C08.drift_published
#print axioms C08.void_after
#print axioms C08.model_holds
#print axioms C09.model_holds
#print axioms C09.unknown_until_first_sync
#print axioms C09.client_sees_unknown
#print axioms C10.classify_eq
#print axioms C10.threshold_le
#print axioms C10.synchronized_only_if
#print axioms C10.stale_or_leap3_freeRunning
#print axioms C10.other_unknown
#print axioms C10.fresh_synchronized
#print axioms C10.model_holds
#print axioms C11.start_odd
#print axioms C11.start_even
#print axioms C11.start_odd_keeps
#print axioms C11.finish_props
#print axioms C11.wrap
#print axioms C11.model_holds
#print axioms C11.history_invariant
#print axioms C11.update_changes
#print axioms C19.exact_or_refused
#print axioms C19.never_wrapped
#print axioms C19.default_one_ppm
#print axioms C19.published
#print axioms C19.model_holds
