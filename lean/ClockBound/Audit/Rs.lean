import ClockBound.Properties.CodeTieClient
import ClockBound.Properties.CodeTieLeap
import ClockBound.Properties.CodeTieExtract
import ClockBound.Properties.CodeTieUpdater
import ClockBound.Properties.CodeTieDrift
import ClockBound.Properties.CodeTieGen
import ClockBound.Proofs.RsLoopDemo
open ClockBound
#print axioms CodeTieClient.compute_bound_at_eq
#print axioms CodeTieClient.compute_bound_at_not_stuck
#print axioms CodeTieLeap.leap_from_eq_all
#print axioms CodeTieLeap.leap_from_eq
#print axioms CodeTieExtract.extract_eq
#print axioms CodeTieUpdater.process_clock_update_eq
#print axioms CodeTieUpdater.process_missing_eq
#print axioms CodeTieUpdater.new_eq
#print axioms CodeTieDrift.max_drift_ppb_eq
#print axioms CodeTieGen.write_events_eq
#print axioms CodeTieGen.write_not_stuck
#print axioms Rs.LoopDemo.sum_below_eq
#print axioms Rs.evalWhile_iterate
#print axioms Rs.evalFor_iterate
