import ClockBound.Properties.C18
import ClockBound.Properties.C03b
open ClockBound

#print axioms C18.step_decreases
#print axioms C18.call_wf
#print axioms C18.bounded
#print axioms C18.in_flight_answers_from_cache
#print axioms C18.version_zero_answers_from_cache
#print axioms C03.reachable_viewOk
#print axioms C03.catches_up
#print axioms C03.same_generation_serves_cache
