/-
  Axiom audit for the seqlock properties (C02, C03 first half).
-/
import ClockBound.Properties.C02
import ClockBound.Properties.C03

#print axioms ClockBound.C02.even_generation_is_complete
#print axioms ClockBound.C02.accept_consistent
#print axioms ClockBound.C02.no_mixture
#print axioms ClockBound.C02.no_mixture_general
#print axioms ClockBound.C03.accepted_monotone
#print axioms ClockBound.C03.cache_is_accepted_publication
#print axioms ClockBound.C03.equal_generation_same_message
