import ClockBound.Properties.C02N
#print axioms ClockBound.C02.projection
#print axioms ClockBound.C02.no_mixture_any_readers
