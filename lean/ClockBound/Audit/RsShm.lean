import ClockBound.Properties.CodeTieSeqlock
import ClockBound.Properties.CodeTieSeqlockHead
import ClockBound.Properties.CodeTieHeader
import ClockBound.Properties.CodeTieWriterNew
import ClockBound.Properties.OnCodeSeqlock
import ClockBound.Properties.OnCodeWriterNew
open ClockBound
#print axioms CodeTieSeqlock.write_eq
#print axioms CodeTieSeqlock.write_record_eq
#print axioms CodeTieSeqlock.ann_adequate
#print axioms CodeTieSeqlock.write_not_stuck
#print axioms CodeTieSeqlock.snapshot_eq
#print axioms CodeTieSeqlock.snapshot_eq_typed
#print axioms CodeTieSeqlock.snapshot_machine
#print axioms CodeTieHeader.is_valid_eq
#print axioms CodeTieHeader.is_valid_eq_bytes
#print axioms CodeTieHeader.read_eq
#print axioms CodeTieHeader.read_eq_file
#print axioms CodeTieHeader.reader_new_eq
#print axioms CodeTieHeader.segment_size_eq
#print axioms HeaderProg.readHeader_eq_prog
#print axioms HeaderProg.readerOpenLim_eq_prog
#print axioms HeaderProg.readHeader_full
#print axioms CodeTieWriterNew.new_eq
#print axioms CodeTieWriterNew.new_ops_script
#print axioms WriterNewProg.script_split
#print axioms WriterNewProg.newOps_script
#print axioms CodeTieSeqlockHead.ann_default
#print axioms CodeTieSeqlockHead.write_ann
#print axioms CodeTieSeqlockHead.snapshot_eq
#print axioms OnCode.C11_write_stores
#print axioms OnCode.C11_history
#print axioms OnCode.C11_after_completed
#print axioms OnCode.C18_snapshot_bounded
#print axioms OnCode.C18_version_zero
#print axioms OnCode.C18_in_flight
#print axioms OnCode.C02_C03_bridge
#print axioms OnCode.C02_no_mixture
#print axioms OnCode.C03_accepted_monotone
#print axioms OnCode.C03_cache_is_publication
#print axioms OnCode.C04_new_is_script
#print axioms OnCode.C04_usable_kept
#print axioms OnCode.C04_unusable_recreated
#print axioms OnCode.C04_fresh_after_crash
#print axioms OnCode.C16_new_leaves_writerNew
#print axioms OnCode.C16_repair_roundtrip
