import ClockBound.Properties.CodeTieSeqlock
import ClockBound.Properties.CodeTieSeqlockHead
import ClockBound.Properties.CodeTieHeader
import ClockBound.Properties.CodeTieWriterNew
open ClockBound
#print axioms CodeTieSeqlock.write_eq
#print axioms CodeTieSeqlock.write_record_eq
#print axioms CodeTieSeqlock.ann_adequate
#print axioms CodeTieSeqlock.write_not_stuck
#print axioms CodeTieSeqlock.snapshot_eq
#print axioms CodeTieSeqlock.snapshot_eq_typed
#print axioms CodeTieSeqlock.snapshot_machine
#print axioms CodeTieHeader.is_valid_eq
#print axioms CodeTieHeader.is_valid_eq_bytes
#print axioms CodeTieHeader.read_eq
#print axioms CodeTieHeader.read_eq_file
#print axioms CodeTieHeader.reader_new_eq
#print axioms CodeTieHeader.segment_size_eq
#print axioms HeaderProg.readHeader_eq_prog
#print axioms HeaderProg.readerOpenLim_eq_prog
#print axioms HeaderProg.readHeader_full
#print axioms CodeTieWriterNew.new_eq
#print axioms CodeTieWriterNew.new_ops_script
#print axioms WriterNewProg.script_split
#print axioms WriterNewProg.newOps_script
#print axioms CodeTieSeqlockHead.ann_default
#print axioms CodeTieSeqlockHead.write_ann
#print axioms CodeTieSeqlockHead.snapshot_eq
