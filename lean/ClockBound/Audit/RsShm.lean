import ClockBound.Properties.CodeTieSeqlock
open ClockBound
#print axioms CodeTieSeqlock.write_eq
#print axioms CodeTieSeqlock.write_record_eq
#print axioms CodeTieSeqlock.write_ann
#print axioms CodeTieSeqlock.write_not_stuck
#print axioms CodeTieSeqlock.snapshot_eq
#print axioms CodeTieSeqlock.snapshot_eq_typed
#print axioms CodeTieSeqlock.snapshot_machine
