import ClockBound.Properties.CodeTiePoller
import ClockBound.Properties.CodeTieNow
import ClockBound.Properties.CodeTieDispatch
#print axioms ClockBound.CodeTiePoller.iteration_eq
#print axioms ClockBound.CodeTiePoller.loop_found
#print axioms ClockBound.CodeTiePoller.iteration_reads_order
#print axioms ClockBound.CodeTiePoller.default_eq
#print axioms ClockBound.CodeTiePoller.grace_eq
#print axioms ClockBound.CodeTieNow.clock_ids_eq
#print axioms ClockBound.CodeTieNow.now_reads
#print axioms ClockBound.CodeTieNow.now_reads_order
#print axioms ClockBound.CodeTieNow.now_err_realtime
#print axioms ClockBound.CodeTieNow.now_err_monotonic
#print axioms ClockBound.CodeTieNow.now_not_stuck
#print axioms ClockBound.CodeTieDispatch.process_messages_eq
#print axioms ClockBound.CodeTieDispatch.records_eq
#print axioms ClockBound.CodeTieDispatch.iteration_eq
#print axioms ClockBound.CodeTieDispatch.iteration_abort
#print axioms ClockBound.CodeTiePoller.iteration_send_fails
#print axioms ClockBound.CodeTiePoller.iteration_clock_fails
#print axioms ClockBound.CodeTiePoller.loop_eq
#print axioms ClockBound.CodeTiePoller.loop_send_fails
#print axioms ClockBound.CodeTiePoller.pollRun_panics_iff
#print axioms ClockBound.CodeTiePoller.run_eq
