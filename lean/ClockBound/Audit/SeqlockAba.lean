import ClockBound.Properties.C02Full
#print axioms ClockBound.C02.full_false
#print axioms ClockBound.C02.generation_cycle
