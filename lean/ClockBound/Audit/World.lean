import ClockBound.Properties.C01
import ClockBound.Properties.C12
open ClockBound
#print axioms C01.provenance
#print axioms C01.containment_core
#print axioms C01.containment
#print axioms C01.model_holds
#print axioms C01.exampleWorld_good
#print axioms C12.client_reads_realtime_first
#print axioms C12.poller_reads_monotonic_before_query
#print axioms C12.client_delay_widens
#print axioms C12.daemon_delay_widens
#print axioms C12.driftWorld_good
#print axioms C12.asof_after_query_breaks
#print axioms C12.mono_before_realtime_breaks
