import ClockBound.Properties.C04
open ClockBound
#print axioms C04.usable_never_wiped
#print axioms C04.usable_preserved
#print axioms C04.restart_repairs
#print axioms C04.recreated_layout
#print axioms C04.unusable_until_first_publication_starts
#print axioms C04.attached_reader_across_restart
#print axioms C04.model_holds
