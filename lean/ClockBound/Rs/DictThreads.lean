/-
  Extension dictionary of the theorem group `Threads` (C15): mpsc channels, the channel web, thread spawn /
  join / `panicking()`, and the abstract operations of the two workers that are somebody else's business
  (the clock read, the chrony query, `ShmWriter::new`, the updater's processing methods).

  THIS FILE IS PART OF THE TRUSTED BASE of `Properties/CodeTieThreads.lean`.  One rule per Rust / library
  fact, written next to it.  Conventions:
  * objects are HANDLES (`Value.ext tag ..`): a `Receiver`, a `Sender`, a `JoinHandle`, the `MailBox`; what
    they do is not in the value: every operation on them is an EVENT (logged) whose result is the next
    environment input (`St.input`), never invented here.  The theorems constrain the inputs by hypotheses.
  * a `HashMap` is `ext "HashMap" [list of (key, value) tuples, list of keys in ITERATION ORDER]`: `get`
    looks a key up in the first component, `keys()` yields the second.  The iteration order is whatever the
    value says (the statements quantify over it).
  * the unit value `()` written in the source evaluates to `tuple []` (`Expr.tuple []`), so `Ok(())` is
    `enumv "Ok" [tuple []]`.
-/
import ClockBound.Rs.Interp
import ClockBound.Model.Threads
namespace ClockBound.Rs.DictThreads
open ClockBound ClockBound.Rs

/-! ### objects -/

/-- `crate::ChannelId::<X>` for the three threads of the model -/
def chanValue : Threads.Thread → Value
  | .main => .enumv "ChannelId::MainThread" []
  | .poller => .enumv "ChannelId::ClockErrorBoundPoller" []
  | .writer => .enumv "ChannelId::ShmWriter" []

/-- `mpsc::Receiver<Message>` of the channel with this id -/
def rxValue (c : Value) : Value := .ext "Receiver" [c]
/-- `mpsc::Sender<Message>` of the channel with this id -/
def txValue (c : Value) : Value := .ext "Sender" [c]
/-- the `MailBox` returned by `new_channel_web` (a handle: its content changes with every `get_mailbox`) -/
def mailboxValue : Value := .ext "MailBox" []
/-- `HashMap<K, V>`: entries, and the keys in the order in which the map iterates -/
def hashMapValue (entries : List (Value × Value)) (order : List Value) : Value :=
  .ext "HashMap" [.list (entries.map fun e => .tuple [e.1, e.2]), .list order]

/-! ### events (the entries of the effect log); the last argument is always what the environment returned -/

/-- `channels::new_channel_web::<ChannelId, Message>(ids)` returned `r` -/
def evChannelWeb (ids r : Value) : Value := .ext "channel_web" [ids, r]
/-- `mailbox.get_mailbox(&id)` returned `r` -/
def evGetMailbox (id r : Value) : Value := .ext "get_mailbox" [id, r]
/-- `std::thread::spawn(thunk)` returned the `JoinHandle` `r` -/
def evSpawn (thunk r : Value) : Value := .ext "spawn" [thunk, r]
/-- `handle.join()` returned `r` -/
def evJoin (handle r : Value) : Value := .ext "join" [handle, r]
/-- `std::thread::panicking()` returned `r` -/
def evPanicking (r : Value) : Value := .ext "panicking" [r]
/-- `Sender::send(msg)` on the channel `chan` returned `r` -/
def evSend (chan msg r : Value) : Value := .ext "send" [chan, msg, r]
/-- `Receiver::recv()` on the channel `chan` returned `r` -/
def evRecv (chan r : Value) : Value := .ext "recv" [chan, r]
/-- `Receiver::recv_timeout(d)` on the channel `chan` returned `r` -/
def evRecvTimeout (chan d r : Value) : Value := .ext "recv_timeout" [chan, d, r]
/-- an operation of a worker that this group does not look into: name, arguments, result -/
def evOp (name : String) (args : List Value) (r : Value) : Value := .ext "op" [.str name, .list args, r]

/-! ### rules -/

/-- std `HashMap::get(&k)`: `Some(&v)` for the entry with that key, else `None`.  Keys are field-less enum
    variants (`ChannelId`, `#[derive(PartialEq, Eq, Hash)]`: equal iff the same variant). -/
def hmGet : List Value → Value → Option Value
  | [], .enumv _ [] => some (.enumv "None" [])
  | .tuple [.enumv q [], v] :: rest, .enumv p [] =>
    if q = p then some (.enumv "Some" [v]) else hmGet rest (.enumv p [])
  | _, _ => none

/-- paths: `CLOCK_MONOTONIC` imported from clock_bound_shm::common into chrony_poller.rs (the clock id is only
    handed to `clock_gettime_safe`, which is an event) -/
def path : String → Option Value
  | "CLOCK_MONOTONIC" => some (.ext "clockid" [.str "CLOCK_MONOTONIC"])
  | _ => none

/-- an operation whose result the environment decides: logged as `ev result`, result = next input -/
def ask (w : Inputs) (st : St) (ev : Value → Value) : Option Res :=
  some (.val (st.input w ev).1 (st.input w ev).2)

/-- an operation that returns `()` or panics, the environment says which: the next input is `bool completes`
    (anything else: no rule); logged as `ev (bool completes)` -/
def askDone (w : Inputs) (st : St) (ev : Value → Value) : Option Res :=
  match (st.input w ev).1 with
  | .bool b => some (if b = true then .val .unit (st.input w ev).2 else .panic)
  | _ => none

def call (w : Inputs) : String → List Value → St → Option Res
  -- channels.rs `new_channel_web::<ChannelId, Message>(ids)` (called with a turbofish, so the call does not
  -- resolve to the translated function, whose `HashMap::insert`s the interpreter cannot run): the environment
  -- returns the pair (MailBox, DispatchBox)
  | "channels::new_channel_web<ChannelId,Message>", [ids], st => ask w st (evChannelWeb ids)
  -- std `thread::spawn(f)`: starts a thread that runs the thunk `f`; returns its `JoinHandle`
  | "spawn", [.ext "thunk" t], st => ask w st (evSpawn (.ext "thunk" t))
  | "thread::spawn", [.ext "thunk" t], st => ask w st (evSpawn (.ext "thunk" t))
  -- std `thread::panicking() -> bool`: is the current thread unwinding
  | "panicking", [], st => ask w st evPanicking
  | "thread::panicking", [], st => ask w st evPanicking
  -- std `Vec::new()`: the empty vector
  | "Vec::new", [], st => some (.val (.list []) st)
  -- std `mpsc::SendError<T>(pub T)`: a tuple struct holding the message that could not be sent
  | "mpsc::SendError", [m], st => some (.val (.struct "SendError" [("0", m)]) st)
  -- std `Duration::from_millis(ms: u64)`: cannot overflow
  | "Duration::from_millis", [.int t ms], st =>
    if (t = .u64 ∨ t = .infer) ∧ 0 ≤ ms then some (.val (.duration (ms * 1000000)) st) else none
  -- std `Instant::now()`: a reading of the monotonic clock
  | "Instant::now", [], st => ask w st (evOp "Instant::now" [])
  -- clock_bound_shm::common::clock_gettime_safe(clock_id) -> Result<TimeSpec, Errno> (called from chrony_poller.rs,
  -- where it is imported: the call does not resolve to a function of that file)
  | "clock_gettime_safe", [clk], st => ask w st (evOp "clock_gettime_safe" [clk])
  -- std `Path::new(&str)`: the same string seen as a path
  | "Path::new", [.str s], st => some (.val (.ext "Path" [.str s]) st)
  -- std `ops::ControlFlow<B, C>`: the two variants `Break(b)` / `Continue(c)` (a std enum, not in the generated tables)
  | "ControlFlow::Break", [v], st => some (.val (.enumv "ControlFlow::Break" [v]) st)
  | "ControlFlow::Continue", [v], st => some (.val (.enumv "ControlFlow::Continue" [v]) st)
  -- clock_bound_shm `ShmWriter::new(path) -> io::Result<ShmWriter>`: only consulted by a context whose function
  -- table does not contain the translated `ShmWriter::new` (see `CodeTieThreads.writerCtx`): an abstract operation
  | "ShmWriter::new", [p], st => ask w st (evOp "ShmWriter::new" [p])
  | _, _, _ => none

def method (w : Inputs) : Value → String → List Value → St → Option Res
  -- channels.rs `MailBox::get_mailbox(&mut self, id) -> Option<Receiver<M>>` on the handle
  | .ext "MailBox" [], "get_mailbox", [id], st => ask w st (evGetMailbox id)
  -- std `HashMap::get`, `HashMap::keys` (iteration order: the one the value carries)
  | .ext "HashMap" [.list es, .list _], "get", [k], st => (hmGet es k).map fun r => .val r st
  | .ext "HashMap" [.list _, .list order], "keys", [], st => some (.val (.list order) st)
  -- std `Sender::send(&self, t) -> Result<(), SendError<T>>`, `Receiver::recv() -> Result<T, RecvError>`,
  -- `Receiver::recv_timeout(d) -> Result<T, RecvTimeoutError>`: the environment (the other threads) decides
  | .ext "Sender" [c], "send", [m], st => ask w st (evSend c m)
  | .ext "Receiver" [c], "recv", [], st => ask w st (evRecv c)
  | .ext "Receiver" [c], "recv_timeout", [d], st => ask w st (evRecvTimeout c d)
  -- std `JoinHandle::join(self) -> thread::Result<T>`: blocks until the thread has finished
  | .ext "JoinHandle" h, "join", [], st => ask w st (evJoin (.ext "JoinHandle" h))
  -- `#[derive(Clone)] struct DispatchBox`: the clone holds senders to the same channels (`Sender::clone`).  The
  -- clone is taken to iterate in the same order as the original (hashbrown copies the table); nothing depends on
  -- it: the statements quantify over ALL iteration orders of the box and never compare two boxes.
  | .struct "DispatchBox" fs, "clone", [], st => some (.val (.struct "DispatchBox" fs) st)
  -- `#[derive(Clone)] enum ChannelId` (field-less): a copy
  | .enumv "ChannelId::MainThread" [], "clone", [], st => some (.val (.enumv "ChannelId::MainThread" []) st)
  | .enumv "ChannelId::ClockErrorBoundPoller" [], "clone", [], st =>
    some (.val (.enumv "ChannelId::ClockErrorBoundPoller" []) st)
  | .enumv "ChannelId::ShmWriter" [], "clone", [], st => some (.val (.enumv "ChannelId::ShmWriter" []) st)
  -- std `ControlFlow::is_break` / `is_continue`
  | .enumv "ControlFlow::Break" [_], "is_break", [], st => some (.val (.bool true) st)
  | .enumv "ControlFlow::Continue" [_], "is_break", [], st => some (.val (.bool false) st)
  | .enumv "ControlFlow::Break" [_], "is_continue", [], st => some (.val (.bool false) st)
  | .enumv "ControlFlow::Continue" [_], "is_continue", [], st => some (.val (.bool true) st)
  -- chrony_poller.rs `trait ChronyOperations` (`poller: impl ChronyOperations`): both methods are operations of the
  -- environment (chronyd, the monotonic clock); the poller value itself is not inspected
  | .struct "ClockErrorBoundPoller" _, "get_tracking", [], st => ask w st (evOp "get_tracking" [])
  | .struct "ClockErrorBoundPoller" _, "is_within_grace_period", [], st =>
    ask w st (evOp "is_within_grace_period" [])
  -- std `Instant::checked_sub(d) -> Option<Instant>` (`None` if not representable: platform-dependent)
  | .ext "Instant" i, "checked_sub", [d], st => ask w st (evOp "Instant::checked_sub" [.ext "Instant" i, d])
  -- shm_writer.rs `ShmUpdater::process_clock_update` / `process_missing_clock_update`: only consulted by a context
  -- whose function table does not contain them (`CodeTieThreads.writerCtx`; they are tied by `CodeTieUpdater`):
  -- abstract operations `(&mut self, ..) -> ()`: the environment says whether they complete or panic (`askDone`);
  -- the updater value is not changed (its state is not looked at by the loop around these calls)
  | .struct "ShmUpdater" _, "process_clock_update", args, st => askDone w st (evOp "process_clock_update" args)
  | .struct "ShmUpdater" _, "process_missing_clock_update", args, st =>
    askDone w st (evOp "process_missing_clock_update" args)
  | _, _, _, _ => none

/-- std `vec![a, b, ..]` with two or more elements listed (the translator hands them over one by one; the core's
    rule covers the one-argument form, which is the macro's expansion): the vector of these elements -/
def macroCall (_ : Inputs) : String → List Value → St → Option Res
  | "vec", a :: b :: rest, st => some (.val (.list (a :: b :: rest)) st)
  | _, _, _ => none

/-- `&mut mailbox`: the `MailBox` is a handle, its borrow is the handle -/
def refMut (_ : Inputs) : Value → St → Option Res
  | .ext "MailBox" [], st => some (.val (.ext "MailBox" []) st)
  | _, _ => none

/-- the dictionary -/
def ext : Ext :=
  { Ext.none with path := path, call := call, method := method, refMut := refMut, macroCall := macroCall }

end ClockBound.Rs.DictThreads
