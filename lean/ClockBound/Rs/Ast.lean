/-
  Deep embedding of the fragment of Rust that the translator `rs2lean` (/verif/translator) emits.

  The translation is purely syntactic: one `FnDecl` per non-test function / method of the translated
  files, and one `Expr` per `const` item.  Everything the AST has no node for is kept as
  `Expr.other "<token text>"` / `Pat.other` / `Stmt.item`, for which the interpreter (`Interp.lean`)
  has no rule (it gets stuck, so no theorem about such a function can be proved by accident).

  Import-free (core Lean only).
-/
namespace ClockBound.Rs

/-- Literals.  Integer literals keep their suffix (`""` when there is none); float literals keep the
    exact decimal value `mant * 10^exp` and the suffix, so `1_000_000_000_f64`, `2.`, `8.0` and
    `1_000_000_000.0` are all represented exactly. -/
inductive Lit
  | int (v : Nat) (suffix : String)
  | float (mant : Nat) (exp : Int) (suffix : String)
  | bool (b : Bool)
  | str (s : String)
  /-- char / byte / byte-string / C-string literals: token text only -/
  | other (text : String)
deriving Repr, BEq, DecidableEq, Inhabited

inductive UnOp
  | neg | not | deref | ref | refMut
deriving Repr, BEq, DecidableEq, Inhabited

inductive BinOp
  | add | sub | mul | div | rem
  | and | or                        -- `&&`, `||` (lazy)
  | bitAnd | bitOr | bitXor | shl | shr
  | eq | ne | lt | le | gt | ge
deriving Repr, BEq, DecidableEq, Inhabited

/-- Patterns.  `mut`/`ref` on a binding are dropped. A bare identifier is ALWAYS `bind`
    (syn cannot tell `None` or a constant from a fresh binding; the interpreter decides). -/
inductive Pat
  | wild
  | bind (name : String)
  | path (segs : List String)
  /-- literal pattern, `neg` for `-1` -/
  | lit (neg : Bool) (l : Lit)
  /-- `lo..=hi` (inclusive = true) or `lo..hi`; a missing end is `none`; each end is (negated, literal) -/
  | range (lo hi : Option (Bool × Lit)) (inclusive : Bool)
  | or (alts : List Pat)
  | tuple (elems : List Pat)
  | tupleStruct (segs : List String) (elems : List Pat)
  | struct (segs : List String) (fields : List (String × Pat)) (rest : Bool)
  | ref (p : Pat)
  | other (text : String)
deriving Repr, Inhabited

mutual
  inductive Expr
    | lit (l : Lit)
    /-- a path expression: variable, enum variant, constant, associated constant. Generic arguments
        of a segment are kept in its text (`Box::<ShmClockState>::default` is `["Box<ShmClockState>", "default"]`) -/
    | path (segs : List String)
    | field (e : Expr) (name : String)
    | tupleIdx (e : Expr) (idx : Nat)
    /-- call of a path (`f(x)`, `T::f(x)`, `Ok(x)`); calls of anything else are `other` -/
    | call (segs : List String) (args : List Expr)
    /-- method call, turbofish dropped -/
    | mcall (recv : Expr) (method : String) (args : List Expr)
    | unary (op : UnOp) (e : Expr)
    | binary (op : BinOp) (lhs rhs : Expr)
    | assign (lhs rhs : Expr)
    /-- compound assignment `lhs op= rhs` -/
    | assignOp (op : BinOp) (lhs rhs : Expr)
    | cast (e : Expr) (ty : String)
    /-- `if c { t } else e` ; `e` is a block expression or another `ifte` -/
    | ifte (cond : Expr) (thn : List Stmt) (els : Option Expr)
    | matchE (scrut : Expr) (arms : List Arm)
    /-- `{ .. }`, also when marked with Rust's keyword for unchecked code (the marker is dropped) -/
    | block (stmts : List Stmt)
    | ret (e : Option Expr)
    | tuple (elems : List Expr)
    | structLit (segs : List String) (fields : List (String × Expr)) (rest : Option Expr)
    /-- `e?` -/
    | try_ (e : Expr)
    /-- `|params| body` (`move` and parameter type ascriptions dropped) -/
    | closure (params : List Pat) (body : Expr)
    | macro (name : String) (tokens : String)
    /-- a macro invocation whose tokens parse as a comma-separated list of expressions
        (`assert!(c)`, `assert_eq!(a, b)`, `vec![a, b]`, `syserror!("mmap")`); the raw token text is kept.
        Conventions of the translator: for `assert!`/`debug_assert!` only the condition, for
        `assert_eq!`/`assert_ne!` (and the `debug_` forms) only the two operands are kept (the rest is the
        panic message); `matches!(e, P if g)` has the single argument `match e { P if g => true, _ => false }`
        (its definition in std); `vec![x; n]` has the single argument `repeatE x n`. -/
    | macroArgs (name : String) (tokens : String) (args : List Expr)
    /-- `while cond { body }`; `cond` may be (or contain) a `letCond` -/
    | whileE (cond : Expr) (body : List Stmt)
    /-- `loop { body }` (unlabelled) -/
    | loopE (body : List Stmt)
    /-- `for pat in iter { body }` (unlabelled) -/
    | forE (pat : Pat) (iter : Expr) (body : List Stmt)
    /-- `lo..hi` / `lo..=hi` (inclusive = true); a missing end is `none` -/
    | range (lo hi : Option Expr) (inclusive : Bool)
    /-- `break` / `break e` (unlabelled; a labelled one is `other`) -/
    | breakE (e : Option Expr)
    /-- `continue` (unlabelled) -/
    | continueE
    /-- `let PAT = e` in the condition of `if` / `while` -/
    | letCond (pat : Pat) (e : Expr)
    /-- `e[i]` -/
    | index (e i : Expr)
    /-- `[a, b, c]` -/
    | array (elems : List Expr)
    /-- `[e; n]` -/
    | repeatE (e n : Expr)
    | other (text : String)

  inductive Stmt
    | letS (pat : Pat) (ty : Option String) (init : Option Expr) (els : Option Expr)
    /-- expression statement; `semi = false` only for the trailing expression of a block -/
    | expr (e : Expr) (semi : Bool)
    /-- `const NAME: ty = init;` inside a function body -/
    | constS (name : String) (ty : String) (init : Expr)
    | macro (name : String) (tokens : String)
    /-- any other nested item (`use`, `fn`, `struct`, ...) -/
    | item (text : String)

  inductive Arm
    | mk (pat : Pat) (guard : Option Expr) (body : Expr)
end

instance : Inhabited Expr := ⟨.other ""⟩
instance : Inhabited Stmt := ⟨.item ""⟩
instance : Inhabited Arm := ⟨.mk .wild none (.other "")⟩

inductive SelfKind
  | none      -- no receiver (free or associated function)
  | value     -- `self`, `mut self`
  | ref       -- `&self`
  | refMut    -- `&mut self`
deriving Repr, BEq, DecidableEq, Inhabited

structure FnDecl where
  /-- canonical name, the key in `fns` -/
  name : String
  /-- module name of the source file: its file stem (`lib`, `shm_writer`, `main`, `reader`, ...; `client_lib`,
      `ffi_lib` for the `lib.rs` of clock-bound-client / clock-bound-ffi) -/
  module : String
  /-- self type of the enclosing `impl` (`""` for free functions) -/
  selfTy : String
  /-- trait of the enclosing `impl` (`""` for inherent impls and free functions) -/
  trait : String
  /-- the function's own identifier -/
  ident : String
  self : SelfKind
  params : List (Pat × String)
  ret : String
  body : List Stmt
deriving Inhabited

end ClockBound.Rs
