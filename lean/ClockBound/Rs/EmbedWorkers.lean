/-
  Rust-level descriptions of what the two worker threads observe, for the statements of
  `Properties/CodeTieWorkers.lean` (trusted, part of the statements): one trip through the poller's loop, one
  message handled by the writer, how each loop ends; the inputs they consume, the events they log, and their
  reading as operations of the model (`Model/ThreadsProg.lean`).
-/
import ClockBound.Rs.EmbedThreads
import ClockBound.Rs.Embed
namespace ClockBound.Rs.EmbedThreads
open ClockBound ClockBound.Rs ClockBound.Threads

/-- a `Message` other than `ThreadAbort` -/
def RMsg.isAbort : RMsg → Bool
  | .abort => true
  | _ => false

/-- the mailbox check lets the loop go on: anything but `Ok(ThreadAbort)` -/
def RecvT.continues : RecvT → Bool
  | .ok m => !m.isAbort
  | _ => true

/-- `some none`: time-out; `some (some m)`: the model message; `none`: no counterpart in the model (a disconnected
    mailbox, a notice naming the main thread) -/
def RecvT.abs : RecvT → Option (Option Threads.Msg)
  | .ok m => m.abs.map some
  | .timeout => some none
  | .disconnected => none

def NoData.grace : NoData → Bool
  | .chronyGrace => true
  | .phcGrace => true
  | _ => false

end ClockBound.Rs.EmbedThreads

namespace ClockBound.Rs.EmbedWorkers
open ClockBound ClockBound.Rs ClockBound.Rs.DictThreads ClockBound.Rs.EmbedThreads ClockBound.Threads

/-- the inputs `inp p, inp (p+1), ..` are the values `l` -/
def inputsAt (inp : Nat → Value) (p : Nat) : List Value → Prop
  | [] => True
  | v :: l => inp p = v ∧ inputsAt inp (p + 1) l

/-! ### poller -/

/-- `clock_bound_shm::common::CLOCK_MONOTONIC` as handed to `clock_gettime_safe` -/
def clockId : Value := .ext "clockid" [.str "CLOCK_MONOTONIC"]

/-- the first half of one trip through the poller's loop: the clock read failed (`Err(e)`); or it returned the `libc::timespec` `asOf`
    and chrony replied with the tracking data `t` (the PHC file is not read: see `Poll.phcMiss`); or it returned
    `asOf`, chrony did not reply and `is_within_grace_period()` returned `grace` -/
inductive Poll
  | clockErr (e : Value)
  | data (asOf : TimeSpec) (t : Tracking)
  | noReply (asOf : TimeSpec) (grace : Bool)

/-- the message the poller builds (an opaque payload for this group) -/
def Poll.msg : Poll → Value
  | .clockErr _ => .unit
  | .data a t => .enumv "Message::ClockErrorBoundData" [.tuple [trackingValue t, .int .infer 0, ctimespecValue a]]
  | .noReply _ g =>
    if g = true then .enumv "Message::ChronyNotRespondingGracePeriod" [] else .enumv "Message::ChronyNotResponding" []

def Poll.sends : Poll → Bool
  | .clockErr _ => false
  | _ => true

/-- the reply does not carry the reference id of the configured PHC (then the PHC error-bound file is not read;
    that path — `get_phc_error_bound_from_path` — is group `Poller`'s) -/
def Poll.phcMiss (phc : Option (Nat × Value)) : Poll → Prop
  | .data _ t => ∀ r p, phc = some (r, p) → t.refid ≠ r
  | _ => True

/-- the values the operations of this half return; `ok`: the outcome of the send to the writer's channel -/
def Poll.inputs (ok : Bool) : Poll → List Value
  | .clockErr e => [.enumv "Err" [e]]
  | .data a t => [.enumv "Ok" [ctimespecValue a], .enumv "Some" [trackingValue t], sendResult ok (Poll.msg (.data a t))]
  | .noReply a g => [.enumv "Ok" [ctimespecValue a], .enumv "None" [], .bool g, sendResult ok (Poll.msg (.noReply a g))]

/-- the events of this half -/
def Poll.events (ok : Bool) : Poll → List Value
  | .clockErr e => [evOp "clock_gettime_safe" [clockId] (.enumv "Err" [e])]
  | .data a t =>
    [evOp "clock_gettime_safe" [clockId] (.enumv "Ok" [ctimespecValue a]),
     evOp "get_tracking" [] (.enumv "Some" [trackingValue t]),
     evSend (chanValue .writer) (Poll.msg (.data a t)) (sendResult ok (Poll.msg (.data a t)))]
  | .noReply a g =>
    [evOp "clock_gettime_safe" [clockId] (.enumv "Ok" [ctimespecValue a]),
     evOp "get_tracking" [] (.enumv "None" []),
     evOp "is_within_grace_period" [] (.bool g),
     evSend (chanValue .writer) (Poll.msg (.noReply a g)) (sendResult ok (Poll.msg (.noReply a g)))]

/-- one trip through the loop that does not end it -/
structure PIter where
  poll : Poll
  wait : RecvT

def PIter.inputs (it : PIter) : List Value := it.poll.inputs true ++ [it.wait.value]

/-- `d`: the `sleep` duration (ns) handed to `recv_timeout` -/
def PIter.events (d : Int) (it : PIter) : List Value :=
  it.poll.events true ++ [evRecvTimeout (chanValue .poller) (.duration d) it.wait.value]

/-- how the loop ends: `Ok(ThreadAbort)` at the mailbox check, or a failed send -/
inductive PEnd
  | abort (poll : Poll)
  | sendFailed (poll : Poll)

def PEnd.inputs : PEnd → List Value
  | .abort p => p.inputs true ++ [(RecvT.ok .abort).value]
  | .sendFailed p => p.inputs false

def PEnd.events (d : Int) : PEnd → List Value
  | .abort p => p.events true ++ [evRecvTimeout (chanValue .poller) (.duration d) (RecvT.ok .abort).value]
  | .sendFailed p => p.events false

def PEnd.poll : PEnd → Poll
  | .abort p => p
  | .sendFailed p => p

def inputsBefore (it : Nat → PIter) : Nat → Nat
  | 0 => 0
  | i + 1 => inputsBefore it i + (it i).inputs.length

def eventsBefore (d : Int) (it : Nat → PIter) : Nat → List Value
  | 0 => []
  | i + 1 => eventsBefore d it i ++ (it i).events d

/-- everything the loop consumes / logs: `k` trips, then the end -/
def loopInputs (k : Nat) (it : Nat → PIter) (e : PEnd) : List Value :=
  (List.range k).flatMap (fun i => (it i).inputs) ++ e.inputs

def loopEvents (d : Int) (k : Nat) (it : Nat → PIter) (e : PEnd) : List Value :=
  eventsBefore d it k ++ e.events d

/-! reading as model operations (`ThreadsProg.PollerIter`, `PollerEnd`) -/

def Poll.clockOk : Poll → Bool
  | .clockErr _ => false
  | _ => true

def PIter.abs (it : PIter) : Option ThreadsProg.PollerIter :=
  it.wait.abs.map fun w => ⟨it.poll.clockOk, w⟩

def PEnd.abs : PEnd → ThreadsProg.PollerEnd
  | .abort p => .abort p.clockOk
  | .sendFailed _ => .sendFailed

/-! ### writer -/

/-- what `mbox.recv()` hands to the writer and what the handler of that message does (`done`: the abstract
    `process_*` call completed; `false`: it panicked) -/
inductive WStep
  /-- `Ok(ClockErrorBoundData((tracking, phc_error_bound, as_of)))`, handled by `process_clock_update` -/
  | data (t p a : Value) (done : Bool)
  /-- one of the four data-less outcomes, handled by `process_missing_clock_update(grace)` -/
  | noData (n : NoData) (done : Bool)
  /-- `Ok(ThreadTerminate(_))` / `Ok(ThreadPanic(_))`: no handler (`info!`) -/
  | notice (m : RMsg)
  /-- `Err(RecvError)` (`error!`) -/
  | disconnected

def WStep.recv : WStep → Value
  | .data t p a _ => .enumv "Ok" [.enumv "Message::ClockErrorBoundData" [.tuple [t, p, a]]]
  | .noData n _ => .enumv "Ok" [.enumv n.name []]
  | .notice m => .enumv "Ok" [m.value]
  | .disconnected => .enumv "Err" [.struct "RecvError" []]

def WStep.inputs : WStep → List Value
  | .data t p a d => [WStep.recv (.data t p a d), .bool d]
  | .noData n d => [WStep.recv (.noData n d), .bool d]
  | s => [s.recv]

def WStep.events : WStep → List Value
  | .data t p a d =>
    [evRecv (chanValue .writer) (WStep.recv (.data t p a d)), evOp "process_clock_update" [t, p, a] (.bool d)]
  | .noData n d =>
    [evRecv (chanValue .writer) (WStep.recv (.noData n d)),
     evOp "process_missing_clock_update" [.bool n.grace] (.bool d)]
  | s => [evRecv (chanValue .writer) s.recv]

/-- the handler completed (the loop goes on) -/
def WStep.done : WStep → Bool
  | .data _ _ _ d => d
  | .noData _ d => d
  | _ => true

def WStep.wellFormed : WStep → Bool
  | .notice m => m.isNotice
  | _ => true

/-- the model message; a disconnected mailbox / a notice naming main has none -/
def WStep.abs : WStep → Option Threads.Msg
  | .data _ _ _ _ => some .data
  | .noData _ _ => some .data
  | .notice m => m.abs
  | .disconnected => none

def winputsBefore (ws : Nat → WStep) : Nat → Nat
  | 0 => 0
  | i + 1 => winputsBefore ws i + (ws i).inputs.length

def weventsBefore (ws : Nat → WStep) : Nat → List Value
  | 0 => []
  | i + 1 => weventsBefore ws i ++ (ws i).events

/-- how the writer's loop ends: `Ok(ThreadAbort)` received, or the handler of a message panicked -/
inductive WEnd
  | abort
  | handlerPanic (s : WStep)

def WEnd.inputs : WEnd → List Value
  | .abort => [(Recv.ok .abort).value]
  | .handlerPanic s => s.inputs

def wloopInputs (k : Nat) (ws : Nat → WStep) (e : WEnd) : List Value :=
  (List.range k).flatMap (fun i => (ws i).inputs) ++ e.inputs

/-- the log when the loop ends by Abort (when it ends by a panic there is no log: `Outcome.panic`) -/
def wloopEvents (k : Nat) (ws : Nat → WStep) : List Value :=
  weventsBefore ws k ++ [evRecv (chanValue .writer) (Recv.ok .abort).value]

end ClockBound.Rs.EmbedWorkers
