/-
  How the inputs and outputs of the hand-written models are represented as interpreter values.
  These definitions are part of the STATEMENTS of the translation-tie theorems (trusted): they say
  which Rust value a model value stands for.  Struct values list their fields sorted by name.
-/
import ClockBound.Rs.Interp
namespace ClockBound.Rs

/-- `libc::timespec` with the two fields of the model's `TimeSpec` -/
def ctimespecValue (t : TimeSpec) : Value := .ctimespec t.sec t.nsec

/-- the 56-byte `ClockErrorBound` record (clock-bound-shm/src/lib.rs) -/
def recordValue (r : Record) : Value :=
  .struct "ClockErrorBound" [
    ("as_of", ctimespecValue r.asOf),
    ("bound_nsec", .int .i64 r.bound),
    ("clock_status", statusValue r.status),
    ("max_drift_ppb", .int .u32 r.drift),
    ("reserved1", .int .u32 r.reserved),
    ("void_after", ctimespecValue r.voidAfter)]

/-- the fields of chrony_candm's `Tracking` reply that the daemon reads (floats as wire words,
    `ref_time` as ns since the epoch) -/
def trackingValue (t : Tracking) : Value :=
  .struct "Tracking" [
    ("current_correction", .chronyFloat t.offW),
    ("last_update_interval", .chronyFloat t.intervalW),
    ("leap_status", .int .u16 t.leap),
    ("ref_id", .int .u32 t.refid),
    ("ref_time", .systime t.refNs),
    ("root_delay", .chronyFloat t.delayW),
    ("root_dispersion", .chronyFloat t.dispW)]

/-- `ShmUpdater<W>` (clock-bound-d/src/shm_writer.rs) -/
def updaterValue (u : Updater) : Value :=
  .struct "ShmUpdater" [
    ("as_of", ctimespecValue u.asOf),
    ("bound_nsec", .int .i64 u.bound),
    ("has_measurement", .bool u.hasMeasurement),
    ("max_drift_ppb", .int .u32 u.drift),
    ("reserved1", .int .u32 u.reserved),
    ("shm_clock_state", .fsm u.fsm),
    ("writer", .writer)]

/-- result of `compute_bound_at` on the record `r` (a `&self` method: `self` is unchanged, nothing is logged) -/
def clientOutcome (r : Record) : ClockBound.Outcome → Outcome
  | .ok e l st =>
    .ok (.enumv "Ok" [.tuple [ctimespecValue e, ctimespecValue l, statusValue st]]) (recordValue r) []
  | .malformed => .ok (.enumv "Err" [.enumv "ShmError::SegmentMalformed" []]) (recordValue r) []
  | .causality => .ok (.enumv "Err" [.enumv "ShmError::CausalityBreach" []]) (recordValue r) []
  | .panic => .panic

/-- result of a `&mut self` method of `ShmUpdater` that returns `()`: the new updater state and the
    record handed to `ShmWrite::write` (`none` = panic) -/
def updaterOutcome : Option (Updater × Record) → Outcome
  | some (u, r) => .ok .unit (updaterValue u) [recordValue r]
  | none => .panic

/-- clap's `Cli` struct of clock-bound-d/src/main.rs, as far as `--max-drift-rate` is concerned -/
def cliValue (maxDriftRate : Option Nat) : Value :=
  .struct "Cli" [("max_drift_rate",
    match maxDriftRate with
    | some r => .enumv "Some" [.int .u32 r]
    | none => .enumv "None" [])]

/-- outcome of the `--max-drift-rate` conversion: the ppb value, or `main` returns `Err(String)`.
    `st` = (local variables, effect log) of the state the evaluation started in; no environment input is
    consumed (`pos = 0`, the field `St` gained with the extension dictionaries). -/
def driftRes (st : List (String × Value) × List Value) : Option Nat → Res
  | some v => .val (.int .u32 v) ⟨st.1, st.2, 0⟩
  | none => .ret (.enumv "Err" [.opaque "String"]) ⟨st.1, st.2, 0⟩

def Outcome.isStuck : Outcome → Bool
  | .stuck _ => true
  | _ => false

end ClockBound.Rs
