/-
  Embeddings for `Properties/CodeTieDispatch.lean` (the writer thread's loop `process_messages`,
  clock-bound-d/src/shm_writer.rs): the loop state, and the log the model predicts.  Part of the statements
  (trusted).  The messages `WMsg` are in `Rs/EmbedPoller.lean`.
-/
import ClockBound.Rs.EmbedPoller
namespace ClockBound.Rs
open ClockBound ClockBound.Rs.DictPoller

/-- the local variables of `process_messages` at the top of its loop, innermost first -/
def writerLoopSt (keep : Bool) (u : Updater) (log : List Value) (pos : Nat) : St :=
  { env := [("keep_running", .bool keep), ("updater", updaterValue u), ("ctx", contextValue "ChannelId::ShmWriter")],
    log := log, pos := pos }

/-- what `mbox.recv()` returns for the message `m` -/
def WMsg.recvd (m : WMsg) : Value := .enumv "Ok" [m.value]

/-- `recv()` returning `Ok(Message::ThreadAbort)` -/
def recvAbort : Value := .enumv "Ok" [.enumv "Message::ThreadAbort" []]

/-- the model's run of the writer thread over the messages `ms` (all handled at realtime `nowNs`): the final
    updater and the log — per message the `recv` event, followed, for a message the updater acts on, by the
    record `Updater.step` publishes; `none` = `Updater.step` says panic -/
def writerRun (nowNs : Int) (u : Updater) : List WMsg → Option (Updater × List Value)
  | [] => some (u, [])
  | m :: ms =>
    match m.toMsg nowNs with
    | none => (writerRun nowNs u ms).map fun (u', l) => (u', evRecv m.recvd :: l)
    | some msg =>
      match u.step msg with
      | none => none
      | some (u', r) => (writerRun nowNs u' ms).map fun (u'', l) => (u'', evRecv m.recvd :: recordValue r :: l)

/-- the records among the entries of a log -/
def isRecordValue : Value → Bool
  | .struct "ClockErrorBound" _ => true
  | _ => false

end ClockBound.Rs
