/-
  A small extension dictionary (`Rs.Ext`), as a worked example: the shared-memory objects of
  `ShmWriter::write` (clock-bound-shm/src/writer.rs) — raw pointers into the segment, `AtomicU16` cells
  behind them, memory orderings, a fence, the volatile write of the record.

  The pattern (each later theorem group writes one such file, `Rs/Dict<Group>.lean`):
  1. objects are `Value.ext tag args` built by small documented constructors (`ptr`, `atomicRef`);
  2. events are `Value.ext` too (`evLoad`, `evStore`, `evFence`, `evDataWrite`): they are what the
     statement of the theorem lists, so they are part of the statement (trusted, keep them readable);
  3. every hook is a `match` on the object's tag and the method / function name, `none` otherwise;
  4. a rule that returns something the environment decides (the value an atomic load sees) takes it
     from the input stream with `St.input` (which advances `pos` and logs the event); a rule that only has
     an effect logs it with `St.emit`;
  5. start from `Ext.none` (`{ Ext.none with .. }`), so that everything else stays without a rule.

  THIS FILE IS PART OF THE TRUSTED BASE of `Properties/CodeTieGen.lean`: the rules say what the library
  calls mean.  Rust facts encoded are written next to each rule.
-/
import ClockBound.Rs.Interp
import ClockBound.Model.Seqlock
namespace ClockBound.Rs.DictDemo
open ClockBound ClockBound.Rs

/-! ### objects -/

/-- a raw pointer (`*mut T` / `*const T`) to the named location of the mapped segment -/
def ptr (loc : String) : Value := .ext "ptr" [.str loc]

/-- a reference to the atomic cell at the named location (`&AtomicU16`) -/
def atomicRef (loc : String) : Value := .ext "atomic" [.str loc]

/-- `std::sync::atomic::Ordering::<name>` -/
def ordering (name : String) : Value := .enumv ("Ordering::" ++ name) []

/-- the model's memory orderings (`Model/Seqlock.lean`) as the Rust values -/
def ordValue : SL.Ord → Value
  | .relaxed => ordering "Relaxed"
  | .acquire => ordering "Acquire"
  | .release => ordering "Release"
  | .acqrel => ordering "AcqRel"
  | .seqcst => ordering "SeqCst"

/-! ### events (the entries of the effect log) -/

/-- an atomic load of `loc` with ordering `ord` that returned `v` -/
def evLoad (loc : String) (ord v : Value) : Value := .ext "load" [.str loc, ord, v]
/-- an atomic store of `v` to `loc` with ordering `ord` -/
def evStore (loc : String) (v ord : Value) : Value := .ext "store" [.str loc, v, ord]
/-- `atomic::fence(ord)` -/
def evFence (ord : Value) : Value := .ext "fence" [ord]
/-- `ptr.write(record)`: the (non-atomic) copy of a whole record to `loc` -/
def evDataWrite (loc : String) (record : Value) : Value := .ext "dataWrite" [.str loc, record]

/-! ### rules -/

/-- `atomic::Ordering::X` (any path whose last two segments are `Ordering::X`) -/
def path : String → Option Value
  | "Ordering::Relaxed" => some (ordering "Relaxed")
  | "Ordering::Acquire" => some (ordering "Acquire")
  | "Ordering::Release" => some (ordering "Release")
  | "Ordering::AcqRel" => some (ordering "AcqRel")
  | "Ordering::SeqCst" => some (ordering "SeqCst")
  | _ => none

/-- `*p` on a raw pointer: the place it points to.  In the functions this dictionary is used for the only
    pointers that are dereferenced point to `AtomicU16` cells (`&*self.generation`), so the place is an
    atomic cell.  (`&` is transparent in the core.) -/
def deref (_ : Inputs) : Value → St → Option Res
  | .ext "ptr" [.str loc], st => some (.val (atomicRef loc) st)
  | _, _ => none

/-- std: `AtomicU16::load(&self, order) -> u16` returns what the environment provides (the next input)
    and is logged with its location, ordering and result; `AtomicU16::store(&self, val, order)` and
    `<*mut T>::write(self, val)` only have an effect. -/
def method (w : Inputs) : Value → String → List Value → St → Option Res
  | .ext "atomic" [.str loc], "load", [ord], st =>
    some (.val (st.input w (evLoad loc ord)).1 (st.input w (evLoad loc ord)).2)
  | .ext "atomic" [.str loc], "store", [v, ord], st => some (.val .unit (st.emit (evStore loc v ord)))
  | .ext "ptr" [.str loc], "write", [r], st => some (.val .unit (st.emit (evDataWrite loc r)))
  | _, _, _, _ => none

/-- std: `atomic::fence(order)` -/
def call (_ : Inputs) : String → List Value → St → Option Res
  | "atomic::fence", [ord], st => some (.val .unit (st.emit (evFence ord)))
  | "fence", [ord], st => some (.val .unit (st.emit (evFence ord)))
  | _, _, _ => none

/-- the dictionary -/
def ext : Ext := { Ext.none with path := path, deref := deref, method := method, call := call }

/-! ### the receiver -/

/-- a `ShmWriter` whose pointers point to the locations `generation`, `version`, `ceb` of the segment
    (fields sorted by name, as all struct values) -/
def writerValue (segsize : Nat) : Value :=
  .struct "ShmWriter" [
    ("addr", ptr "segment"),
    ("ceb", ptr "ceb"),
    ("generation", ptr "generation"),
    ("segsize", .int .usize segsize),
    ("version", ptr "version")]

end ClockBound.Rs.DictDemo
