/-
  Extension dictionary (`Rs.Ext`) of the group `Poller`: what the library calls of
  clock-bound-d/src/chrony_poller.rs, of `process_messages` (clock-bound-d/src/shm_writer.rs) and of
  `ClockErrorBound::now` (clock-bound-shm/src/lib.rs) mean.

  THIS FILE IS PART OF THE TRUSTED BASE of `Properties/CodeTiePoller.lean`, `CodeTieDispatch.lean`,
  `CodeTieNow.lean`.  One rule per Rust / library fact, written next to it; every rule matches on literal
  tags and names and ends in `none` (= stuck).  Every value an environment decides (a clock reading, the
  reply of chronyd, the state of the sysfs file, the outcome of a channel operation) is the NEXT INPUT of
  the input stream (`St.input`), logged as an event with the arguments of the call.  The rules return the
  input as it is; a theorem fixes its shape by hypotheses (`inp k = ..`), an ill-shaped one gets stuck at
  its first use.

  Objects (`Value.ext tag args`):
    `Instant [ns]`            `std::time::Instant` as CLOCK_MONOTONIC nanoseconds (a mathematical integer)
    `PathBuf [name]`          a path
    `ClientOptions []`        chrony_candm `ClientOptions::default()`
    `DispatchBox []`          `ctx.dbox` (sending half of the channel web)
    `Receiver []`             `ctx.mbox` (`std::sync::mpsc::Receiver<Message>`)
    `File [content]`          an open `std::fs::File`; `String [content]` / `&str [content]` (after `trim`)
    content:  `empty []` (the empty string), `decimal [v]` (text that, trimmed of white space, is the decimal
              numeral of the integer `v`), `garbage []` (text that, trimmed, is not a decimal numeral),
              `ioerror []` (reading it fails)
    `&mut [x]`                the core's mutable reference to the local variable `x` (`Rs/Interp.lean`, [poller])
-/
import ClockBound.Rs.Interp
namespace ClockBound.Rs.DictPoller
open ClockBound ClockBound.Rs

/-! ### objects -/

/-- an `Instant`: CLOCK_MONOTONIC in ns -/
def instant (ns : Int) : Value := .ext "Instant" [.int .infer ns]
def pathBuf (name : String) : Value := .ext "PathBuf" [.str name]
def dispatchBox : Value := .ext "DispatchBox" []
def receiver : Value := .ext "Receiver" []
/-- `libc::clockid_t` is `c_int` = `i32` -/
def clockId (n : Int) : Value := .int .i32 n
/-- `Ok(())`, as the pattern `Ok(())` sees it -/
def okUnit : Value := .enumv "Ok" [.tuple []]

/-! ### events -/

/-- `clock_gettime_safe(id)` returned `res` (`Ok(timespec)` / `Err(ShmError)`) -/
def evClockRead (id res : Value) : Value := .ext "clock_gettime_safe" [id, res]
/-- `blocking_query_uds(request, options)` returned `res` -/
def evQuery (req opts res : Value) : Value := .ext "blocking_query_uds" [req, opts, res]
/-- an `Instant::now()` (also the one inside `Instant::elapsed`) returned `t` -/
def evInstantNow (t : Value) : Value := .ext "Instant::now" [t]
/-- `std::fs::File::open(path)`: the state `file` of the file when it is read -/
def evOpen (path file : Value) : Value := .ext "File::open" [path, file]
/-- `dbox.send(&channel, message)` -/
def evSend (chan msg : Value) : Value := .ext "send" [chan, msg]
/-- `mbox.recv_timeout(timeout)` -/
def evWait (timeout : Value) : Value := .ext "recv_timeout" [timeout]
/-- `mbox.recv()` returned `res` -/
def evRecv (res : Value) : Value := .ext "recv" [res]

/-! ### rules -/

/-- libc 0.2 (Linux, `linux_like/linux/mod.rs`): the clock ids.  `RequestBody::Tracking`: the field-less
    variant of chrony_candm's request enum.  `uses`: the items a `use` declaration brings into the scope
    of a translated file and that the interpreter (which resolves a bare name in the file's own module
    only) therefore does not find — supplied by the statement (name ↦ value). -/
def path (uses : List (String × Value)) (p : String) : Option Value :=
  match p with
  | "libc::CLOCK_REALTIME" => some (clockId 0)
  | "libc::CLOCK_MONOTONIC" => some (clockId 1)
  | "libc::CLOCK_MONOTONIC_RAW" => some (clockId 4)
  | "libc::CLOCK_REALTIME_COARSE" => some (clockId 5)
  | "libc::CLOCK_MONOTONIC_COARSE" => some (clockId 6)
  | "libc::CLOCK_BOOTTIME" => some (clockId 7)
  | "RequestBody::Tracking" => some (.enumv "RequestBody::Tracking" [])
  | _ => uses.lookup p

/-- lowest `Instant` `checked_sub` can return: std (unix) keeps an `Instant` as a `Timespec` with `i64`
    seconds; `checked_sub_duration` is `None` exactly when the seconds leave the `i64` range -/
def instantLo : Int := -9223372036854775808 * 1000000000

/-- the declared payload type of `Message::ClockErrorBoundData` is `(Tracking, PhcErrorBound, libc::timespec)`
    with `type PhcErrorBound = i64` (clock-bound-d/src/lib.rs): an unsuffixed literal in that position is
    an `i64`.  (The core ascribes declared types to struct fields and parameters, not to enum payloads.) -/
def typedMessage : Value → Value
  | .enumv "Message::ClockErrorBoundData" [.tuple [t, .int .infer a, asOf]] =>
    if IntTy.i64.lo ≤ a ∧ a ≤ IntTy.i64.hi then .enumv "Message::ClockErrorBoundData" [.tuple [t, .int .i64 a, asOf]]
    else .enumv "Message::ClockErrorBoundData" [.tuple [t, .int .infer a, asOf]]
  | v => v

def call (w : Inputs) : String → List Value → St → Option Res
  -- clock-bound-shm/src/common.rs `clock_gettime_safe(clock_id) -> Result<libc::timespec, ShmError>`, called
  -- from ANOTHER file (`use common::clock_gettime_safe`): one `clock_gettime(2)` on that clock; the
  -- environment decides the result
  | "clock_gettime_safe", [id], st => some (.val (st.input w (evClockRead id)).1 (st.input w (evClockRead id)).2)
  -- std: `Instant::now()`: a reading of the monotonic clock
  | "Instant::now", [], st => some (.val (st.input w evInstantNow).1 (st.input w evInstantNow).2)
  -- chrony_candm: `blocking_query_uds(request_body, options) -> io::Result<Reply>`, already deserialised
  | "blocking_query_uds", [req, opts], st =>
    some (.val (st.input w (evQuery req opts)).1 (st.input w (evQuery req opts)).2)
  | "ClientOptions::default", [], st => some (.val (.ext "ClientOptions" []) st)
  -- std: `Duration::from_millis(ms: u64)`; cannot overflow
  | "Duration::from_millis", [.int t ms], st =>
    if (t = .u64 ∨ t = .infer) ∧ 0 ≤ ms then some (.val (.duration (ms * 1000000)) st) else none
  -- std `ops::ControlFlow<B, C>`: the two variants `Break(b)` / `Continue(c)` (a std enum, not in the generated tables)
  | "ControlFlow::Break", [v], st => some (.val (.enumv "ControlFlow::Break" [v]) st)
  | "ControlFlow::Continue", [v], st => some (.val (.enumv "ControlFlow::Continue" [v]) st)
  -- std: `String::new()`: the empty string
  | "String::new", [], st => some (.val (.ext "String" [.ext "empty" []]) st)
  -- std: `File::open(path) -> io::Result<File>`.  The input is the state of the file at this moment:
  -- `ext "unreadable" []` (open fails) or its content (see the header); it is logged with the path.
  | "File::open", [p], st =>
    match w.inp st.pos with
    | .ext "unreadable" [] => some (.val (.enumv "Err" [.opaque "io::Error"]) (st.input w (evOpen p)).2)
    | .ext "decimal" [v] => some (.val (.enumv "Ok" [.ext "File" [.ext "decimal" [v]]]) (st.input w (evOpen p)).2)
    | .ext "garbage" [] => some (.val (.enumv "Ok" [.ext "File" [.ext "garbage" []]]) (st.input w (evOpen p)).2)
    | .ext "ioerror" [] => some (.val (.enumv "Ok" [.ext "File" [.ext "ioerror" []]]) (st.input w (evOpen p)).2)
    | _ => none
  | _, _, _ => none

def method (w : Inputs) : Value → String → List Value → St → Option Res
  -- std `ControlFlow::is_break` / `is_continue`
  | .enumv "ControlFlow::Break" [_], "is_break", [], st => some (.val (.bool true) st)
  | .enumv "ControlFlow::Continue" [_], "is_break", [], st => some (.val (.bool false) st)
  | .enumv "ControlFlow::Break" [_], "is_continue", [], st => some (.val (.bool false) st)
  | .enumv "ControlFlow::Continue" [_], "is_continue", [], st => some (.val (.bool true) st)
  -- std: `Instant::checked_sub(Duration) -> Option<Instant>`
  | .ext "Instant" [.int _ t], "checked_sub", [.duration d], st =>
    some (.val (if instantLo ≤ t - d then .enumv "Some" [instant (t - d)] else .enumv "None" []) st)
  -- std: `Instant::elapsed() = Instant::now() - *self`, and `Instant - Instant` saturates at zero (since
  -- Rust 1.60).  The reading of the clock is the next input (an `Instant`).
  | .ext "Instant" [.int _ t], "elapsed", [], st =>
    match w.inp st.pos with
    | .ext "Instant" [.int _ n] =>
      some (.val (.duration (if n - t < 0 then 0 else n - t)) (st.input w evInstantNow).2)
    | _ => none
  -- clock-bound-d/src/channels.rs `DispatchBox::send(&self, id, msg) -> Result<(), SendError<Message>>`: the
  -- message goes to the channel `id` (an event); whether the receiving end still exists is an input
  | .ext "DispatchBox" [], "send", [chan, msg], st =>
    some (.val (st.input w (fun _ => evSend chan (typedMessage msg))).1 (st.input w (fun _ => evSend chan (typedMessage msg))).2)
  -- std: `Receiver::recv_timeout(Duration) -> Result<Message, RecvTimeoutError>`
  | .ext "Receiver" [], "recv_timeout", [d], st =>
    some (.val (st.input w (fun _ => evWait d)).1 (st.input w (fun _ => evWait d)).2)
  -- std: `Receiver::recv() -> Result<Message, RecvError>`
  | .ext "Receiver" [], "recv", [], st => some (.val (st.input w evRecv).1 (st.input w evRecv).2)
  -- std: `Read::read_to_string(&mut self, buf: &mut String) -> io::Result<usize>` APPENDS the content to
  -- `buf`; a rule only for an empty `buf` (then `buf` is the content).  The byte count is not modelled.
  | .ext "File" [c], "read_to_string", [.ext "&mut" [.str x]], st =>
    match envGet st.env x, c with
    | some (.ext "String" [.ext "empty" []]), .ext "ioerror" [] => some (.val (.enumv "Err" [.opaque "io::Error"]) st)
    | some (.ext "String" [.ext "empty" []]), .ext "decimal" [v] =>
      (envSet st.env x (.ext "String" [.ext "decimal" [v]])).map fun env =>
        .val (.enumv "Ok" [.opaque "usize"]) { st with env := env }
    | some (.ext "String" [.ext "empty" []]), .ext "garbage" [] =>
      (envSet st.env x (.ext "String" [.ext "garbage" []])).map fun env =>
        .val (.enumv "Ok" [.opaque "usize"]) { st with env := env }
    | _, _ => none
  -- std: `str::trim`: by definition of the contents `decimal` / `garbage` the trimmed text is of the same kind
  | .ext "String" [.ext "decimal" [v]], "trim", [], st => some (.val (.ext "&str" [.ext "decimal" [v]]) st)
  | .ext "String" [.ext "garbage" []], "trim", [], st => some (.val (.ext "&str" [.ext "garbage" []]) st)
  | .ext "String" [.ext "empty" []], "trim", [], st => some (.val (.ext "&str" [.ext "garbage" []]) st)
  -- std: `str::parse::<i64>()` on a TRIMMED text (a rule for `&str` values produced by `trim` only: the
  -- sysfs file ends in a newline, which `i64::from_str` rejects): `Ok` iff it is a decimal numeral in the
  -- range of `i64`.  The translator drops the turbofish: that the target type is `i64` is an ASSUMPTION of
  -- this dictionary (the only `parse` of the functions it is used for is `parse::<i64>()`).
  | .ext "&str" [.ext "decimal" [.int _ v]], "parse", [], st =>
    some (.val (if IntTy.i64.lo ≤ v ∧ v ≤ IntTy.i64.hi then .enumv "Ok" [.int .i64 v]
               else .enumv "Err" [.opaque "ParseIntError"]) st)
  | .ext "&str" [.ext "garbage" []], "parse", [], st => some (.val (.enumv "Err" [.opaque "ParseIntError"]) st)
  | _, _, _, _ => none

/-- the dictionary; `uses` = the `use` imports (see `path`) -/
def ext (uses : List (String × Value)) : Ext :=
  { Ext.none with path := path uses, call := call, method := method }

end ClockBound.Rs.DictPoller
