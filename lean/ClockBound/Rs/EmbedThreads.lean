/-
  How the messages, channel objects and per-thread operations of the thread model (`Model/Threads.lean`,
  `Model/ThreadsProg.lean`) are represented as interpreter values.  Part of the STATEMENTS of
  `Properties/CodeTieThreads.lean` (trusted): they say which Rust value a model value stands for.
-/
import ClockBound.Rs.DictThreads
import ClockBound.Model.ThreadsProg
namespace ClockBound.Rs.EmbedThreads
open ClockBound ClockBound.Rs ClockBound.Rs.DictThreads ClockBound.Threads

/-- the four data-less poll outcomes of `crate::Message` -/
inductive NoData | chronyGrace | chrony | phcGrace | phc
deriving DecidableEq, Repr

def NoData.name : NoData → String
  | .chronyGrace => "Message::ChronyNotRespondingGracePeriod"
  | .chrony => "Message::ChronyNotResponding"
  | .phcGrace => "Message::PhcErrorBoundRetrievalFailedGracePeriod"
  | .phc => "Message::PhcErrorBoundRetrievalFailed"

/-- the Rust enum `crate::Message` (clock-bound-d/src/lib.rs); the payload of `ClockErrorBoundData` is any value;
    `ThreadTerminate` / `ThreadPanic` carry any of the three channel ids -/
inductive RMsg
  | data (payload : Value)
  | noData (n : NoData)
  | terminate (c : Thread)
  | panic (c : Thread)
  | abort

def RMsg.value : RMsg → Value
  | .data p => .enumv "Message::ClockErrorBoundData" [p]
  | .noData n => .enumv n.name []
  | .terminate c => .enumv "Message::ThreadTerminate" [chanValue c]
  | .panic c => .enumv "Message::ThreadPanic" [chanValue c]
  | .abort => .enumv "Message::ThreadAbort" []

/-- the model's message kind (`Threads.Msg`): all five poll outcomes are `data`; a notice names a WORKER (a
    `ThreadTerminate(MainThread)` is expressible in Rust but never sent: no model message) -/
def RMsg.abs : RMsg → Option Threads.Msg
  | .data _ => some .data
  | .noData _ => some .data
  | .abort => some .abort
  | .terminate .poller => some (.notice .poller .terminate)
  | .terminate .writer => some (.notice .writer .terminate)
  | .panic .poller => some (.notice .poller .panic)
  | .panic .writer => some (.notice .writer .panic)
  | .terminate .main => none
  | .panic .main => none

/-- a `ThreadTerminate` / `ThreadPanic` message, whoever it names -/
def RMsg.isNotice : RMsg → Bool
  | .terminate _ => true
  | .panic _ => true
  | _ => false

/-- what `Receiver::recv()` returns: `Ok(message)` or `Err(RecvError)` (all senders gone) -/
inductive Recv
  | ok (m : RMsg)
  | disconnected

def Recv.value : Recv → Value
  | .ok m => .enumv "Ok" [m.value]
  | .disconnected => .enumv "Err" [.struct "RecvError" []]

/-- main leaves its loop on this result -/
def Recv.stops : Recv → Bool
  | .ok m => m.isNotice
  | .disconnected => true

/-- what `Receiver::recv_timeout(d)` returns -/
inductive RecvT
  | ok (m : RMsg)
  | timeout
  | disconnected

def RecvT.value : RecvT → Value
  | .ok m => .enumv "Ok" [m.value]
  | .timeout => .enumv "Err" [.enumv "RecvTimeoutError::Timeout" []]
  | .disconnected => .enumv "Err" [.enumv "RecvTimeoutError::Disconnected" []]

/-- what `Sender::send(m)` returns: `Ok(())`, or `Err(SendError(m))` when the receiver is gone -/
def sendResult (ok : Bool) (m : Value) : Value :=
  if ok = true then .enumv "Ok" [.tuple []] else .enumv "Err" [.struct "SendError" [("0", m)]]

/-- the three channel ids in the order `thread_manager::run` lists them (`ids`) -/
def allChans : List Thread := [.poller, .main, .writer]

/-- the `DispatchBox` of the web: a sender for each of the three channels; `order` is the order in which its
    `HashMap` iterates (a permutation of the three ids in the statements) -/
def dispatchValue (order : List Thread) : Value :=
  .struct "DispatchBox" [("channels",
    hashMapValue (allChans.map fun c => (chanValue c, txValue (chanValue c))) (order.map chanValue))]

/-- the `Context` handed to the thread with id `c` (fields sorted by name) -/
def contextValue (c : Thread) (order : List Thread) : Value :=
  .struct "Context" [("channel_id", chanValue c), ("dbox", dispatchValue order), ("mbox", rxValue (chanValue c))]

/-- the closure `|| f(args)` handed to `spawn` -/
def thunkValue (f : String) (args : List Value) : Value := .ext "thunk" [.str f, .list args]

/-- a `JoinHandle` (the environment's name for it) -/
def handleValue (name : String) : Value := .ext "JoinHandle" [.str name]

/-- `Option<PhcInfo>`: no PHC, or the reference id and the (opaque) sysfs path -/
def phcValue : Option (Nat × Value) → Value
  | none => .enumv "None" []
  | some (refid, path) => .enumv "Some" [.struct "PhcInfo" [("refid", .int .u32 refid), ("sysfs_error_bound_path", path)]]

/-- what `JoinHandle::join()` returns: `Ok(())`, or `Err(payload)` if the thread panicked -/
def joinResult (ok : Bool) : Value :=
  if ok = true then .enumv "Ok" [.tuple []] else .enumv "Err" [.opaque "Box<dyn Any + Send>"]

/-- the iteration orders of a map with the three keys: the six permutations -/
def isOrder (ks : List Thread) : Bool :=
  ks.length == 3 && ks.contains .main && ks.contains .poller && ks.contains .writer

/-! ### main's operations as log entries -/

/-- the model-level operation (`ThreadsProg.MainOp`) a Rust-level event of the main thread stands for, next to
    the event itself.  `recv`: what was received; `abort c ok`: a `ThreadAbort` sent to channel `c` with this
    outcome; `join h r`: joining handle `h` gave `r`. -/
inductive MainEv
  | recv (r : Recv)
  | abort (c : Thread) (ok : Bool)
  | join (w : Worker) (h r : Value)

def MainEv.value : MainEv → Value
  | .recv r => evRecv (chanValue .main) r.value
  | .abort c ok => evSend (chanValue c) RMsg.abort.value (sendResult ok RMsg.abort.value)
  | .join _ h r => evJoin h r

def workerOf : Thread → Option Worker
  | .poller => some .poller
  | .writer => some .writer
  | .main => none

/-- read a Rust-level event of main as the model's operation (a receive error and an Abort addressed to the main
    channel itself have no counterpart in the model) -/
def MainEv.abs : MainEv → Option ThreadsProg.MainOp
  | .recv (.ok m) => m.abs.map .recv
  | .recv .disconnected => none
  | .abort c _ => (workerOf c).map .abort
  | .join w _ _ => some (.join w)

end ClockBound.Rs.EmbedThreads
