/-
  The loop of a thread function, independently of how it is written (`while flag { .. }` or `loop { .. break; }`):
  where it is in the function body (`findLoop`), the state at its top — COMPUTED by the interpreter from the
  arguments and the statements before the loop (`topSt`), not written down —, and what ONE TURN of the loop does
  (`turnIs`: panic / the loop is over / the loop goes on from another top state).  Part of the statements of
  `Properties/CodeTiePoller.lean` and `CodeTieDispatch.lean` (trusted).
-/
import ClockBound.Rs.Interp
namespace ClockBound.Rs

/-- the first top-level loop of a function body: the statements before it, its condition (`true` for `loop`), its body -/
def findLoop : List Stmt → Option (List Stmt × Expr × List Stmt)
  | [] => none
  | s :: rest =>
    match s with
    | .expr (.whileE c b) _ => some ([], c, b)
    | .expr (.loopE b) _ => some ([], .lit (.bool true), b)
    | _ =>
      match findLoop rest with
      | some (pre, c, b) => some (s :: pre, c, b)
      | none => none

/-- the state at the top of the loop of the free function `d` called on `args`, with event log `log` and `pos`
    inputs consumed: the parameters bound to the arguments, then the statements `pre` before the loop run by the
    interpreter (they must complete normally; they log nothing in the functions this is used for) -/
def topSt (ctx : Ctx) (d : FnDecl) (args : List Value) (pre : List Stmt) (log : List Value) (pos : Nat) : St :=
  match bindParams 30 d.selfTy d.params args with
  | none => ⟨[], log, pos⟩
  | some bs =>
    match evalBlock 60 ctx ⟨d.module, d.selfTy, d.ret⟩ pre ⟨bs, log, pos⟩ with
    | .val _ st => st
    | _ => ⟨[], log, pos⟩

/-- what a turn of a loop (or a whole loop) amounts to -/
inductive TurnSpec
  /-- the thread panics -/
  | panic
  /-- the loop is over (its value is `()`): event log and number of inputs consumed at that point -/
  | done (log : List Value) (pos : Nat)
  /-- the loop goes on from this state, with one unit of fuel less -/
  | next (st : St)

/-- `r` is the result of `evalWhile (K + 2) ctx fr c body st`: it is what `spec` says.  In the `done` case the final
    state is existential (which local variables exist at that point depends on how the loop is written); it has no
    variable `self` (a free function returns `()` and no receiver). -/
def turnIs (ctx : Ctx) (fr : Frame) (c : Expr) (body : List Stmt) (K : Nat) (r : Res) : TurnSpec → Prop
  | .panic => r = .panic
  | .done log pos => ∃ st : St, r = .val .unit st ∧ st.log = log ∧ st.pos = pos ∧ envGet st.env "self" = none
  | .next st => r = evalWhile (K + 1) ctx fr c body st

end ClockBound.Rs
