/-
  The arguments of the two thread loops, for the "one turn of the loop" statements of
  `Properties/CodeTiePoller.lean` and `CodeTieDispatch.lean` (trusted, part of the statements).
-/
import ClockBound.Rs.EmbedLoop
import ClockBound.Rs.EmbedPollerLoop
import ClockBound.Rs.EmbedDispatch
namespace ClockBound.Rs
open ClockBound ClockBound.Rs.DictPoller

/-- `run_clock_error_bound_poller(ctx, poller, phc_info, sleep)` -/
def pollerArgs (e : IterEnv) (s : PollerState) (refid : Option Nat) : List Value :=
  [contextValue "ChannelId::ClockErrorBoundPoller", pollerValue s, optPhcValue e.path refid, .duration e.sleepNs]

/-- `process_messages(ctx, updater)` -/
def writerArgs (u : Updater) : List Value := [contextValue "ChannelId::ShmWriter", updaterValue u]

end ClockBound.Rs
