/-
  Whole runs of the chrony poller loop for `Properties/CodeTiePoller.lean` (`loop_eq`): the inputs a run
  consumes and the log the model predicts, threading `PollIter.step` (`Model/Poller.lean`) through the
  iterations.  Part of the statements (trusted).
-/
import ClockBound.Rs.EmbedPoller
namespace ClockBound.Rs
open ClockBound ClockBound.Rs.DictPoller

/-- one loop iteration: the model's inputs (`PollIter`) and what else the environment provides (`IterEnv`) -/
structure IterIn where
  it : PollIter
  env : IterEnv

/-- the events of the iteration from poller state `s` (`pollTrace` on the iteration's inputs) -/
def IterIn.trace (refid : Option Nat) (s : PollerState) (x : IterIn) : List PollEv :=
  pollTrace s x.it.asOf x.it.reply x.it.tReply x.it.tGrace (x.it.phc refid)

/-- the inputs a run consumes, in order; a panic ends the run -/
def pollRunInputs (refid : Option Nat) (s : PollerState) : List IterIn → List Value
  | [] => []
  | x :: xs =>
    (x.trace refid s).map (pollEvInput x.env) ++
    (if (x.it.step refid s).2 = .panic then [] else pollRunInputs refid (x.it.step refid s).1 xs)

/-- the model's run: the final poller state and the concatenated event log, `PollIter.step` threading the
    poller state; `none` = an iteration's message is `panic` (the thread dies) -/
def pollRun (refid : Option Nat) (s : PollerState) : List IterIn → Option (PollerState × List Value)
  | [] => some (s, [])
  | x :: xs =>
    if (x.it.step refid s).2 = .panic then none
    else (pollRun refid (x.it.step refid s).1 xs).map fun (s', l) =>
      (s', (x.trace refid s).map (pollEvValue x.env) ++ l)

/-- an iteration of a run in which every send succeeds: same sysfs path and sleep time as `e0`, a
    non-Tracking reply is really another variant, `send` returns `Ok(())` -/
def IterIn.ok (e0 : IterEnv) (x : IterIn) : Prop :=
  x.env.path = e0.path ∧ x.env.sleepNs = e0.sleepNs ∧ x.env.other ≠ "ReplyBody::Tracking" ∧ x.env.sendRes = okUnit

/-- the messages of the run, as `Poller.runFrom` lists them, are the `send` events of `pollRun`'s traces:
    the link to the model's run function is `PollIter.step` itself (both recurse on it) -/
theorem pollRun_none_iff_runFrom_panics (refid : Option Nat) (s : PollerState) (xs : List IterIn) :
    pollRun refid s xs = none ↔ PollMsg.panic ∈ Poller.runFrom refid s (xs.map IterIn.it) := by
  induction xs generalizing s with
  | nil => simp [pollRun, Poller.runFrom]
  | cons x xs ih =>
    simp only [pollRun, List.map_cons, Poller.runFrom]
    by_cases h : (x.it.step refid s).2 = .panic
    · simp [h]
    · simp only [h, if_false, Option.map_eq_none_iff, ih, List.mem_cons]
      constructor
      · exact fun hm => Or.inr hm
      · rintro (hm | hm)
        · exact absurd hm.symm h
        · exact hm

end ClockBound.Rs
