/-
  How the objects of the seqlock / header models are represented as interpreter values in the theorem
  group `Shm`.  These definitions are part of the STATEMENTS of `Properties/CodeTieSeqlock.lean` /
  `CodeTieHeader.lean` (trusted): they say which Rust value a model value stands for.

  * A `ClockErrorBound` IN MEMORY (the argument of `ShmWriter::write`, the reader's `snapshot_ceb`, what
    `read_volatile` returns) is the list of its seven native-endian 64-bit words, `wordsValue cells`
    (`Value.list` of `u64`); `Pipeline.cellsOf r pad` are the words of the record `r`
    (`Properties/C01Pipeline.lean`: `cellsOf_bytes` ties them to the byte layout).  The seqlock model
    (`Model/Seqlock*.lean`) speaks of records as `SL.N = 7` cells, so this is the embedding under which
    code and model talk about the same thing.
  * Shared accesses are the model's `SL.Acc` (`Model/SeqlockProg.lean`), as the events of `Rs/DictShm.lean`:
    `accValue`.  Values at `version`/`generation` are `u16`, cell values are `u64`.
  * The input stream: the k-th load of a call returns the k-th number of the stream (`rawInp`); the
    dictionary reduces it to the width of the location.
-/
import ClockBound.Rs.DictShm
import ClockBound.Rs.Embed
import ClockBound.Model.HeaderProg
import ClockBound.Model.WriterNewProg
namespace ClockBound.Rs.EmbedShm
open ClockBound ClockBound.Rs ClockBound.Rs.DictShm

/-- a record in memory: its 64-bit words -/
def wordsValue (cells : List Nat) : Value := .list (cells.map fun (w : Nat) => .int .u64 (w : Int))

/-- the model's memory orderings as the Rust values -/
def ordValue : SL.Ord → Value
  | .relaxed => ordering "Relaxed"
  | .acquire => ordering "Acquire"
  | .release => ordering "Release"
  | .acqrel => ordering "AcqRel"
  | .seqcst => ordering "SeqCst"

/-- … and back: the memory ordering a Rust value names -/
def ordOfValue : Value → Option SL.Ord
  | .enumv "Ordering::Relaxed" [] => some .relaxed
  | .enumv "Ordering::Acquire" [] => some .acquire
  | .enumv "Ordering::Release" [] => some .release
  | .enumv "Ordering::AcqRel" [] => some .acqrel
  | .enumv "Ordering::SeqCst" [] => some .seqcst
  | _ => none

/-- the model's locations as the dictionary names them -/
def locValue : SL.Loc → Value
  | .version => .str "version"
  | .gen => .str "generation"
  | .cell c => cellLoc c

/-- the type of the value stored at a location: `AtomicU16` for version and generation, 64-bit words -/
def locTy : SL.Loc → IntTy
  | .version => .u16
  | .gen => .u16
  | .cell _ => .u64

/-- one shared access of the model as the event the dictionary logs -/
def accValue : SL.Acc → Value
  | .load x o v => evLoad (locValue x) (ordValue o) (.int (locTy x) v)
  | .store x o v => evStore (locValue x) (.int (locTy x) v) (ordValue o)
  | .fence o => evFence (ordValue o)

/-- the environment's answers as the interpreter's input stream: plain numbers -/
def rawInp (inp : Nat → Nat) : Nat → Value := fun k => .int .infer (inp k)

/-- a `ShmWriter` whose pointers point to the cells `generation`, `version` and the record of the mapped
    segment (fields sorted by name, as all struct values) -/
def writerValue (segsize : Nat) : Value :=
  .struct "ShmWriter" [
    ("addr", addr "segment"),
    ("ceb", ptrCeb),
    ("generation", ptrA16 "generation"),
    ("segsize", .int .usize segsize),
    ("version", ptrA16 "version")]

/-- a `ShmReader` with cached generation `cacheGen` and cached record `cache` -/
def readerValue (cacheGen : Nat) (cache : List Nat) : Value :=
  .struct "ShmReader" [
    ("_guard", .opaque "MmapGuard"),
    ("_marker", .opaque "PhantomData"),
    ("ceb_shm", ptrCeb),
    ("generation", ptrA16 "generation"),
    ("snapshot_ceb", wordsValue cache),
    ("snapshot_gen", .int .u16 cacheGen),
    ("version", ptrA16 "version")]

/-- the result of `snapshot()`: `Ok(&self.snapshot_ceb)` resp. `Err(ShmError::SegmentNotInitialized)` -/
def resultValue : SL.RResult → Value
  | .ok cells => .enumv "Ok" [wordsValue cells]
  | .errNotInit => .enumv "Err" [.enumv "ShmError::SegmentNotInitialized" []]

/-- the position of a load in a `snapshot()` call determines its location: loads 0 and 1 are `version`
    and `generation`; then attempts of `N + 1` loads, `N` cells and the generation re-check.  The width
    (number of values) of the location the k-th load reads. -/
def loadCard (k : Nat) : Nat :=
  if k < 2 ∨ (k - 2) % (SL.N + 1) = SL.N then 65536 else 18446744073709551616

/-- the stream of load RESULTS of a `snapshot()` call: each number reduced to the width of its location
    (the identity on a well-typed stream, `typedInp_id`) -/
def typedInp (inp : Nat → Nat) : Nat → Nat := fun k => inp k % loadCard k

/-- the value ranges the Rust types force on a stream of load results, up to load `n` -/
def inpInRange (inp : Nat → Nat) (n : Nat) : Prop := ∀ k, k < n → inp k < loadCard k
instance (inp : Nat → Nat) (n : Nat) : Decidable (inpInRange inp n) := by unfold inpInRange; infer_instance

/-- outcome of `snapshot()` for the result `p` of `SL.readerProg`: the return value, the new `self`
    (cached generation and record), the accesses -/
def readerOutcome (p : List SL.Acc × SL.RResult × Nat × List Nat) : Outcome :=
  .ok (resultValue p.2.1) (readerValue p.2.2.1 p.2.2.2) (p.1.map accValue)

/-! ### the header (`Properties/CodeTieHeader.lean`) -/

/-- a `ShmHeader` VALUE (the private copy `ShmHeader::read` builds from the 16 bytes it read): the magic
    array and the three atomics, holding the parsed fields -/
def headerValue (h : Header) : Value :=
  .struct "ShmHeader" [
    ("generation", atomicVal (.int .u16 h.generation)),
    ("magic", .list [.int .u32 h.magic0, .int .u32 h.magic1]),
    ("segsize", atomicVal (.int .u32 h.segsize)),
    ("version", atomicVal (.int .u16 h.version))]

/-- `size_of::<T>()` of the two `#[repr(C)]` structs (`Properties/C17.lean`: `rust_header_layout`,
    `rust_record_layout` tie 16 and 56 to the source); inside `impl ShmHeader`, `Self` is `ShmHeader` -/
def sizes : List (String × Nat) :=
  [("ShmHeader", HEADER_SIZE), ("ClockErrorBound", RECORD_SIZE), ("Self", HEADER_SIZE)]

/-- `ShmError` values -/
def shmErrValue : ShmErr → Value
  | .sys e o => .enumv "ShmError::SyscallError" [errnoValue (.int .i32 e), .str o.text]
  | .notInit => .enumv "ShmError::SegmentNotInitialized" []
  | .malformed => .enumv "ShmError::SegmentMalformed" []

/-- `Result<(), ShmError>` of `is_valid` -/
def validValue : Except ShmErr Header → Value
  | .ok _ => .enumv "Ok" [.tuple []]
  | .error e => .enumv "Err" [shmErrValue e]

/-- `Result<ShmHeader, ShmError>` of `ShmHeader::read` -/
def readValue : Except ShmErr Header → Value
  | .ok h => .enumv "Ok" [headerValue h]
  | .error e => .enumv "Err" [shmErrValue e]

/-- a list of answers as an input stream -/
def streamOf (l : List Value) : Nat → Value := fun k => l.getD k .unit

/-- the path argument (`&CStr`) -/
def cstrValue : Value := .ext "CStr" [.str "path"]

/-- the `ShmReader` that `ShmReader::new` returns on a segment whose header declares `segsize` bytes: the
    three pointers into the mapping, the guard, and the initial cache (`ClockErrorBound::default()`,
    generation 0) -/
def freshReaderValue (segsize : Nat) : Value :=
  .struct "ShmReader" [
    ("_guard", .struct "MmapGuard" [("segment", addr "segment"), ("segsize", .int .usize segsize)]),
    ("_marker", .opaque "PhantomData"),
    ("ceb_shm", ptrCeb),
    ("generation", ptrA16 "generation"),
    ("snapshot_ceb", recordValue Record.empty),
    ("snapshot_gen", .int .u16 0),
    ("version", ptrA16 "version")]

/-- `Result<ShmReader, ShmError>` of `ShmReader::new` -/
def openValue : Except ShmErr Header → Value
  | .ok h => .enumv "Ok" [freshReaderValue h.segsize]
  | .error e => .enumv "Err" [shmErrValue e]

/-- What the system calls on the open path answer for each state of the path — the assumptions spelt out
    at `readerOpenLim` (`Model/Header.lean`): a missing path fails `open` with ENOENT; a directory opens
    but `read` fails with EISDIR; on a regular file `read` returns min(16, length) and fills the buffer with
    the first bytes; `mmap` of the declared size fails with ENOMEM iff it exceeds the limit.  Answers that
    are never asked for (the code returned before) are simply not consumed. -/
def openAnswers (lim : Option Nat) (fd : Nat) : FileState → List Value
  | .missing => [.int .infer (-1), .int .infer ENOENT]
  | .directory => [.int .infer fd, .int .infer (-1), .int .infer EISDIR]
  | .file bs =>
    [.int .infer fd, .int .infer (readRet bs), headerValue (parseHeader bs)] ++
    (if mapFails lim (parseHeader bs).segsize then [addr "MAP_FAILED", .int .infer ENOMEM] else [addr "segment"])

/-! ### `ShmWriter::new` (`Properties/CodeTieWriterNew.lean`) -/

def okUnit : Value := .enumv "Ok" [.tuple []]

/-- the operations of `Crash.newOps` as the events the dictionary logs (every operation succeeding); the
    role of a header write is not part of the event: order and content are.  `o` is the memory ordering of the
    version store (the model's `SL.Ann.wVersion`; no property constrains it: `Ann.adequate` does not mention it) -/
def opValue (o : SL.Ord) (path parent : Value) : Crash.Op → Value
  | .createDirAll => evFs "create_dir_all" [parent] okUnit
  | .create => evFs "create" [path] (.enumv "Ok" [fileObj])
  | .writeU32 _ v => evFs "write_u32" [.int .u32 v] okUnit
  | .writeU16 _ v => evFs "write_u16" [.int .u16 v] okUnit
  | .writeAll n => evFs "write_all" [.int .usize n] okUnit
  | .syncAll => evFs "sync_all" [] okUnit
  | .setLen n => evFs "set_len" [.int .u64 n] okUnit
  | .storeVersion v => evStore (.str "version") (.int .u16 v) (ordValue o)

/-- is a logged event a STATE-CHANGING operation (on the file: create / write / sync / set_len / mkdir; on the
    mapping: a store)?  Queries (open, read, errno, mmap, metadata, stream_position) are not. -/
def isMutEv : Value → Bool
  | .ext "fs" [.str name, _, _] =>
    name == "create_dir_all" || name == "create" || name == "write_u32" || name == "write_u16" ||
    name == "write_all" || name == "sync_all" || name == "set_len"
  | .ext "store" _ => true
  | _ => false

/-- the answers `ShmReader::new` actually consumes on the path state (cf. `openAnswers`; no mapping limit) -/
def openUsed (fd : Nat) : FileState → List Value
  | .missing => [.int .infer (-1), .int .infer ENOENT]
  | .directory => [.int .infer fd, .int .infer (-1), .int .infer EISDIR]
  | .file bs =>
    [.int .infer fd, .int .infer (readRet bs)] ++
    (if bs.length < HEADER_SIZE then [] else
      [headerValue (parseHeader bs)] ++
      (match checkHeader (parseHeader bs) with | .ok _ => [addr "segment"] | .error _ => []))

/-- the answers of a `wipe` in which every operation succeeds (`stream_position` = 72 bytes written) -/
def wipeAnswers (hasParent : Bool) : List Value :=
  (if hasParent then [okUnit] else []) ++
  [.enumv "Ok" [fileObj], okUnit, okUnit, okUnit, okUnit, okUnit, okUnit, .enumv "Ok" [.int .u64 SEGMENT_SIZE], okUnit]

/-- What the environment answers during `ShmWriter::new(path)` on the path state `st`, every operation
    succeeding: the open path of `ShmReader::new` (`openUsed`); then for a usable segment `fs::metadata` (the
    file length) and, if the file is shorter than the segment, the open-for-write and `set_len`; for anything
    else the operations of `wipe`; finally `nix::fcntl::open` and `mmap` of `mmap_segment_at`. -/
def newAnswers (fd : Nat) (hasParent : Bool) (st : FileState) : List Value :=
  openUsed fd st ++
  (if (Crash.fileAOf st).usable then
    [.enumv "Ok" [.ext "Metadata" [.int .u64 (Crash.fileAOf st).len]]] ++
    (if (Crash.fileAOf st).len < SEGMENT_SIZE then [.enumv "Ok" [fileObj], okUnit] else [])
   else wipeAnswers hasParent) ++
  [.enumv "Ok" [.int .i32 fd], .enumv "Ok" [addr "segment"]]

end ClockBound.Rs.EmbedShm

namespace ClockBound.Rs
/-- the outcome without its event log (return value and final `self` only) -/
def Outcome.noLog : Outcome → Outcome
  | .ok v s _ => .ok v s []
  | o => o

/-- for a call that returned `Ok(v)`: `v` and the events selected by `keep`, in order -/
def Outcome.okWith (keep : Value → Bool) : Outcome → Option (Value × List Value)
  | .ok (.enumv "Ok" [v]) _ l => some (v, l.filter keep)
  | _ => none
end ClockBound.Rs
