/-
  Extension dictionary (`Rs.Ext`) of the theorem group `Shm`: what the library calls of
  clock-bound-shm/src/{writer,reader,shm_header}.rs mean.

  THIS FILE IS PART OF THE TRUSTED BASE of `Properties/CodeTieSeqlock.lean`, `CodeTieHeader.lean`,
  `CodeTieWriterNew.lean`.  One rule per Rust / library fact, the fact written next to it; a rule never
  invents a value: what the environment decides (the result of an atomic load, of a volatile read, of a
  system call) is taken from the input stream (`Inputs.inp`, consumed in program order), everything else
  is computed from the arguments; no rule = `none` = stuck.

  Part A: the mapped segment (atomics, fences, volatile record copy) — `ShmWriter::write`,
          `ShmReader::snapshot`, the version store of `ShmWriter::new`.
  Part B: a private copy of the header (`ShmHeader::read`, `is_valid` and its helpers).
  Part C: files and system calls (`FdGuard::new`, `MmapGuard::new`, `ShmReader::new`, `ShmWriter::new`,
          `wipe`, `is_usable_segment`).

  The vocabulary of the events is that of `Model/SeqlockProg.lean` (`SL.Acc`) resp. `Model/Crash.lean`
  (`Crash.Ev`); the maps `accValue` / … are in `Rs/EmbedShm.lean`.
-/
import ClockBound.Rs.Interp
import ClockBound.Model.SeqlockProg
namespace ClockBound.Rs.DictShm
open ClockBound ClockBound.Rs

/-! ## A. the mapped segment -/

/-! ### objects -/

/-- `*const AtomicU16` / `*mut AtomicU16`: a raw pointer to the 16-bit atomic cell `loc` (`"version"`,
    `"generation"`) of the mapped header -/
def ptrA16 (loc : String) : Value := .ext "ptr:AtomicU16" [.str loc]

/-- `&AtomicU16`: a reference to that cell -/
def refA16 (loc : String) : Value := .ext "ref:AtomicU16" [.str loc]

/-- `*const ClockErrorBound` / `*mut ClockErrorBound`: a raw pointer to the 56-byte record of the mapped
    segment -/
def ptrCeb : Value := .ext "ptr:ClockErrorBound" [.str "ceb"]

/-- `std::sync::atomic::Ordering::<name>` -/
def ordering (name : String) : Value := .enumv ("Ordering::" ++ name) []

/-- the location of the `c`-th 64-bit word of the record (the model's `SL.Loc.cell c`) -/
def cellLoc (c : Nat) : Value := .ext "cell" [.int .usize c]

/-! ### events -/

/-- a load of `loc` with ordering `ord` that returned `v` -/
def evLoad (loc ord v : Value) : Value := .ext "load" [loc, ord, v]
/-- a store of `v` to `loc` with ordering `ord` -/
def evStore (loc v ord : Value) : Value := .ext "store" [loc, v, ord]
/-- `atomic::fence(ord)` -/
def evFence (ord : Value) : Value := .ext "fence" [ord]

/-! ### what a load returns

  The environment supplies a NUMBER (`Value.int _ n`, whatever its tag); the load of a 16-bit cell returns
  it as a `u16`, i.e. reduced modulo 2^16, a 64-bit word modulo 2^64.  (A well-typed input stream already
  is in range and is not changed.)  Anything that is not a number: no rule. -/

def asU16 : Value → Option Value
  | .int _ n => some (.int .u16 (n % 65536))
  | _ => none

def asU64 : Value → Option Value
  | .int _ n => some (.int .u64 (n % 18446744073709551616))
  | _ => none

/-- the `k` words a volatile copy of the record reads, starting with word `c` at input `pos`:
    `none` if an input is not a number -/
def readWords (inp : Nat → Value) : Nat → Nat → Nat → Option (List Value)
  | 0, _, _ => some []
  | k + 1, c, pos =>
    match asU64 (inp pos), readWords inp k (c + 1) (pos + 1) with
    | some v, some vs => some (v :: vs)
    | _, _ => none

/-- the load events of the words `vs`, the first being word `c` -/
def wordLoads : Nat → List Value → List Value
  | _, [] => []
  | c, v :: vs => evLoad (cellLoc c) (ordering "Relaxed") v :: wordLoads (c + 1) vs

/-- the store events of the words `vs`, the first being word `c` -/
def wordStores : Nat → List Value → List Value
  | _, [] => []
  | c, v :: vs => evStore (cellLoc c) v (ordering "Relaxed") :: wordStores (c + 1) vs

/-! ### rules -/

/-- `atomic::Ordering::X` (any path whose last two segments are `Ordering::X`) -/
def path : String → Option Value
  | "Ordering::Relaxed" => some (ordering "Relaxed")
  | "Ordering::Acquire" => some (ordering "Acquire")
  | "Ordering::Release" => some (ordering "Release")
  | "Ordering::AcqRel" => some (ordering "AcqRel")
  | "Ordering::SeqCst" => some (ordering "SeqCst")
  | _ => none

/-- `*p` on a raw pointer to an `AtomicU16`: the cell it points to (`&*self.generation`; `&` is
    transparent in the core).  A pointer to the record is never dereferenced in these files (it is only
    read / written through `read_volatile` / `write`): no rule. -/
def deref (_ : Inputs) : Value → St → Option Res
  | .ext "ptr:AtomicU16" [.str loc], st => some (.val (refA16 loc) st)
  | _, _ => none

/-- * std `AtomicU16::load(&self, order) -> u16`: returns what the environment provides (the next input,
      as a `u16`); logged with location, ordering and result.
    * std `AtomicU16::store(&self, val: u16, order)`: only an effect; the value is a `u16` (an unsuffixed
      literal argument takes that type; a literal out of range does not compile: no rule).
    * std `<*mut T>::write(self, val: T)` with `T = ClockErrorBound`: a plain (non-atomic) copy of the 56
      bytes.  In this group a `ClockErrorBound` in memory IS its seven native-endian 64-bit words
      (`Value.list`, see `Rs/EmbedShm.lean`; `Pipeline.cellsOf`), and the copy is the sequence of the word
      stores in index order — the granularity and order at which `SL.wStep` (with `pick = 0`) copies.  The
      model treats plain accesses as `Relaxed`.
    * std `<*const T>::read_volatile(self) -> T` with `T = ClockErrorBound`: a plain copy out of the
      segment: `SL.N` = 7 word loads in index order, each returning what the environment provides (as a
      `u64`), and the value read is the list of those words. -/
def method (w : Inputs) : Value → String → List Value → St → Option Res
  | .ext "ref:AtomicU16" [.str loc], "load", [ord], st =>
    match asU16 (w.inp st.pos) with
    | some v => some (.val v { st with pos := st.pos + 1, log := st.log ++ [evLoad (.str loc) ord v] })
    | none => none
  | .ext "ref:AtomicU16" [.str loc], "store", [.int .u16 x, ord], st =>
    some (.val .unit (st.emit (evStore (.str loc) (.int .u16 x) ord)))
  | .ext "ref:AtomicU16" [.str loc], "store", [.int .infer x, ord], st =>
    if 0 ≤ x ∧ x ≤ 65535 then some (.val .unit (st.emit (evStore (.str loc) (.int .u16 x) ord))) else none
  | .ext "ptr:ClockErrorBound" [.str "ceb"], "write", [.list ws], st =>
    some (.val .unit { st with log := st.log ++ wordStores 0 ws })
  | .ext "ptr:ClockErrorBound" [.str "ceb"], "read_volatile", [], st =>
    match readWords w.inp SL.N 0 st.pos with
    | some vs => some (.val (.list vs) { st with pos := st.pos + SL.N, log := st.log ++ wordLoads 0 vs })
    | none => none
  | _, _, _, _ => none

/-- std: `atomic::fence(order)` -/
def call (_ : Inputs) : String → List Value → St → Option Res
  | "atomic::fence", [ord], st => some (.val .unit (st.emit (evFence ord)))
  | "fence", [ord], st => some (.val .unit (st.emit (evFence ord)))
  | _, _, _ => none

/-- The dictionary.  `litFallback := some .i32`: Rust's integer fallback — in `ShmReader::snapshot` the
    counter `let mut retries = 1_000_000; while retries > 0 { .. retries -= 1; }` is constrained by nothing
    but unsuffixed literals, hence an `i32`; no other pair of untyped integer operands occurs in the
    functions of this group (every other literal meets a typed operand and takes its type). -/
def ext : Ext :=
  { Ext.none with path := path, deref := deref, method := method, call := call, litFallback := some .i32 }

end ClockBound.Rs.DictShm
