/-
  Extension dictionary (`Rs.Ext`) of the theorem group `Shm`: what the library calls of
  clock-bound-shm/src/{writer,reader,shm_header}.rs mean.

  THIS FILE IS PART OF THE TRUSTED BASE of `Properties/CodeTieSeqlock.lean`, `CodeTieHeader.lean`,
  `CodeTieWriterNew.lean`.  One rule per Rust / library fact, the fact written next to it; a rule never
  invents a value: what the environment decides (the result of an atomic load, of a volatile read, of a
  system call) is taken from the input stream (`Inputs.inp`, consumed in program order), everything else
  is computed from the arguments; no rule = `none` = stuck.

  Part A: the mapped segment (atomics, fences, volatile record copy) — `ShmWriter::write`,
          `ShmReader::snapshot`, the version store of `ShmWriter::new`.
  Part B: a private copy of the header (`ShmHeader::read`, `is_valid` and its helpers).
  Part C: the system calls of the open path (`FdGuard::new`, `MmapGuard::new`, `ShmReader::new`).
  Part D: the file operations of `ShmWriter::new`, `wipe`, `is_usable_segment`, `mmap_segment_at`.

  The vocabulary of the events is that of `Model/SeqlockProg.lean` (`SL.Acc`) resp. `Model/Crash.lean`
  (`Crash.Ev`); the maps `accValue` / … are in `Rs/EmbedShm.lean`.
-/
import ClockBound.Rs.Interp
import ClockBound.Model.SeqlockProg
namespace ClockBound.Rs.DictShm
open ClockBound ClockBound.Rs

/-! ## A. the mapped segment -/

/-! ### objects -/

/-- `*const AtomicU16` / `*mut AtomicU16`: a raw pointer to the 16-bit atomic cell `loc` (`"version"`,
    `"generation"`) of the mapped header -/
def ptrA16 (loc : String) : Value := .ext "ptr:AtomicU16" [.str loc]

/-- `&AtomicU16`: a reference to that cell -/
def refA16 (loc : String) : Value := .ext "ref:AtomicU16" [.str loc]

/-- `*const ClockErrorBound` / `*mut ClockErrorBound`: a raw pointer to the 56-byte record of the mapped
    segment -/
def ptrCeb : Value := .ext "ptr:ClockErrorBound" [.str "ceb"]

/-- `std::sync::atomic::Ordering::<name>` -/
def ordering (name : String) : Value := .enumv ("Ordering::" ++ name) []

/-- the location of the `c`-th 64-bit word of the record (the model's `SL.Loc.cell c`) -/
def cellLoc (c : Nat) : Value := .ext "cell" [.int .usize c]

/-! ### events -/

/-- a load of `loc` with ordering `ord` that returned `v` -/
def evLoad (loc ord v : Value) : Value := .ext "load" [loc, ord, v]
/-- a store of `v` to `loc` with ordering `ord` -/
def evStore (loc v ord : Value) : Value := .ext "store" [loc, v, ord]
/-- `atomic::fence(ord)` -/
def evFence (ord : Value) : Value := .ext "fence" [ord]

/-! ### what a load returns

  The environment supplies a NUMBER (`Value.int _ n`, whatever its tag); the load of a 16-bit cell returns
  it as a `u16`, i.e. reduced modulo 2^16, a 64-bit word modulo 2^64.  (A well-typed input stream already
  is in range and is not changed.)  Anything that is not a number: no rule. -/

def asU16 : Value → Option Value
  | .int _ n => some (.int .u16 (n % 65536))
  | _ => none

def asU64 : Value → Option Value
  | .int _ n => some (.int .u64 (n % 18446744073709551616))
  | _ => none

/-- the `k` words a volatile copy of the record reads, starting with word `c` at input `pos`:
    `none` if an input is not a number -/
def readWords (inp : Nat → Value) : Nat → Nat → Nat → Option (List Value)
  | 0, _, _ => some []
  | k + 1, c, pos =>
    match asU64 (inp pos), readWords inp k (c + 1) (pos + 1) with
    | some v, some vs => some (v :: vs)
    | _, _ => none

/-- the load events of the words `vs`, the first being word `c` -/
def wordLoads : Nat → List Value → List Value
  | _, [] => []
  | c, v :: vs => evLoad (cellLoc c) (ordering "Relaxed") v :: wordLoads (c + 1) vs

/-- the store events of the words `vs`, the first being word `c` -/
def wordStores : Nat → List Value → List Value
  | _, [] => []
  | c, v :: vs => evStore (cellLoc c) v (ordering "Relaxed") :: wordStores (c + 1) vs

/-! ### rules -/

/-- `atomic::Ordering::X` (any path whose last two segments are `Ordering::X`) -/
def path : String → Option Value
  | "Ordering::Relaxed" => some (ordering "Relaxed")
  | "Ordering::Acquire" => some (ordering "Acquire")
  | "Ordering::Release" => some (ordering "Release")
  | "Ordering::AcqRel" => some (ordering "AcqRel")
  | "Ordering::SeqCst" => some (ordering "SeqCst")
  | _ => none

/-- `*p` on a raw pointer to an `AtomicU16`: the cell it points to (`&*self.generation`; `&` is
    transparent in the core).  (`*p` on the pointer to the record: `derefC`.) -/
def deref (_ : Inputs) : Value → St → Option Res
  | .ext "ptr:AtomicU16" [.str loc], st => some (.val (refA16 loc) st)
  | _, _ => none

/-- * std `AtomicU16::load(&self, order) -> u16`: returns what the environment provides (the next input,
      as a `u16`); logged with location, ordering and result.
    * std `AtomicU16::store(&self, val: u16, order)`: only an effect; the value is a `u16` (an unsuffixed
      literal argument takes that type; a literal out of range does not compile: no rule).
    * std `<*mut T>::write(self, val: T)` with `T = ClockErrorBound`: a plain (non-atomic) copy of the 56
      bytes.  In this group a `ClockErrorBound` in memory IS its seven native-endian 64-bit words
      (`Value.list`, see `Rs/EmbedShm.lean`; `Pipeline.cellsOf`), and the copy is the sequence of the word
      stores in index order — the granularity and order at which `SL.wStep` (with `pick = 0`) copies.  The
      model treats plain accesses as `Relaxed`.
    * std `<*const T>::read_volatile(self) -> T` with `T = ClockErrorBound`: a plain copy out of the
      segment: `SL.N` = 7 word loads in index order, each returning what the environment provides (as a
      `u64`), and the value read is the list of those words. -/
def methodA (w : Inputs) : Value → String → List Value → St → Option Res
  | .ext "ref:AtomicU16" [.str loc], "load", [ord], st =>
    match asU16 (w.inp st.pos) with
    | some v => some (.val v { st with pos := st.pos + 1, log := st.log ++ [evLoad (.str loc) ord v] })
    | none => none
  | .ext "ref:AtomicU16" [.str loc], "store", [.int .u16 x, ord], st =>
    some (.val .unit (st.emit (evStore (.str loc) (.int .u16 x) ord)))
  | .ext "ref:AtomicU16" [.str loc], "store", [.int .infer x, ord], st =>
    if 0 ≤ x ∧ x ≤ 65535 then some (.val .unit (st.emit (evStore (.str loc) (.int .u16 x) ord))) else none
  | .ext "ptr:ClockErrorBound" [.str "ceb"], "write", [.list ws], st =>
    some (.val .unit { st with log := st.log ++ wordStores 0 ws })
  | .ext "ptr:ClockErrorBound" [.str "ceb"], "read_volatile", [], st =>
    match readWords w.inp SL.N 0 st.pos with
    | some vs => some (.val (.list vs) { st with pos := st.pos + SL.N, log := st.log ++ wordLoads 0 vs })
    | none => none
  | _, _, _, _ => none

/-- std: `atomic::fence(order)` -/
def callA (_ : Inputs) : String → List Value → St → Option Res
  | "atomic::fence", [ord], st => some (.val .unit (st.emit (evFence ord)))
  | "fence", [ord], st => some (.val .unit (st.emit (evFence ord)))
  | _, _, _ => none

/-! ## B. a private copy of the header -/

/-- an `AtomicU16` / `AtomicU32` that is a field of a VALUE owned by the running function (the
    `ShmHeader` that `ShmHeader::read` builds from the bytes `read(2)` returned): nobody else can access it -/
def atomicVal (v : Value) : Value := .ext "atomicVal" [v]

/-- * std `AtomicU16::load` / `AtomicU32::load` on such a private atomic returns the value it holds, whatever
      the ordering, and is no shared access (nothing is logged);
    * std `AtomicU32::into_inner(self)` consumes it and returns the value. -/
def methodB : Value → String → List Value → St → Option Res
  | .ext "atomicVal" [v], "load", [_ord], st => some (.val v st)
  | .ext "atomicVal" [v], "into_inner", [], st => some (.val v st)
  | _, _, _, _ => none

/-! ## C. files and system calls (the open path of `ShmReader::new`) -/

/-- a raw address as a symbolic NAME (`"segment"`: where `mmap` put the segment; `"MAP_FAILED"`: libc's
    `(void*) -1`).  Two addresses are equal iff their names are: the core compares field-less `enumv`s by
    name, which is what `segment == libc::MAP_FAILED` needs. -/
def addr (name : String) : Value := .enumv ("addr:" ++ name) []

/-- the address `segment + n` (`cursor.add(n)` on the `*const u8` cursor) -/
def addrPlus (n : Value) : Value := .ext "addr:segment+" [n]

/-- a constant of the libc crate, by name (its numeric value is never inspected by the code) -/
def libcConst (name : String) : Value := .ext "libc" [.str name]

/-- `errno::Errno(e)` -/
def errnoValue (e : Value) : Value := .ext "Errno" [e]

/-- `Err(ShmError::SyscallError(errno, origin))` -/
def syscallErr (e : Value) (origin : String) : Value :=
  .enumv "Err" [.enumv "ShmError::SyscallError" [errnoValue e, .str origin]]

/-- events of part C: a system call with its arguments and what it returned -/
def evSys (name : String) (args : List Value) (ret : Value) : Value := .ext "sys" [.str name, .list args, ret]

/-- an input that must be a number, as the C type `t` of a return value (no reduction: a system call
    returns a value of its type; anything else: no rule) -/
def asInt (t : IntTy) : Value → Option Value
  | .int _ n => if t.lo ≤ n ∧ n ≤ t.hi then some (.int t n) else none
  | _ => none

def pathC : String → Option Value
  | "libc::O_RDONLY" => some (libcConst "O_RDONLY")
  | "libc::PROT_READ" => some (libcConst "PROT_READ")
  | "libc::MAP_SHARED" => some (libcConst "MAP_SHARED")
  -- libc: `pub const MAP_FAILED: *mut c_void = !0 as *mut c_void;`
  | "libc::MAP_FAILED" => some (addr "MAP_FAILED")
  -- `std::marker::PhantomData`: a zero-sized value
  | "marker::PhantomData" => some (.opaque "PhantomData")
  | _ => none

/-- * `libc::open(path, flags) -> c_int`, `libc::read(fd, buf, count) -> ssize_t`: return what the
      environment provides (the next input, as an `i32` resp. `isize`), logged with the arguments;
    * `libc::mmap(addr, len, prot, flags, fd, off) -> *mut c_void`: returns the next input, which must be
      an address (`addr "MAP_FAILED"` on failure, else the address of the new mapping);
    * `std::ptr::null_mut()`: the null pointer (only ever passed to `mmap`);
    * `MaybeUninit::<T>::uninit()`: a buffer without content;
    * `FdGuard(fd)`: the constructor of the tuple struct `struct FdGuard(i32)`: the struct value with the field `0`
      (so that `fdguard.0` reads it and a method `fdguard.m()` is `FdGuard::m`). -/
def callC (w : Inputs) : String → List Value → St → Option Res
  | "libc::open", [p, flags], st =>
    match asInt .i32 (w.inp st.pos) with
    | some fd => some (.val fd { st with pos := st.pos + 1, log := st.log ++ [evSys "open" [p, flags] fd] })
    | none => none
  | "libc::read", [fd, buf, count], st =>
    match asInt .isize (w.inp st.pos) with
    | some r => some (.val r { st with pos := st.pos + 1, log := st.log ++ [evSys "read" [fd, buf, count] r] })
    | none => none
  | "libc::mmap", [a, len, prot, flags, fd, off], st =>
    match w.inp st.pos with
    | .enumv p [] =>
      some (.val (.enumv p []) { st with pos := st.pos + 1,
                                         log := st.log ++ [evSys "mmap" [a, len, prot, flags, fd, off] (.enumv p [])] })
    | _ => none
  | "ptr::null_mut", [], st => some (.val (.ext "null" []) st)
  | "MaybeUninit::uninit", [], st => some (.val (.ext "MaybeUninit" []) st)
  | "FdGuard", [fd], st => some (.val (.struct "FdGuard" [("0", fd)]) st)
  | _, _, _ => none

/-- * `CStr::as_ptr(&self)`: the pointer to the path string (only ever passed to `open`);
    * `MaybeUninit::as_mut_ptr(&mut self)`, `<*mut T>::cast::<U>()`: the pointer to the buffer (only ever
      passed to `read`);
    * `MaybeUninit::assume_init(self)`: the content of the buffer — what the preceding `read(2)` deposited
      there, which the environment decides: the next input, which must be a `ShmHeader` value;
    * `<*mut c_void>::cast::<U>()` on an address: the same address;
    * `<*const u8>::add(self, n)` on the address of the segment: the address `segment + n`. -/
def methodC (w : Inputs) : Value → String → List Value → St → Option Res
  | .ext "CStr" [p], "as_ptr", [], st => some (.val (.ext "ptr:c_char" [p]) st)
  | .ext "MaybeUninit" [], "as_mut_ptr", [], st => some (.val (.ext "ptr:buf" []) st)
  | .ext "ptr:buf" [], "cast", [], st => some (.val (.ext "ptr:buf" []) st)
  | .ext "MaybeUninit" [], "assume_init", [], st =>
    match w.inp st.pos with
    | .struct "ShmHeader" fs => some (.val (.struct "ShmHeader" fs) { st with pos := st.pos + 1 })
    | _ => none
  | .enumv "addr:segment" [], "cast", [], st => some (.val (addr "segment") st)
  -- `<*const ShmHeader>::add(self, n)`: `n` ELEMENTS, i.e. `n * size_of::<ShmHeader>()` bytes past the segment
  | .ext "ptr:ShmHeader" [], "add", [.int _ n], st =>
    match w.sizes.lookup "ShmHeader" with
    | some k => if 0 ≤ n then some (.val (addrPlus (.int .usize (n * (k : Int)))) st) else none
    | none => none
  | .ext "ptr:ShmHeader" [], "cast", [], st => some (.val (.ext "ptr:ShmHeader" []) st)
  | .enumv "addr:segment" [], "add", [n], st => some (.val (addrPlus n) st)
  -- `(segment + n).cast::<ClockErrorBound>()`: the pointer to the record of the mapped segment PROVIDED `n` is
  -- `size_of::<ShmHeader>()` (the record follows the header; the size comes from the table of the statement)
  | .ext "addr:segment+" [.int .usize n], "cast", [], st =>
    match w.sizes.lookup "ShmHeader" with
    | some k => if n = (k : Int) then some (.val ptrCeb st) else none
    | none => none
  | _, _, _, _ => none

/-- `(*p).version`, `(*p).generation` with `p` the address of the mapped segment cast to `*const
    ShmHeader`: the places of the two atomic cells of the mapped header (`ptr::addr_of!` of a place is the
    pointer to it; `*` and `&` are transparent in the core, so place and pointer are the same value) -/
def fieldOfC : Value → String → Option Value
  | .enumv "addr:segment" [], "version" => some (ptrA16 "version")
  | .enumv "addr:segment" [], "generation" => some (ptrA16 "generation")
  | .ext "ptr:ShmHeader" [], "version" => some (ptrA16 "version")
  | .ext "ptr:ShmHeader" [], "generation" => some (ptrA16 "generation")
  | _, _ => none

/-- `*p` with `p` the pointer to the record, as the operand of `ptr::addr_of!`: the place of the record, which
    (places and pointers being the same value, `&`/`*` transparent) is the pointer again.  The record is never
    READ through `*`: only `read_volatile` / `write` (part A) access it. -/
def derefC (_ : Inputs) : Value → St → Option Res
  | .ext "ptr:ClockErrorBound" [.str "ceb"], st => some (.val ptrCeb st)
  -- `*header` with `header` the typed pointer to the mapped header, as the base of a field place
  -- (`(*header).version`): the header itself; its fields are the cells (`fieldOfC`)
  | .ext "ptr:ShmHeader" [], st => some (.val (.ext "ptr:ShmHeader" []) st)
  | _, _ => none

/-- * `syserror!(origin)` (lib.rs): `Err(ShmError::SyscallError(errno::errno(), origin))`; `errno()` is
      what the environment provides (the next input, an `i32`);
    * `concat!(s)` of one string literal: that string;
    * `ptr::addr_of!(place)` / `ptr::addr_of_mut!(place)`: the pointer to the place (see `fieldOfC`). -/
def macroC (w : Inputs) : String → List Value → St → Option Res
  | "syserror", [.str origin], st =>
    match asInt .i32 (w.inp st.pos) with
    | some e => some (.val (syscallErr e origin)
        { st with pos := st.pos + 1, log := st.log ++ [evSys "errno" [] e] })
    | none => none
  | "concat", [.str s], st => some (.val (.str s) st)
  | "ptr::addr_of", [v], st => some (.val v st)
  | "ptr::addr_of_mut", [v], st => some (.val v st)
  | _, _, _ => none

/-! ## D. the file operations of `ShmWriter::new` / `wipe` / `is_usable_segment` / `mmap_segment_at` -/

/-- a `&Path` that names a file: its text and the text of its parent directory (`""`: a bare file name) -/
def pathObj (name parent : String) : Value := .ext "Path" [.str name, .str parent]

/-- an open `std::fs::File` -/
def fileObj : Value := .ext "File" []

/-- a file-system operation with its arguments and what it returned -/
def evFs (name : String) (args : List Value) (ret : Value) : Value := .ext "fs" [.str name, .list args, ret]

/-- an input that must be a `Result` (`Ok(..)` / `Err(..)`): the outcome of a fallible operation is the
    environment's decision -/
def asResult : Value → Option Value
  | .enumv "Ok" [v] => some (.enumv "Ok" [v])
  | .enumv "Err" [e] => some (.enumv "Err" [e])
  | _ => none

/-- a fallible operation: its result is the next input, logged with the operation -/
def fsCall (w : Inputs) (name : String) (args : List Value) (st : St) : Option Res :=
  match asResult (w.inp st.pos) with
  | some r => some (.val r { st with pos := st.pos + 1, log := st.log ++ [evFs name args r] })
  | none => none

/-- * `use crate::shm_header::SHM_MAGIC` in writer.rs: the constant of shm_header.rs.  The interpreter resolves
      a bare name in the file of the function only, so the import is a rule here; the VALUE is the model's
      `MAGIC0, MAGIC1`, tied to the source by `Properties/C17.lean` (`rust_magic_agrees`) and, for the reader
      side, by `CodeTieHeader.is_valid_eq` (which evaluates the constant of shm_header.rs itself);
    * nix `OFlag::O_RDWR`, `MapFlags::MAP_SHARED`: symbolic; `ProtFlags::PROT_READ` / `PROT_WRITE`: the libc bits
      1 and 2 (`|` on bitflags is the union of the bits). -/
def pathD : String → Option Value
  | "SHM_MAGIC" => some (.list [.int .u32 0x414D5A4E, .int .u32 0x43420200])
  | "OFlag::O_RDWR" => some (.ext "nix" [.str "O_RDWR"])
  | "MapFlags::MAP_SHARED" => some (.ext "nix" [.str "MAP_SHARED"])
  | "ProtFlags::PROT_READ" => some (.int .i32 1)
  | "ProtFlags::PROT_WRITE" => some (.int .i32 2)
  | _ => none

/-- * `fs::create_dir_all`, `File::create`, `fs::metadata`, `nix::fcntl::open`, `nix::sys::mman::mmap`: fallible
      operations (`fsCall`);
    * `OpenOptions::new()`, `Mode::from_bits_truncate(m)`: plain values;
    * `NonZeroUsize::new(n)`: `Some` iff `n ≠ 0`;
    * `CString::new(bytes)` on the bytes of a path object: `Ok` (a path object stands for a path without an
      interior NUL byte). -/
def callD (w : Inputs) : String → List Value → St → Option Res
  | "fs::create_dir_all", [p], st => fsCall w "create_dir_all" [p] st
  | "File::create", [p], st => fsCall w "create" [p] st
  | "fs::metadata", [p], st => fsCall w "metadata" [p] st
  | "fcntl::open", [p, flags, mode], st => fsCall w "open" [p, flags, mode] st
  | "mman::mmap", [_, len, _, _, fd, _], st => fsCall w "mmap" [len, fd] st
  | "OpenOptions::new", [], st => some (.val (.ext "OpenOptions" []) st)
  | "Mode::from_bits_truncate", [m], st => some (.val (.ext "Mode" [m]) st)
  | "NonZeroUsize::new", [.int .usize n], st =>
    some (.val (if n = 0 then .enumv "None" [] else .enumv "Some" [.int .usize n]) st)
  | "CString::new", [.ext "bytes" [.ext "Path" [.str name, .str parent]]], st =>
    some (.val (.enumv "Ok" [.ext "CString" [.str name, .str parent]]) st)
  | _, _, _ => none

/-- * `Path::parent()`: `Some(parent)`; `Path::to_str()`: `Some(text)` (a path object stands for valid UTF-8);
      `as_os_str()`, `as_bytes()`: the same path / its bytes; `CString::as_c_str()`: the `&CStr` handed to
      `ShmReader::new`;
    * `usize::try_into()` in `wipe` — target `u32` (`let size: u32 = match segsize.try_into()`): `Ok` iff it fits;
    * byteorder `write_u32::<NativeEndian>(v)`, `write_u16::<NativeEndian>(v)`, std `write_all(buf)`,
      `stream_position()`, `sync_all()`, `set_len(n)` on a `File`; `OpenOptions::write(b)` / `open(path)`;
      `Metadata::len()` on the `Metadata` an input provided: fallible operations resp. plain accessors. -/
def methodD (w : Inputs) : Value → String → List Value → St → Option Res
  | .ext "Path" [.str _, .str parent], "parent", [], st =>
    some (.val (.enumv "Some" [.ext "Path" [.str parent, .str ""]]) st)
  | .ext "Path" [.str name, _], "to_str", [], st => some (.val (.enumv "Some" [.str name]) st)
  | .ext "Path" [n, p], "as_os_str", [], st => some (.val (.ext "Path" [n, p]) st)
  | .ext "Path" [n, p], "as_bytes", [], st => some (.val (.ext "bytes" [.ext "Path" [n, p]]) st)
  | .ext "CString" [_, _], "as_c_str", [], st => some (.val (.ext "CStr" [.str "path"]) st)
  | .int .usize n, "try_into", [], st =>
    some (.val (if n ≤ 4294967295 then .enumv "Ok" [.int .u32 n] else .enumv "Err" [.opaque "TryFromIntError"]) st)
  | .ext "File" [], "write_u32", [.int t v], st =>
    if (t = .u32 ∨ t = .infer) ∧ 0 ≤ v ∧ v ≤ 4294967295 then fsCall w "write_u32" [.int .u32 v] st else none
  | .ext "File" [], "write_u16", [.int t v], st =>
    if (t = .u16 ∨ t = .infer) ∧ 0 ≤ v ∧ v ≤ 65535 then fsCall w "write_u16" [.int .u16 v] st else none
  | .ext "File" [], "write_all", [.list bs], st => fsCall w "write_all" [.int .usize bs.length] st
  | .ext "File" [], "stream_position", [], st => fsCall w "stream_position" [] st
  | .ext "File" [], "sync_all", [], st => fsCall w "sync_all" [] st
  | .ext "File" [], "set_len", [.int .u64 n], st => fsCall w "set_len" [.int .u64 n] st
  | .ext "OpenOptions" [], "write", [.bool _], st => some (.val (.ext "OpenOptions" []) st)
  | .ext "OpenOptions" [], "open", [p], st => fsCall w "open_write" [p] st
  | .ext "Metadata" [.int .u64 n], "len", [], st => some (.val (.int .u64 n) st)
  -- std `str::is_empty`
  | .str s, "is_empty", [], st => some (.val (.bool (decide (s = ""))) st)
  | _, _, _, _ => none

/-- `let header: *const ShmHeader = <address of the segment>` (or `*mut`): the pointer to the mapped header, TYPED —
    `header.add(n)` then counts in `ShmHeader`s (`methodC`), `(*header).version` is the version cell (`fieldOfC`).
    (A `*const u8` / `*mut c_void` … stays the plain address: `add` counts bytes.) -/
def letPtrD : String → Value → Option Value
  | "*const ShmHeader", .enumv "addr:segment" [] => some (.ext "ptr:ShmHeader" [])
  | "*mut ShmHeader", .enumv "addr:segment" [] => some (.ext "ptr:ShmHeader" [])
  | _, _ => none

/-- `&mut file` on an open `File`: a `File` value is a HANDLE (its state is not in the value, every operation on
    it is an event), so the mutable borrow of the handle is the handle (`write_header(&mut file, size)`) -/
def refMutD (_ : Inputs) : Value → St → Option Res
  | .ext "File" [], st => some (.val (.ext "File" []) st)
  | _, _ => none

/-! ## the dictionary -/

def method (w : Inputs) (v : Value) (m : String) (args : List Value) (st : St) : Option Res :=
  match methodA w v m args st with
  | some r => some r
  | none =>
    match methodB v m args st with
    | some r => some r
    | none =>
      match methodC w v m args st with
      | some r => some r
      | none => methodD w v m args st

def call (w : Inputs) (name : String) (args : List Value) (st : St) : Option Res :=
  match callA w name args st with
  | some r => some r
  | none =>
    match callC w name args st with
    | some r => some r
    | none => callD w name args st

def pathAll (name : String) : Option Value :=
  match path name with
  | some v => some v
  | none =>
    match pathC name with
    | some v => some v
    | none => pathD name

def derefAll (w : Inputs) (v : Value) (st : St) : Option Res :=
  match deref w v st with
  | some r => some r
  | none => derefC w v st

/-- The dictionary.  `litFallback := some .i32`: Rust's integer fallback — in `ShmReader::snapshot` the
    counter `let mut retries = 1_000_000; while retries > 0 { .. retries -= 1; }` is constrained by nothing
    but unsuffixed literals, hence an `i32`; no other pair of untyped integer operands occurs in the
    functions of this group (every other literal meets a typed operand and takes its type). -/
def ext : Ext :=
  { Ext.none with path := pathAll, deref := derefAll, method := method, call := call, macroCall := macroC,
                  fieldOf := fieldOfC, litFallback := some .i32, refMut := refMutD, letPtr := letPtrD }

end ClockBound.Rs.DictShm
