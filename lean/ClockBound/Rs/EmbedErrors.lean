/-
  How the inputs and outputs of `Model/ErrorsProg.lean` are represented as interpreter values (group
  `Errors`).  Part of the STATEMENTS of `Properties/CodeTieErrors.lean` (trusted): which Rust value a model
  value stands for.  Struct values list their fields sorted by name.
-/
import ClockBound.Rs.Embed
import ClockBound.Rs.DictErrors
import ClockBound.Model.ErrorsProg
namespace ClockBound.Rs.EmbedErrors
open ClockBound ClockBound.Rs ClockBound.Rs.DictErrors

/-! ### `ShmError` (clock-bound-shm/src/lib.rs) -/

/-- `ShmError::SyscallError(Errno(e), origin)` / the three field-less variants; the origin is a
    `&'static CStr` whose content is the text `o` -/
def shmErrorValue : ShmErrorV → Value
  | .sys e o => .enumv "ShmError::SyscallError" [errnoValue e, cstr (.str o)]
  | .notInit => .enumv "ShmError::SegmentNotInitialized" []
  | .malformed => .enumv "ShmError::SegmentMalformed" []
  | .causality => .enumv "ShmError::CausalityBreach" []

/-! ### the Rust client's error (clock-bound-client/src/lib.rs) -/

/-- variant of `ClockBoundErrorKind`; the enum has no counterpart of `ErrKind.none` (a unit value is not
    an enum value, so nothing equals it) -/
def clientKindValue : ErrKind → Value
  | .none => .unit
  | .syscall => .enumv "ClockBoundErrorKind::Syscall" []
  | .notInit => .enumv "ClockBoundErrorKind::SegmentNotInitialized" []
  | .malformed => .enumv "ClockBoundErrorKind::SegmentMalformed" []
  | .causality => .enumv "ClockBoundErrorKind::CausalityBreach" []

/-- `ClockBoundError { kind, errno: Errno, detail: String }`; no detail = the empty string -/
def clientErrValue (c : ClientErrV) : Value :=
  .struct "ClockBoundError" [
    ("detail", .str (c.detail.getD "")),
    ("errno", errnoValue c.errno),
    ("kind", clientKindValue c.kind)]

/-! ### the C client's error (clock-bound-ffi/src/lib.rs) -/

/-- name of the variant of `clockbound_err_kind` -/
def ffiKindName : ErrKind → String
  | .none => "CLOCKBOUND_ERR_NONE"
  | .syscall => "CLOCKBOUND_ERR_SYSCALL"
  | .notInit => "CLOCKBOUND_ERR_SEGMENT_NOT_INITIALIZED"
  | .malformed => "CLOCKBOUND_ERR_SEGMENT_MALFORMED"
  | .causality => "CLOCKBOUND_ERR_CAUSALITY_BREACH"

def ffiKindValue (k : ErrKind) : Value := .enumv ("clockbound_err_kind::" ++ ffiKindName k) []

/-- `clockbound_err { kind, errno: i32, detail: *const c_char }`; no detail = NULL, else the pointer to
    the NUL-terminated origin string -/
def ffiErrValue (c : ClientErrV) : Value :=
  .struct "clockbound_err" [
    ("detail", match c.detail with
               | some o => cptr (.str o)
               | none => nullPtr),
    ("errno", .int .i32 c.errno),
    ("kind", ffiKindValue c.kind)]

/-- name of the variant of `clockbound_clock_status` -/
def ffiStatusName : Status → String
  | .unknown => "CLOCKBOUND_STA_UNKNOWN"
  | .synchronized => "CLOCKBOUND_STA_SYNCHRONIZED"
  | .freeRunning => "CLOCKBOUND_STA_FREE_RUNNING"

def ffiStatusValue (s : Status) : Value := .enumv ("clockbound_clock_status::" ++ ffiStatusName s) []

/-! ### results of the calls into clock-bound-shm (the inputs) -/

def resultValue {ε α : Type} (fe : ε → Value) (fa : α → Value) : Except ε α → Value
  | .ok a => .enumv "Ok" [fa a]
  | .error e => .enumv "Err" [fe e]

/-- `(libc::timespec, libc::timespec, ClockStatus)` -/
def boundValue (b : Bound) : Value := .tuple [ctimespecValue b.1, ctimespecValue b.2.1, statusValue b.2.2]

/-- `Result<&ClockErrorBound, ShmError>` of `ShmReader::snapshot` -/
def snapResValue (r : Except ShmErrorV Record) : Value := resultValue shmErrorValue recordValue r
/-- `Result<(timespec, timespec, ClockStatus), ShmError>` of `ClockErrorBound::now` -/
def boundResValue (r : Except ShmErrorV Bound) : Value := resultValue shmErrorValue boundValue r
/-- `Result<ShmReader, ShmError>` of `ShmReader::new`; the reader is named by `h` -/
def openResValue (r : Except ShmErrorV Value) : Value := resultValue shmErrorValue readerValue r

/-! ### the objects the client functions are called on -/

/-- `ClockBoundClient { reader }` -/
def clientValue (h : Value) : Value := .struct "ClockBoundClient" [("reader", readerValue h)]

/-- `clockbound_ctx { err, reader }` -/
def ctxValue (err : Value) (h : Value) : Value := .struct "clockbound_ctx" [("err", err), ("reader", readerValue h)]

/-! ### outcomes -/

/-- the calls `now()` makes into clock-bound-shm, with what they returned: the event log of BOTH clients -/
def nowCalls (h : Value) (snap : Except ShmErrorV Record) (bound : Except ShmErrorV Bound) : List Value :=
  match snap with
  | .error e => [evSnapshot (readerValue h) (snapResValue (.error e))]
  | .ok r => [evSnapshot (readerValue h) (snapResValue (.ok r)), evNow (recordValue r) (boundResValue bound)]

/-- `ClockBoundNowResult { earliest: TimeSpec, latest: TimeSpec, clock_status }` -/
def rustNowValue (b : Bound) : Value :=
  .struct "ClockBoundNowResult" [
    ("clock_status", statusValue b.2.2), ("earliest", .timespec b.1), ("latest", .timespec b.2.1)]

/-- `ClockBoundClient::now(&mut self) -> Result<ClockBoundNowResult, ClockBoundError>`: the client is
    unchanged (the reader is an opaque handle), the log is the calls into clock-bound-shm -/
def rustNowOutcome (h : Value) (calls : List Value) (res : Except ClientErrV Bound) : Rs.Outcome :=
  .ok (resultValue clientErrValue rustNowValue res) (clientValue h) calls

/-- `clockbound_now_result { earliest, latest, clock_status }` as `clockbound_now` writes it: the status is
    `clock_status.into()` at the declared type of the field, i.e. `clockbound_clock_status::from(clock_status)` -/
def ffiNowValue (b : Bound) : Value :=
  .struct "clockbound_now_result" [
    ("clock_status", ffiStatusValue b.2.2),
    ("earliest", ctimespecValue b.1), ("latest", ctimespecValue b.2.1)]

/-- `clockbound_now(ctx, output) -> *const clockbound_err`: on success one `write` through `output`, NULL
    returned; on an error the reference `&ctx.err` is returned after `ctx.err = e.into()`, i.e. (declared type of
    `clockbound_ctx.err`) `clockbound_err::from(e)`: what is returned is the converted error -/
def ffiNowOutcome (calls : List Value) (res : Except ClientErrV Bound) : Rs.Outcome :=
  match res with
  | .ok b => .ok nullPtr .unit (calls ++ [evWrite "output" (ffiNowValue b)])
  | .error c => .ok (ffiErrValue c) .unit calls

/-! ### `open()` -/

/-- `ClockBoundClient::new_with_path(path) -> Result<ClockBoundClient, ClockBoundError>`: one call
    `ShmReader::new(path as &CStr)`, then the client holding the reader, or the converted error -/
def rustOpenOutcome (path : String) (res : Except ShmErrorV Value) : Rs.Outcome :=
  .ok (resultValue clientErrValue clientValue (clientOpen res)) .unit
    [evOpen (cstr (.str path)) (openResValue res)]

/-- `clockbound_open(shm_path, err) -> *mut clockbound_ctx`: one call `ShmReader::new(CStr::from_ptr(shm_path))`;
    on success the pointer to a new heap object `clockbound_ctx { err: Default::default(), reader }`, the default
    at the declared type `clockbound_err` of the field: kind NONE, errno 0, detail NULL;
    on an error `e`: NULL, after `err.write(e.into())` (`intoValue`: at the pointee type of the parameter
    `err: *mut clockbound_err`) when `err` is not NULL -/
def ffiOpenOutcome (path : Value) (errNull : Bool) (res : Except ShmErrorV Value) : Rs.Outcome :=
  match res with
  | .ok h => .ok (heapPtr (ctxValue (ffiErrValue ⟨.none, 0, none⟩) h)) .unit [evOpen (cstr path) (openResValue (.ok h))]
  | .error e =>
    .ok nullPtr .unit
      (evOpen (cstr path) (openResValue (.error e)) ::
        (if errNull then [] else [evWrite "err" (intoValue (shmErrorValue e))]))

/-- the `err` argument of `clockbound_open`: NULL, or a valid pointer to the caller's `clockbound_err` -/
def errArg (errNull : Bool) : Value := if errNull then nullPtr else outPtr "err"

end ClockBound.Rs.EmbedErrors
