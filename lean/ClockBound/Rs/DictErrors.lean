/-
  Extension dictionary (`Rs.Ext`) of the theorem group `Errors`: the two client libraries
  (clock-bound-client/src/lib.rs, clock-bound-ffi/src/lib.rs) — error conversions, `now`, `open`, `close`.

  THIS FILE IS PART OF THE TRUSTED BASE of `Properties/CodeTieErrors.lean`: each rule says what a library
  call means; the Rust / library fact it encodes is written next to it.  A rule never invents a value: what
  the environment decides comes from the input stream (`St.input`), everything without a rule is stuck.

  The calls INTO clock-bound-shm (`ShmReader::new`, `ShmReader::snapshot`, `ClockErrorBound::now`) are the
  ENVIRONMENT of this group: the statements run the client functions against a function table that contains
  the two client crates only (`ErrorsProof.clientFns`), so these three calls reach the dictionary, where each
  consumes ONE input (the `Result` it returns) and logs ONE event (callee, argument, result).  What these
  functions do is the business of the groups `Shm` and `Poller`.

  Objects (all `Value.ext`):
    `nullPtr`            a NULL raw pointer
    `cptr s`             `*const c_char` to the NUL-terminated string `s`
    `cstr s`             `&CStr` with content `s` (without the NUL);  `cstring s` an owned `CString`
    `outPtr name`        a valid, non-NULL `*mut T` to caller-owned memory called `name` (an out-parameter)
    `heapPtr v`          a valid, exclusively owned `*mut T` to a heap object whose content is `v`
    `boxValue v`         `Box<T>` holding `v`
    `readerValue h`      a `ShmReader` (opaque; `h` names it)
    `intoValue v`        `v.into()` at the type the context demands (see the rule)
    `defaultValue`       `Default::default()` at the type the context demands (see the rule)
  `errno::Errno(pub i32)` is the 1-tuple of its field (`errnoValue`): the core reads `.0` of tuples only.
-/
import ClockBound.Rs.Interp
namespace ClockBound.Rs.DictErrors
open ClockBound ClockBound.Rs

/-! ### objects -/

def nullPtr : Value := .ext "null" []
def cptr (s : Value) : Value := .ext "cptr" [s]
def cstr (s : Value) : Value := .ext "CStr" [s]
def cstring (s : Value) : Value := .ext "CString" [s]
def outPtr (name : String) : Value := .ext "out" [.str name]
def heapPtr (v : Value) : Value := .ext "heap" [v]
def boxValue (v : Value) : Value := .ext "Box" [v]
def readerValue (h : Value) : Value := .ext "ShmReader" [h]
def intoValue (v : Value) : Value := .ext "into" [v]
def defaultValue : Value := .ext "default" []
/-- errno 0.2/0.3: `pub struct Errno(pub i32)` -/
def errnoValue (e : Int) : Value := .tuple [.int .i32 e]

/-! ### events -/

/-- `ShmReader::new(path)` returned `result` -/
def evOpen (path result : Value) : Value := .ext "ShmReader::new" [path, result]
/-- `reader.snapshot()` returned `result` -/
def evSnapshot (reader result : Value) : Value := .ext "ShmReader::snapshot" [reader, result]
/-- `ceb.now()` returned `result` -/
def evNow (ceb result : Value) : Value := .ext "ClockErrorBound::now" [ceb, result]
/-- `p.write(v)` through the out-parameter `name` -/
def evWrite (name : String) (v : Value) : Value := .ext "write" [.str name, v]
/-- a `Box` holding `v` was dropped (for the context: `ShmReader` is dropped, the segment unmapped) -/
def evDrop (v : Value) : Value := .ext "drop" [v]

/-! ### rules -/

/-- `Errno(x)`: the field is an `i32`; an unsuffixed literal takes that type -/
def mkErrno : IntTy → Int → Option Value
  | .infer, a | .i32, a => if IntTy.i32.lo ≤ a ∧ a ≤ IntTy.i32.hi then some (errnoValue a) else none
  | _, _ => none

def call (w : Inputs) : String → List Value → St → Option Res
  -- clock-bound-shm (ENVIRONMENT): `ShmReader::new(path: &CStr) -> Result<ShmReader, ShmError>`
  | "ShmReader::new", [.ext "CStr" [p]], st =>
    some (.val (st.input w (evOpen (cstr p))).1 (st.input w (evOpen (cstr p))).2)
  -- errno: tuple-struct constructor `Errno(i32)`
  | "Errno", [.int t a], st => (mkErrno t a).map fun v => .val v st
  -- std: `String::new()` is the empty string
  | "String::new", [], st => some (.val (.str "") st)
  -- std: `ptr::null()`, `ptr::null_mut()`: the NULL pointer
  | "ptr::null", [], st => some (.val nullPtr st)
  | "ptr::null_mut", [], st => some (.val nullPtr st)
  -- std: `CStr::from_ptr(p)` on a pointer to a NUL-terminated string: that string (NULL: UB, no rule)
  | "CStr::from_ptr", [.ext "cptr" [s]], st => some (.val (cstr s) st)
  -- std: `CString::new(s: &str)`: `Err(NulError)` iff `s` contains a NUL character
  | "CString::new", [.str s], st =>
    some (if s.contains (Char.ofNat 0) then .val (.enumv "Err" [.opaque "NulError"]) st
          else .val (.enumv "Ok" [cstring (.str s)]) st)
  -- std: `Default::default()`: the default value of the type the context demands.  The interpreter has
  -- no static types: the value is kept as `defaultValue`; it is only moved around (no rule inspects it).
  -- Which `impl Default` it is follows from the declared type of its destination (Rust's type checker).
  | "Default::default", [], st => some (.val defaultValue st)
  -- std: `Box::new(v)`; `Box::leak(b)` / `Box::into_raw(b)` give the pointer to the (not freed) heap object;
  -- `Box::from_raw(p)` takes it back
  | "Box::new", [v], st => some (.val (boxValue v) st)
  | "Box::leak", [.ext "Box" [v]], st => some (.val (heapPtr v) st)
  | "Box::into_raw", [.ext "Box" [v]], st => some (.val (heapPtr v) st)
  | "Box::from_raw", [.ext "heap" [v]], st => some (.val (boxValue v) st)
  -- std: `mem::drop(b)` of a `Box`: the content is dropped (logged)
  | "mem::drop", [.ext "Box" [v]], st => some (.val .unit (st.emit (evDrop v)))
  | "drop", [.ext "Box" [v]], st => some (.val .unit (st.emit (evDrop v)))
  | _, _, _ => none

def method (w : Inputs) : Value → String → List Value → St → Option Res
  -- clock-bound-shm (ENVIRONMENT): `ShmReader::snapshot(&mut self) -> Result<&ClockErrorBound, ShmError>`
  | .ext "ShmReader" [h], "snapshot", [], st =>
    some (.val (st.input w (evSnapshot (readerValue h))).1 (st.input w (evSnapshot (readerValue h))).2)
  -- clock-bound-shm (ENVIRONMENT): `ClockErrorBound::now(&self) -> Result<(timespec, timespec, ClockStatus), ShmError>`
  | .struct "ClockErrorBound" fs, "now", [], st =>
    some (.val (st.input w (evNow (.struct "ClockErrorBound" fs))).1 (st.input w (evNow (.struct "ClockErrorBound" fs))).2)
  -- std: `<*mut T>::write(self, v)` through a valid pointer: the effect is logged
  | .ext "out" [.str name], "write", [v], st => some (.val .unit (st.emit (evWrite name v)))
  -- std: `<*const T>::is_null`
  | .ext "null" [], "is_null", [], st => some (.val (.bool true) st)
  | .ext "out" [_], "is_null", [], st => some (.val (.bool false) st)
  | .ext "cptr" [_], "is_null", [], st => some (.val (.bool false) st)
  | .ext "heap" [_], "is_null", [], st => some (.val (.bool false) st)
  -- std: `CStr::as_ptr`: pointer to the NUL-terminated bytes
  | .ext "CStr" [s], "as_ptr", [], st => some (.val (cptr s) st)
  -- std: `CStr::to_str`: `Ok` when the bytes are valid UTF-8 — a `cstr (.str s)` is the encoding of `s`
  | .ext "CStr" [.str s], "to_str", [], st => some (.val (.enumv "Ok" [.str s]) st)
  -- std: `str::to_owned`: the same text as a `String` (`&str` and `String` are both `Value.str`)
  | .str s, "to_owned", [], st => some (.val (.str s) st)
  -- std: `CString::as_c_str`
  | .ext "CString" [s], "as_c_str", [], st => some (.val (cstr s) st)
  -- std: `impl<T, U: From<T>> Into<U> for T`: `v.into()` is `U::from(v)` for the type `U` the context
  -- demands.  The interpreter has no static types: the conversion is kept as `intoValue v` and only moved
  -- around; which `From` impl it is follows from the declared type of its destination.  (Integers and
  -- `ChronyFloat` have built-in rules; this one is for enum values.)
  | .enumv p args, "into", [], st => some (.val (intoValue (.enumv p args)) st)
  | _, _, _, _ => none

/-- `*p` on a pointer to a heap object: its content (by value; see the core rule for `&mut *p`) -/
def deref (_ : Inputs) : Value → St → Option Res
  | .ext "heap" [v], st => some (.val v st)
  | _, _ => none

/-- `e?` on an `Err(e)` whose `e` is a `ShmError`: `?` applies `From::from`; the core looks for the
    `impl From<ShmError> for E` of the translated files, `E` the error type of the enclosing function (core rule
    `[errors]` of `eval`, `.try_`), and falls back to the identity when `E` is `ShmError` itself -/
def errFrom (_ : String) : Value → Option Value
  | .enumv "ShmError::SyscallError" _ => some (.ext "From::from" [.str "ShmError"])
  | .enumv "ShmError::SegmentNotInitialized" _ => some (.ext "From::from" [.str "ShmError"])
  | .enumv "ShmError::SegmentMalformed" _ => some (.ext "From::from" [.str "ShmError"])
  | .enumv "ShmError::CausalityBreach" _ => some (.ext "From::from" [.str "ShmError"])
  | _ => none

/-- the dictionary -/
def ext : Ext := { Ext.none with call := call, method := method, deref := deref, errFrom := errFrom }

end ClockBound.Rs.DictErrors
