/-
  How the values of `Model/Poller.lean` (poller state, replies, sysfs file states, messages, the events of
  `pollTrace`) and the messages of `Model/Daemon.lean` are represented as interpreter values and as
  events / inputs of the dictionary `Rs/DictPoller.lean`.  These definitions are part of the STATEMENTS of
  `Properties/CodeTiePoller.lean`, `CodeTieDispatch.lean`, `CodeTieNow.lean` (trusted).
-/
import ClockBound.Rs.DictPoller
import ClockBound.Rs.Embed
import ClockBound.Model.Poller
import ClockBound.Model.World
namespace ClockBound.Rs
open ClockBound ClockBound.Rs.DictPoller

/-! ### the `use` imports, computed from the generated table of constants -/

/-- the value of the constant registered under `key` in the generated table `consts`: its initialiser,
    evaluated by the interpreter (with the libc names of the dictionary, nothing else) -/
def constValue (consts : List (String × Expr)) (key : String) : Option Value :=
  match consts.lookup key with
  | none => none
  | some e =>
    match eval 20 { fns := [], consts := consts, constTypes := [], structs := [], enums := [], nowNs := 0,
                    ext := DictPoller.ext [] } ⟨"common", "", ""⟩ e ⟨[], [], 0⟩ with
    | .val v _ => some v
    | _ => none

/-- `use common::{clock_gettime_safe, CLOCK_MONOTONIC, CLOCK_REALTIME}` (clock-bound-shm/src/lib.rs) and
    `use clock_bound_shm::common::{clock_gettime_safe, CLOCK_MONOTONIC}` (clock-bound-d/src/chrony_poller.rs)
    on LINUX: common.rs defines `CLOCK_MONOTONIC` twice, under `cfg(target_os = "macos")` and under
    `cfg(not(target_os = "macos"))`; the translator keeps both, the first under the key
    `common::CLOCK_MONOTONIC`, the second (the one that is compiled on Linux) under
    `clock-bound-shm/common::CLOCK_MONOTONIC`.  (`clock_gettime_safe` itself is the dictionary's `call` rule.) -/
def linuxUses (consts : List (String × Expr)) : List (String × Value) :=
  (match constValue consts "common::CLOCK_REALTIME" with
   | some v => [("CLOCK_REALTIME", v)]
   | none => []) ++
  (match constValue consts "clock-bound-shm/common::CLOCK_MONOTONIC" with
   | some v => [("CLOCK_MONOTONIC", v)]
   | none => [])

/-! ### values -/

/-- `Ok(libc::timespec)` as `clock_gettime_safe` returns it -/
def okTimespec (t : TimeSpec) : Value := .enumv "Ok" [ctimespecValue t]

/-- `ClockErrorBoundPoller { last_tracking_data }` -/
def pollerValue (s : PollerState) : Value :=
  .struct "ClockErrorBoundPoller" [("last_tracking_data", instant s.lastGood)]

/-- `Option<PhcInfo>`: `PhcInfo { refid: u32, sysfs_error_bound_path }` -/
def optPhcValue (path : String) : Option Nat → Value
  | none => .enumv "None" []
  | some r => .enumv "Some" [.struct "PhcInfo" [("refid", .int .u32 r), ("sysfs_error_bound_path", pathBuf path)]]

/-- `thread_manager::Context { channel_id, mbox, dbox }` of the thread `chan` -/
def contextValue (chan : String) : Value :=
  .struct "Context" [("channel_id", .enumv chan []), ("dbox", dispatchBox), ("mbox", receiver)]

/-- what the environment provides besides the model's inputs: the path of the sysfs file, the sleep time,
    the body of a reply that is not Tracking (any variant `other ≠ ReplyBody::Tracking` with any payload),
    whether an unreadable file fails at `open` or at `read_to_string`, and what `send` / `recv_timeout` return -/
structure IterEnv where
  path : String
  sleepNs : Int
  other : String
  otherArgs : List Value
  atOpen : Bool
  sendRes : Value
  /-- `recv_timeout` returns `Ok(m)` (`recvOk`) or `Err(e)`, with `m` / `e` the enum variant `recvVariant`
      (`Message::ThreadAbort`, `Message::ChronyNotResponding`, .., `RecvTimeoutError::Timeout`,
      `RecvTimeoutError::Disconnected`) with payload `recvArgs` -/
  recvOk : Bool
  recvVariant : String
  recvArgs : List Value

def IterEnv.recvRes (e : IterEnv) : Value :=
  .enumv (if e.recvOk then "Ok" else "Err") [.enumv e.recvVariant e.recvArgs]

/-- `recv_timeout` returned `Ok(Message::ThreadAbort)` -/
def IterEnv.isAbort (e : IterEnv) : Bool := e.recvOk && decide (e.recvVariant = "Message::ThreadAbort")

/-- the inputs from position `p` on are the values `vs` -/
def inputsAt (inp : Nat → Value) : Nat → List Value → Prop
  | _, [] => True
  | p, v :: vs => inp p = v ∧ inputsAt inp (p + 1) vs

/-- the result of `blocking_query_uds` (the fields of `Reply` the daemon reads: `body`) -/
def replyValue (e : IterEnv) : ReplyKind → Value
  | .none => .enumv "Err" [.opaque "io::Error"]
  | .other => .enumv "Ok" [.struct "Reply" [("body", .enumv e.other e.otherArgs)]]
  | .tracking t => .enumv "Ok" [.struct "Reply" [("body", .enumv "ReplyBody::Tracking" [trackingValue t])]]

/-- state of the sysfs file as the input of `File::open` (contents: see `Rs/DictPoller.lean`) -/
def phcFileValue (e : IterEnv) : PhcFile → Value
  | .ok v => .ext "decimal" [.int .infer v]
  | .unreadable => if e.atOpen then .ext "unreadable" [] else .ext "ioerror" []
  | .unparsable => .ext "garbage" []

/-- `Message` (clock-bound-d/src/lib.rs) sent by the poller; `panic` is not a message (never sent) -/
def pollMsgValue : PollMsg → Value
  | .data t phc asOf =>
    .enumv "Message::ClockErrorBoundData" [.tuple [trackingValue t, .int .i64 phc, ctimespecValue asOf]]
  | .nrGrace => .enumv "Message::ChronyNotRespondingGracePeriod" []
  | .nr => .enumv "Message::ChronyNotResponding" []
  | .phcGrace => .enumv "Message::PhcErrorBoundRetrievalFailedGracePeriod" []
  | .phcFail => .enumv "Message::PhcErrorBoundRetrievalFailed" []
  | .panic => .unit

/-- the event the interpreter logs for an event of `pollTrace` -/
def pollEvValue (e : IterEnv) : PollEv → Value
  | .readMonoCoarse v => evClockRead (clockId 6) (okTimespec v)
  | .query r => evQuery (.enumv "RequestBody::Tracking" []) (.ext "ClientOptions" []) (replyValue e r)
  | .readMono v => evInstantNow (instant v)
  | .readPhc f => evOpen (pathBuf e.path) (phcFileValue e f)
  | .send m => evSend (.enumv "ChannelId::ShmWriter" []) (pollMsgValue m)
  | .wait => evWait (.duration e.sleepNs)

/-- the input the environment provides at an event of `pollTrace` -/
def pollEvInput (e : IterEnv) : PollEv → Value
  | .readMonoCoarse v => okTimespec v
  | .query r => replyValue e r
  | .readMono v => instant v
  | .readPhc f => phcFileValue e f
  | .send _ => e.sendRes
  | .wait => e.recvRes

/-- the local variables of `run_clock_error_bound_poller` at the top of its loop, innermost first:
    `keep_running`, then the parameters (last first) -/
def pollerLoopSt (e : IterEnv) (keep : Bool) (s : PollerState) (refid : Option Nat) (log : List Value) (pos : Nat) : St :=
  { env := [("keep_running", .bool keep), ("sleep", .duration e.sleepNs), ("phc_info", optPhcValue e.path refid),
            ("poller", pollerValue s), ("ctx", contextValue "ChannelId::ClockErrorBoundPoller")],
    log := log, pos := pos }

/-! ### the writer thread -/

/-- a message in the writer thread's mailbox: one the updater acts on (`Msg` of `Model/Daemon.lean`, with the
    two names each `missing` message can have), or one it ignores (a variant of `Message` without handler,
    with any payload) -/
inductive WMsg
  | data (t : Tracking) (phc : Int) (asOf : TimeSpec)
  | nrGrace | phcGrace | nr | phcFail
  | ignored (variant : String) (args : List Value)

def WMsg.value : WMsg → Value
  | .data t phc asOf =>
    .enumv "Message::ClockErrorBoundData" [.tuple [trackingValue t, .int .i64 phc, ctimespecValue asOf]]
  | .nrGrace => .enumv "Message::ChronyNotRespondingGracePeriod" []
  | .phcGrace => .enumv "Message::PhcErrorBoundRetrievalFailedGracePeriod" []
  | .nr => .enumv "Message::ChronyNotResponding" []
  | .phcFail => .enumv "Message::PhcErrorBoundRetrievalFailed" []
  | .ignored v args => .enumv v args

/-- the model message (`nowNs` = CLOCK_REALTIME when `ref_time.elapsed()` is evaluated) -/
def WMsg.toMsg (nowNs : Int) : WMsg → Option Msg
  | .data t phc asOf => some (.data t phc asOf nowNs)
  | .nrGrace => some (.missing true)
  | .phcGrace => some (.missing true)
  | .nr => some (.missing false)
  | .phcFail => some (.missing false)
  | .ignored _ _ => none

/-- the variants of `Message` that `process_messages` has a handler for -/
def handledVariant (v : String) : Bool :=
  v == "Message::ClockErrorBoundData" || v == "Message::ChronyNotRespondingGracePeriod" ||
  v == "Message::PhcErrorBoundRetrievalFailedGracePeriod" || v == "Message::ChronyNotResponding" ||
  v == "Message::PhcErrorBoundRetrievalFailed" || v == "Message::ThreadAbort"

def WMsg.wf : WMsg → Bool
  | .ignored v _ => !handledVariant v
  | _ => true

/-! ### the clock reads as the model's `ReadAction`s (C12) -/

/-- Linux clock ids: 0 = CLOCK_REALTIME, 6 = CLOCK_MONOTONIC_COARSE -/
def readActionOf : Value → Option ReadAction
  | .ext "clock_gettime_safe" [.int _ 0, _] => some .realtime
  | .ext "clock_gettime_safe" [.int _ 6, _] => some .monoCoarse
  | .ext "blocking_query_uds" _ => some .query
  | _ => none

/-- an outcome with `evs` logged before its own log -/
def Outcome.after (evs : List Value) : Outcome → Outcome
  | .ok v s l => .ok v s (evs ++ l)
  | .panic => .panic
  | .stuck m => .stuck m

end ClockBound.Rs
