/-
  An interpreter for the Rust fragment of `Ast.lean`, in terms of the primitives of the hand-written
  models (`ClockBound.F64`, `ClockBound.TimeSpec`, `fsmStep`).

  THIS FILE IS PART OF THE TRUSTED BASE of the translation tie: the theorems of
  `ClockBound/Properties/CodeTie*.lean` say "the interpreter, run on the AST that the translator
  regenerated from the Rust source, computes the same function as the hand-written model".  They are
  only as good as the rules below are faithful to Rust.  The rules are kept in one place, part 2
  ("dictionary"), each with the Rust fact it encodes.  Part 3 is the evaluation of control structure.

  Ground rules
  * Values are dynamically typed.  The interpreter NEVER invents a value: a construct or a combination
    of dynamic types without a rule evaluates to `Res.stuck msg`, and `stuck` propagates.
  * `Res.panic` is a Rust panic (arithmetic overflow in a build with overflow checks, an assertion in
    a library function, `panic!`).
  * References are transparent (`&e`, `*e` evaluate like `e`); `&mut e` has no rule, except for the
    implicit reborrow of the receiver of a `&mut self` method, which is written back after the call.
  * Recursion is on a fuel counter (decreasing along the depth of the evaluation, not its length), so
    that every equation of the interpreter unfolds by `simp`/`rfl` on a concrete program.

  Import-free apart from the model files (core Lean only).
-/
import ClockBound.Rs.Ast
import ClockBound.Model.Daemon

namespace ClockBound.Rs

/-! ## 1. Values, results, state -/

/-- Rust's integer types; `infer` is the type of an unsuffixed integer literal before inference
    (it takes the type of the other operand, of a `let` annotation, or of a parameter). -/
inductive IntTy
  | i8 | i16 | i32 | i64 | i128 | isize | u8 | u16 | u32 | u64 | u128 | usize | infer
deriving Repr, BEq, DecidableEq, Inhabited

inductive Value
  | int (ty : IntTy) (v : Int)
  /-- an `f64` as its exact rational value (see `ClockBound/Model/F64.lean`) -/
  | f64 (v : Rat)
  | bool (b : Bool)
  | unit
  | str (s : String)
  /-- nix 0.26 `sys::time::TimeSpec` -/
  | timespec (t : TimeSpec)
  /-- `libc::timespec { tv_sec, tv_nsec }` -/
  | ctimespec (sec nsec : Int)
  /-- `std::time::Duration`, in nanoseconds (non-negative) -/
  | duration (ns : Int)
  /-- enum variant `Type::Variant` (or the prelude's `Ok`, `Err`, `Some`, `None`) with its payload -/
  | enumv (path : String) (args : List Value)
  | tuple (vs : List Value)
  /-- struct value; fields sorted by name (see `insertField`) -/
  | struct (name : String) (fields : List (String × Value))
  /-- chrony_candm's `ChronyFloat`: the 32-bit wire word -/
  | chronyFloat (w : Nat)
  /-- `Box<dyn FSMState>`: the clock-status FSM of clock_state_fsm.rs, as its current `ClockStatus` -/
  | fsm (s : Status)
  /-- `std::time::SystemTime`, ns since the epoch -/
  | systime (ns : Int)
  /-- the `W: ShmWrite` sink held by `ShmUpdater` -/
  | writer
  /-- a value nothing is known about except where it came from (`format!(..)`) -/
  | opaque (what : String)
deriving Repr, Inhabited

/-- local variables (innermost first; `self` is the variable `"self"`) and the effect log -/
structure St where
  env : List (String × Value)
  log : List Value
deriving Repr, Inhabited

inductive Res
  /-- normal completion with a value -/
  | val (v : Value) (st : St)
  /-- a `return v` (or a `?` that returns) on its way to the function boundary -/
  | ret (v : Value) (st : St)
  | panic
  | stuck (msg : String)
deriving Repr, Inhabited

/-- sequencing: continue with `k` after a normal completion, propagate everything else -/
def Res.bind (r : Res) (k : Value → St → Res) : Res :=
  match r with
  | .val v st => k v st
  | .ret v st => .ret v st
  | .panic => .panic
  | .stuck m => .stuck m

/-- continue after a normal completion (`kv`) or a `return` (`kr`) -/
def Res.on (r : Res) (kv kr : Value → St → Res) : Res :=
  match r with
  | .val v st => kv v st
  | .ret v st => kr v st
  | .panic => .panic
  | .stuck m => .stuck m

/-- `none` ⇒ panic -/
def orPanic {α : Type} (o : Option α) (k : α → Res) : Res :=
  match o with
  | none => .panic
  | some a => k a

/-- `none` ⇒ stuck -/
def orStuck {α : Type} (msg : String) (o : Option α) (k : α → Res) : Res :=
  match o with
  | none => .stuck msg
  | some a => k a

/-- what is fixed during a run: the generated tables and the environment input -/
structure Ctx where
  fns : List (String × FnDecl)
  consts : List (String × Expr)
  constTypes : List (String × String)
  /-- struct name ↦ declared fields (name, type) -/
  structs : List (String × List (String × String))
  /-- enum name ↦ variants (name, number of fields) -/
  enums : List (String × List (String × Nat))
  /-- CLOCK_REALTIME at the call of `SystemTime::elapsed`, ns since the epoch -/
  nowNs : Int

/-- per function: file stem (for free functions and constants) and `Self` -/
structure Frame where
  module : String
  selfTy : String

/-! ## 2. Dictionary of primitives -/

/-! ### 2.1 integer types -/

def IntTy.ofName : String → Option IntTy
  | "i8" => some .i8 | "i16" => some .i16 | "i32" => some .i32 | "i64" => some .i64
  | "i128" => some .i128 | "isize" => some .isize
  | "u8" => some .u8 | "u16" => some .u16 | "u32" => some .u32 | "u64" => some .u64
  | "u128" => some .u128 | "usize" => some .usize
  | _ => none

def IntTy.name : IntTy → String
  | .i8 => "i8" | .i16 => "i16" | .i32 => "i32" | .i64 => "i64" | .i128 => "i128" | .isize => "isize"
  | .u8 => "u8" | .u16 => "u16" | .u32 => "u32" | .u64 => "u64" | .u128 => "u128" | .usize => "usize"
  | .infer => "{integer}"

/-- smallest value (64-bit target: `isize`/`usize` are 64 bits wide). `infer` has no range: the
    rules below never range-check at `infer`, they get stuck instead. -/
def IntTy.lo : IntTy → Int
  | .i8 => -128 | .i16 => -32768 | .i32 => -2147483648 | .i64 => -9223372036854775808
  | .i128 => -170141183460469231731687303715884105728 | .isize => -9223372036854775808
  | _ => 0

def IntTy.hi : IntTy → Int
  | .i8 => 127 | .i16 => 32767 | .i32 => 2147483647 | .i64 => 9223372036854775807
  | .i128 => 170141183460469231731687303715884105727 | .isize => 9223372036854775807
  | .u8 => 255 | .u16 => 65535 | .u32 => 4294967295 | .u64 => 18446744073709551615
  | .u128 => 340282366920938463463374607431768211455 | .usize => 18446744073709551615
  | .infer => 0

def IntTy.signed : IntTy → Bool
  | .i8 | .i16 | .i32 | .i64 | .i128 | .isize => true
  | _ => false

/-- number of values of the type (2^bits) -/
def IntTy.card (t : IntTy) : Int := t.hi - t.lo + 1

/-- Both operands of a binary integer operator have the same type; an unsuffixed literal takes the
    type of the other operand. Two different concrete types do not type-check in Rust: no rule. -/
def IntTy.unify : IntTy → IntTy → Option IntTy
  | .infer, t => some t
  | t, .infer => some t
  | a, b => if a = b then some a else none

/-- Rust, overflow checks on (dev profile; the harness enables them too): the result of `+ - *`,
    unary `-` and `+=` must be representable in the operand type, otherwise the thread panics
    ("attempt to add with overflow"). At `infer` the type is unknown: stuck. -/
def chkInt (t : IntTy) (v : Int) (st : St) : Res :=
  if t = .infer then .stuck "arithmetic on integer literals of unknown type"
  else if t.lo ≤ v ∧ v ≤ t.hi then .val (.int t v) st else .panic

/-- `x as T` between integer types: two's-complement wrap-around to the target width. -/
def wrapInt (t : IntTy) (v : Int) : Int := (v - t.lo) % t.card + t.lo

/-! ### 2.2 literals -/

/-- A decimal float literal denotes the nearest `f64` (ties to even) of its exact decimal value. -/
def f64OfDecimal (mant : Nat) (exp : Int) : Rat :=
  F64.rne53 (if exp ≥ 0 then ((mant * 10 ^ exp.toNat : Nat) : Rat)
             else (mant : Rat) / ((10 ^ (-exp).toNat : Nat) : Rat))

def litValue : Lit → Option Value
  | .int v "" => some (.int .infer v)
  | .int v sfx => (IntTy.ofName sfx).map fun t => .int t v
  | .float m e "" => some (.f64 (f64OfDecimal m e))
  | .float m e "f64" => some (.f64 (f64OfDecimal m e))
  | .float _ _ _ => none                                   -- f32: not modelled
  | .bool b => some (.bool b)
  | .str s => some (.str s)
  | .other _ => none

/-! ### 2.3 names -/

/-- Canonical name of a path: its last two segments, `Self` replaced by the impl's self type.
    (`crate::ChronyClockStatus::Unknown`, `ChronyClockStatus::Unknown` and, inside the impl,
    `Self::Unknown` are the same item.) -/
def canon (selfTy : String) : List String → String
  | [] => ""
  | [a] => a
  | [a, b] => (if a = "Self" then selfTy else a) ++ "::" ++ b
  | _ :: b :: c :: rest => canon selfTy (b :: c :: rest)

def lastSeg : List String → String
  | [] => ""
  | [a] => a
  | _ :: b :: rest => lastSeg (b :: rest)

/-- the last two segments of a path (`Self` resolved), if it has at least two -/
def lastTwo (selfTy : String) : List String → Option (String × String)
  | [] => none
  | [_] => none
  | [a, b] => some (if a = "Self" then selfTy else a, b)
  | _ :: b :: c :: rest => lastTwo selfTy (b :: c :: rest)

/-- key of a constant in `consts`: `NAME` ↦ `<module>::NAME`, `T::NAME` ↦ `T::NAME` -/
def constKey (module selfTy : String) : List String → String
  | [] => ""
  | [x] => module ++ "::" ++ x
  | a :: b :: rest => canon selfTy (a :: b :: rest)

def statusName : Status → String
  | .unknown => "ClockStatus::Unknown"
  | .synchronized => "ClockStatus::Synchronized"
  | .freeRunning => "ClockStatus::FreeRunning"

def chronyName : ChronyStatus → String
  | .unknown => "ChronyClockStatus::Unknown"
  | .synchronized => "ChronyClockStatus::Synchronized"
  | .freeRunning => "ChronyClockStatus::FreeRunning"

/-- clock-bound-shm `ClockStatus` as a value -/
def statusValue (s : Status) : Value := .enumv (statusName s) []

/-- clock-bound-d `ChronyClockStatus` as a value -/
def chronyValue (c : ChronyStatus) : Value := .enumv (chronyName c) []

def chronyOfValue : Value → Option ChronyStatus
  | .enumv "ChronyClockStatus::Unknown" [] => some .unknown
  | .enumv "ChronyClockStatus::Synchronized" [] => some .synchronized
  | .enumv "ChronyClockStatus::FreeRunning" [] => some .freeRunning
  | _ => none

/-- Paths that are values by themselves, apart from local variables, constants of the translated files
    and field-less variants of the enums declared in the translated files (those are looked up in the
    generated tables): the prelude's `None` and the MIN/MAX constants of the integer types. -/
def primPath : String → Option Value
  | "None" => some (.enumv "None" [])
  | "i64::MAX" => some (.int .i64 IntTy.i64.hi) | "i64::MIN" => some (.int .i64 IntTy.i64.lo)
  | "u64::MAX" => some (.int .u64 IntTy.u64.hi) | "u64::MIN" => some (.int .u64 0)
  | "u32::MAX" => some (.int .u32 IntTy.u32.hi) | "u32::MIN" => some (.int .u32 0)
  | "i32::MAX" => some (.int .i32 IntTy.i32.hi) | "i32::MIN" => some (.int .i32 IntTy.i32.lo)
  | "u16::MAX" => some (.int .u16 IntTy.u16.hi) | "u16::MIN" => some (.int .u16 0)
  | _ => none

/-- `T::V` is a value (resp. a constructor taking `k` arguments) iff the translated files declare an
    enum `T` with a variant `V` without fields (resp. with `k` fields). -/
def enumArity (enums : List (String × List (String × Nat))) (selfTy : String) (segs : List String) : Option Nat :=
  match lastTwo selfTy segs with
  | none => none
  | some (t, v) =>
    match enums.lookup t with
    | none => none
    | some vs => vs.lookup v

/-- name under which the methods of a user-defined type are registered in `fns` -/
def userTypeName : Value → Option String
  | .struct n _ => some n
  | .enumv "ClockStatus::Unknown" _ | .enumv "ClockStatus::Synchronized" _
  | .enumv "ClockStatus::FreeRunning" _ => some "ClockStatus"
  | .enumv "ChronyClockStatus::Unknown" _ | .enumv "ChronyClockStatus::Synchronized" _
  | .enumv "ChronyClockStatus::FreeRunning" _ => some "ChronyClockStatus"
  | _ => none

/-- dynamic type name of a value, as Rust would write the type (used to pick `From<T> for U`) -/
def typeName : Value → String
  | .int t _ => t.name
  | .f64 _ => "f64"
  | .bool _ => "bool"
  | .unit => "()"
  | .str _ => "&str"
  | .timespec _ => "TimeSpec"
  | .ctimespec _ _ => "libc::timespec"
  | .duration _ => "Duration"
  | .enumv p args => (userTypeName (.enumv p args)).getD p
  | .tuple _ => "(..)"
  | .struct n _ => n
  | .chronyFloat _ => "ChronyFloat"
  | .fsm _ => "Box<dyn FSMState>"
  | .systime _ => "SystemTime"
  | .writer => "W"
  | .opaque w => w

/-! ### 2.4 environments, struct fields -/

def envGet : List (String × Value) → String → Option Value
  | [], _ => none
  | (k, v) :: rest, x => if k = x then some v else envGet rest x

/-- assignment to an existing variable: the innermost one of that name -/
def envSet : List (String × Value) → String → Value → Option (List (String × Value))
  | [], _, _ => none
  | (k, v) :: rest, x, w =>
    if k = x then some ((k, w) :: rest)
    else match envSet rest x w with
      | none => none
      | some rest' => some ((k, v) :: rest')

/-- struct values keep their fields sorted by name, so that the order in which a struct literal
    lists its fields does not matter -/
def insertField (k : String) (v : Value) : List (String × Value) → List (String × Value)
  | [] => [(k, v)]
  | (k', v') :: rest => if k < k' then (k, v) :: (k', v') :: rest
                        else if k = k' then (k, v) :: rest
                        else (k', v') :: insertField k v rest

def sortFields : List (String × Value) → List (String × Value)
  | [] => []
  | (k, v) :: rest => insertField k v (sortFields rest)

/-- A value flowing into a position with a declared type (`let x: T`, a parameter, a struct field, a
    constant, the return type): an integer literal of unknown type takes the declared integer type (a
    literal out of range does not compile: no rule). Declared types never change any other value. A
    declared type that is not the name of an integer type (an alias such as `libc::time_t`) leaves
    the literal untyped. -/
def ascribe (ty : String) : Value → Option Value
  | .int .infer a =>
    match IntTy.ofName ty with
    | some t => if t.lo ≤ a ∧ a ≤ t.hi then some (.int t a) else none
    | none => some (.int .infer a)
  | v => some v

def ascribeFields (decl : List (String × String)) : List (String × Value) → Option (List (String × Value))
  | [] => some []
  | (k, v) :: rest =>
    match decl.lookup k with
    | none => none                     -- no such field: does not compile
    | some ty =>
      match ascribe ty v, ascribeFields decl rest with
      | some v', some rest' => some ((k, v') :: rest')
      | _, _ => none

/-- `libc::timespec { tv_sec, tv_nsec }` is the value `ctimespec` (both fields are i64 on 64-bit
    Linux). Every other struct literal is a struct value named by the last path segment; if the
    translated files declare that struct, the fields take their declared types. -/
def mkStruct (structs : List (String × List (String × String))) (canonName last : String)
    (fields : List (String × Value)) : Option Value :=
  if canonName = "libc::timespec" ∨ canonName = "timespec" then
    match sortFields fields with
    | [("tv_nsec", .int _ n), ("tv_sec", .int _ s)] => some (.ctimespec s n)
    | _ => none
  else
    match structs.lookup last with
    | some decl => (ascribeFields decl fields).map fun fs => .struct last (sortFields fs)
    | none => some (.struct last (sortFields fields))

/-- field read `v.name` (through references) -/
def fieldOf : Value → String → Option Value
  | .struct _ fs, n => envGet fs n
  | .ctimespec s _, "tv_sec" => some (.int .i64 s)      -- libc (64-bit Linux): time_t = c_long = i64
  | .ctimespec _ n, "tv_nsec" => some (.int .i64 n)
  | _, _ => none

/-- field write -/
def setField : Value → String → Value → Option Value
  | .struct n fs, f, w => (envSet fs f w).map (.struct n)
  | .ctimespec _ n, "tv_sec", .int _ s => some (.ctimespec s n)
  | .ctimespec s _, "tv_nsec", .int _ n => some (.ctimespec s n)
  | _, _, _ => none

def listGet : List Value → Nat → Option Value
  | [], _ => none
  | v :: _, 0 => some v
  | _ :: rest, n + 1 => listGet rest n

/-! ### 2.5 operators -/

def boolRes (p : Prop) [Decidable p] (st : St) : Res := .val (.bool (decide p)) st

/-- integer operators at a concrete (unified) type -/
def intBin (op : BinOp) (t : IntTy) (a b : Int) (st : St) : Res :=
  match op with
  | .add => chkInt t (a + b) st
  | .sub => chkInt t (a - b) st
  | .mul => chkInt t (a * b) st
  -- `/` and `%` truncate toward zero; a zero divisor panics, and so does MIN / -1 (overflow)
  | .div => if t = .infer then .stuck "arithmetic on integer literals of unknown type"
            else if b = 0 then .panic
            else if t.signed = true ∧ a = t.lo ∧ b = -1 then .panic
            else .val (.int t (Int.tdiv a b)) st
  | .rem => if t = .infer then .stuck "arithmetic on integer literals of unknown type"
            else if b = 0 then .panic
            else if t.signed = true ∧ a = t.lo ∧ b = -1 then .panic
            else .val (.int t (Int.tmod a b)) st
  | .eq => boolRes (a = b) st
  | .ne => boolRes (a ≠ b) st
  | .lt => boolRes (a < b) st
  | .le => boolRes (a ≤ b) st
  | .gt => boolRes (a > b) st
  | .ge => boolRes (a ≥ b) st
  | _ => .stuck "integer operator without a rule"

/-- `f64` operators: IEEE-754 binary64, round to nearest even (`ClockBound.F64`). Infinities and NaN
    are not modelled: a zero divisor has no rule. -/
def f64Bin (op : BinOp) (a b : Rat) (st : St) : Res :=
  match op with
  | .add => .val (.f64 (F64.add a b)) st
  | .sub => .val (.f64 (F64.add a (-b))) st       -- a - b = a + (-b), negation is exact
  | .mul => .val (.f64 (F64.mul a b)) st
  | .div => if b = 0 then .stuck "f64 division by zero (inf/NaN are not modelled)"
            else .val (.f64 (F64.div a b)) st
  | .eq => boolRes (a = b) st
  | .ne => boolRes (a ≠ b) st
  | .lt => boolRes (a < b) st
  | .le => boolRes (a ≤ b) st
  | .gt => boolRes (a > b) st
  | .ge => boolRes (a ≥ b) st
  | _ => .stuck "f64 operator without a rule"

/-- nix 0.26 `TimeSpec`: `Add`/`Sub` go through `num_nanoseconds()` and `TimeSpec::nanoseconds`
    (i64 arithmetic, a range assertion): `none` of the model = panic. `Ord` is lexicographic on
    (tv_sec, tv_nsec); `PartialEq` is field-wise. -/
def timespecBin (op : BinOp) (a b : TimeSpec) (st : St) : Res :=
  match op with
  | .add => orPanic (a.add b) fun t => .val (.timespec t) st
  | .sub => orPanic (a.sub b) fun t => .val (.timespec t) st
  | .lt => .val (.bool (a.lt b)) st
  | .le => .val (.bool (a.le b)) st
  | .gt => .val (.bool (b.lt a)) st
  | .ge => .val (.bool (b.le a)) st
  | .eq => boolRes (a = b) st
  | .ne => boolRes (a ≠ b) st
  | _ => .stuck "TimeSpec operator without a rule"

/-- `std::time::Duration`: comparisons only (total order on the length) -/
def durationBin (op : BinOp) (a b : Int) (st : St) : Res :=
  match op with
  | .eq => boolRes (a = b) st
  | .ne => boolRes (a ≠ b) st
  | .lt => boolRes (a < b) st
  | .le => boolRes (a ≤ b) st
  | .gt => boolRes (a > b) st
  | .ge => boolRes (a ≥ b) st
  | _ => .stuck "Duration operator without a rule"

/-- strict binary operators (`&&` and `||` are lazy and handled by `eval`) -/
def binOp (op : BinOp) : Value → Value → St → Res
  | .int t1 a, .int t2 b, st =>
    match IntTy.unify t1 t2 with
    | some t => intBin op t a b st
    | none => .stuck "integer operands of different types"
  | .f64 a, .f64 b, st => f64Bin op a b st
  | .timespec a, .timespec b, st => timespecBin op a b st
  | .duration a, .duration b, st => durationBin op a b st
  | .bool a, .bool b, st =>
    match op with
    | .eq => .val (.bool (a == b)) st
    | .ne => .val (.bool (a != b)) st
    | _ => .stuck "bool operator without a rule"
  -- `#[derive(PartialEq)]` on a field-less enum compares the variants
  | .enumv p [], .enumv q [], st =>
    match op with
    | .eq => boolRes (p = q) st
    | .ne => boolRes (p ≠ q) st
    | _ => .stuck "enum operator without a rule"
  | _, _, _ => .stuck "binary operator: no rule for these operand types"

def unOp : UnOp → Value → St → Res
  | .ref, v, st => .val v st                       -- shared references are transparent
  | .deref, v, st => .val v st
  | .refMut, _, _ => .stuck "&mut borrow"
  -- `-x`: checked like `0 - x` (i64::MIN panics); on an untyped literal it is the negative literal
  | .neg, .int t a, st =>
    if t = .infer then .val (.int .infer (-a)) st
    else if t.signed = true then chkInt t (-a) st else .stuck "negation of an unsigned integer"
  | .neg, .f64 a, st => .val (.f64 (-a)) st
  | .not, .bool b, st => .val (.bool (!b)) st
  | _, _, _ => .stuck "unary operator: no rule for this operand type"

/-- `e as T` -/
def castTo (ty : String) : Value → St → Res
  | .int _ a, st =>
    match IntTy.ofName ty with
    -- integer → integer: wrap to the target width
    | some t => .val (.int t (wrapInt t a)) st
    -- integer → f64: nearest double (`F64.ofInt`); exact for u32 and narrower
    | none => if ty = "f64" then .val (.f64 (F64.ofInt a)) st else .stuck "cast without a rule"
  -- f64 → i64 / u64: truncate toward zero, saturate at the bounds (Rust ≥ 1.45)
  | .f64 a, st =>
    if ty = "i64" then .val (.int .i64 (F64.castI64 a)) st
    else if ty = "u64" then .val (.int .u64 (F64.castU64 a)) st
    else if ty = "f64" then .val (.f64 a) st
    else .stuck "cast without a rule"
  | _, _ => .stuck "cast without a rule"

/-! ### 2.6 functions and methods of the libraries -/

/-- `Ok`, `Err`, `Some`; nix `TimeSpec`; `f64::from`; `T::from` between integer types when lossless;
    `Duration::from_secs`; the initial FSM state. `none` = not a library function (look in `fns`). -/
def primCall : String → List Value → St → Option Res
  | "Ok", [v], st => some (.val (.enumv "Ok" [v]) st)
  | "Err", [v], st => some (.val (.enumv "Err" [v]) st)
  | "Some", [v], st => some (.val (.enumv "Some" [v]) st)
  -- nix: `pub const fn new(seconds: time_t, nanoseconds: timespec_tv_nsec_t) -> Self`, no normalisation
  | "TimeSpec::new", [.int _ s, .int _ n], st => some (.val (.timespec ⟨s, n⟩) st)
  -- nix: `impl From<timespec> for TimeSpec` wraps the libc struct as it is
  | "TimeSpec::from", [.ctimespec s n], st => some (.val (.timespec ⟨s, n⟩) st)
  | "TimeSpec::from", [.timespec t], st => some (.val (.timespec t) st)
  -- nix: `TimeValLike::nanoseconds`: floor div/mod and `assert!` on the range of the seconds
  | "TimeSpec::nanoseconds", [.int _ n], st =>
    some (orPanic (TimeSpec.nanoseconds n) fun t => .val (.timespec t) st)
  -- chrony_candm 0.1.1: `impl From<ChronyFloat> for f64`
  | "f64::from", [.chronyFloat w], st => some (.val (.f64 (F64.chronyFloat w)) st)
  -- std: `impl From<u32> for f64` etc. (exact); there is no `From<i64>`/`From<u64>` for f64
  | "f64::from", [.int t a], st =>
    if t = .u8 ∨ t = .u16 ∨ t = .u32 ∨ t = .i8 ∨ t = .i16 ∨ t = .i32
    then some (.val (.f64 (F64.ofInt a)) st) else some (.stuck "f64::from: no such impl")
  -- std: `impl From<u32> for i64` etc.: only the lossless conversions exist
  | "i64::from", [.int t a], st =>
    if t = .u8 ∨ t = .u16 ∨ t = .u32 ∨ t = .i8 ∨ t = .i16 ∨ t = .i32 ∨ t = .i64
    then some (.val (.int .i64 a) st) else some (.stuck "i64::from: no such impl")
  | "u64::from", [.int t a], st =>
    if t = .u8 ∨ t = .u16 ∨ t = .u32 ∨ t = .u64
    then some (.val (.int .u64 a) st) else some (.stuck "u64::from: no such impl")
  -- std: `Duration::from_secs(secs: u64)`; cannot overflow (u64 seconds + u32 nanoseconds)
  | "Duration::from_secs", [.int t s], st =>
    if (t = .u64 ∨ t = .infer) ∧ 0 ≤ s then some (.val (.duration (s * 1000000000)) st)
    else some (.stuck "Duration::from_secs: argument is not a u64")
  -- clock_state_fsm.rs: `ShmClockState<Unknown>::default()`, boxed: the FSM starts in Unknown
  | "Box<ShmClockState>::default", [], st => some (.val (.fsm .unknown) st)
  | _, _, _ => none

/-- methods of library types. `none` = not a library method (look in `fns`). -/
def primMethod (ctx : Ctx) : Value → String → List Value → St → Option Res
  -- nix: `num_nanoseconds() = num_seconds() * 10^9 + nanos_mod_sec()` in i64 (overflow ⇒ panic)
  | .timespec t, "num_nanoseconds", [], st =>
    some (orPanic t.numNanoseconds fun n => .val (.int .i64 n) st)
  | .timespec t, "tv_sec", [], st => some (.val (.int .i64 t.sec) st)
  | .timespec t, "tv_nsec", [], st => some (.val (.int .i64 t.nsec) st)
  -- nix: `impl AsRef<timespec> for TimeSpec`: the wrapped libc struct
  | .timespec t, "as_ref", [], st => some (.val (.ctimespec t.sec t.nsec) st)
  -- std: `i64::abs` panics on MIN when overflow checks are on
  | .int t a, "abs", [], st =>
    if t.signed = true then some (if a = t.lo then .panic else .val (.int t (if a < 0 then -a else a)) st)
    else some (.stuck "abs on an unsigned integer")
  -- std: `checked_*`: `None` iff the exact result is not representable
  | .int t a, "checked_add", [.int t' b], st =>
    some (match IntTy.unify t t' with
      | some .infer | none => .stuck "checked_add: operand types"
      | some u => if u.lo ≤ a + b ∧ a + b ≤ u.hi then .val (.enumv "Some" [.int u (a + b)]) st
                  else .val (.enumv "None" []) st)
  | .int t a, "checked_sub", [.int t' b], st =>
    some (match IntTy.unify t t' with
      | some .infer | none => .stuck "checked_sub: operand types"
      | some u => if u.lo ≤ a - b ∧ a - b ≤ u.hi then .val (.enumv "Some" [.int u (a - b)]) st
                  else .val (.enumv "None" []) st)
  | .int t a, "checked_mul", [.int t' b], st =>
    some (match IntTy.unify t t' with
      | some .infer | none => .stuck "checked_mul: operand types"
      | some u => if u.lo ≤ a * b ∧ a * b ≤ u.hi then .val (.enumv "Some" [.int u (a * b)]) st
                  else .val (.enumv "None" []) st)
  -- std: `f64::ceil` (exact), `f64::abs` (clears the sign)
  | .f64 a, "ceil", [], st => some (.val (.f64 (F64.ceil a)) st)
  | .f64 a, "abs", [], st => some (.val (.f64 (if a < 0 then -a else a)) st)
  -- chrony_candm: `Into<f64> for ChronyFloat` (the only `From<ChronyFloat>` impl there is)
  | .chronyFloat w, "into", [], st => some (.val (.f64 (F64.chronyFloat w)) st)
  -- std: `SystemTime::elapsed() = SystemTime::now().duration_since(*self)`: `Err` iff self is later than now
  | .systime t, "elapsed", [], st =>
    some (if t > ctx.nowNs then .val (.enumv "Err" [.opaque "SystemTimeError"]) st
          else .val (.enumv "Ok" [.duration (ctx.nowNs - t)]) st)
  -- clock_state_fsm.rs: `FSMState::apply_chrony(&self, ChronyClockStatus) -> Box<dyn FSMState>` is the
  -- 3×3 table `fsmStep` (tied to the source by the FSM table theorems), `value()` the current status
  | .fsm s, "apply_chrony", [c], st =>
    some (orStuck "apply_chrony: argument is not a ChronyClockStatus" (chronyOfValue c)
      fun c => .val (.fsm (fsmStep s c)) st)
  | .fsm s, "value", [], st => some (.val (statusValue s) st)
  -- `ShmWrite::write(&mut self, &ClockErrorBound)`: the effect that is logged
  | .writer, "write", [r], st => some (.val .unit { st with log := st.log ++ [r] })
  | _, _, _, _ => none

/-- macros: the `tracing` logging macros have no effect on the values computed here (their arguments
    are only formatted); `panic!` and friends panic; `format!` yields an opaque `String`. -/
def primMacro (name : String) (st : St) : Res :=
  match name with
  | "debug" | "info" | "warn" | "error" | "trace"
  | "tracing::debug" | "tracing::info" | "tracing::warn" | "tracing::error" | "tracing::trace" =>
    .val .unit st
  | "panic" | "unreachable" | "unimplemented" | "todo" => .panic
  | "format" => .val (.opaque "String") st
  | _ => .stuck "macro without a rule"

/-! ## 3. Evaluation -/

/-- drop the variables a block (or a match arm) introduced: back to `n` variables -/
def St.popTo (st : St) (n : Nat) : St := { st with env := st.env.drop (st.env.length - n) }

def Res.popTo (r : Res) (n : Nat) : Res :=
  r.on (fun v st => .val v (st.popTo n)) (fun v st => .ret v (st.popTo n))

def rangeEnd (e : Bool × Lit) : Option Int :=
  match e with
  | (neg, .int v _) => some (if neg then -(v : Int) else v)
  | _ => none

/-- does the (symbolic) value match the pattern, and with which bindings? `none` = no rule.
    The Boolean may be symbolic (`decide (x ≤ 2)`); the bindings are meaningful when it is true. -/
def matchPat : Nat → String → Pat → Value → Option (Bool × List (String × Value))
  | 0, _, _, _ => none
  | _ + 1, _, .wild, _ => some (true, [])
  -- the translator emits `bind` only for identifiers that start with a lower-case letter or `_`
  | _ + 1, _, .bind x, v => some (true, [(x, v)])
  | _ + 1, selfTy, .path segs, v =>
    match v with
    | .enumv p _ => some (decide (p = canon selfTy segs), [])
    | _ => none
  | _ + 1, _, .lit neg l, v =>
    match l, v with
    | .int n _, .int _ a => some (decide (a = if neg then -(n : Int) else n), [])
    | .bool b, .bool c => if neg then none else some (c == b, [])
    | _, _ => none
  | _ + 1, _, .range lo hi incl, v =>
    match v with
    | .int _ a =>
      match lo, hi with
      | some l, some h =>
        match rangeEnd l, rangeEnd h with
        | some l, some h => some (decide (l ≤ a) && (if incl then decide (a ≤ h) else decide (a < h)), [])
        | _, _ => none
      | _, _ => none
    | _ => none
  | n + 1, selfTy, .or alts, v =>
    alts.foldr (fun p acc =>
      match matchPat n selfTy p v, acc with
      | some (b, []), some (c, _) => some (b || c, [])
      | _, _ => none) (some (false, []))
  | n + 1, selfTy, .tuple ps, v =>
    match v with
    | .tuple vs => matchPats n selfTy ps vs
    | _ => none
  | n + 1, selfTy, .tupleStruct segs ps, v =>
    match v with
    | .enumv p args =>
      if p = canon selfTy segs then matchPats n selfTy ps args else some (false, [])
    | _ => none
  | n + 1, selfTy, .ref p, v => matchPat n selfTy p v
  | _ + 1, _, .struct _ _ _, _ => none
  | _ + 1, _, .other _, _ => none
where
  matchPats : Nat → String → List Pat → List Value → Option (Bool × List (String × Value))
    | 0, _, _, _ => none
    | _ + 1, _, [], [] => some (true, [])
    | n + 1, selfTy, p :: ps, v :: vs =>
      match matchPat n selfTy p v, matchPats n selfTy ps vs with
      | some (b, bs), some (c, cs) => some (b && c, cs ++ bs)
      | _, _ => none
    | _ + 1, _, [], _ :: _ => none
    | _ + 1, _, _ :: _, [] => none

/-- a single-segment path may be a local variable -/
def localVar (env : List (String × Value)) : List String → Option Value
  | [] => none
  | [x] => envGet env x
  | _ :: _ :: _ => none

/-- read a place expression (variable or field chain) without evaluating anything else -/
def readPlace : Nat → Expr → St → Option Value
  | 0, _, _ => none
  | _ + 1, .path segs, st => localVar st.env segs
  | n + 1, .field e name, st =>
    match readPlace n e st with
    | some v => fieldOf v name
    | none => none
  | _ + 1, _, _ => none

/-- assignment to a place expression -/
def writePlace : Nat → Expr → Value → St → Option St
  | 0, _, _, _ => none
  | _ + 1, .path segs, w, st =>
    match segs with
    | [x] => (envSet st.env x w).map fun env => { st with env := env }
    | _ => none
  | n + 1, .field e name, w, st =>
    match readPlace n e st with
    | some v =>
      match setField v name w with
      | some v' => writePlace n e v' st
      | none => none
    | none => none
  | _ + 1, _, _, _ => none

/-- candidate keys in `fns` for a call of the path `segs` with arguments `args`:
    `f` ⇒ `<module>::f`;  `T::f` ⇒ `T::f`, then the trait impls `From<A> for T::from` (A the dynamic
    type of the argument) and `Default for T::default`. -/
def callKeys (fr : Frame) (segs : List String) (args : List Value) : List String :=
  match segs with
  | [f] => [fr.module ++ "::" ++ f]
  | _ =>
    let c := canon fr.selfTy segs
    match args with
    | [] => [c, "Default for " ++ c]
    | [a] => [c, "From<" ++ typeName a ++ "> for " ++ c]
    | _ => [c]

def lookupFn (fns : List (String × FnDecl)) : List String → Option FnDecl
  | [] => none
  | k :: ks => match fns.lookup k with
    | some d => some d
    | none => lookupFn fns ks

/-- bind the arguments to the parameter patterns (ascribing the declared types) -/
def bindParams : Nat → String → List (Pat × String) → List Value → Option (List (String × Value))
  | 0, _, _, _ => none
  | _ + 1, _, [], [] => some []
  | n + 1, selfTy, (p, ty) :: ps, v :: vs =>
    match ascribe ty v with
    | none => none
    | some v' =>
      match matchPat n selfTy p v', bindParams n selfTy ps vs with
      | some (_, bs), some rest => some (rest ++ bs)
      | _, _ => none
  | _ + 1, _, [], _ :: _ => none
  | _ + 1, _, _ :: _, [] => none

mutual

/-- expressions -/
def eval : Nat → Ctx → Frame → Expr → St → Res
  | 0, _, _, _, _ => .stuck "out of fuel"
  | n + 1, ctx, fr, e, st =>
    match e with
    | .lit l => orStuck "literal without a rule" (litValue l) fun v => .val v st
    | .path segs =>
      -- a local variable, else a constant of the module, else a primitive path
      match localVar st.env segs with
      | some v => .val v st
      | none =>
        -- `NAME` is the constant `<module>::NAME`; `T::NAME` / `Self::NAME` the associated constant `T::NAME`
        let key := constKey fr.module fr.selfTy segs
        match ctx.consts.lookup key with
        | some init =>
          -- constants are evaluated without access to local variables
          (eval n ctx fr init { st with env := [] }).bind fun v st' =>
            orStuck "constant does not fit its declared type"
              (ascribe ((ctx.constTypes.lookup key).getD "") v) fun v' => .val v' { st' with env := st.env }
        | none =>
          match enumArity ctx.enums fr.selfTy segs with
          | some 0 => .val (.enumv (canon fr.selfTy segs) []) st
          | some _ => .stuck "enum variant with fields used as a value"
          | none => orStuck "path without a rule" (primPath (canon fr.selfTy segs)) fun v => .val v st
    | .field e name =>
      (eval n ctx fr e st).bind fun v st => orStuck "field access without a rule" (fieldOf v name) fun w => .val w st
    | .tupleIdx e i =>
      (eval n ctx fr e st).bind fun v st =>
        match v with
        | .tuple vs => orStuck "tuple index out of range" (listGet vs i) fun w => .val w st
        | _ => .stuck "tuple index on a non-tuple"
    | .call segs args =>
      (evalList n ctx fr args st).bind fun av st =>
        match av with
        | .tuple vs =>
          match primCall (canon fr.selfTy segs) vs st with
          | some r => r
          | none =>
            match enumArity ctx.enums fr.selfTy segs with
            | some k => if k = vs.length then .val (.enumv (canon fr.selfTy segs) vs) st
                        else .stuck "enum constructor: wrong number of arguments"
            | none =>
            orStuck "call of an unknown function" (lookupFn ctx.fns (callKeys fr segs vs)) fun d =>
              (callDecl n ctx d .unit vs st).bind fun rv st =>
                match rv with
                | .tuple [v, _] => .val v st
                | _ => .stuck "internal: callDecl result"
        | _ => .stuck "internal: evalList result"
    | .mcall recv m args =>
      (eval n ctx fr recv st).bind fun rv st =>
        match m, args with
        -- std: `Option::ok_or_else(self, err: F)`: `Some(v)` ↦ `Ok(v)`, `None` ↦ `Err(err())`
        | "ok_or_else", [.closure [] body] =>
          match rv with
          | .enumv "Some" [v] => .val (.enumv "Ok" [v]) st
          | .enumv "None" [] => (eval n ctx fr body st).bind fun e st => .val (.enumv "Err" [e]) st
          | _ => .stuck "ok_or_else on a non-Option"
        | _, _ =>
        (evalList n ctx fr args st).bind fun av st =>
          match av with
          | .tuple vs =>
            match primMethod ctx rv m vs st with
            | some r => r
            | none =>
              orStuck "method call on a value without methods" (userTypeName rv) fun tn =>
                orStuck "call of an unknown method" (lookupFn ctx.fns [tn ++ "::" ++ m]) fun d =>
                  if d.self = .none then .stuck "method call of an associated function" else
                  (callDecl n ctx d rv vs st).bind fun res st =>
                    match res with
                    | .tuple [v, self'] =>
                      if d.self = .refMut then
                        -- the receiver was reborrowed mutably: store the callee's `self` back
                        orStuck "receiver of a &mut self method is not a place" (writePlace n recv self' st)
                          fun st' => .val v st'
                      else .val v st
                    | _ => .stuck "internal: callDecl result"
          | _ => .stuck "internal: evalList result"
    | .unary op e => (eval n ctx fr e st).bind fun v st => unOp op v st
    | .binary .and a b =>
      -- `&&` evaluates its right operand only if the left one is true
      (eval n ctx fr a st).bind fun va st =>
        match va with
        | .bool x => if x = true then
            (eval n ctx fr b st).bind fun vb st =>
              match vb with
              | .bool y => .val (.bool y) st
              | _ => .stuck "&& on a non-bool"
          else .val (.bool false) st
        | _ => .stuck "&& on a non-bool"
    | .binary .or a b =>
      (eval n ctx fr a st).bind fun va st =>
        match va with
        | .bool x => if x = true then .val (.bool true) st else
            (eval n ctx fr b st).bind fun vb st =>
              match vb with
              | .bool y => .val (.bool y) st
              | _ => .stuck "|| on a non-bool"
        | _ => .stuck "|| on a non-bool"
    | .binary op a b =>
      (eval n ctx fr a st).bind fun va st => (eval n ctx fr b st).bind fun vb st => binOp op va vb st
    | .assign lhs rhs =>
      (eval n ctx fr rhs st).bind fun v st =>
        orStuck "assignment to something that is not a place" (writePlace n lhs v st) fun st' => .val .unit st'
    | .assignOp op lhs rhs =>
      -- `a op= b` on primitive types: `a = a op b`, with the overflow check of `op`
      (eval n ctx fr rhs st).bind fun v st =>
        orStuck "compound assignment to something that is not a place" (readPlace n lhs st) fun old =>
          (binOp op old v st).bind fun w st =>
            orStuck "compound assignment to something that is not a place" (writePlace n lhs w st)
              fun st' => .val .unit st'
    | .cast e ty => (eval n ctx fr e st).bind fun v st => castTo ty v st
    | .ifte c thn els =>
      (eval n ctx fr c st).bind fun vc st =>
        match vc with
        | .bool b =>
          if b = true then (evalBlock n ctx fr thn st).popTo st.env.length
          else match els with
            | some e => eval n ctx fr e st
            | none => .val .unit st
        | _ => .stuck "if on a non-bool"
    | .matchE scrut arms => (eval n ctx fr scrut st).bind fun v st => evalArms n ctx fr arms v st
    | .block ss => (evalBlock n ctx fr ss st).popTo st.env.length
    | .ret none => .ret .unit st
    | .ret (some e) => (eval n ctx fr e st).bind fun v st => .ret v st
    | .tuple es => evalList n ctx fr es st
    | .structLit segs fields none =>
      (evalFields n ctx fr fields st).bind fun fv st =>
        match fv with
        | .struct _ fs =>
          let last := if lastSeg segs = "Self" then fr.selfTy else lastSeg segs
          orStuck "struct literal without a rule" (mkStruct ctx.structs (canon fr.selfTy segs) last fs)
            fun v => .val v st
        | _ => .stuck "internal: evalFields result"
    | .structLit _ _ (some _) => .stuck "struct update syntax"
    | .try_ e =>
      -- `e?`: unwrap `Ok`/`Some`, return `Err`/`None` from the function. The error is converted with
      -- `From::from`, which is assumed to be the identity (same error type on both sides).
      (eval n ctx fr e st).bind fun v st =>
        match v with
        | .enumv "Ok" [x] => .val x st
        | .enumv "Err" [x] => .ret (.enumv "Err" [x]) st
        | .enumv "Some" [x] => .val x st
        | .enumv "None" [] => .ret (.enumv "None" []) st
        | _ => .stuck "? on a value that is neither a Result nor an Option"
    | .closure _ _ => .stuck "closure"
    | .macro name _ => primMacro name st
    | .other _ => .stuck "expression without a rule"

/-- a list of expressions, left to right; the values come back as a `tuple` -/
def evalList : Nat → Ctx → Frame → List Expr → St → Res
  | 0, _, _, _, _ => .stuck "out of fuel"
  | _ + 1, _, _, [], st => .val (.tuple []) st
  | n + 1, ctx, fr, e :: es, st =>
    (eval n ctx fr e st).bind fun v st =>
      (evalList n ctx fr es st).bind fun vs st =>
        match vs with
        | .tuple vs => .val (.tuple (v :: vs)) st
        | _ => .stuck "internal: evalList result"

/-- the field initialisers of a struct literal, in the order written; result: an unsorted `struct` -/
def evalFields : Nat → Ctx → Frame → List (String × Expr) → St → Res
  | 0, _, _, _, _ => .stuck "out of fuel"
  | _ + 1, _, _, [], st => .val (.struct "" []) st
  | n + 1, ctx, fr, (k, e) :: es, st =>
    (eval n ctx fr e st).bind fun v st =>
      (evalFields n ctx fr es st).bind fun vs st =>
        match vs with
        | .struct _ fs => .val (.struct "" ((k, v) :: fs)) st
        | _ => .stuck "internal: evalFields result"

/-- statements; the value of a block is its trailing expression (else `()`).  The caller pops the
    variables the block introduced. -/
def evalBlock : Nat → Ctx → Frame → List Stmt → St → Res
  | 0, _, _, _, _ => .stuck "out of fuel"
  | _ + 1, _, _, [], st => .val .unit st
  | n + 1, ctx, fr, s :: rest, st =>
    match s with
    | .expr e semi =>
      match rest with
      -- the trailing expression (without `;`) is the value of the block
      | [] => if semi = true then (eval n ctx fr e st).bind fun _ st => .val .unit st else eval n ctx fr e st
      | r :: rs => (eval n ctx fr e st).bind fun _ st => evalBlock n ctx fr (r :: rs) st
    | .letS pat ty (some init) none =>
      (eval n ctx fr init st).bind fun v st =>
        orStuck "let: value does not fit the declared type" (ascribe (ty.getD "") v) fun v' =>
          -- a plain `let` only accepts irrefutable patterns (compiler-checked): the test is ignored
          orStuck "let: pattern without a rule" (matchPat n fr.selfTy pat v') fun (_, bs) =>
            evalBlock n ctx fr rest { st with env := bs ++ st.env }
    | .letS _ _ none _ => .stuck "let without initialiser"
    | .letS _ _ _ (some _) => .stuck "let-else"
    | .constS name ty init =>
      (eval n ctx fr init { st with env := [] }).bind fun v st' =>
        orStuck "const: value does not fit the declared type" (ascribe ty v) fun v' =>
          evalBlock n ctx fr rest { st' with env := (name, v') :: st.env }
    | .macro name _ => (primMacro name st).bind fun _ st => evalBlock n ctx fr rest st
    | .item _ => .stuck "nested item"

/-- match arms, first match wins -/
def evalArms : Nat → Ctx → Frame → List Arm → Value → St → Res
  | 0, _, _, _, _, _ => .stuck "out of fuel"
  | _ + 1, _, _, [], _, _ => .stuck "no match arm applies"
  | n + 1, ctx, fr, .mk pat guard body :: rest, v, st =>
    orStuck "match: pattern without a rule" (matchPat n fr.selfTy pat v) fun (b, bs) =>
      if b = true then
        match guard with
        | none => (eval n ctx fr body { st with env := bs ++ st.env }).popTo st.env.length
        | some _ => .stuck "match guard"
      else evalArms n ctx fr rest v st

/-- call of a function of `fns`: a fresh environment with `self` and the parameters; the result is
    `tuple [return value, final self]`, in the caller's environment. -/
def callDecl : Nat → Ctx → FnDecl → Value → List Value → St → Res
  | 0, _, _, _, _, _ => .stuck "out of fuel"
  | n + 1, ctx, d, self, args, st =>
    orStuck "call: arguments do not fit the parameters" (bindParams n d.selfTy d.params args) fun bs =>
      let env := if d.self = .none then bs else bs ++ [("self", self)]
      let finish := fun (v : Value) (st' : St) =>
        orStuck "call: result does not fit the declared type" (ascribe d.ret v) fun v' =>
          .val (.tuple [v', (envGet st'.env "self").getD .unit]) { env := st.env, log := st'.log }
      (evalBlock n ctx ⟨d.module, d.selfTy⟩ d.body { env := env, log := st.log }).on finish finish

end

/-! ## 4. Running a function of the table -/

inductive Outcome
  /-- return value, final `self` (`unit` for functions without receiver), effect log -/
  | ok (ret : Value) (self : Value) (log : List Value)
  | panic
  | stuck (msg : String)
deriving Repr, Inhabited

def Res.outcome : Res → Outcome
  | .val (.tuple [v, s]) st => .ok v s st.log
  | .val _ _ => .stuck "internal: callDecl result"
  | .ret _ _ => .stuck "internal: return escaped the function"
  | .panic => .panic
  | .stuck m => .stuck m

/-- fuel that suffices for every function of the translated files (depth, not length) -/
def defaultFuel : Nat := 200

/-- run the function registered under `name` on `self` (use `.unit` without receiver) and `args` -/
def run (ctx : Ctx) (name : String) (self : Value) (args : List Value) : Outcome :=
  match ctx.fns.lookup name with
  | none => .stuck "no such function"
  | some d => (callDecl defaultFuel ctx d self args { env := [], log := [] }).outcome

/-- evaluate one expression of a function of module `module` (impl self type `selfTy`) with the given
    local variables; used where the logic of interest is a sub-expression of a function that the
    interpreter cannot run as a whole (`main`) -/
def evalIn (ctx : Ctx) (module selfTy : String) (e : Expr) (env : List (String × Value)) : Res :=
  eval defaultFuel ctx ⟨module, selfTy⟩ e { env := env, log := [] }

/-- initialiser of the first top-level `let <name> = ..;` of a function body -/
def findLet (name : String) : List Stmt → Option Expr
  | [] => none
  | s :: rest =>
    match s with
    | .letS (.bind x) _ (some e) none => if x = name then some e else findLet name rest
    | _ => findLet name rest

end ClockBound.Rs
