/-
  An interpreter for the Rust fragment of `Ast.lean`, in terms of the primitives of the hand-written
  models (`ClockBound.F64`, `ClockBound.TimeSpec`, `fsmStep`).

  THIS FILE IS PART OF THE TRUSTED BASE of the translation tie: the theorems of
  `ClockBound/Properties/CodeTie*.lean` say "the interpreter, run on the AST that the translator
  regenerated from the Rust source, computes the same function as the hand-written model".  They are
  only as good as the rules below are faithful to Rust.  The rules are kept in one place, part 2
  ("dictionary"), each with the Rust fact it encodes.  Part 3 is the evaluation of control structure.

  Ground rules
  * Values are dynamically typed.  The interpreter NEVER invents a value: a construct or a combination
    of dynamic types without a rule evaluates to `Res.stuck msg`, and `stuck` propagates.
  * `Res.panic` is a Rust panic (arithmetic overflow in a build with overflow checks, an assertion in
    a library function, `panic!`).
  * References are transparent (`&e`, `*e` evaluate like `e`); `&mut e` has no rule, except for the
    implicit reborrow of the receiver of a `&mut self` method, which is written back after the call.
  * Recursion is on a fuel counter (decreasing along the depth of the evaluation, not its length), so
    that every equation of the interpreter unfolds by `simp`/`rfl` on a concrete program.  A loop
    spends ONE unit of fuel per iteration (its condition, its body and the rest of the loop run on the
    remaining fuel), so `k` iterations of a body of depth `d` need fuel `k + d + O(1)`
    (`Proofs/RsLoop.lean`).
  * Effects and inputs: the core has none.  A dictionary (`Ext`, part 2.8) may give rules for calls,
    methods, paths, macros, `*p`, field reads and casts that the built-in dictionary has NO rule for; an
    effectful rule reads the next environment input `inp st.pos`, advances `st.pos` and appends an event
    to `st.log` (`St.input`, `St.emit`).  With `Ext.none` nothing outside parts 2 and 3 has a rule.

  Import-free apart from the model files (core Lean only).
-/
import ClockBound.Rs.Ast
import ClockBound.Model.Daemon

namespace ClockBound.Rs

/-! ## 1. Values, results, state -/

/-- Rust's integer types; `infer` is the type of an unsuffixed integer literal before inference
    (it takes the type of the other operand, of a `let` annotation, or of a parameter). -/
inductive IntTy
  | i8 | i16 | i32 | i64 | i128 | isize | u8 | u16 | u32 | u64 | u128 | usize | infer
deriving Repr, BEq, DecidableEq, Inhabited

inductive Value
  | int (ty : IntTy) (v : Int)
  /-- an `f64` as its exact rational value (see `ClockBound/Model/F64.lean`) -/
  | f64 (v : Rat)
  | bool (b : Bool)
  | unit
  | str (s : String)
  /-- nix 0.26 `sys::time::TimeSpec` -/
  | timespec (t : TimeSpec)
  /-- `libc::timespec { tv_sec, tv_nsec }` -/
  | ctimespec (sec nsec : Int)
  /-- `std::time::Duration`, in nanoseconds (non-negative) -/
  | duration (ns : Int)
  /-- enum variant `Type::Variant` (or the prelude's `Ok`, `Err`, `Some`, `None`) with its payload -/
  | enumv (path : String) (args : List Value)
  | tuple (vs : List Value)
  /-- struct value; fields sorted by name (see `insertField`) -/
  | struct (name : String) (fields : List (String × Value))
  /-- chrony_candm's `ChronyFloat`: the 32-bit wire word -/
  | chronyFloat (w : Nat)
  /-- `Box<dyn FSMState>`: the clock-status FSM of clock_state_fsm.rs, as its current `ClockStatus` -/
  | fsm (s : Status)
  /-- `std::time::SystemTime`, ns since the epoch -/
  | systime (ns : Int)
  /-- the `W: ShmWrite` sink held by `ShmUpdater` -/
  | writer
  /-- a value nothing is known about except where it came from (`format!(..)`) -/
  | opaque (what : String)
  /-- an object of an extension dictionary (`Ext`): an atomic cell handle, a raw pointer to a named
      location, a channel endpoint, an `Instant`, a file ... The core has no rule that produces or
      inspects one; it only moves it around. -/
  | ext (tag : String) (args : List Value)
  /-- array / `Vec` / slice -/
  | list (vs : List Value)
deriving Repr, Inhabited

/-- local variables (innermost first; `self` is the variable `"self"`), the effect log, and the number
    of environment inputs consumed so far -/
structure St where
  env : List (String × Value)
  log : List Value
  pos : Nat := 0
deriving Repr, Inhabited

inductive Res
  /-- normal completion with a value -/
  | val (v : Value) (st : St)
  /-- a `return v` (or a `?` that returns) on its way to the function boundary -/
  | ret (v : Value) (st : St)
  | panic
  | stuck (msg : String)
  /-- a `break` (`break v`; `()` without operand) on its way to the innermost loop -/
  | brk (v : Value) (st : St)
  /-- a `continue` on its way to the innermost loop -/
  | cont (st : St)
deriving Repr, Inhabited

/-- sequencing: continue with `k` after a normal completion, propagate everything else -/
def Res.bind (r : Res) (k : Value → St → Res) : Res :=
  match r with
  | .val v st => k v st
  | .ret v st => .ret v st
  | .panic => .panic
  | .stuck m => .stuck m
  | .brk v st => .brk v st
  | .cont st => .cont st

/-- at a function (or closure) boundary: continue after a normal completion (`kv`) or a `return`
    (`kr`); a `break`/`continue` that arrives here is not inside a loop of this function (does not
    compile): no rule -/
def Res.on (r : Res) (kv kr : Value → St → Res) : Res :=
  match r with
  | .val v st => kv v st
  | .ret v st => kr v st
  | .panic => .panic
  | .stuck m => .stuck m
  | .brk _ _ => .stuck "break outside of a loop"
  | .cont _ => .stuck "continue outside of a loop"

/-- apply `f` to the state a result carries -/
def Res.mapSt (r : Res) (f : St → St) : Res :=
  match r with
  | .val v st => .val v (f st)
  | .ret v st => .ret v (f st)
  | .panic => .panic
  | .stuck m => .stuck m
  | .brk v st => .brk v (f st)
  | .cont st => .cont (f st)

/-- what a loop does with the result of one run of its body: a normal completion or a `continue` goes
    on with the next iteration (`next`), a `break v` ends the loop with value `v`, everything else
    (`return`, panic, stuck) propagates -/
def Res.loopNext (r : Res) (next : St → Res) : Res :=
  match r with
  | .val _ st => next st
  | .cont st => next st
  | .brk v st => .val v st
  | .ret v st => .ret v st
  | .panic => .panic
  | .stuck m => .stuck m

/-- the first of two rules that applies -/
def firstRule (a : Option Res) (b : Res) : Res :=
  match a with
  | some r => r
  | none => b

/-- `none` ⇒ panic -/
def orPanic {α : Type} (o : Option α) (k : α → Res) : Res :=
  match o with
  | none => .panic
  | some a => k a

/-- `none` ⇒ stuck -/
def orStuck {α : Type} (msg : String) (o : Option α) (k : α → Res) : Res :=
  match o with
  | none => .stuck msg
  | some a => k a

/-- what a rule of an extension dictionary may read of the context -/
structure Inputs where
  /-- the i-th value the environment returns (an atomic load's result, a clock reading, a reply from
      a channel or a socket ...) -/
  inp : Nat → Value
  /-- CLOCK_REALTIME at the call of `SystemTime::elapsed`, ns since the epoch -/
  nowNs : Int
  /-- `size_of::<T>()` of the `#[repr(C)]` structs, supplied by the statement -/
  sizes : List (String × Nat)

/-- consume the next environment input: the value, and the state with `pos` advanced and the event
    `ev value` appended to the log.  THE way an effectful dictionary rule reads an input. -/
def St.input (w : Inputs) (st : St) (ev : Value → Value) : Value × St :=
  (w.inp st.pos, { st with pos := st.pos + 1, log := st.log ++ [ev (w.inp st.pos)] })

/-- append an event to the log (an effect that returns nothing the program can observe) -/
def St.emit (st : St) (e : Value) : St := { st with log := st.log ++ [e] }

/-- An extension dictionary: rules for what the built-in dictionary (part 2) has no rule for.  Each hook
    is consulted only AFTER the built-in rules (and the generated tables) found nothing, so a dictionary
    cannot change the meaning of anything that has a meaning without it; `none` = no rule (stuck).
    The two exceptions, both `none` in `Ext.none`, refine a built-in ASSUMPTION rather than a rule:
    `litFallback` and `errFrom`. -/
structure Ext where
  /-- call of a path that is neither a library function of part 2.6, nor an enum constructor, nor in
      `fns`; the name is `canon` of the path (its last two segments) -/
  call : Inputs → String → List Value → St → Option Res
  /-- method call on a value for which part 2.6 has no rule and `fns` no method -/
  method : Inputs → Value → String → List Value → St → Option Res
  /-- a path that is not a local variable, a constant, a field-less enum variant or a path of part 2.3 -/
  path : String → Option Value
  /-- a macro part 2.7 has no rule for; the arguments are evaluated when the token text parsed as
      expressions (`Expr.macroArgs`), else the list is empty -/
  macroCall : Inputs → String → List Value → St → Option Res
  /-- `*p` on a `Value.ext` (on every other value `*` is transparent) -/
  deref : Inputs → Value → St → Option Res
  /-- field read on a value part 2.4 has no field rule for -/
  fieldOf : Value → String → Option Value
  /-- `v as ty` where part 2.5 has no rule -/
  cast : Inputs → String → Value → St → Option Res
  /-- Rust types an integer variable that is constrained by nothing but unsuffixed literals as `i32`.
      The interpreter cannot see whether that is the case; with `some t` an operator applied to two
      integers of unknown type is computed at type `t` (the dictionary asserts that, in the functions it is
      used for, such operands are statically unconstrained), with `none` it is stuck. -/
  litFallback : Option IntTy
  /-- `e?` on `Err(x)` returns `Err(From::from(x))`.  The built-in assumption is that this `from` is the
      identity (same error type).  `errFrom ret x` (with `ret` the declared return type of the enclosing
      function) may give the converted error instead; `none` = identity. -/
  errFrom : String → Value → Option Value
  -- [threads] begin: added hook (has a default, so `Ext.none` and every `{ Ext.none with .. }` are unchanged)
  /-- `&mut e` where `e` evaluates to a `Value.ext`.  The core has no rule for a mutable borrow (a
      transparent reference would lose the callee's assignments through it).  A dictionary whose objects
      are HANDLES to external things (a channel web, a file: their state is not in the value, every
      operation on them is an event) may say that the borrow of a handle is the handle. `none` = stuck. -/
  refMut : Inputs → Value → St → Option Res := fun _ _ _ => Option.none
  -- [threads] end
  -- [shm] begin: added hook (has a default, so `Ext.none` and every `{ Ext.none with .. }` are unchanged)
  /-- `let x: *const T = v;` / `let x: *mut T = v;` where `v` is an object of the dictionary: the declared POINTEE
      type is static information the dynamically typed interpreter does not have; a dictionary whose raw
      pointers need it (pointer arithmetic `p.add(1)` counts in elements of `T`) may return the pointer
      retyped.  Consulted only when an object of a dictionary (or a field-less `enumv`) is bound by a `let` WITH a
      declared type; `none` = the value unchanged. -/
  letPtr : String → Value → Option Value := fun _ _ => Option.none
  -- [shm] end

/-- the empty dictionary -/
def Ext.none : Ext where
  call := fun _ _ _ _ => Option.none
  method := fun _ _ _ _ _ => Option.none
  path := fun _ => Option.none
  macroCall := fun _ _ _ _ => Option.none
  deref := fun _ _ _ => Option.none
  fieldOf := fun _ _ => Option.none
  cast := fun _ _ _ _ => Option.none
  litFallback := Option.none
  errFrom := fun _ _ => Option.none

/-- what is fixed during a run: the generated tables, the environment inputs, the extension dictionary -/
structure Ctx where
  fns : List (String × FnDecl)
  consts : List (String × Expr)
  constTypes : List (String × String)
  /-- struct name ↦ declared fields (name, type) -/
  structs : List (String × List (String × String))
  /-- enum name ↦ variants (name, number of fields) -/
  enums : List (String × List (String × Nat))
  /-- CLOCK_REALTIME at the call of `SystemTime::elapsed`, ns since the epoch -/
  nowNs : Int
  /-- field-less enum ↦ discriminants -/
  enumDiscr : List (String × List (String × Int)) := []
  /-- type name ↦ `size_of::<T>()` (supplied by the statement; nothing is built in) -/
  sizes : List (String × Nat) := []
  /-- the i-th environment input -/
  inp : Nat → Value := fun _ => .unit
  ext : Ext := Ext.none

def Ctx.inputs (ctx : Ctx) : Inputs := ⟨ctx.inp, ctx.nowNs, ctx.sizes⟩

/-- per function: file stem (for free functions and constants), `Self`, declared return type -/
structure Frame where
  module : String
  selfTy : String
  ret : String := ""

/-! ## 2. Dictionary of primitives -/

/-! ### 2.1 integer types -/

def IntTy.ofName : String → Option IntTy
  | "i8" => some .i8 | "i16" => some .i16 | "i32" => some .i32 | "i64" => some .i64
  | "i128" => some .i128 | "isize" => some .isize
  | "u8" => some .u8 | "u16" => some .u16 | "u32" => some .u32 | "u64" => some .u64
  | "u128" => some .u128 | "usize" => some .usize
  | _ => none

def IntTy.name : IntTy → String
  | .i8 => "i8" | .i16 => "i16" | .i32 => "i32" | .i64 => "i64" | .i128 => "i128" | .isize => "isize"
  | .u8 => "u8" | .u16 => "u16" | .u32 => "u32" | .u64 => "u64" | .u128 => "u128" | .usize => "usize"
  | .infer => "{integer}"

/-- smallest value (64-bit target: `isize`/`usize` are 64 bits wide). `infer` has no range: the
    rules below never range-check at `infer`, they get stuck instead. -/
def IntTy.lo : IntTy → Int
  | .i8 => -128 | .i16 => -32768 | .i32 => -2147483648 | .i64 => -9223372036854775808
  | .i128 => -170141183460469231731687303715884105728 | .isize => -9223372036854775808
  | _ => 0

def IntTy.hi : IntTy → Int
  | .i8 => 127 | .i16 => 32767 | .i32 => 2147483647 | .i64 => 9223372036854775807
  | .i128 => 170141183460469231731687303715884105727 | .isize => 9223372036854775807
  | .u8 => 255 | .u16 => 65535 | .u32 => 4294967295 | .u64 => 18446744073709551615
  | .u128 => 340282366920938463463374607431768211455 | .usize => 18446744073709551615
  | .infer => 0

def IntTy.signed : IntTy → Bool
  | .i8 | .i16 | .i32 | .i64 | .i128 | .isize => true
  | _ => false

/-- number of values of the type (2^bits) -/
def IntTy.card (t : IntTy) : Int := t.hi - t.lo + 1

/-- width in bits (64-bit target) -/
def IntTy.bits : IntTy → Nat
  | .i8 | .u8 => 8 | .i16 | .u16 => 16 | .i32 | .u32 => 32 | .i64 | .u64 | .isize | .usize => 64
  | .i128 | .u128 => 128
  | .infer => 0

/-- the unsigned type of the same width (`abs_diff` returns it) -/
def IntTy.toUnsigned : IntTy → IntTy
  | .i8 => .u8 | .i16 => .u16 | .i32 => .u32 | .i64 => .u64 | .i128 => .u128 | .isize => .usize
  | t => t

/-- Both operands of a binary integer operator have the same type; an unsuffixed literal takes the
    type of the other operand. Two different concrete types do not type-check in Rust: no rule. -/
def IntTy.unify : IntTy → IntTy → Option IntTy
  | .infer, t => some t
  | t, .infer => some t
  | a, b => if a = b then some a else none

/-- Rust, overflow checks on (dev profile; the harness enables them too): the result of `+ - *`,
    unary `-` and `+=` must be representable in the operand type, otherwise the thread panics
    ("attempt to add with overflow"). At `infer` the type is unknown: stuck. -/
def chkInt (t : IntTy) (v : Int) (st : St) : Res :=
  if t = .infer then .stuck "arithmetic on integer literals of unknown type"
  else if t.lo ≤ v ∧ v ≤ t.hi then .val (.int t v) st else .panic

/-- `x as T` between integer types: two's-complement wrap-around to the target width. -/
def wrapInt (t : IntTy) (v : Int) : Int := (v - t.lo) % t.card + t.lo

/-- `saturating_*`: clamp to the range of the type -/
def clampInt (t : IntTy) (v : Int) : Int := if v < t.lo then t.lo else if v > t.hi then t.hi else v

/-- the bit pattern of `a` at type `t`, as a natural number below 2^bits (two's complement) -/
def bitsOf (t : IntTy) (a : Int) : Nat := if t.signed = true then (a % t.card).toNat else a.toNat

/-- `& | ^` on integers: bitwise on the two's-complement patterns.  For an unsigned type this is the
    operation on the values themselves. -/
def bitInt (f : Nat → Nat → Nat) (t : IntTy) (a b : Int) : Int :=
  if t.signed = true then wrapInt t (f (bitsOf t a) (bitsOf t b)) else ((f a.toNat b.toNat : Nat) : Int)

/-! ### 2.2 literals -/

/-- A decimal float literal denotes the nearest `f64` (ties to even) of its exact decimal value. -/
def f64OfDecimal (mant : Nat) (exp : Int) : Rat :=
  F64.rne53 (if exp ≥ 0 then ((mant * 10 ^ exp.toNat : Nat) : Rat)
             else (mant : Rat) / ((10 ^ (-exp).toNat : Nat) : Rat))

def litValue : Lit → Option Value
  | .int v "" => some (.int .infer v)
  | .int v sfx => (IntTy.ofName sfx).map fun t => .int t v
  | .float m e "" => some (.f64 (f64OfDecimal m e))
  | .float m e "f64" => some (.f64 (f64OfDecimal m e))
  | .float _ _ _ => none                                   -- f32: not modelled
  | .bool b => some (.bool b)
  | .str s => some (.str s)
  | .other _ => none

/-! ### 2.3 names -/

/-- Canonical name of a path: its last two segments, `Self` replaced by the impl's self type.
    (`crate::ChronyClockStatus::Unknown`, `ChronyClockStatus::Unknown` and, inside the impl,
    `Self::Unknown` are the same item.) -/
def canon (selfTy : String) : List String → String
  | [] => ""
  | [a] => a
  | [a, b] => (if a = "Self" then selfTy else a) ++ "::" ++ b
  | _ :: b :: c :: rest => canon selfTy (b :: c :: rest)

def lastSeg : List String → String
  | [] => ""
  | [a] => a
  | _ :: b :: rest => lastSeg (b :: rest)

/-- the last two segments of a path (`Self` resolved), if it has at least two -/
def lastTwo (selfTy : String) : List String → Option (String × String)
  | [] => none
  | [_] => none
  | [a, b] => some (if a = "Self" then selfTy else a, b)
  | _ :: b :: c :: rest => lastTwo selfTy (b :: c :: rest)

/-- key of a constant in `consts`: `NAME` ↦ `<module>::NAME`, `T::NAME` ↦ `T::NAME` -/
def constKey (module selfTy : String) : List String → String
  | [] => ""
  | [x] => module ++ "::" ++ x
  | a :: b :: rest => canon selfTy (a :: b :: rest)

def statusName : Status → String
  | .unknown => "ClockStatus::Unknown"
  | .synchronized => "ClockStatus::Synchronized"
  | .freeRunning => "ClockStatus::FreeRunning"

def chronyName : ChronyStatus → String
  | .unknown => "ChronyClockStatus::Unknown"
  | .synchronized => "ChronyClockStatus::Synchronized"
  | .freeRunning => "ChronyClockStatus::FreeRunning"

/-- clock-bound-shm `ClockStatus` as a value -/
def statusValue (s : Status) : Value := .enumv (statusName s) []

/-- clock-bound-d `ChronyClockStatus` as a value -/
def chronyValue (c : ChronyStatus) : Value := .enumv (chronyName c) []

def chronyOfValue : Value → Option ChronyStatus
  | .enumv "ChronyClockStatus::Unknown" [] => some .unknown
  | .enumv "ChronyClockStatus::Synchronized" [] => some .synchronized
  | .enumv "ChronyClockStatus::FreeRunning" [] => some .freeRunning
  | _ => none

/-- Paths that are values by themselves, apart from local variables, constants of the translated files
    and field-less variants of the enums declared in the translated files (those are looked up in the
    generated tables): the prelude's `None` and the MIN/MAX constants of the integer types. -/
def primPath : String → Option Value
  | "None" => some (.enumv "None" [])
  | "i64::MAX" => some (.int .i64 IntTy.i64.hi) | "i64::MIN" => some (.int .i64 IntTy.i64.lo)
  | "u64::MAX" => some (.int .u64 IntTy.u64.hi) | "u64::MIN" => some (.int .u64 0)
  | "u32::MAX" => some (.int .u32 IntTy.u32.hi) | "u32::MIN" => some (.int .u32 0)
  | "i32::MAX" => some (.int .i32 IntTy.i32.hi) | "i32::MIN" => some (.int .i32 IntTy.i32.lo)
  | "u16::MAX" => some (.int .u16 IntTy.u16.hi) | "u16::MIN" => some (.int .u16 0)
  | "u8::MAX" => some (.int .u8 IntTy.u8.hi) | "u8::MIN" => some (.int .u8 0)
  | "usize::MAX" => some (.int .usize IntTy.usize.hi) | "usize::MIN" => some (.int .usize 0)
  | "i16::MAX" => some (.int .i16 IntTy.i16.hi) | "i16::MIN" => some (.int .i16 IntTy.i16.lo)
  | "i8::MAX" => some (.int .i8 IntTy.i8.hi) | "i8::MIN" => some (.int .i8 IntTy.i8.lo)
  | _ => none

/-- `T::V` is a value (resp. a constructor taking `k` arguments) iff the translated files declare an
    enum `T` with a variant `V` without fields (resp. with `k` fields). -/
def enumArity (enums : List (String × List (String × Nat))) (selfTy : String) (segs : List String) : Option Nat :=
  match lastTwo selfTy segs with
  | none => none
  | some (t, v) =>
    match enums.lookup t with
    | none => none
    | some vs => vs.lookup v

/-- the enum of the generated tables that a variant path `T::V` belongs to -/
def enumOfVariant (enums : List (String × List (String × Nat))) (p : String) : Option String :=
  match enums with
  | [] => none
  | (t, vs) :: rest =>
    match vs.any (fun v => t ++ "::" ++ v.1 == p) with
    | true => some t
    | false => enumOfVariant rest p

/-- discriminant of a variant `T::V` of a field-less enum (table `enumDiscr`) -/
def discrOf (tbl : List (String × List (String × Int))) (p : String) : Option Int :=
  match tbl with
  | [] => none
  | (t, vs) :: rest =>
    match vs.find? (fun v => t ++ "::" ++ v.1 == p) with
    | some v => some v.2
    | none => discrOf rest p

/-- `size_of::<T>()`: the last path segment is `size_of<T>` (the translator drops the turbofish `::`);
    the size comes from the table supplied by the statement -/
def sizeOf (sizes : List (String × Nat)) (seg : String) : Option Nat :=
  match sizes with
  | [] => none
  | (t, n) :: rest =>
    match "size_of<" ++ t ++ ">" == seg with
    | true => some n
    | false => sizeOf rest seg

/-- name under which the methods of a user-defined type are registered in `fns`: the two enums below
    (a fast path), see `methodDecl` for the general case -/
def userTypeName : Value → Option String
  | .struct n _ => some n
  | .enumv "ClockStatus::Unknown" _ | .enumv "ClockStatus::Synchronized" _
  | .enumv "ClockStatus::FreeRunning" _ => some "ClockStatus"
  | .enumv "ChronyClockStatus::Unknown" _ | .enumv "ChronyClockStatus::Synchronized" _
  | .enumv "ChronyClockStatus::FreeRunning" _ => some "ChronyClockStatus"
  | _ => none

/-- dynamic type name of a value, as Rust would write the type (used to pick `From<T> for U`) -/
def typeName : Value → String
  | .int t _ => t.name
  | .f64 _ => "f64"
  | .bool _ => "bool"
  | .unit => "()"
  | .str _ => "&str"
  | .timespec _ => "TimeSpec"
  | .ctimespec _ _ => "libc::timespec"
  | .duration _ => "Duration"
  | .enumv p args => (userTypeName (.enumv p args)).getD p
  | .tuple _ => "(..)"
  | .struct n _ => n
  | .chronyFloat _ => "ChronyFloat"
  | .fsm _ => "Box<dyn FSMState>"
  | .systime _ => "SystemTime"
  | .writer => "W"
  | .opaque w => w
  | .ext tag _ => tag
  | .list _ => "[..]"

/-! ### 2.4 environments, struct fields -/

def envGet : List (String × Value) → String → Option Value
  | [], _ => none
  | (k, v) :: rest, x => if k = x then some v else envGet rest x

/-- assignment to an existing variable: the innermost one of that name -/
def envSet : List (String × Value) → String → Value → Option (List (String × Value))
  | [], _, _ => none
  | (k, v) :: rest, x, w =>
    if k = x then some ((k, w) :: rest)
    else match envSet rest x w with
      | none => none
      | some rest' => some ((k, v) :: rest')

/-- struct values keep their fields sorted by name, so that the order in which a struct literal
    lists its fields does not matter -/
def insertField (k : String) (v : Value) : List (String × Value) → List (String × Value)
  | [] => [(k, v)]
  | (k', v') :: rest => if k < k' then (k, v) :: (k', v') :: rest
                        else if k = k' then (k, v) :: rest
                        else (k', v') :: insertField k v rest

def sortFields : List (String × Value) → List (String × Value)
  | [] => []
  | (k, v) :: rest => insertField k v (sortFields rest)

/-- A value flowing into a position with a declared type (`let x: T`, a parameter, a struct field, a
    constant, the return type): an integer literal of unknown type takes the declared integer type (a
    literal out of range does not compile: no rule). Declared types never change any other value. A
    declared type that is not the name of an integer type (an alias such as `libc::time_t`) leaves
    the literal untyped. -/
def ascribe (ty : String) : Value → Option Value
  | .int .infer a =>
    match IntTy.ofName ty with
    | some t => if t.lo ≤ a ∧ a ≤ t.hi then some (.int t a) else none
    | none => some (.int .infer a)
  | v => some v

def ascribeFields (decl : List (String × String)) : List (String × Value) → Option (List (String × Value))
  | [] => some []
  | (k, v) :: rest =>
    match decl.lookup k with
    | none => none                     -- no such field: does not compile
    | some ty =>
      match ascribe ty v, ascribeFields decl rest with
      | some v', some rest' => some ((k, v') :: rest')
      | _, _ => none

/-- `libc::timespec { tv_sec, tv_nsec }` is the value `ctimespec` (both fields are i64 on 64-bit
    Linux). Every other struct literal is a struct value named by the last path segment; if the
    translated files declare that struct, the fields take their declared types. -/
def mkStruct (structs : List (String × List (String × String))) (canonName last : String)
    (fields : List (String × Value)) : Option Value :=
  if canonName = "libc::timespec" ∨ canonName = "timespec" then
    match sortFields fields with
    | [("tv_nsec", .int _ n), ("tv_sec", .int _ s)] => some (.ctimespec s n)
    | _ => none
  else
    match structs.lookup last with
    | some decl => (ascribeFields decl fields).map fun fs => .struct last (sortFields fs)
    | none => some (.struct last (sortFields fields))

/-- field read `v.name` (through references) -/
def fieldOf : Value → String → Option Value
  | .struct _ fs, n => envGet fs n
  | .ctimespec s _, "tv_sec" => some (.int .i64 s)      -- libc (64-bit Linux): time_t = c_long = i64
  | .ctimespec _ n, "tv_nsec" => some (.int .i64 n)
  | _, _ => none

/-- field write -/
def setField : Value → String → Value → Option Value
  | .struct n fs, f, w => (envSet fs f w).map (.struct n)
  | .ctimespec _ n, "tv_sec", .int _ s => some (.ctimespec s n)
  | .ctimespec s _, "tv_nsec", .int _ n => some (.ctimespec s n)
  | _, _, _ => none

-- [shm] begin: fields of a tuple struct
/-- the name under which the `i`-th field of a tuple struct `struct S(A, B)` is kept (`s.0`, `s.1`; the translator
    lists them as `0`, `1`, … in the `structs` table) -/
def tupleFieldName : Nat → String
  | 0 => "0" | 1 => "1" | 2 => "2" | 3 => "3"
  | n => toString n
-- [shm] end

def listGet : List Value → Nat → Option Value
  | [], _ => none
  | v :: _, 0 => some v
  | _ :: rest, n + 1 => listGet rest n

def listSet : List Value → Nat → Value → Option (List Value)
  | [], _, _ => none
  | _ :: rest, 0, w => some (w :: rest)
  | v :: rest, n + 1, w => (listSet rest n w).map (v :: ·)

/-- struct update syntax `S { f: v, ..base }`: the fields of `base`, the listed ones replaced -/
def updateFields (base : List (String × Value)) : List (String × Value) → List (String × Value)
  | [] => base
  | (k, v) :: rest => updateFields (insertField k v base) rest

/-- an assignment `place = v` where `v` is an integer literal of unknown type and the place holds an
    integer of a known type: the literal takes that type (it is the variable's type; a literal out of
    range does not compile: no rule) -/
def adoptTy (old : Option Value) (v : Value) : Option Value :=
  match old, v with
  | some (.int t _), .int .infer a =>
    if t = .infer then some v else if t.lo ≤ a ∧ a ≤ t.hi then some (.int t a) else none
  | _, _ => some v

/-- the integers `lo, lo+1, ..` below `hi` (resp. up to `hi`) at type `t`: what `for x in lo..hi` iterates over -/
def intRange (t : IntTy) (lo hi : Int) : List Value :=
  (List.range (hi - lo).toNat).map fun (k : Nat) => .int t (lo + (k : Int))

/-- the items a `for` loop visits: the elements of an array / `Vec` / slice, or the integers of a range
    (`lo..hi` is `Range { start, end }`, `lo..=hi` is `RangeInclusive`, as in std) -/
def iterItems : Value → Option (List Value)
  | .list vs => some vs
  | .struct "Range" [("end", .int t2 hi), ("start", .int t1 lo)] =>
    (IntTy.unify t1 t2).map fun t => intRange t lo hi
  | .struct "RangeInclusive" [("end", .int t2 hi), ("start", .int t1 lo)] =>
    (IntTy.unify t1 t2).map fun t => intRange t lo (hi + 1)
  | _ => none

/-! ### 2.5 operators -/

def boolRes (p : Prop) [Decidable p] (st : St) : Res := .val (.bool (decide p)) st

/-- integer operators at a concrete (unified) type -/
def intBin (op : BinOp) (t : IntTy) (a b : Int) (st : St) : Res :=
  match op with
  | .add => chkInt t (a + b) st
  | .sub => chkInt t (a - b) st
  | .mul => chkInt t (a * b) st
  -- `/` and `%` truncate toward zero; a zero divisor panics, and so does MIN / -1 (overflow)
  | .div => if t = .infer then .stuck "arithmetic on integer literals of unknown type"
            else if b = 0 then .panic
            else if t.signed = true ∧ a = t.lo ∧ b = -1 then .panic
            else .val (.int t (Int.tdiv a b)) st
  | .rem => if t = .infer then .stuck "arithmetic on integer literals of unknown type"
            else if b = 0 then .panic
            else if t.signed = true ∧ a = t.lo ∧ b = -1 then .panic
            else .val (.int t (Int.tmod a b)) st
  | .eq => boolRes (a = b) st
  | .ne => boolRes (a ≠ b) st
  | .lt => boolRes (a < b) st
  | .le => boolRes (a ≤ b) st
  | .gt => boolRes (a > b) st
  | .ge => boolRes (a ≥ b) st
  -- `& | ^`: bitwise on the two's-complement patterns; they cannot overflow
  | .bitAnd => if t = .infer then .stuck "arithmetic on integer literals of unknown type"
               else .val (.int t (bitInt Nat.land t a b)) st
  | .bitOr => if t = .infer then .stuck "arithmetic on integer literals of unknown type"
              else .val (.int t (bitInt Nat.lor t a b)) st
  | .bitXor => if t = .infer then .stuck "arithmetic on integer literals of unknown type"
               else .val (.int t (bitInt Nat.xor t a b)) st
  | _ => .stuck "integer operator without a rule"

/-- `a << b`, `a >> b`: the operand types need not agree; the result has the type of `a`.  With overflow
    checks a shift amount that is negative or ≥ the bit width panics ("attempt to shift left with
    overflow"); bits shifted out are lost (no panic); `>>` is arithmetic on signed types. -/
def shiftInt (left : Bool) (t : IntTy) (a b : Int) (st : St) : Res :=
  if t = .infer then .stuck "arithmetic on integer literals of unknown type"
  else if b < 0 ∨ b ≥ t.bits then .panic
  else if left then .val (.int t (wrapInt t (a * 2 ^ b.toNat))) st
  else .val (.int t (a / 2 ^ b.toNat)) st

/-- `f64` operators: IEEE-754 binary64, round to nearest even (`ClockBound.F64`). Infinities and NaN
    are not modelled: a zero divisor has no rule. -/
def f64Bin (op : BinOp) (a b : Rat) (st : St) : Res :=
  match op with
  | .add => .val (.f64 (F64.add a b)) st
  | .sub => .val (.f64 (F64.add a (-b))) st       -- a - b = a + (-b), negation is exact
  | .mul => .val (.f64 (F64.mul a b)) st
  | .div => if b = 0 then .stuck "f64 division by zero (inf/NaN are not modelled)"
            else .val (.f64 (F64.div a b)) st
  | .eq => boolRes (a = b) st
  | .ne => boolRes (a ≠ b) st
  | .lt => boolRes (a < b) st
  | .le => boolRes (a ≤ b) st
  | .gt => boolRes (a > b) st
  | .ge => boolRes (a ≥ b) st
  | _ => .stuck "f64 operator without a rule"

/-- nix 0.26 `TimeSpec`: `Add`/`Sub` go through `num_nanoseconds()` and `TimeSpec::nanoseconds`
    (i64 arithmetic, a range assertion): `none` of the model = panic. `Ord` is lexicographic on
    (tv_sec, tv_nsec); `PartialEq` is field-wise. -/
def timespecBin (op : BinOp) (a b : TimeSpec) (st : St) : Res :=
  match op with
  | .add => orPanic (a.add b) fun t => .val (.timespec t) st
  | .sub => orPanic (a.sub b) fun t => .val (.timespec t) st
  | .lt => .val (.bool (a.lt b)) st
  | .le => .val (.bool (a.le b)) st
  | .gt => .val (.bool (b.lt a)) st
  | .ge => .val (.bool (b.le a)) st
  | .eq => boolRes (a = b) st
  | .ne => boolRes (a ≠ b) st
  | _ => .stuck "TimeSpec operator without a rule"

/-- `std::time::Duration`: comparisons only (total order on the length) -/
def durationBin (op : BinOp) (a b : Int) (st : St) : Res :=
  match op with
  | .eq => boolRes (a = b) st
  | .ne => boolRes (a ≠ b) st
  | .lt => boolRes (a < b) st
  | .le => boolRes (a ≤ b) st
  | .gt => boolRes (a > b) st
  | .ge => boolRes (a ≥ b) st
  | _ => .stuck "Duration operator without a rule"

-- [shm] begin: `==` / `!=` on arrays of integers
/-- std: `impl PartialEq<[U; N]> for [T; N]` — arrays are equal iff they are element-wise equal.  Only for
    arrays of integers (an unsuffixed literal takes the type of the element it is compared with; two
    different integer types, or different lengths, do not type-check: no rule). -/
def intListEq : List Value → List Value → Option Bool
  | [], [] => some true
  | .int t a :: as, .int t' b :: bs =>
    match IntTy.unify t t', intListEq as bs with
    | some _, some r => some (decide (a = b) && r)
    | _, _ => none
  | _, _ => none
-- [shm] end

/-- strict binary operators (`&&` and `||` are lazy and handled by `eval`) -/
def binOp (op : BinOp) : Value → Value → St → Res
  | .int t1 a, .int t2 b, st =>
    match op with
    | .shl => shiftInt true t1 a b st
    | .shr => shiftInt false t1 a b st
    | _ =>
    match IntTy.unify t1 t2 with
    | some t => intBin op t a b st
    | none => .stuck "integer operands of different types"
  | .f64 a, .f64 b, st => f64Bin op a b st
  | .timespec a, .timespec b, st => timespecBin op a b st
  | .duration a, .duration b, st => durationBin op a b st
  | .bool a, .bool b, st =>
    match op with
    | .eq => .val (.bool (a == b)) st
    | .ne => .val (.bool (a != b)) st
    -- `& | ^` on `bool` (strict)
    | .bitAnd => .val (.bool (a && b)) st
    | .bitOr => .val (.bool (a || b)) st
    | .bitXor => .val (.bool (a != b)) st
    | _ => .stuck "bool operator without a rule"
  -- `#[derive(PartialEq)]` on a field-less enum compares the variants
  | .enumv p [], .enumv q [], st =>
    match op with
    | .eq => boolRes (p = q) st
    | .ne => boolRes (p ≠ q) st
    | _ => .stuck "enum operator without a rule"
  -- [shm] begin: `[T; N] == [T; N]`, `!=` (arrays of integers, see `intListEq`)
  | .list as, .list bs, st =>
    match op, intListEq as bs with
    | .eq, some r => .val (.bool r) st
    | .ne, some r => .val (.bool (!r)) st
    | _, _ => .stuck "array operator without a rule"
  -- [shm] end
  | _, _, _ => .stuck "binary operator: no rule for these operand types"

/-- see `Ext.litFallback`: two integer operands of unknown type take the fallback type, if there is one -/
def litFallback (fb : Option IntTy) (a b : Value) : Value × Value :=
  match fb, a, b with
  | some t, .int .infer x, .int .infer y => (.int t x, .int t y)
  | _, _, _ => (a, b)

def unOp : UnOp → Value → St → Res
  | .ref, v, st => .val v st                       -- shared references are transparent
  -- `*p` on an object of an extension dictionary is the dictionary's business (`eval` asks it first)
  | .deref, .ext _ _, _ => .stuck "deref of an extension object without a rule"
  | .deref, v, st => .val v st
  | .refMut, _, _ => .stuck "&mut borrow"
  -- `-x`: checked like `0 - x` (i64::MIN panics); on an untyped literal it is the negative literal
  | .neg, .int t a, st =>
    if t = .infer then .val (.int .infer (-a)) st
    else if t.signed = true then chkInt t (-a) st else .stuck "negation of an unsigned integer"
  | .neg, .f64 a, st => .val (.f64 (-a)) st
  | .not, .bool b, st => .val (.bool (!b)) st
  -- `!x` on an integer flips every bit: `MAX - x` (unsigned), `-x - 1` (signed)
  | .not, .int t a, st =>
    if t = .infer then .stuck "arithmetic on integer literals of unknown type" else .val (.int t (t.hi + t.lo - a)) st
  | _, _, _ => .stuck "unary operator: no rule for this operand type"

/-- `e as T`; `none` = no built-in rule (the extension dictionary is asked) -/
def primCast (discr : List (String × List (String × Int))) (ty : String) : Value → St → Option Res
  | .int _ a, st =>
    match IntTy.ofName ty with
    -- integer → integer: wrap to the target width
    | some t => some (.val (.int t (wrapInt t a)) st)
    -- integer → f64: nearest double (`F64.ofInt`); exact for u32 and narrower
    | none => if ty = "f64" then some (.val (.f64 (F64.ofInt a)) st) else none
  -- f64 → i64 / u64: truncate toward zero, saturate at the bounds (Rust ≥ 1.45)
  | .f64 a, st =>
    if ty = "i64" then some (.val (.int .i64 (F64.castI64 a)) st)
    else if ty = "u64" then some (.val (.int .u64 (F64.castU64 a)) st)
    else if ty = "f64" then some (.val (.f64 a) st)
    else none
  -- `bool as <int>`: 0 / 1
  | .bool b, st => (IntTy.ofName ty).map fun t => .val (.int t (if b then 1 else 0)) st
  -- field-less enum → integer: its discriminant (table `enumDiscr`), wrapped to the target width
  | .enumv p [], st =>
    match IntTy.ofName ty, discrOf discr p with
    | some t, some d => some (.val (.int t (wrapInt t d)) st)
    | _, _ => none
  | _, _ => none

/-! ### 2.6 functions and methods of the libraries -/

/-- `Ok`, `Err`, `Some`; nix `TimeSpec`; `f64::from`; `T::from` between integer types when lossless;
    `Duration::from_secs`; the initial FSM state. `none` = not a library function (look in `fns`). -/
def primCall : String → List Value → St → Option Res
  | "Ok", [v], st => some (.val (.enumv "Ok" [v]) st)
  | "Err", [v], st => some (.val (.enumv "Err" [v]) st)
  | "Some", [v], st => some (.val (.enumv "Some" [v]) st)
  -- nix: `pub const fn new(seconds: time_t, nanoseconds: timespec_tv_nsec_t) -> Self`, no normalisation
  | "TimeSpec::new", [.int _ s, .int _ n], st => some (.val (.timespec ⟨s, n⟩) st)
  -- nix: `impl From<timespec> for TimeSpec` wraps the libc struct as it is
  | "TimeSpec::from", [.ctimespec s n], st => some (.val (.timespec ⟨s, n⟩) st)
  | "TimeSpec::from", [.timespec t], st => some (.val (.timespec t) st)
  -- nix: `TimeValLike::nanoseconds`: floor div/mod and `assert!` on the range of the seconds
  | "TimeSpec::nanoseconds", [.int _ n], st =>
    some (orPanic (TimeSpec.nanoseconds n) fun t => .val (.timespec t) st)
  -- chrony_candm 0.1.1: `impl From<ChronyFloat> for f64`
  | "f64::from", [.chronyFloat w], st => some (.val (.f64 (F64.chronyFloat w)) st)
  -- std: `impl From<u32> for f64` etc. (exact); there is no `From<i64>`/`From<u64>` for f64
  | "f64::from", [.int t a], st =>
    if t = .u8 ∨ t = .u16 ∨ t = .u32 ∨ t = .i8 ∨ t = .i16 ∨ t = .i32
    then some (.val (.f64 (F64.ofInt a)) st) else some (.stuck "f64::from: no such impl")
  -- std: `impl From<u32> for i64` etc.: only the lossless conversions exist
  | "i64::from", [.int t a], st =>
    if t = .u8 ∨ t = .u16 ∨ t = .u32 ∨ t = .i8 ∨ t = .i16 ∨ t = .i32 ∨ t = .i64
    then some (.val (.int .i64 a) st) else some (.stuck "i64::from: no such impl")
  | "u64::from", [.int t a], st =>
    if t = .u8 ∨ t = .u16 ∨ t = .u32 ∨ t = .u64
    then some (.val (.int .u64 a) st) else some (.stuck "u64::from: no such impl")
  -- std: `Duration::from_secs(secs: u64)`; cannot overflow (u64 seconds + u32 nanoseconds)
  | "Duration::from_secs", [.int t s], st =>
    if (t = .u64 ∨ t = .infer) ∧ 0 ≤ s then some (.val (.duration (s * 1000000000)) st)
    else some (.stuck "Duration::from_secs: argument is not a u64")
  -- clock_state_fsm.rs: `ShmClockState<Unknown>::default()`, boxed: the FSM starts in Unknown
  | "Box<ShmClockState>::default", [], st => some (.val (.fsm .unknown) st)
  | _, _, _ => none

def allIntTys : List IntTy := [.u8, .u16, .u32, .u64, .usize, .i8, .i16, .i32, .i64, .isize, .u128, .i128]

/-- std: `impl From<A> for B` exists for integer types exactly when every `A` is a `B` (lossless);
    `impl TryFrom<A> for B` exists for all pairs and is `Ok` iff the value is in range (the error value
    is opaque).  `T::from(x)` / `T::try_from(x)` for the integer types that `primCall` does not list.
    (`usize`/`isize`: 64-bit target; std only has the `From` impls that hold on every target, so a
    program that compiles uses fewer than are accepted here.) -/
def intConvAt (name : String) (s : IntTy) (a : Int) (st : St) : List IntTy → Option Res
  | [] => none
  | t :: ts =>
    match name == t.name ++ "::from", name == t.name ++ "::try_from" with
    | true, _ =>
      (if s ≠ .infer ∧ t.lo ≤ s.lo ∧ s.hi ≤ t.hi then some (.val (.int t a) st) else none)
    | false, true =>
      (if s = .infer then none
       else if t.lo ≤ a ∧ a ≤ t.hi then some (.val (.enumv "Ok" [.int t a]) st)
       else some (.val (.enumv "Err" [.opaque "TryFromIntError"]) st))
    | false, false => intConvAt name s a st ts

def intConvCall (name : String) : List Value → St → Option Res
  | [.int s a], st => intConvAt name s a st allIntTys
  | _, _ => none

/-- integer methods with one integer operand of the same type -/
def intMethod (m : String) (u : IntTy) (a b : Int) (st : St) : Option Res :=
  match m with
  -- std: `wrapping_*`: the result modulo 2^bits, never panics
  | "wrapping_add" => some (.val (.int u (wrapInt u (a + b))) st)
  | "wrapping_sub" => some (.val (.int u (wrapInt u (a - b))) st)
  | "wrapping_mul" => some (.val (.int u (wrapInt u (a * b))) st)
  -- std: `saturating_*`: the exact result clamped to the range of the type
  | "saturating_add" => some (.val (.int u (clampInt u (a + b))) st)
  | "saturating_sub" => some (.val (.int u (clampInt u (a - b))) st)
  | "saturating_mul" => some (.val (.int u (clampInt u (a * b))) st)
  -- std: `overflowing_*`: (wrapped result, did it overflow)
  | "overflowing_add" =>
    some (.val (.tuple [.int u (wrapInt u (a + b)), .bool (decide (¬ (u.lo ≤ a + b ∧ a + b ≤ u.hi)))]) st)
  | "overflowing_sub" =>
    some (.val (.tuple [.int u (wrapInt u (a - b)), .bool (decide (¬ (u.lo ≤ a - b ∧ a - b ≤ u.hi)))]) st)
  | "overflowing_mul" =>
    some (.val (.tuple [.int u (wrapInt u (a * b)), .bool (decide (¬ (u.lo ≤ a * b ∧ a * b ≤ u.hi)))]) st)
  -- std: `Ord::min` / `Ord::max`
  | "min" => some (.val (.int u (if a ≤ b then a else b)) st)
  | "max" => some (.val (.int u (if a ≤ b then b else a)) st)
  -- std: `abs_diff`: |a - b| in the unsigned type of the same width (always fits)
  | "abs_diff" => some (.val (.int u.toUnsigned (if a ≤ b then b - a else a - b)) st)
  | _ => none

/-- methods of `Option` / `Result` / integers / lists that take no closure. `none` = no rule here. -/
def primMethod2 : Value → String → List Value → St → Option Res
  | .int t a, "pow", [.int t' b], st =>
    -- std: `pow(self, exp: u32)`; with overflow checks an unrepresentable result panics
    if t = .infer ∨ ¬ (t' = .u32 ∨ t' = .infer) ∨ b < 0 then none else some (chkInt t (a ^ b.toNat) st)
  -- `x.into()` between integer types exists only where it is lossless (else the program does not
  -- compile); the target type comes from the context, like that of an unsuffixed literal
  | .int t a, "into", [], st => if t = .infer then none else some (.val (.int .infer a) st)
  | .int t a, m, [.int t' b], st =>
    match IntTy.unify t t' with
    | some .infer | none => none
    | some u => intMethod m u a b st
  -- std `Option` / `Result`
  | .enumv "Some" [_], "is_some", [], st => some (.val (.bool true) st)
  | .enumv "None" [], "is_some", [], st => some (.val (.bool false) st)
  | .enumv "Some" [_], "is_none", [], st => some (.val (.bool false) st)
  | .enumv "None" [], "is_none", [], st => some (.val (.bool true) st)
  | .enumv "Ok" [_], "is_ok", [], st => some (.val (.bool true) st)
  | .enumv "Err" [_], "is_ok", [], st => some (.val (.bool false) st)
  | .enumv "Ok" [_], "is_err", [], st => some (.val (.bool false) st)
  | .enumv "Err" [_], "is_err", [], st => some (.val (.bool true) st)
  -- `unwrap` / `expect(msg)` panic on `None` / `Err`
  | .enumv "Some" [v], "unwrap", [], st => some (.val v st)
  | .enumv "Ok" [v], "unwrap", [], st => some (.val v st)
  | .enumv "None" [], "unwrap", [], _ => some .panic
  | .enumv "Err" [_], "unwrap", [], _ => some .panic
  | .enumv "Some" [v], "expect", [_], st => some (.val v st)
  | .enumv "Ok" [v], "expect", [_], st => some (.val v st)
  | .enumv "None" [], "expect", [_], _ => some .panic
  | .enumv "Err" [_], "expect", [_], _ => some .panic
  | .enumv "Err" [e], "unwrap_err", [], st => some (.val e st)
  | .enumv "Ok" [_], "unwrap_err", [], _ => some .panic
  | .enumv "Some" [v], "unwrap_or", [_], st => some (.val v st)
  | .enumv "Ok" [v], "unwrap_or", [_], st => some (.val v st)
  | .enumv "None" [], "unwrap_or", [d], st => some (.val d st)
  | .enumv "Err" [_], "unwrap_or", [d], st => some (.val d st)
  -- `unwrap_or_default` on `None`/`Err` needs the static type: no rule
  | .enumv "Some" [v], "unwrap_or_default", [], st => some (.val v st)
  | .enumv "Ok" [v], "unwrap_or_default", [], st => some (.val v st)
  | .enumv "Ok" [v], "ok", [], st => some (.val (.enumv "Some" [v]) st)
  | .enumv "Err" [_], "ok", [], st => some (.val (.enumv "None" []) st)
  | .enumv "Ok" [_], "err", [], st => some (.val (.enumv "None" []) st)
  | .enumv "Err" [e], "err", [], st => some (.val (.enumv "Some" [e]) st)
  | .enumv "Some" [v], "ok_or", [_], st => some (.val (.enumv "Ok" [v]) st)
  | .enumv "None" [], "ok_or", [e], st => some (.val (.enumv "Err" [e]) st)
  -- arrays / `Vec` / slices
  | .list vs, "len", [], st => some (.val (.int .usize vs.length) st)
  | .list vs, "is_empty", [], st => some (.val (.bool vs.isEmpty) st)
  | .list vs, "iter", [], st => some (.val (.list vs) st)
  | .list vs, "into_iter", [], st => some (.val (.list vs) st)
  | .list vs, "to_vec", [], st => some (.val (.list vs) st)
  | _, _, _, _ => none

/-- what a method of `Option` / `Result` that takes a closure does with its receiver -/
inductive ClosurePlan
  /-- the closure is not called; this is the result -/
  | done (v : Value)
  /-- the closure is called on `args`; the result is `wrap` of its value (`wrap = none`: the value itself) -/
  | app (args : List Value) (wrap : Option String)

/-- std: `ok_or_else`, `map_err`, `map`, `unwrap_or_else`, `and_then`, `or_else` (by receiver) -/
def closureMethod : Value → String → Option ClosurePlan
  | .enumv "Some" [v], "ok_or_else" => some (.done (.enumv "Ok" [v]))
  | .enumv "None" [], "ok_or_else" => some (.app [] (some "Err"))
  | .enumv "Ok" [v], "map_err" => some (.done (.enumv "Ok" [v]))
  | .enumv "Err" [e], "map_err" => some (.app [e] (some "Err"))
  | .enumv "Ok" [v], "map" => some (.app [v] (some "Ok"))
  | .enumv "Err" [e], "map" => some (.done (.enumv "Err" [e]))
  | .enumv "Some" [v], "map" => some (.app [v] (some "Some"))
  | .enumv "None" [], "map" => some (.done (.enumv "None" []))
  | .enumv "Some" [v], "unwrap_or_else" => some (.done v)
  | .enumv "Ok" [v], "unwrap_or_else" => some (.done v)
  | .enumv "None" [], "unwrap_or_else" => some (.app [] none)
  | .enumv "Err" [e], "unwrap_or_else" => some (.app [e] none)
  | .enumv "Some" [v], "and_then" => some (.app [v] none)
  | .enumv "Ok" [v], "and_then" => some (.app [v] none)
  | .enumv "None" [], "and_then" => some (.done (.enumv "None" []))
  | .enumv "Err" [e], "and_then" => some (.done (.enumv "Err" [e]))
  | .enumv "Some" [v], "or_else" => some (.done (.enumv "Some" [v]))
  | .enumv "Ok" [v], "or_else" => some (.done (.enumv "Ok" [v]))
  | .enumv "None" [], "or_else" => some (.app [] none)
  | .enumv "Err" [e], "or_else" => some (.app [e] none)
  | _, _ => none

def wrapWith (w : Option String) (v : Value) : Value :=
  match w with
  | some c => .enumv c [v]
  | none => v

/-- methods of library types. `none` = not a library method (look in `fns`). -/
def primMethod (ctx : Ctx) : Value → String → List Value → St → Option Res
  -- nix: `num_nanoseconds() = num_seconds() * 10^9 + nanos_mod_sec()` in i64 (overflow ⇒ panic)
  | .timespec t, "num_nanoseconds", [], st =>
    some (orPanic t.numNanoseconds fun n => .val (.int .i64 n) st)
  | .timespec t, "tv_sec", [], st => some (.val (.int .i64 t.sec) st)
  | .timespec t, "tv_nsec", [], st => some (.val (.int .i64 t.nsec) st)
  -- nix: `impl AsRef<timespec> for TimeSpec`: the wrapped libc struct
  | .timespec t, "as_ref", [], st => some (.val (.ctimespec t.sec t.nsec) st)
  -- std: `i64::abs` panics on MIN when overflow checks are on
  | .int t a, "abs", [], st =>
    if t.signed = true then some (if a = t.lo then .panic else .val (.int t (if a < 0 then -a else a)) st)
    else some (.stuck "abs on an unsigned integer")
  -- std: `checked_*`: `None` iff the exact result is not representable
  | .int t a, "checked_add", [.int t' b], st =>
    some (match IntTy.unify t t' with
      | some .infer | none => .stuck "checked_add: operand types"
      | some u => if u.lo ≤ a + b ∧ a + b ≤ u.hi then .val (.enumv "Some" [.int u (a + b)]) st
                  else .val (.enumv "None" []) st)
  | .int t a, "checked_sub", [.int t' b], st =>
    some (match IntTy.unify t t' with
      | some .infer | none => .stuck "checked_sub: operand types"
      | some u => if u.lo ≤ a - b ∧ a - b ≤ u.hi then .val (.enumv "Some" [.int u (a - b)]) st
                  else .val (.enumv "None" []) st)
  | .int t a, "checked_mul", [.int t' b], st =>
    some (match IntTy.unify t t' with
      | some .infer | none => .stuck "checked_mul: operand types"
      | some u => if u.lo ≤ a * b ∧ a * b ≤ u.hi then .val (.enumv "Some" [.int u (a * b)]) st
                  else .val (.enumv "None" []) st)
  -- std: `f64::ceil` (exact), `f64::abs` (clears the sign)
  | .f64 a, "ceil", [], st => some (.val (.f64 (F64.ceil a)) st)
  | .f64 a, "abs", [], st => some (.val (.f64 (if a < 0 then -a else a)) st)
  -- chrony_candm: `Into<f64> for ChronyFloat` (the only `From<ChronyFloat>` impl there is)
  | .chronyFloat w, "into", [], st => some (.val (.f64 (F64.chronyFloat w)) st)
  -- std: `SystemTime::elapsed() = SystemTime::now().duration_since(*self)`: `Err` iff self is later than now
  | .systime t, "elapsed", [], st =>
    some (if t > ctx.nowNs then .val (.enumv "Err" [.opaque "SystemTimeError"]) st
          else .val (.enumv "Ok" [.duration (ctx.nowNs - t)]) st)
  -- clock_state_fsm.rs: `FSMState::apply_chrony(&self, ChronyClockStatus) -> Box<dyn FSMState>` is the
  -- 3×3 table `fsmStep` (tied to the source by the FSM table theorems), `value()` the current status
  | .fsm s, "apply_chrony", [c], st =>
    some (orStuck "apply_chrony: argument is not a ChronyClockStatus" (chronyOfValue c)
      fun c => .val (.fsm (fsmStep s c)) st)
  | .fsm s, "value", [], st => some (.val (statusValue s) st)
  -- `ShmWrite::write(&mut self, &ClockErrorBound)`: the effect that is logged
  | .writer, "write", [r], st => some (.val .unit { st with log := st.log ++ [r] })
  | v, m, args, st => primMethod2 v m args st

/-- macros: the `tracing` logging macros have no effect on the values computed here (their arguments
    are only formatted); `panic!` and friends panic; `format!` yields an opaque `String`.  `args` are the
    evaluated arguments of an `Expr.macroArgs` (the translator keeps the condition of `assert!`, the two
    operands of `assert_eq!`; `matches!` and `vec!` arrive as one argument that is their expansion).
    `debug_assert*` are active (dev profile). `none` = no built-in rule. -/
def primMacro (name : String) (args : List Value) (st : St) : Option Res :=
  match name, args with
  | "debug", _ | "info", _ | "warn", _ | "error", _ | "trace", _
  | "tracing::debug", _ | "tracing::info", _ | "tracing::warn", _ | "tracing::error", _ | "tracing::trace", _ =>
    some (.val .unit st)
  | "panic", _ | "unreachable", _ | "unimplemented", _ | "todo", _ => some .panic
  | "format", _ => some (.val (.opaque "String") st)
  | "assert", [.bool b] | "debug_assert", [.bool b] => some (if b = true then .val .unit st else .panic)
  | "assert_eq", [a, b] | "debug_assert_eq", [a, b] =>
    some ((binOp .eq a b st).bind fun v st =>
      match v with
      | .bool c => if c = true then .val .unit st else .panic
      | _ => .stuck "assert_eq: comparison is not a bool")
  | "assert_ne", [a, b] | "debug_assert_ne", [a, b] =>
    some ((binOp .ne a b st).bind fun v st =>
      match v with
      | .bool c => if c = true then .val .unit st else .panic
      | _ => .stuck "assert_ne: comparison is not a bool")
  | "matches", [v] => some (.val v st)
  | "vec", [v] => some (.val v st)
  | _, _ => none

/-! ### 2.8 extension dictionaries

  `Ext` (defined in part 1) — see `Rs/DictDemo.lean` for a worked example.  The functions below are the
  only places where a hook is consulted, always as the LAST rule. -/

def runMacro (ctx : Ctx) (name : String) (args : List Value) (st : St) : Res :=
  firstRule (primMacro name args st)
    (firstRule (ctx.ext.macroCall ctx.inputs name args st) (.stuck "macro without a rule"))

def runCast (ctx : Ctx) (ty : String) (v : Value) (st : St) : Res :=
  firstRule (primCast ctx.enumDiscr ty v st)
    (firstRule (ctx.ext.cast ctx.inputs ty v st) (.stuck "cast without a rule"))

def runField (ctx : Ctx) (v : Value) (name : String) (st : St) : Res :=
  match fieldOf v name with
  | some w => .val w st
  | none => orStuck "field access without a rule" (ctx.ext.fieldOf v name) fun w => .val w st

def runUnary (ctx : Ctx) (op : UnOp) (v : Value) (st : St) : Res :=
  match op, v with
  | .deref, .ext tag args =>
    firstRule (ctx.ext.deref ctx.inputs (.ext tag args) st) (.stuck "deref of an extension object without a rule")
  -- [threads] `&mut e` on an extension object: the dictionary's business (`Ext.refMut`); without a rule stuck as before
  | .refMut, .ext tag args =>
    firstRule (ctx.ext.refMut ctx.inputs (.ext tag args) st) (.stuck "&mut borrow")
  | _, _ => unOp op v st

/-! ## 3. Evaluation -/

/-- drop the variables a block (or a match arm) introduced: back to `n` variables -/
def St.popTo (st : St) (n : Nat) : St := { st with env := st.env.drop (st.env.length - n) }

def Res.popTo (r : Res) (n : Nat) : Res := r.mapSt fun st => st.popTo n

def rangeEnd (e : Bool × Lit) : Option Int :=
  match e with
  | (neg, .int v _) => some (if neg then -(v : Int) else v)
  | _ => none

/-- does the (symbolic) value match the pattern, and with which bindings? `none` = no rule.
    The Boolean may be symbolic (`decide (x ≤ 2)`); the bindings are meaningful when it is true. -/
def matchPat : Nat → String → Pat → Value → Option (Bool × List (String × Value))
  | 0, _, _, _ => none
  | _ + 1, _, .wild, _ => some (true, [])
  -- the translator emits `bind` only for identifiers that start with a lower-case letter or `_`
  | _ + 1, _, .bind x, v => some (true, [(x, v)])
  | _ + 1, selfTy, .path segs, v =>
    match v with
    | .enumv p _ =>
      -- [errors] BEGIN: a BARE identifier pattern `V` other than the prelude's `None` that is not literally the
      -- value's path may be a variant brought into scope by `use E::*` (or a constant): no rule, instead of "no match"
      match segs with
      | [x] =>
        (match x == "None" with
         | true => some (decide (p = x), [])
         | false => if p = x then some (true, []) else none)
      | _ =>
      -- [errors] END
      some (decide (p = canon selfTy segs), [])
    | _ => none
  | _ + 1, _, .lit neg l, v =>
    match l, v with
    | .int n _, .int _ a => some (decide (a = if neg then -(n : Int) else n), [])
    | .bool b, .bool c => if neg then none else some (c == b, [])
    -- [shm] begin: a string literal pattern (`Some("")`) matches a `&str` with exactly that content
    | .str s, .str t => if neg then none else some (decide (t = s), [])
    -- [shm] end
    | _, _ => none
  | _ + 1, _, .range lo hi incl, v =>
    match v with
    | .int _ a =>
      match lo, hi with
      | some l, some h =>
        match rangeEnd l, rangeEnd h with
        | some l, some h => some (decide (l ≤ a) && (if incl then decide (a ≤ h) else decide (a < h)), [])
        | _, _ => none
      | _, _ => none
    | _ => none
  | n + 1, selfTy, .or alts, v =>
    alts.foldr (fun p acc =>
      match matchPat n selfTy p v, acc with
      | some (b, []), some (c, _) => some (b || c, [])
      | _, _ => none) (some (false, []))
  | n + 1, selfTy, .tuple ps, v =>
    match v with
    | .tuple vs => matchPats n selfTy ps vs
    | _ => none
  | n + 1, selfTy, .tupleStruct segs ps, v =>
    match v with
    | .enumv p args =>
      if p = canon selfTy segs then matchPats n selfTy ps args else some (false, [])
    | _ => none
  | n + 1, selfTy, .ref p, v => matchPat n selfTy p v
  -- `S { f: p, .. }` on a struct value of that name (another struct type does not compile: no rule);
  -- `libc::timespec { tv_sec, tv_nsec }` on a `ctimespec`
  | n + 1, selfTy, .struct segs fps _, v =>
    match v with
    | .struct name fs =>
      if name = (if lastSeg segs = "Self" then selfTy else lastSeg segs) then matchFields n selfTy fps (.struct name fs)
      else none
    | .ctimespec s ns => if lastSeg segs = "timespec" then matchFields n selfTy fps (.ctimespec s ns) else none
    | _ => none
  | _ + 1, _, .other _, _ => none
where
  matchPats : Nat → String → List Pat → List Value → Option (Bool × List (String × Value))
    | 0, _, _, _ => none
    | _ + 1, _, [], [] => some (true, [])
    | n + 1, selfTy, p :: ps, v :: vs =>
      match matchPat n selfTy p v, matchPats n selfTy ps vs with
      | some (b, bs), some (c, cs) => some (b && c, cs ++ bs)
      | _, _ => none
    | _ + 1, _, [], _ :: _ => none
    | _ + 1, _, _ :: _, [] => none
  matchFields : Nat → String → List (String × Pat) → Value → Option (Bool × List (String × Value))
    | 0, _, _, _ => none
    | _ + 1, _, [], _ => some (true, [])
    | n + 1, selfTy, (f, p) :: fps, v =>
      match fieldOf v f with
      | none => none
      | some w =>
        match matchPat n selfTy p w, matchFields n selfTy fps v with
        | some (b, bs), some (c, cs) => some (b && c, cs ++ bs)
        | _, _ => none

/-- a single-segment path may be a local variable -/
def localVar (env : List (String × Value)) : List String → Option Value
  | [] => none
  | [x] => envGet env x
  | _ :: _ :: _ => none

/-- read a place expression (variable or field chain) without evaluating anything else -/
def readPlace : Nat → Expr → St → Option Value
  | 0, _, _ => none
  | _ + 1, .path segs, st => localVar st.env segs
  | n + 1, .field e name, st =>
    match readPlace n e st with
    | some v => fieldOf v name
    | none => none
  | n + 1, .tupleIdx e i, st =>
    match readPlace n e st with
    | some (.tuple vs) => listGet vs i
    | _ => none
  -- `*x` / `(&mut x)` as a place: references are transparent
  | n + 1, .unary .deref e, st => readPlace n e st
  | _ + 1, _, _ => none

/-- assignment to a place expression -/
def writePlace : Nat → Expr → Value → St → Option St
  | 0, _, _, _ => none
  | _ + 1, .path segs, w, st =>
    match segs with
    | [x] => (envSet st.env x w).map fun env => { st with env := env }
    | _ => none
  | n + 1, .field e name, w, st =>
    match readPlace n e st with
    | some v =>
      match setField v name w with
      | some v' => writePlace n e v' st
      | none => none
    | none => none
  | n + 1, .tupleIdx e i, w, st =>
    match readPlace n e st with
    | some (.tuple vs) =>
      match listSet vs i w with
      | some vs' => writePlace n e (.tuple vs') st
      | none => none
    | _ => none
  | n + 1, .unary .deref e, w, st => writePlace n e w st
  | _ + 1, _, _, _ => none

/-- candidate keys in `fns` for a call of the path `segs` with arguments `args`:
    `f` ⇒ `<module>::f`;  `T::f` ⇒ `T::f`, then the trait impls `From<A> for T::from` (A the dynamic
    type of the argument) and `Default for T::default`. -/
def callKeys (fr : Frame) (segs : List String) (args : List Value) : List String :=
  match segs with
  | [f] => [fr.module ++ "::" ++ f]
  | _ =>
    let c := canon fr.selfTy segs
    match args with
    | [] => [c, "Default for " ++ c]
    | [a] => [c, "From<" ++ typeName a ++ "> for " ++ c]
    | _ => [c]

def lookupFn (fns : List (String × FnDecl)) : List String → Option FnDecl
  | [] => none
  | k :: ks => match fns.lookup k with
    | some d => some d
    | none => lookupFn fns ks

-- [poller] begin: trait-impl method resolution
/-- does the function take a receiver (`self`, `&self`, `&mut self`)? -/
def SelfKind.hasRecv : SelfKind → Bool
  | .none => false
  | _ => true

/-- the methods named `m` (functions WITH a receiver) of the `impl` blocks of the translated files whose
    self type is `tn`, whatever their key (`Trait for T::m`) -/
def traitImplCands (fns : List (String × FnDecl)) (tn m : String) : List FnDecl :=
  match fns with
  | [] => []
  | (_, d) :: rest =>
    match d.selfTy == tn && d.ident == m && d.self.hasRecv with
    | true => d :: traitImplCands rest tn m
    | false => traitImplCands rest tn m

/-- Rust: `x.m(..)` on a value of the struct type `T` that has no inherent method `m` is the method `m`
    of a trait implemented for `T` (here: `impl ChronyOperations for ClockErrorBoundPoller`, called
    through a parameter `impl ChronyOperations`; the interpreter is dynamically typed, so the value's
    own type decides, as monomorphisation does).  A rule only when EXACTLY ONE impl block for `T` in the
    translated files has such a method (two traits with the same method name are ambiguous in Rust, and
    impls for different instances of a generic type share the bare name `T`: no rule then). -/
def traitImplDecl (fns : List (String × FnDecl)) (tn m : String) : Option FnDecl :=
  match traitImplCands fns tn m with
  | [d] => some d
  | _ => none
-- [poller] end

/-- the method `m` of a user-defined type in `fns`: `x.m(..)` on a struct value of type `T`, or on a
    variant of an enum `T` of the generated tables, is `T::m` -/
def methodDecl (fns : List (String × FnDecl)) (enums : List (String × List (String × Nat))) :
    Value → String → Option FnDecl
  | .struct tn _, m =>
    match lookupFn fns [tn ++ "::" ++ m] with
    | some d => some d
    -- [poller] no inherent method `T::m`: the method `m` of the one trait impl for `T` that has it
    | none => traitImplDecl fns tn m
  | .enumv p args, m =>
    match userTypeName (.enumv p args) with
    | some tn => lookupFn fns [tn ++ "::" ++ m]
    | none =>
      match enumOfVariant enums p with
      | some tn => lookupFn fns [tn ++ "::" ++ m]
      | none => none
  | _, _ => none

-- [errors] BEGIN ------------------------------------------------------------------------------------
/-- further candidate keys for a call `T::f(a)` with ONE argument that is a variant of an enum `E` of the
    generated tables: the trait impl `From<E> for T::from`.  (`callKeys` names the impl after `typeName a`,
    which for an enum value is the path of the VARIANT, except for the two enums `userTypeName` knows; the
    dynamic type of a variant of `E` is `E`.)  Tried only when `callKeys` found nothing. -/
def enumFromKeys (enums : List (String × List (String × Nat))) (fr : Frame) (segs : List String) :
    List Value → List String
  | [.enumv p _] =>
    match enumOfVariant enums p with
    | some t => ["From<" ++ t ++ "> for " ++ canon fr.selfTy segs]
    | none => []
  | _ => []
/-- membership in a list of names (by `==`, so that it evaluates on literals) -/
def memStr (x : String) : List String → Bool
  | [] => false
  | y :: ys =>
    match y == x with
    | true => true
    | false => memStr x ys

/-- the names of the structs and enums of the generated tables, and `()` -/
def tableTys (structs : List (String × List (String × String))) (enums : List (String × List (String × Nat))) : List String :=
  structs.map (·.1) ++ enums.map (·.1) ++ ["()"]

/-- `use E::*;` (also `self::` / `crate::` / `super::`) for an enum `E` of the tables, as a nested item of a block -/
def useGlobEnum : List (String × List (String × Nat)) → String → Option String
  | [], _ => none
  | (t, _) :: rest, text =>
    match ("use " ++ t ++ "::*;" == text) || ("use self::" ++ t ++ "::*;" == text) ||
          ("use crate::" ++ t ++ "::*;" == text) || ("use super::" ++ t ++ "::*;" == text) with
    | true => some t
    | false => useGlobEnum rest text

/-- a bare identifier `x` that is a field-less variant of an enum whose variants a `use E::*;` of an enclosing
    block brought into scope (recorded in the environment under the name `{use}`, which is not an identifier) -/
def globVariant (enums : List (String × List (String × Nat))) : List (String × Value) → String → Option Value
  | [], _ => none
  | (k, v) :: rest, x =>
    match k == "{use}" with
    | false => globVariant enums rest x
    | true =>
      match v with
      | .str t =>
        (match enumArity enums "" [t, x] with
         | some 0 => some (.enumv (t ++ "::" ++ x) [])
         | some _ => globVariant enums rest x
         | none => globVariant enums rest x)
      | _ => globVariant enums rest x

def globPath (enums : List (String × List (String × Nat))) (env : List (String × Value)) : List String → Option Value
  | [x] => globVariant enums env x
  | _ => none

/-- is `ret` the type `Result<T, E>` for a type `T` of the list? -/
def retHasErr (ret E : String) : List String → Bool
  | [] => false
  | T :: ts =>
    match "Result<" ++ T ++ "," ++ E ++ ">" == ret with
    | true => true
    | false => retHasErr ret E ts

/-- the impl `From<X> for E` of the tables, for `E` the error type of the return type `ret = Result<T,E>` -/
def tryFromDecl (tys : List String) (ret X : String) : List (String × FnDecl) → Option FnDecl
  | [] => none
  | (k, d) :: rest =>
    match k == "From<" ++ X ++ "> for " ++ d.selfTy ++ "::from" with
    | false => tryFromDecl tys ret X rest
    | true =>
      match retHasErr ret d.selfTy tys with
      | true => some d
      | false => tryFromDecl tys ret X rest

/-- TYPE-DIRECTED conversions: an initialiser `x.into()` / `Default::default()` in a position whose declared
    type `T` is a struct or enum of the tables is `T::from(x)` / `T::default()` (std: `impl<T, U: From<T>> Into<U> for T`;
    the type checker picks the impl from the destination's type).  Everything else is left as it is. -/
def typedInit (tys : List String) : Option String → Expr → Expr
  | some T, .mcall x "into" [] =>
    (match memStr T tys with
     | true => .call [T, "from"] [x]
     | false => .mcall x "into" [])
  | some T, .call ["Default", "default"] [] =>
    (match memStr T tys with
     | true => .call [T, "default"] []
     | false => .call ["Default", "default"] [])
  | _, e => e

def typedFields (tys : List String) : Option (List (String × String)) → List (String × Expr) → List (String × Expr)
  | none, fs => fs
  | some _, [] => []
  | some decl, (k, e) :: rest => (k, typedInit tys (decl.lookup k) e) :: typedFields tys (some decl) rest

/-- declared type of the field `f` of the struct that the value is -/
def fieldTyOf (structs : List (String × List (String × String))) (f : String) : Option Value → Option String
  | some (.struct sn _) => (structs.lookup sn).bind (·.lookup f)
  | _ => none

/-- a FUNCTION PATH (two or more segments: `T::f`, `m::f`) as the only argument of a method call -/
def fnPathArg : List Expr → Option (List String)
  | [.path (a :: b :: segs)] => some (a :: b :: segs)
  | _ => none

/-- names that are not Rust identifiers, for the arguments a function path is applied to -/
def fnPathParams : List Value → List (String × Value)
  | [] => []
  | [v] => [("{arg0}", v)]
  | v :: w :: _ => [("{arg0}", v), ("{arg1}", w)]

def fnPathArgs : List Value → List Expr
  | [] => []
  | [_] => [.path ["{arg0}"]]
  | _ :: _ :: _ => [.path ["{arg0}"], .path ["{arg1}"]]
-- [errors] END --------------------------------------------------------------------------------------

-- [poller] begin: by-reference arguments of calls of functions of `fns`
/-- Rust: `f(&mut x)` lends the caller's local variable `x` to `f` for the duration of the call; inside `f`
    the parameter (`p: &mut T`) is used through auto-deref (`p.m()`, `p.f = ..`, `*p = ..`), i.e. like a
    variable holding the value of `x`, and what `f` leaves in it is what `x` holds after the call.  The
    interpreter has no aliasing: as for the receiver of a `&mut self` method, the parameter is BOUND TO THE
    VALUE of `x` (here) and the final value is WRITTEN BACK on return (`writeBackArgs`).  `&mut x` arrives as
    the object `ext "&mut" [x]` (rule `[poller]` of `eval`).  Arguments that are not such objects are
    untouched.  Sound as long as the callee does not also reach `x` by another path (Rust's borrow checker
    forbids it) and does not shadow the parameter by a `let` of the same name at function level (as for
    `self`; not checked). -/
def derefArgs (env : List (String × Value)) : List Value → Option (List Value)
  | [] => some []
  | .ext "&mut" [.str x] :: rest =>
    match envGet env x, derefArgs env rest with
    | some v, some vs => some (v :: vs)
    | _, _ => none
  | v :: rest =>
    match derefArgs env rest with
    | some vs => some (v :: vs)
    | none => none

/-- on return from a function of `fns`: for every argument `&mut x` (its parameter must be a plain binding
    `p`; any other pattern: no rule) the callee's final value of `p` is stored into the caller's `x`.
    `callee` = the callee's final environment, `env` = the caller's. -/
def writeBackArgs (callee : List (String × Value)) :
    List (Pat × String) → List Value → List (String × Value) → Option (List (String × Value))
  | [], [], env => some env
  | (pat, _) :: ps, .ext "&mut" [.str x] :: rest, env =>
    match pat with
    | .bind p =>
      match envGet callee p with
      | some v =>
        match envSet env x v with
        | some env' => writeBackArgs callee ps rest env'
        | none => none
      | none => none
    | _ => none
  | _ :: ps, _ :: rest, env => writeBackArgs callee ps rest env
  | _, _, _ => none

/-- does the function declare a parameter of a type `&mut T` (the type text starts with `&mut`)?  Only such
    functions take the by-reference path of `callDecl`; for every other function `callDecl` is what it was. -/
def hasMutRefParam : List (Pat × String) → Bool
  | [] => false
  | (_, ty) :: rest => if ty.startsWith "&mut" = true then true else hasMutRefParam rest
-- [poller] end

-- [shm] begin: `let x: *const T = v` (see `Ext.letPtr`)
/-- the value a `let` with the declared type `ty` binds: an object of the dictionary (or a symbolic name) bound
    under a declared type may be retyped by the dictionary (`Ext.letPtr`, which matches the raw pointer types it
    knows); every other value, and every `let` without a declared type, binds the value as it is -/
def letValue (ext : Ext) (ty : Option String) : Value → Value
  | .ext tag args =>
    match ty with
    | some t => (ext.letPtr t (.ext tag args)).getD (.ext tag args)
    | none => .ext tag args
  | .enumv p [] =>
    match ty with
    | some t => (ext.letPtr t (.enumv p [])).getD (.enumv p [])
    | none => .enumv p []
  | v => v
-- [shm] end

/-- bind the arguments to the parameter patterns (ascribing the declared types) -/
def bindParams : Nat → String → List (Pat × String) → List Value → Option (List (String × Value))
  | 0, _, _, _ => none
  | _ + 1, _, [], [] => some []
  | n + 1, selfTy, (p, ty) :: ps, v :: vs =>
    match ascribe ty v with
    | none => none
    | some v' =>
      match matchPat n selfTy p v', bindParams n selfTy ps vs with
      | some (_, bs), some rest => some (rest ++ bs)
      | _, _ => none
  | _ + 1, _, [], _ :: _ => none
  | _ + 1, _, _ :: _, [] => none

-- [threads] begin: helpers of the added core rules (std `Vec::push`, closures that are thunks, `filter` / `map(..).collect()`)

/-- std: `Vec::push(&mut self, x)` appends `x`; the new vector (the caller writes it back to the receiver place) -/
def listPush : Value → String → List Value → Option Value
  | .list xs, "push", [x] => some (.list (xs ++ [x]))
  | _, _, _ => none

/-- the values of the local variables (place expressions) a closure body passes on: read, not evaluated -/
def captureArgs (n : Nat) : List Expr → St → Option (List Value)
  | [], _ => some []
  | e :: es, st =>
    match readPlace n e st, captureArgs n es st with
    | some v, some vs => some (v :: vs)
    | _, _ => none

/-- the items whose predicate value is `true` (`rs` = the predicate's values, a `list` of `bool`s of the same length) -/
def filterBy : List Value → Value → Option (List Value)
  | [], .list [] => some []
  | v :: vs, .list (.bool b :: bs) => (filterBy vs (.list bs)).map fun l => if b = true then v :: l else l
  | _, _ => none
-- [threads] end

mutual

/-- expressions -/
def eval : Nat → Ctx → Frame → Expr → St → Res
  | 0, _, _, _, _ => .stuck "out of fuel"
  | n + 1, ctx, fr, e, st =>
    match e with
    | .lit l => orStuck "literal without a rule" (litValue l) fun v => .val v st
    | .path segs =>
      -- a local variable, else a constant of the module, else a primitive path
      match localVar st.env segs with
      | some v => .val v st
      | none =>
        -- `NAME` is the constant `<module>::NAME`; `T::NAME` / `Self::NAME` the associated constant `T::NAME`
        let key := constKey fr.module fr.selfTy segs
        match ctx.consts.lookup key with
        | some init =>
          -- constants are evaluated without access to local variables
          (eval n ctx fr init { st with env := [] }).bind fun v st' =>
            orStuck "constant does not fit its declared type"
              (ascribe ((ctx.constTypes.lookup key).getD "") v) fun v' => .val v' { st' with env := st.env }
        | none =>
          match enumArity ctx.enums fr.selfTy segs with
          | some 0 => .val (.enumv (canon fr.selfTy segs) []) st
          | some _ => .stuck "enum variant with fields used as a value"
          | none =>
            match primPath (canon fr.selfTy segs) with
            | some v => .val v st
            | none =>
            -- [errors] BEGIN: the dictionary first (as before); then a bare variant in the scope of a `use E::*;` of
            -- an enclosing block (`globPath` scans the environment, so it comes last)
            match ctx.ext.path (canon fr.selfTy segs) with
            | some v => .val v st
            | none => orStuck "path without a rule" (globPath ctx.enums st.env segs) fun v => .val v st
            -- [errors] END
    | .field e name => (eval n ctx fr e st).bind fun v st => runField ctx v name st
    | .tupleIdx e i =>
      (eval n ctx fr e st).bind fun v st =>
        match v with
        | .tuple vs => orStuck "tuple index out of range" (listGet vs i) fun w => .val w st
        -- [shm] begin: `s.0` on a value of a tuple struct (a `struct` value whose fields are named `0`, `1`, …)
        | .struct _ fs => orStuck "tuple struct: no such field" (envGet fs (tupleFieldName i)) fun w => .val w st
        -- [shm] end
        | _ => .stuck "tuple index on a non-tuple"
    -- [threads] `f(|| g(x, y))` / `f(move || g(x, y))`: a call whose only argument is a parameterless closure that
    -- does nothing but call a path on LOCAL VARIABLES (`spawn(move || shm_writer::run(ctx, max_drift_ppb))`).  Such a
    -- closure is the thunk "call `g` on these values": `ext "thunk" [str <canonical name of g>, list [values]]`.  The
    -- variables are only READ (`readPlace`, nothing is evaluated), now: a closure captures them by move or by
    -- reference, and Rust's borrow rules keep a captured variable unchanged while the closure lives.  Only the
    -- extension dictionary can give `f` a meaning (`Ext.call` with the thunk as the one argument); else stuck, as before.
    | .call segs [.closure [] (.call fsegs fargs)] =>
      orStuck "closure argument: it is not a call on local variables" (captureArgs n fargs st) fun vs =>
        firstRule (ctx.ext.call ctx.inputs (canon fr.selfTy segs)
            [.ext "thunk" [.str (canon fr.selfTy fsegs), .list vs]] st)
          (.stuck "call with a closure argument: no rule")
    | .call segs args =>
      (evalList n ctx fr args st).bind fun av st =>
        match av with
        | .tuple vs =>
          match primCall (canon fr.selfTy segs) vs st with
          | some r => r
          | none =>
            match enumArity ctx.enums fr.selfTy segs with
            | some k => if k = vs.length then .val (.enumv (canon fr.selfTy segs) vs) st
                        else .stuck "enum constructor: wrong number of arguments"
            | none =>
            match lookupFn ctx.fns (callKeys fr segs vs) with
            | some d =>
              (callDecl n ctx d .unit vs st).bind fun rv st =>
                match rv with
                | .tuple [v, _] => .val v st
                | _ => .stuck "internal: callDecl result"
            | none =>
            -- [errors] BEGIN: `T::from(a)` with `a` a variant of an enum `E` of the tables: `From<E> for T::from`
            match lookupFn ctx.fns (enumFromKeys ctx.enums fr segs vs) with
            | some d =>
              (callDecl n ctx d .unit vs st).bind fun rv st =>
                match rv with
                | .tuple [v, _] => .val v st
                | _ => .stuck "internal: callDecl result"
            | none =>
            -- [errors] END
              -- the remaining built-in rules: integer conversions, `size_of::<T>()`; then the dictionary
              firstRule (intConvCall (canon fr.selfTy segs) vs st)
                (match vs, sizeOf ctx.sizes (lastSeg segs) with
                 | [], some k => .val (.int .usize k) st
                 | _, _ =>
                   firstRule (ctx.ext.call ctx.inputs (canon fr.selfTy segs) vs st)
                     (.stuck "call of an unknown function"))
        | _ => .stuck "internal: evalList result"
    -- a method of `Option` / `Result` that takes a closure (std: `ok_or_else`, `map_err`, `map`, ...).
    -- The closure is applied by binding its parameters in the current environment (a closure may read the
    -- enclosing variables; assignments to them inside the closure are lost when its scope is popped —
    -- no rule is needed for the `FnMut` case in the translated files); `return` inside returns from the
    -- closure.
    | .mcall recv m [.closure ps body] =>
      (eval n ctx fr recv st).bind fun rv st =>
        match closureMethod rv m with
        | some (.done v) => .val v st
        | some (.app args w) =>
          orStuck "closure: arguments do not fit the parameters" (matchPat.matchPats n fr.selfTy ps args) fun (_, bs) =>
            (((eval n ctx fr body { st with env := bs ++ st.env }).on (fun v st => .val v st) (fun v st => .val v st)).popTo
              st.env.length).bind fun v st => .val (wrapWith w v) st
        | none =>
          -- [threads] std `Iterator::filter(pred)` on the items of a list (`xs.iter().filter(|x| ..)`, `map.keys().filter(..)`).
          -- Rust's adaptor is LAZY (the predicate runs when the iterator is consumed); evaluating it here, on every
          -- item, is the same thing exactly when the predicate is pure and total: it must complete with a `bool` on
          -- every item without consuming an input or logging an event (checked: `pos` and the length of the
          -- append-only log are unchanged), otherwise there is no rule.  The predicate gets a reference to the item
          -- (references are transparent).
          match rv, m with
          | .list items, "filter" =>
            (evalEach n ctx fr ps body items st).bind fun rs st' =>
              if st'.pos = st.pos ∧ st'.log.length = st.log.length then
                orStuck "filter: the predicate did not yield a bool" (filterBy items rs) fun l => .val (.list l) st'
              else .stuck "filter: predicate with effects (laziness is not modelled)"
          | _, _ => .stuck "method with a closure argument: no rule"
    -- [threads] std `xs.map(f).collect()` on the items of a list, as ONE construct (a `map` adaptor alone is lazy and has
    -- no rule): `f` is applied to the items in order, its effects happen in that order, the values are collected
    -- into a `Vec`.  (`collect` into another collection type is not distinguished: the result is only a list.)
    | .mcall (.mcall src "map" [.closure ps body]) "collect" [] =>
      (eval n ctx fr src st).bind fun sv st =>
        match sv with
        | .list items => evalEach n ctx fr ps body items st
        | _ => .stuck "map(..).collect(): no rule for this receiver"
    | .mcall recv m args =>
      (eval n ctx fr recv st).bind fun rv st =>
        -- [errors] BEGIN: a function path where a method of `Option` / `Result` expects a closure
        -- (`r.map_err(ClockBoundError::from)`): `T::f` stands for `|x| T::f(x)` — the plan of `closureMethod`,
        -- with the call `T::f(args)` as the closure body.  Applies only when the receiver/method pair has a
        -- closure plan AND the single argument is syntactically a path of two or more segments.
        match fnPathArg args, closureMethod rv m with
        | some _, some (.done v) => .val v st
        | some segs, some (.app cargs w) =>
          ((eval n ctx fr (.call segs (fnPathArgs cargs)) { st with env := fnPathParams cargs ++ st.env }).popTo
            st.env.length).bind fun v st => .val (wrapWith w v) st
        | _, _ =>
        -- [errors] END
        (evalList n ctx fr args st).bind fun av st =>
          match av with
          | .tuple vs =>
            match primMethod ctx rv m vs st with
            | some r => r
            | none =>
              match methodDecl ctx.fns ctx.enums rv m with
              | some d =>
                  if d.self = .none then .stuck "method call of an associated function" else
                  (callDecl n ctx d rv vs st).bind fun res st =>
                    match res with
                    | .tuple [v, self'] =>
                      if d.self = .refMut then
                        -- the receiver was reborrowed mutably: store the callee's `self` back
                        orStuck "receiver of a &mut self method is not a place" (writePlace n recv self' st)
                          fun st' => .val v st'
                      else .val v st
                    | _ => .stuck "internal: callDecl result"
              | none =>
                -- [threads] std `Vec::push`: the receiver place gets the extended vector
                match listPush rv m vs with
                | some l =>
                  orStuck "receiver of push is not a place" (writePlace n recv l st) fun st' => .val .unit st'
                | none =>
                firstRule (ctx.ext.method ctx.inputs rv m vs st) (.stuck "method call without a rule")
          | _ => .stuck "internal: evalList result"
    -- [poller] `&mut x` of a LOCAL VARIABLE `x` (as in `f.read_to_string(&mut contents)`): the mutable
    -- reference is the object `ext "&mut" [x]`.  The core has no rule that reads or writes through it
    -- (`*r`, a field, a method on it, passing it to a function of `fns` and using it there: all stuck);
    -- only a dictionary rule for a LIBRARY method that is called in the scope of `x` may store through
    -- it (`envSet`).  `&mut` of anything else stays without a rule (`unOp .refMut`).
    | .unary .refMut (.path [x]) =>
      match envGet st.env x with
      -- [threads] a local that holds an object of an extension dictionary: the dictionary's `refMut` rule decides
      | some (.ext tag args) =>
        match ctx.ext.refMut ctx.inputs (.ext tag args) st with
        | some r => r
        | none => .val (.ext "&mut" [.str x]) st
      | some _ => .val (.ext "&mut" [.str x]) st
      | none => .stuck "&mut of something that is not a local variable"
    -- [errors] BEGIN: `&mut *p` where `p` is an object of an extension dictionary (a raw pointer): the
    -- reborrow of the place the dictionary's `deref` rule gives for `*p`.  VALUE SEMANTICS: what comes back
    -- is the pointee's content; a local bound to it holds a copy, and writes to that copy are seen by later
    -- reads through the same local only (not through `p`).  A dictionary that gives `deref` on a pointer
    -- vouches that the functions it is used for reach the pointee through one name at a time (as in
    -- `let ctx = &mut *ctx;`, which shadows the pointer).  On every other value `&mut` stays without a rule.
    | .unary .refMut (.unary .deref e) =>
      (eval n ctx fr e st).bind fun v st =>
        match v with
        | .ext tag args => runUnary ctx .deref (.ext tag args) st
        | _ => .stuck "&mut borrow"
    -- [errors] END
    | .unary op e => (eval n ctx fr e st).bind fun v st => runUnary ctx op v st
    | .binary .and a b =>
      -- `&&` evaluates its right operand only if the left one is true
      (eval n ctx fr a st).bind fun va st =>
        match va with
        | .bool x => if x = true then
            (eval n ctx fr b st).bind fun vb st =>
              match vb with
              | .bool y => .val (.bool y) st
              | _ => .stuck "&& on a non-bool"
          else .val (.bool false) st
        | _ => .stuck "&& on a non-bool"
    | .binary .or a b =>
      (eval n ctx fr a st).bind fun va st =>
        match va with
        | .bool x => if x = true then .val (.bool true) st else
            (eval n ctx fr b st).bind fun vb st =>
              match vb with
              | .bool y => .val (.bool y) st
              | _ => .stuck "|| on a non-bool"
        | _ => .stuck "|| on a non-bool"
    | .binary op a b =>
      (eval n ctx fr a st).bind fun va st => (eval n ctx fr b st).bind fun vb st =>
        binOp op (litFallback ctx.ext.litFallback va vb).1 (litFallback ctx.ext.litFallback va vb).2 st
    -- [errors] BEGIN: `place.f = x.into()` where `place` holds a struct of the tables whose field `f` has the
    -- declared type `T`, a type of the tables: `T::from(x)` (see `typedInit`); otherwise the general rule
    -- (the block around the right-hand side evaluates to the same value)
    | .assign (.field base f) (.mcall x "into" []) =>
      eval n ctx fr (.assign (.field base f)
        (match typedInit (tableTys ctx.structs ctx.enums) (fieldTyOf ctx.structs f (readPlace n base st)) (.mcall x "into" []) with
         | .mcall y "into" [] => .block [.expr (.mcall y "into" []) false]
         | e => e)) st
    -- [errors] END
    | .assign lhs rhs =>
      (eval n ctx fr rhs st).bind fun v st =>
        orStuck "assignment: literal does not fit the type of the place" (adoptTy (readPlace n lhs st) v) fun v' =>
          orStuck "assignment to something that is not a place" (writePlace n lhs v' st) fun st' => .val .unit st'
    | .assignOp op lhs rhs =>
      -- `a op= b` on primitive types: `a = a op b`, with the overflow check of `op`
      (eval n ctx fr rhs st).bind fun v st =>
        orStuck "compound assignment to something that is not a place" (readPlace n lhs st) fun old =>
          (binOp op (litFallback ctx.ext.litFallback old v).1 (litFallback ctx.ext.litFallback old v).2 st).bind fun w st =>
            orStuck "compound assignment to something that is not a place" (writePlace n lhs w st)
              fun st' => .val .unit st'
    | .cast e ty => (eval n ctx fr e st).bind fun v st => runCast ctx ty v st
    | .ifte c thn els =>
      -- the condition may bind variables (`if let`): they are in scope in the then-branch only, and
      -- everything is popped back to the environment before the condition
      (eval n ctx fr c st).bind fun vc st' =>
        match vc with
        | .bool b =>
          if b = true then (evalBlock n ctx fr thn st').popTo st.env.length
          else match els with
            | some e => eval n ctx fr e st'
            | none => .val .unit st'
        | _ => .stuck "if on a non-bool"
    -- `let PAT = e` as a condition: true iff the value matches, and then the bindings are pushed
    | .letCond pat e =>
      (eval n ctx fr e st).bind fun v st =>
        orStuck "if let: pattern without a rule" (matchPat n fr.selfTy pat v) fun (b, bs) =>
          if b = true then .val (.bool true) { st with env := bs ++ st.env } else .val (.bool false) st
    | .matchE scrut arms => (eval n ctx fr scrut st).bind fun v st => evalArms n ctx fr arms v st
    | .block ss => (evalBlock n ctx fr ss st).popTo st.env.length
    | .ret none => .ret .unit st
    | .ret (some e) => (eval n ctx fr e st).bind fun v st => .ret v st
    | .tuple es => evalList n ctx fr es st
    -- [errors] BEGIN: `S { .., ..Default::default() }`: the base of a struct update has the type of the
    -- literal, so `Default::default()` there is `<S as Default>::default()`, i.e. the call `S::default()`
    -- (`callKeys` finds `Default for S::default`)
    | .structLit segs fields (some (.call ["Default", "default"] [])) =>
      eval n ctx fr (.structLit segs fields
        (some (.call [if lastSeg segs = "Self" then fr.selfTy else lastSeg segs, "default"] []))) st
    -- [errors] END
    | .structLit segs fields rest =>
      -- [errors] the initialisers `x.into()` / `Default::default()` of fields whose declared type is a type of the
      -- tables are resolved by that type (`typedFields`); a struct that is not in the tables: nothing changes
      (evalFields n ctx fr (typedFields (tableTys ctx.structs ctx.enums)
          (ctx.structs.lookup (if lastSeg segs = "Self" then fr.selfTy else lastSeg segs)) fields) st).bind fun fv st =>
        match fv with
        | .struct _ fs =>
          let last := if lastSeg segs = "Self" then fr.selfTy else lastSeg segs
          match rest with
          | none =>
            orStuck "struct literal without a rule" (mkStruct ctx.structs (canon fr.selfTy segs) last fs)
              fun v => .val v st
          | some b =>
            -- `S { f: v, ..base }`: `base` is a value of the same struct type
            (eval n ctx fr b st).bind fun bv st =>
              match bv with
              | .struct name bfs =>
                if name = last then
                  orStuck "struct literal without a rule" (mkStruct ctx.structs (canon fr.selfTy segs) last fs)
                    fun v => match v with
                      | .struct _ fs' => .val (.struct name (updateFields bfs fs')) st
                      | _ => .stuck "struct update syntax on a value that is not a struct"
                else .stuck "struct update syntax: base of another type"
              | _ => .stuck "struct update syntax on a value that is not a struct"
        | _ => .stuck "internal: evalFields result"
    | .try_ e =>
      -- `e?`: unwrap `Ok`/`Some`, return `Err`/`None` from the function. The error is converted with
      -- `From::from`, which is assumed to be the identity (same error type on both sides) unless the
      -- extension dictionary says otherwise (`Ext.errFrom`).
      (eval n ctx fr e st).bind fun v st =>
        match v with
        | .enumv "Ok" [x] => .val x st
        | .enumv "Err" [x] =>
          -- [errors] BEGIN: the dictionary may answer `ext "From::from" [str X]`: "the error is a value of the type `X`
          -- of the tables; apply the `impl From<X> for E` of the translated files, `E` the error type of the enclosing
          -- function's return type" (found by `tryFromDecl`; when there is none — `E` is `X` itself — the identity)
          match ctx.ext.errFrom fr.ret x with
          | some (.ext "From::from" [.str X]) =>
            (match tryFromDecl (tableTys ctx.structs ctx.enums) fr.ret X ctx.fns with
             | some d =>
               (callDecl n ctx d .unit [x] st).bind fun rv st =>
                 match rv with
                 | .tuple [v, _] => .ret (.enumv "Err" [v]) st
                 | _ => .stuck "internal: callDecl result"
             | none => .ret (.enumv "Err" [x]) st)
          | o =>
          -- [errors] END
          .ret (.enumv "Err" [o.getD x]) st
        | .enumv "Some" [x] => .val x st
        | .enumv "None" [] => .ret (.enumv "None" []) st
        | _ => .stuck "? on a value that is neither a Result nor an Option"
    | .closure _ _ => .stuck "closure"
    | .macro name _ => runMacro ctx name [] st
    | .macroArgs name _ args =>
      (evalList n ctx fr args st).bind fun av st =>
        match av with
        | .tuple vs => runMacro ctx name vs st
        | _ => .stuck "internal: evalList result"
    -- loops: one unit of fuel per iteration (`evalWhile`, `evalFor`); `loop` is `while true`
    | .whileE c body => evalWhile n ctx fr c body st
    | .loopE body => evalWhile n ctx fr (.lit (.bool true)) body st
    | .forE pat it body =>
      (eval n ctx fr it st).bind fun iv st =>
        orStuck "for: no rule to iterate over this value" (iterItems iv) fun items =>
          evalFor n ctx fr pat body items st
    -- `lo..hi` is `Range { start: lo, end: hi }`, `lo..=hi` is `RangeInclusive` (std::ops)
    | .range (some lo) (some hi) incl =>
      (eval n ctx fr lo st).bind fun a st => (eval n ctx fr hi st).bind fun b st =>
        .val (.struct (if incl = true then "RangeInclusive" else "Range") [("end", b), ("start", a)]) st
    | .range _ _ _ => .stuck "half-open range"
    | .breakE none => .brk .unit st
    | .breakE (some e) => (eval n ctx fr e st).bind fun v st => .brk v st
    | .continueE => .cont st
    -- `a[i]` on an array / `Vec` / slice: bounds-checked (panic)
    | .index e i =>
      (eval n ctx fr e st).bind fun v st => (eval n ctx fr i st).bind fun iv st =>
        match v, iv with
        | .list vs, .int _ k => if k < 0 then .stuck "negative index" else orPanic (listGet vs k.toNat) fun w => .val w st
        | _, _ => .stuck "index: no rule for these operands"
    | .array es =>
      (evalList n ctx fr es st).bind fun av st =>
        match av with
        | .tuple vs => .val (.list vs) st
        | _ => .stuck "internal: evalList result"
    | .repeatE e k =>
      (eval n ctx fr e st).bind fun v st => (eval n ctx fr k st).bind fun kv st =>
        match kv with
        | .int _ k => if k < 0 then .stuck "negative array length" else .val (.list (List.replicate k.toNat v)) st
        | _ => .stuck "array length is not an integer"
    | .other _ => .stuck "expression without a rule"

/-- `while c { body }` (and `while let`, `loop`): evaluate the condition; if it holds run the body in
    the environment the condition left (an `if let`-style condition binds variables), pop back to the
    environment before the condition, and go on with ONE unit of fuel less.  The value of a loop that
    ends because its condition is false is `()`; `break v` ends it with `v`. -/
def evalWhile : Nat → Ctx → Frame → Expr → List Stmt → St → Res
  | 0, _, _, _, _, _ => .stuck "out of fuel"
  | n + 1, ctx, fr, c, body, st =>
    (eval n ctx fr c st).bind fun vc st' =>
      match vc with
      | .bool b =>
        if b = true then
          ((evalBlock n ctx fr body st').popTo st.env.length).loopNext fun st'' => evalWhile n ctx fr c body st''
        else .val .unit (st'.popTo st.env.length)
      | _ => .stuck "while on a non-bool"

/-- `for pat in items { body }`: one unit of fuel per item -/
def evalFor : Nat → Ctx → Frame → Pat → List Stmt → List Value → St → Res
  | 0, _, _, _, _, _, _ => .stuck "out of fuel"
  | _ + 1, _, _, _, _, [], st => .val .unit st
  | n + 1, ctx, fr, pat, body, v :: rest, st =>
    -- the pattern of a `for` is irrefutable (compiler-checked): the test is ignored
    orStuck "for: pattern without a rule" (matchPat n fr.selfTy pat v) fun (_, bs) =>
      ((evalBlock n ctx fr body { st with env := bs ++ st.env }).popTo st.env.length).loopNext
        fun st' => evalFor n ctx fr pat body rest st'

/-- [threads] apply the closure `|ps| body` to each item in turn (one unit of fuel per item), threading the state;
    the closure's values come back as a `list`.  The closure is applied as in the `Option`/`Result` methods: its
    parameters are bound in the current environment and popped afterwards, `return` returns from the closure. -/
def evalEach : Nat → Ctx → Frame → List Pat → Expr → List Value → St → Res
  | 0, _, _, _, _, _, _ => .stuck "out of fuel"
  | _ + 1, _, _, _, _, [], st => .val (.list []) st
  | n + 1, ctx, fr, ps, body, v :: rest, st =>
    orStuck "closure: arguments do not fit the parameters" (matchPat.matchPats n fr.selfTy ps [v]) fun (_, bs) =>
      (((eval n ctx fr body { st with env := bs ++ st.env }).on (fun v st => .val v st) (fun v st => .val v st)).popTo
        st.env.length).bind fun r st' =>
          (evalEach n ctx fr ps body rest st').bind fun rs st'' =>
            match rs with
            | .list rs => .val (.list (r :: rs)) st''
            | _ => .stuck "internal: evalEach result"

/-- a list of expressions, left to right; the values come back as a `tuple` -/
def evalList : Nat → Ctx → Frame → List Expr → St → Res
  | 0, _, _, _, _ => .stuck "out of fuel"
  | _ + 1, _, _, [], st => .val (.tuple []) st
  | n + 1, ctx, fr, e :: es, st =>
    (eval n ctx fr e st).bind fun v st =>
      (evalList n ctx fr es st).bind fun vs st =>
        match vs with
        | .tuple vs => .val (.tuple (v :: vs)) st
        | _ => .stuck "internal: evalList result"

/-- the field initialisers of a struct literal, in the order written; result: an unsorted `struct` -/
def evalFields : Nat → Ctx → Frame → List (String × Expr) → St → Res
  | 0, _, _, _, _ => .stuck "out of fuel"
  | _ + 1, _, _, [], st => .val (.struct "" []) st
  | n + 1, ctx, fr, (k, e) :: es, st =>
    (eval n ctx fr e st).bind fun v st =>
      (evalFields n ctx fr es st).bind fun vs st =>
        match vs with
        | .struct _ fs => .val (.struct "" ((k, v) :: fs)) st
        | _ => .stuck "internal: evalFields result"

/-- statements; the value of a block is its trailing expression (else `()`).  The caller pops the
    variables the block introduced. -/
def evalBlock : Nat → Ctx → Frame → List Stmt → St → Res
  | 0, _, _, _, _ => .stuck "out of fuel"
  | _ + 1, _, _, [], st => .val .unit st
  | n + 1, ctx, fr, s :: rest, st =>
    match s with
    | .expr e semi =>
      match rest with
      -- the trailing expression (without `;`) is the value of the block
      | [] => if semi = true then (eval n ctx fr e st).bind fun _ st => .val .unit st else eval n ctx fr e st
      | r :: rs => (eval n ctx fr e st).bind fun _ st => evalBlock n ctx fr (r :: rs) st
    | .letS pat ty (some init) none =>
      (eval n ctx fr init st).bind fun v st =>
        orStuck "let: value does not fit the declared type" (ascribe (ty.getD "") v) fun v' =>
          -- a plain `let` only accepts irrefutable patterns (compiler-checked): the test is ignored
          -- [shm] `letValue`: a declared raw-pointer type may retype an object of the dictionary (`Ext.letPtr`)
          orStuck "let: pattern without a rule" (matchPat n fr.selfTy pat (letValue ctx.ext ty v')) fun (_, bs) =>
            evalBlock n ctx fr rest { st with env := bs ++ st.env }
    | .letS _ _ none _ => .stuck "let without initialiser"
    | .letS pat ty (some init) (some els) =>
      -- `let PAT = e else { diverge };`: the else block must not complete normally (compiler-checked)
      (eval n ctx fr init st).bind fun v st =>
        orStuck "let: value does not fit the declared type" (ascribe (ty.getD "") v) fun v' =>
          orStuck "let: pattern without a rule" (matchPat n fr.selfTy pat v') fun (b, bs) =>
            if b = true then evalBlock n ctx fr rest { st with env := bs ++ st.env }
            else (eval n ctx fr els st).bind fun _ _ => .stuck "let-else: the else block completed"
    | .constS name ty init =>
      (eval n ctx fr init { st with env := [] }).bind fun v st' =>
        orStuck "const: value does not fit the declared type" (ascribe ty v) fun v' =>
          evalBlock n ctx fr rest { st' with env := (name, v') :: st.env }
    | .macro name _ => (runMacro ctx name [] st).bind fun _ st => evalBlock n ctx fr rest st
    -- [errors] `use E::*;` for an enum `E` of the tables: no effect at run time; the variants of `E` are in scope
    -- as bare identifiers in the rest of the block (recorded under the name `{use}`, see `globVariant`)
    | .item text =>
      match useGlobEnum ctx.enums text with
      | some t => evalBlock n ctx fr rest { st with env := ("{use}", .str t) :: st.env }
      | none => .stuck "nested item"

/-- match arms, first match wins; a guard is evaluated with the bindings of its pattern -/
def evalArms : Nat → Ctx → Frame → List Arm → Value → St → Res
  | 0, _, _, _, _, _ => .stuck "out of fuel"
  | _ + 1, _, _, [], _, _ => .stuck "no match arm applies"
  | n + 1, ctx, fr, .mk pat guard body :: rest, v, st =>
    orStuck "match: pattern without a rule" (matchPat n fr.selfTy pat v) fun (b, bs) =>
      if b = true then
        match guard with
        | none => (eval n ctx fr body { st with env := bs ++ st.env }).popTo st.env.length
        | some g =>
          (eval n ctx fr g { st with env := bs ++ st.env }).bind fun gv st' =>
            match gv with
            | .bool c =>
              if c = true then (eval n ctx fr body st').popTo st.env.length
              else evalArms n ctx fr rest v (st'.popTo st.env.length)
            | _ => .stuck "match guard on a non-bool"
      else evalArms n ctx fr rest v st

/-- call of a function of `fns`: a fresh environment with `self` and the parameters; the result is
    `tuple [return value, final self]`, in the caller's environment. -/
def callDecl : Nat → Ctx → FnDecl → Value → List Value → St → Res
  | 0, _, _, _, _, _ => .stuck "out of fuel"
  | n + 1, ctx, d, self, args, st =>
    -- [poller] a function that declares a `&mut T` parameter is called by `callDeclRef` (below); for every other
    -- function the rule is the one that was there before, unchanged
    if hasMutRefParam d.params = true then callDeclRef n ctx d self args st else
    orStuck "call: arguments do not fit the parameters" (bindParams n d.selfTy d.params args) fun bs =>
      let env := if d.self = .none then bs else bs ++ [("self", self)]
      let finish := fun (v : Value) (st' : St) =>
        orStuck "call: result does not fit the declared type" (ascribe d.ret v) fun v' =>
          .val (.tuple [v', (envGet st'.env "self").getD .unit]) { st' with env := st.env }
      (evalBlock n ctx ⟨d.module, d.selfTy, d.ret⟩ d.body { st with env := env }).on finish finish

-- [poller] begin
/-- `callDecl` for a function with a `&mut T` parameter (one more unit of fuel): an argument `&mut x` stands for
    the value of the caller's `x` (`derefArgs`), and the callee's final value of the parameter is stored back
    into `x` on return (`writeBackArgs`); otherwise as `callDecl`.  Its equations are NOT in the simp set of
    `Proofs/RsEval.lean`; the group that needs them registers them (`Proofs/RsNow.lean`). -/
def callDeclRef : Nat → Ctx → FnDecl → Value → List Value → St → Res
  | 0, _, _, _, _, _ => .stuck "out of fuel"
  | n + 1, ctx, d, self, args, st =>
    orStuck "call: &mut argument of something that is not a local variable" (derefArgs st.env args) fun args' =>
    orStuck "call: arguments do not fit the parameters" (bindParams n d.selfTy d.params args') fun bs =>
      let env := if d.self = .none then bs else bs ++ [("self", self)]
      let finish := fun (v : Value) (st' : St) =>
        orStuck "call: result does not fit the declared type" (ascribe d.ret v) fun v' =>
          orStuck "call: &mut argument bound by a pattern" (writeBackArgs st'.env d.params args st.env) fun env' =>
          .val (.tuple [v', (envGet st'.env "self").getD .unit]) { st' with env := env' }
      (evalBlock n ctx ⟨d.module, d.selfTy, d.ret⟩ d.body { st with env := env }).on finish finish
-- [poller] end

end

/-! ## 4. Running a function of the table -/

inductive Outcome
  /-- return value, final `self` (`unit` for functions without receiver), effect log -/
  | ok (ret : Value) (self : Value) (log : List Value)
  | panic
  | stuck (msg : String)
deriving Repr, Inhabited

def Res.outcome : Res → Outcome
  | .val (.tuple [v, s]) st => .ok v s st.log
  | .val _ _ => .stuck "internal: callDecl result"
  | .ret _ _ => .stuck "internal: return escaped the function"
  | .panic => .panic
  | .stuck m => .stuck m
  | .brk _ _ => .stuck "internal: break escaped the function"
  | .cont _ => .stuck "internal: continue escaped the function"

/-- fuel that suffices for every loop-free function of the translated files (depth, not length) -/
def defaultFuel : Nat := 200

/-- run the function registered under `name` on `self` (use `.unit` without receiver) and `args`, with
    the given fuel: a function with a loop needs (number of iterations) + (depth), see `Proofs/RsLoop.lean` -/
def runFuel (fuel : Nat) (ctx : Ctx) (name : String) (self : Value) (args : List Value) : Outcome :=
  match ctx.fns.lookup name with
  | none => .stuck "no such function"
  | some d => (callDecl fuel ctx d self args { env := [], log := [], pos := 0 }).outcome

/-- `runFuel` with the default fuel -/
def run (ctx : Ctx) (name : String) (self : Value) (args : List Value) : Outcome :=
  runFuel defaultFuel ctx name self args

/-- evaluate one expression of a function of module `module` (impl self type `selfTy`) with the given
    local variables; used where the logic of interest is a sub-expression of a function that the
    interpreter cannot run as a whole (`main`) -/
def evalIn (ctx : Ctx) (module selfTy : String) (e : Expr) (env : List (String × Value)) : Res :=
  eval defaultFuel ctx ⟨module, selfTy, ""⟩ e { env := env, log := [], pos := 0 }

/-- initialiser of the first top-level `let <name> = ..;` of a function body -/
def findLet (name : String) : List Stmt → Option Expr
  | [] => none
  | s :: rest =>
    match s with
    | .letS (.bind x) _ (some e) none => if x = name then some e else findLet name rest
    | _ => findLet name rest

/-- condition and body of the first top-level `while` statement of a function body (the loop lemmas of
    `Proofs/RsLoop.lean` are stated about these, so that a statement does not refer to a position) -/
def findWhile : List Stmt → Option (Expr × List Stmt)
  | [] => none
  | s :: rest =>
    match s with
    | .expr (.whileE c b) _ => some (c, b)
    | _ => findWhile rest

end ClockBound.Rs
