/-
  Simp sets used by the proofs of the translation tie:
  * `rs_code`: unfolding lemmas emitted by the translator next to every generated declaration;
  * `rs_eval`: the equations of the interpreter (`ClockBound/Rs/Interp.lean`) and of its dictionary.

  `rs_register_eqns f g ..` adds the *equation lemmas* `f.eq_1, f.eq_2, ..` of the given functions to
  `rs_eval`.  (The interpreter recurses on a fuel counter; `simp [eval]` would unfold `eval 199 .. e ..`
  for a variable `e` as well and never stop, whereas the equation lemmas only fire on a constructor.)
-/
import Lean.Meta.Tactic.Simp.RegisterCommand
import Lean.Elab.Command

/-- unfolding lemmas of `ClockBound.Generated.Code` (emitted by the translator) -/
register_simp_attr rs_code

/-- equations of the Rust-fragment interpreter -/
register_simp_attr rs_eval

/-- the equations that unfold ONE iteration of a loop (`evalWhile`, `evalFor`): kept out of `rs_eval` so
    that normalising a function stops at its loops; add `rs_loop` to unroll a loop with a concrete
    number of iterations -/
register_simp_attr rs_loop

open Lean Meta Elab Command in
/-- add all equation lemmas of the given functions to the simp set `rs_eval` -/
elab "rs_register_eqns " ids:ident+ : command => do
  for id in ids do
    let declName ← liftCoreM <| realizeGlobalConstNoOverloadWithInfo id
    let some eqns ← liftTermElabM <| getEqnsFor? declName
      | throwError "no equation lemmas for {declName}"
    let some ext ← liftCoreM <| getSimpExtension? `rs_eval
      | throwError "simp set rs_eval is not registered"
    for e in eqns do
      liftTermElabM <| addSimpTheorem ext e (post := true) (inv := false) AttributeKind.global (prio := 1000)

open Lean Meta Elab Command in
/-- add all equation lemmas of the given functions to the simp set `rs_loop` -/
elab "rs_register_loop_eqns " ids:ident+ : command => do
  for id in ids do
    let declName ← liftCoreM <| realizeGlobalConstNoOverloadWithInfo id
    let some eqns ← liftTermElabM <| getEqnsFor? declName
      | throwError "no equation lemmas for {declName}"
    let some ext ← liftCoreM <| getSimpExtension? `rs_loop
      | throwError "simp set rs_loop is not registered"
    for e in eqns do
      liftTermElabM <| addSimpTheorem ext e (post := true) (inv := false) AttributeKind.global (prio := 1000)
