/-
  Helper lemmas about the poller model (Model/Poller.lean) shared by C13 and C12d.
-/
import ClockBound.Model.Poller
namespace ClockBound

/-- saturation of `Instant::elapsed` is invisible to the `< 5 s` comparison -/
theorem Poller.elapsed_lt_grace_iff (last now : Int) :
    Poller.elapsed last now < GRACE_NS ↔ now - last < GRACE_NS := by
  unfold Poller.elapsed GRACE_NS
  split <;> omega

theorem PollerState.withinGrace_iff (s : PollerState) (tGrace : Int) :
    s.withinGrace tGrace = true ↔ tGrace - s.lastGood < GRACE_NS := by
  unfold PollerState.withinGrace
  rw [decide_eq_true_iff]
  exact Poller.elapsed_lt_grace_iff _ _

theorem PollerState.withinGrace_false_iff (s : PollerState) (tGrace : Int) :
    s.withinGrace tGrace = false ↔ GRACE_NS ≤ tGrace - s.lastGood := by
  rw [← Bool.not_eq_true, PollerState.withinGrace_iff]
  omega

/-- a silent iteration (no reply, or a reply that is not Tracking) -/
theorem pollStep_silence (s : PollerState) (asOf : TimeSpec) (reply : ReplyKind) (tReply tGrace : Int)
    (phc : Option PhcCfg) (h : reply.isSilence = true) :
    pollStep s asOf reply tReply tGrace phc = (s, if s.withinGrace tGrace then .nrGrace else .nr) := by
  cases reply with
  | tracking t => simp [ReplyKind.isSilence] at h
  | none => rfl
  | other => rfl

/-- an accepted Tracking reply always refreshes `last_tracking_data` -/
theorem pollStep_tracking_state (s : PollerState) (asOf : TimeSpec) (t : Tracking) (tReply tGrace : Int)
    (phc : Option PhcCfg) : (pollStep s asOf (.tracking t) tReply tGrace phc).1 = ⟨tReply⟩ := by
  unfold pollStep
  simp only []
  cases phc with
  | none => rfl
  | some cfg =>
    simp only []
    split
    · cases cfg.file.read with
      | none => rfl
      | some o => cases o <;> rfl
    · rfl

/-- the poller's state is the spec's ghost: acceptance time of the latest Tracking reply, or the
    initial value `base` -/
theorem PollIter.step_lastGood (refid : Option Nat) (s : PollerState) (it : PollIter)
    (acc : Option Int) (base : Int) (h : s.lastGood = acc.getD base) :
    (it.step refid s).1.lastGood = (C13.accept acc it).getD base := by
  unfold PollIter.step C13.accept
  cases hr : it.reply with
  | tracking t => rw [pollStep_tracking_state]; rfl
  | none => rw [pollStep_silence _ _ _ _ _ _ rfl]; exact h
  | other => rw [pollStep_silence _ _ _ _ _ _ rfl]; exact h

theorem Poller.stateAfter_lastGood (refid : Option Nat) (pre : List PollIter) :
    ∀ (s : PollerState) (acc : Option Int) (base : Int), s.lastGood = acc.getD base →
      (Poller.stateAfter refid s pre).lastGood = (pre.foldl C13.accept acc).getD base := by
  induction pre with
  | nil => intro s acc base h; exact h
  | cons it rest ih =>
    intro s acc base h
    unfold Poller.stateAfter
    rw [List.foldl_cons, List.foldl_cons]
    exact ih _ _ _ (PollIter.step_lastGood refid s it acc base h)

theorem Poller.stateAfter_init (tStart : Int) (refid : Option Nat) (pre : List PollIter) :
    (Poller.stateAfter refid (Poller.init tStart) pre).lastGood
      = (C13.lastAccepted pre).getD (tStart - GRACE_NS) :=
  Poller.stateAfter_lastGood refid pre (Poller.init tStart) none (tStart - GRACE_NS) rfl

/-- a run without panic in its prefix continues from the state after the prefix -/
theorem Poller.runFrom_append (refid : Option Nat) (pre post : List PollIter) :
    ∀ s : PollerState, PollMsg.panic ∉ Poller.runFrom refid s pre →
      Poller.runFrom refid s (pre ++ post)
        = Poller.runFrom refid s pre ++ Poller.runFrom refid (Poller.stateAfter refid s pre) post := by
  induction pre with
  | nil => intro s _; rfl
  | cons it rest ih =>
    intro s h
    simp only [List.cons_append, Poller.runFrom] at h ⊢
    by_cases hp : (it.step refid s).2 = .panic
    · simp [hp] at h
    · simp only [hp, if_false] at h ⊢
      rw [List.mem_cons, not_or] at h
      rw [ih _ h.2]
      rfl

theorem Poller.runFrom_length_le (refid : Option Nat) (its : List PollIter) :
    ∀ s : PollerState, (Poller.runFrom refid s its).length ≤ its.length := by
  induction its with
  | nil => intro s; simp [Poller.runFrom]
  | cons it rest ih =>
    intro s
    simp only [Poller.runFrom]
    split
    · simp
    · simp only [List.length_cons]; have := ih (it.step refid s).1; omega

theorem Poller.runFrom_length_of_no_panic (refid : Option Nat) (its : List PollIter) :
    ∀ s : PollerState, PollMsg.panic ∉ Poller.runFrom refid s its →
      (Poller.runFrom refid s its).length = its.length := by
  induction its with
  | nil => intro s _; rfl
  | cons it rest ih =>
    intro s h
    simp only [Poller.runFrom] at h ⊢
    by_cases hp : (it.step refid s).2 = .panic
    · simp [hp] at h
    · simp only [hp, if_false] at h ⊢
      rw [List.mem_cons, not_or] at h
      simp only [List.length_cons, ih _ h.2]

/-- readings are non-decreasing: every element after the head is at least the head -/
theorem nonDecreasing_head_le : ∀ (l : List Int) (a : Int), nonDecreasing (a :: l) = true →
    ∀ x ∈ l, a ≤ x := by
  intro l
  induction l with
  | nil => intro a _ x hx; cases hx
  | cons b rest ih =>
    intro a h x hx
    simp only [nonDecreasing, Bool.and_eq_true, decide_eq_true_eq] at h
    rcases List.mem_cons.1 hx with rfl | hx
    · exact h.1
    · exact Int.le_trans h.1 (ih b h.2 x hx)

theorem nonDecreasing_tail : ∀ (l : List Int) (a : Int), nonDecreasing (a :: l) = true →
    nonDecreasing l = true := by
  intro l a h
  cases l with
  | nil => rfl
  | cons b rest =>
    simp only [nonDecreasing, Bool.and_eq_true] at h
    exact h.2

/-- in a non-decreasing list, an element of a prefix is at most an element of the rest -/
theorem nonDecreasing_append_le : ∀ (l₁ l₂ : List Int), nonDecreasing (l₁ ++ l₂) = true →
    ∀ x ∈ l₁, ∀ y ∈ l₂, x ≤ y := by
  intro l₁
  induction l₁ with
  | nil => intro _ _ x hx; cases hx
  | cons a rest ih =>
    intro l₂ h x hx y hy
    rcases List.mem_cons.1 hx with rfl | hx
    · exact nonDecreasing_head_le (rest ++ l₂) x h y (List.mem_append.2 (Or.inr hy))
    · exact ih l₂ (nonDecreasing_tail _ _ h) x hx y hy

/-- the acceptance time of the latest Tracking reply is one of the run's readings -/
theorem C13.foldl_accept_mem (refid : Option Nat) (pre : List PollIter) :
    ∀ (acc : Option Int) (tL : Int), pre.foldl C13.accept acc = some tL →
      acc = some tL ∨ tL ∈ pre.flatMap (PollIter.readings refid) := by
  induction pre with
  | nil => intro acc tL h; exact Or.inl h
  | cons it rest ih =>
    intro acc tL h
    rw [List.foldl_cons] at h
    rcases ih _ _ h with h1 | h1
    · unfold C13.accept at h1
      cases hr : it.reply with
      | tracking t =>
        rw [hr] at h1
        simp only [Option.some.injEq] at h1
        right
        rw [List.flatMap_cons, List.mem_append]
        left
        unfold PollIter.readings
        rw [hr]
        simp [h1]
      | none => rw [hr] at h1; exact Or.inl h1
      | other => rw [hr] at h1; exact Or.inl h1
    · right
      rw [List.flatMap_cons, List.mem_append]
      exact Or.inr h1

/-! ### the C13 oracle on the model's own run (used by `C13.model_holds`) -/
namespace C13

theorem holdsIter_step (tStart : Int) (refid : Option Nat) (last : Option Int) (s : PollerState)
    (it : PollIter) (h : s.lastGood = last.getD (tStart - GRACE_NS)) :
    HoldsIter tStart refid last it (it.step refid s).2 = true := by
  unfold HoldsIter PollIter.step
  cases hr : it.reply with
  | tracking t =>
    simp only []
    cases refid with
    | none => simp [refMatches, PollIter.phc, pollStep]
    | some r =>
      by_cases hm : r = t.refid
      · simp only [refMatches, hm, decide_true, if_true, PollIter.phc, Option.map_some, pollStep]
        cases hf : it.file with
        | ok v =>
          by_cases hv : inI64 v = true
          · simp [PhcFile.read, hv]
          · simp [PhcFile.read, hv, PollMsg.isData]
        | unreadable =>
          simp only [PhcFile.read]
          cases hg : PollerState.withinGrace ⟨it.tReply⟩ it.tGrace
          · have := (PollerState.withinGrace_false_iff _ _).1 hg
            simpa using this
          · have := (PollerState.withinGrace_iff _ _).1 hg
            simpa using this
        | unparsable => simp [PhcFile.read, PollMsg.isData]
      · simp [refMatches, hm, PollIter.phc, pollStep]
  | none =>
    rw [pollStep_silence _ _ _ _ _ _ rfl]
    simp only []
    cases hg : s.withinGrace it.tGrace
    · have := (PollerState.withinGrace_false_iff _ _).1 hg
      cases last with
      | none => simp
      | some tL => simp only [Option.getD_some] at h; rw [h] at this; simpa using this
    · have := (PollerState.withinGrace_iff _ _).1 hg
      cases last with
      | none => simp only [Option.getD_none] at h; rw [h] at this; simp; unfold GRACE_NS at this; omega
      | some tL => simp only [Option.getD_some] at h; rw [h] at this; simpa using this
  | other =>
    rw [pollStep_silence _ _ _ _ _ _ rfl]
    simp only []
    cases hg : s.withinGrace it.tGrace
    · have := (PollerState.withinGrace_false_iff _ _).1 hg
      cases last with
      | none => simp
      | some tL => simp only [Option.getD_some] at h; rw [h] at this; simpa using this
    · have := (PollerState.withinGrace_iff _ _).1 hg
      cases last with
      | none => simp only [Option.getD_none] at h; rw [h] at this; simp; unfold GRACE_NS at this; omega
      | some tL => simp only [Option.getD_some] at h; rw [h] at this; simpa using this

theorem holdsFrom_runFrom (tStart : Int) (refid : Option Nat) (its : List PollIter) :
    ∀ (last : Option Int) (s : PollerState), s.lastGood = last.getD (tStart - GRACE_NS) →
      HoldsFrom tStart refid last its (Poller.runFrom refid s its) = true := by
  induction its with
  | nil => intro _ _ _; rfl
  | cons it rest ih =>
    intro last s h
    simp only [Poller.runFrom]
    by_cases hp : (it.step refid s).2 = .panic
    · simp only [hp, if_true, HoldsFrom, Bool.and_eq_true, List.isEmpty_nil, and_true]
      rw [← hp]; exact holdsIter_step tStart refid last s it h
    · simp only [hp, if_false, HoldsFrom, Bool.and_eq_true]
      exact ⟨holdsIter_step tStart refid last s it h,
        ih _ _ (PollIter.step_lastGood refid s it last _ h)⟩

end C13

end ClockBound
