/-
  Proofs of the translation tie for the two client libraries, part: status conversion, default error, close (statements in
  `Properties/CodeTieErrors.lean`).  Method: case split on the model values, then
  `simp [rs_eval, rs_code, <embeddings>]` normalises the interpreter on the generated AST.
-/
import ClockBound.Proofs.RsErrors
set_option linter.unusedSimpArgs false
namespace ClockBound.Rs.ErrorsProof
open ClockBound ClockBound.Rs ClockBound.Generated ClockBound.Rs.DictErrors ClockBound.Rs.EmbedErrors

set_option maxRecDepth 8000 in
set_option maxHeartbeats 4000000 in
theorem ffi_status_from (inp : Nat → Value) (st : Status) :
    run (ctxE inp) "From<ClockStatus> for clockbound_clock_status::from" .unit [statusValue st]
    = .ok (ffiStatusValue st) .unit [] := by
  cases st <;> simp [rs_eval, rs_code, clientFns, shmErrorValue, clientErrValue, ffiErrValue, ShmErrorV.toClient, clientKindValue, ffiKindValue, ffiKindName, snapResValue, boundResValue, openResValue, resultValue, clientValue, ctxValue, boundValue, recordValue, ctimespecValue, nowCalls, clientNow, clientOpen, firstErr, rustNowOutcome, rustNowValue, ffiNowOutcome, ffiNowValue, ffiStatusValue, ffiStatusName, userTypeName_status, primMethod_status_into]

set_option maxRecDepth 8000 in
set_option maxHeartbeats 4000000 in
theorem ffi_default (inp : Nat → Value) :
    run (ctxE inp) "Default for clockbound_err::default" .unit []
    = .ok (ffiErrValue ⟨.none, 0, none⟩) .unit [] := by
  simp [rs_eval, rs_code, clientFns, shmErrorValue, clientErrValue, ffiErrValue, ShmErrorV.toClient, clientKindValue, ffiKindValue, ffiKindName, snapResValue, boundResValue, openResValue, resultValue, clientValue, ctxValue, boundValue, recordValue, ctimespecValue, nowCalls, clientNow, clientOpen, firstErr, rustNowOutcome, rustNowValue, ffiNowOutcome, ffiNowValue, ffiStatusValue, ffiStatusName, userTypeName_status, primMethod_status_into]

set_option maxRecDepth 8000 in
set_option maxHeartbeats 4000000 in
theorem ffi_close (inp : Nat → Value) (c : Value) :
    run (ctxE inp) "ffi_lib::clockbound_close" .unit [heapPtr c]
    = .ok nullPtr .unit [evDrop c] := by
  simp [rs_eval, rs_code, clientFns, shmErrorValue, clientErrValue, ffiErrValue, ShmErrorV.toClient, clientKindValue, ffiKindValue, ffiKindName, snapResValue, boundResValue, openResValue, resultValue, clientValue, ctxValue, boundValue, recordValue, ctimespecValue, nowCalls, clientNow, clientOpen, firstErr, rustNowOutcome, rustNowValue, ffiNowOutcome, ffiNowValue, ffiStatusValue, ffiStatusName, userTypeName_status, primMethod_status_into]

set_option maxRecDepth 8000 in
set_option maxHeartbeats 4000000 in
theorem ffi_close_null (inp : Nat → Value) :
    (run (ctxE inp) "ffi_lib::clockbound_close" .unit [nullPtr]).isStuck = true := by
  simp [rs_eval, rs_code, clientFns, Outcome.isStuck]

set_option maxRecDepth 8000 in
set_option maxHeartbeats 4000000 in
theorem ffi_now_null (inp : Nat → Value) :
    (run (ctxE inp) "ffi_lib::clockbound_now" .unit [nullPtr, outPtr "output"]).isStuck = true := by
  simp [rs_eval, rs_code, clientFns, Outcome.isStuck]

end ClockBound.Rs.ErrorsProof
