/- chrony poller iteration: a Tracking reply whose reference is the PHC, sysfs file readable (see `Proofs/RsPoller.lean`) -/
import ClockBound.Proofs.RsPoller
namespace ClockBound.Rs.PollerProof
open ClockBound ClockBound.Rs ClockBound.Generated ClockBound.Rs.DictPoller ClockBound.Rs.NowProof

set_option maxRecDepth 8000 in
set_option maxHeartbeats 4000000 in
theorem iter_phc_ok (e : IterEnv) (s : PollerState) (coarse : TimeSpec) (t : Tracking) (tReply tGrace : Int)
    (v : Int) (hv : inI64 v = true) : IterStmt e s coarse (.tracking t) tReply tGrace (some t.refid) (.ok v) := by
  have hv' : -9223372036854775808 ≤ v ∧ v ≤ 9223372036854775807 := by
    by_contra h
    simp [inI64, I64_MIN, I64_MAX, h] at hv
  obtain ⟨hv1, hv2⟩ := hv'
  iter_start
  obtain ⟨h0, h1, h2, h3, h4, h5⟩ := hin
  poll_tie
  poll_finish

set_option maxRecDepth 8000 in
set_option maxHeartbeats 4000000 in
theorem iter_phc_range (e : IterEnv) (s : PollerState) (coarse : TimeSpec) (t : Tracking) (tReply tGrace : Int)
    (v : Int) (hv : inI64 v = false) : IterStmt e s coarse (.tracking t) tReply tGrace (some t.refid) (.ok v) := by
  have hv' : ¬ (-9223372036854775808 ≤ v ∧ v ≤ 9223372036854775807) := by
    intro h
    simp [inI64, I64_MIN, I64_MAX, h] at hv
  iter_start
  obtain ⟨h0, h1, h2, h3⟩ := hin
  poll_tie

set_option maxRecDepth 8000 in
set_option maxHeartbeats 4000000 in
theorem iter_phc_garbage (e : IterEnv) (s : PollerState) (coarse : TimeSpec) (t : Tracking) (tReply tGrace : Int) :
    IterStmt e s coarse (.tracking t) tReply tGrace (some t.refid) .unparsable := by
  iter_start
  obtain ⟨h0, h1, h2, h3⟩ := hin
  poll_tie

end ClockBound.Rs.PollerProof
