/-
  Helper lemmas for `Properties/OnCodeErrors.lean` / `Properties/OnCodeOpen.lean` (the properties C14, C16, C17
  stated about the source of the two client libraries):
  * the open functions on a reader that is a STRUCT value (what the interpreted `ShmReader::new` returns:
    `EmbedShm.freshReaderValue`), where `CodeTieErrors.rust_open_eq` / `ffi_open_eq` name the reader by an opaque
    handle — same dictionary, same proof method, the reader is only moved;
  * `recodeResult`: the groups `Shm` and `Errors` represent two library types differently
    (`errno::Errno(e)`: `.ext "Errno" [e]` vs the 1-tuple `[e]`; the `&'static CStr` origin: `.str o` vs
    `cstr (.str o)`); `recodeResult` maps a `Result<_, ShmError>` of the former representation to the latter.
-/
import ClockBound.Proofs.RsErrors
import ClockBound.Rs.EmbedShm
set_option linter.unusedSimpArgs false
namespace ClockBound.Rs.ErrorsProof
open ClockBound ClockBound.Rs ClockBound.Generated ClockBound.Rs.DictErrors ClockBound.Rs.EmbedErrors

/-- `ClockBoundClient { reader }` for a reader given as a value -/
def clientOf (rd : Value) : Value := .struct "ClockBoundClient" [("reader", rd)]

/-- `clockbound_ctx { err, reader }` for a reader given as a value -/
def ctxOf (err rd : Value) : Value := .struct "clockbound_ctx" [("err", err), ("reader", rd)]

set_option maxRecDepth 8000 in
set_option maxHeartbeats 4000000 in
theorem rust_open_ok_struct (inp : Nat → Value) (path : String) (fs : List (String × Value))
    (hs : path.contains (Char.ofNat 0) = false) (h0 : inp 0 = .enumv "Ok" [.struct "ShmReader" fs]) :
    run (ctxE inp) "ClockBoundClient::new_with_path" .unit [.str path]
    = .ok (.enumv "Ok" [clientOf (.struct "ShmReader" fs)]) .unit [evOpen (cstr (.str path)) (inp 0)] := by
  simp [rs_eval, rs_code, clientFns, hs, h0, clientOf]

set_option maxRecDepth 8000 in
set_option maxHeartbeats 4000000 in
theorem ffi_open_ok_struct (inp : Nat → Value) (path : Value) (errNull : Bool) (fs : List (String × Value))
    (h0 : inp 0 = .enumv "Ok" [.struct "ShmReader" fs]) :
    run (ctxE inp) "ffi_lib::clockbound_open" .unit [cptr path, errArg errNull]
    = .ok (heapPtr (ctxOf (ffiErrValue ⟨.none, 0, none⟩) (.struct "ShmReader" fs))) .unit [evOpen (cstr path) (inp 0)] := by
  cases errNull <;> simp [rs_eval, rs_code, clientFns, h0, ctxOf, errArg, ffiErrValue, ffiKindValue, ffiKindName]

/-! ### the two representations of `ShmError` -/

/-- `ShmError` of the group `Shm` (`EmbedShm.shmErrValue`) ↦ the same value as the group `Errors` writes it -/
def recodeErr : Value → Value
  | .enumv "ShmError::SyscallError" [.ext "Errno" [e], .str o] => .enumv "ShmError::SyscallError" [.tuple [e], cstr (.str o)]
  | v => v

/-- `Result<T, ShmError>`: the error recoded, `Ok(_)` unchanged -/
def recodeResult : Value → Value
  | .enumv "Err" [e] => .enumv "Err" [recodeErr e]
  | v => v

theorem recodeErr_shmErrValue (e : ShmErr) : recodeErr (EmbedShm.shmErrValue e) = shmErrorValue e.full := by
  cases e <;> simp [recodeErr, EmbedShm.shmErrValue, DictShm.errnoValue, shmErrorValue, ShmErr.full, errnoValue, cstr]

theorem recodeResult_openValue (r : Except ShmErr Header) :
    recodeResult (EmbedShm.openValue r) =
      (match r with
       | .ok h => .enumv "Ok" [EmbedShm.freshReaderValue h.segsize]
       | .error e => .enumv "Err" [shmErrorValue e.full]) := by
  cases r with
  | ok h => simp [recodeResult, EmbedShm.openValue]
  | error e => simp [recodeResult, EmbedShm.openValue, recodeErr_shmErrValue]

end ClockBound.Rs.ErrorsProof
