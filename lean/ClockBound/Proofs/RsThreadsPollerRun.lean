/-
  The poller's entry function `chrony_poller::run`: start-up (`ClockErrorBoundPoller::default()`: the monotonic clock
  minus the grace period; the 1 s sleep), then the loop function, whose call is rewritten with `poller_loop_tie`
  (hidden behind `pollerLoopCall` while its arguments are symbolic, as `bcastCall` in `RsThreadsMain.lean`).
-/
import ClockBound.Proofs.RsThreadsPoller
namespace ClockBound.Rs.ThreadsProof
open ClockBound ClockBound.Rs ClockBound.Generated ClockBound.Rs.DictThreads ClockBound.Rs.EmbedThreads
open ClockBound.Rs.EmbedWorkers ClockBound.Threads

def pollerLoopCall (N : Nat) (ctx : Ctx) (s : Value) (a : List Value) (st : St) : Res :=
  callDecl N ctx Code.fn_chrony_poller__run_clock_error_bound_poller s a st

theorem pollerLoopCall_wrap (N : Nat) (ctx : Ctx) (s : Value) (a : List Value) (st : St) :
    callDecl N ctx Code.fn_chrony_poller__run_clock_error_bound_poller s a st = pollerLoopCall N ctx s a st := rfl

theorem ascribe_contextValue (ty : String) (c : Thread) (ks : List Thread) :
    ascribe ty (contextValue c ks) = some (contextValue c ks) := rfl

/-- `poller_loop_tie` for every fuel ≥ k + 100 -/
theorem poller_loop_tie' (ks : List Thread) (fs : List (String × Value)) (phc : Option (Nat × Value)) (d : Int)
    (k : Nat) (it : Nat → PIter) (hcont : ∀ i, i < k → (it i).wait.continues = true)
    (hmiss : ∀ i, i < k → (it i).poll.phcMiss phc) (e : PEnd) (hmissE : e.poll.phcMiss phc)
    (hsend : ∀ p, e = .sendFailed p → p.sends = true)
    (nowNs : Int) (inp : Nat → Value) (env : List (String × Value)) (log : List Value) (pos : Nat)
    (hin : inputsAt inp pos (loopInputs k it e)) (N : Nat) (hN : k + 100 ≤ N) :
    pollerLoopCall N (pollerCtx nowNs inp) .unit
      [contextValue .poller ks, .struct "ClockErrorBoundPoller" fs, phcValue phc, .duration d] ⟨env, log, pos⟩
    = loopResult e env (log ++ loopEvents d k it e) (pos + (inputsBefore it k + e.inputs.length)) := by
  obtain ⟨F, rfl⟩ : ∃ F, N = F + k + 100 := ⟨N - k - 100, by omega⟩
  exact poller_loop_tie ks fs phc d k F it hcont hmiss e hmissE hsend nowNs inp env log pos hin

/-- what start-up reads: `Instant::now()` and `checked_sub(CHRONY_RESTART_GRACE_PERIOD)` (which is `Some`) -/
def pollerStartInputs (i0 i1 : Value) : List Value := [.ext "Instant" [i0], .enumv "Some" [.ext "Instant" [i1]]]

def pollerStartEvents (i0 i1 : Value) : List Value :=
  [evOp "Instant::now" [] (.ext "Instant" [i0]),
   evOp "Instant::checked_sub" [.ext "Instant" [i0], .duration 5000000000] (.enumv "Some" [.ext "Instant" [i1]])]

/-- how the thread function ends: it returns (its Context is then dropped normally: `ThreadTerminate`), or it panics
    (dropped while unwinding: `ThreadPanic`) -/
def pollerOutcome (e : PEnd) (log : List Value) : Rs.Outcome :=
  match e with
  | .abort _ => .ok .unit .unit log
  | .sendFailed _ => .panic

set_option maxRecDepth 8000 in
set_option maxHeartbeats 4000000 in
theorem poller_run_tie (ks : List Thread) (phc : Option (Nat × Value)) (k F : Nat) (it : Nat → PIter)
    (hcont : ∀ i, i < k → (it i).wait.continues = true) (hmiss : ∀ i, i < k → (it i).poll.phcMiss phc)
    (e : PEnd) (hmissE : e.poll.phcMiss phc) (hsend : ∀ p, e = .sendFailed p → p.sends = true)
    (nowNs : Int) (inp : Nat → Value) (i0 i1 : Value)
    (hin : inputsAt inp 0 (pollerStartInputs i0 i1 ++ loopInputs k it e)) :
    runFuel (F + k + 200) (pollerCtx nowNs inp) "chrony_poller::run" .unit
      [contextValue .poller ks, phcValue phc]
    = pollerOutcome e (pollerStartEvents i0 i1 ++ loopEvents 1000000000 k it e) := by
  rw [inputsAt_append] at hin
  obtain ⟨hs, hl⟩ := hin
  have h0 : inp 0 = .ext "Instant" [i0] := hs.1
  have h1 : inp 1 = .enumv "Some" [.ext "Instant" [i1]] := hs.2.1
  have hl' : inputsAt inp 2 (loopInputs k it e) := hl
  simp [rs_eval, rs_code, abstractedP, ascribe_contextValue, h0, h1, ↓pollerLoopCall_wrap]
  rw [poller_loop_tie' ks _ phc 1000000000 k it hcont hmiss e hmissE hsend nowNs inp _ _ 2 hl' _ (by omega)]
  cases e <;> simp [rs_eval, loopResult, pollerOutcome, pollerStartEvents]

end ClockBound.Rs.ThreadsProof
