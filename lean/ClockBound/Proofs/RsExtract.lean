/-
  Proof of the translation tie for `extract_bound_from_tracking` (statement in
  `Properties/CodeTieExtract.lean`).  Same method as `Proofs/RsClient.lean`.
-/
import ClockBound.Proofs.RsLemmas
import ClockBound.Generated.Code
namespace ClockBound.Rs.ExtractProof
open ClockBound ClockBound.Rs ClockBound.Generated

set_option maxRecDepth 8000 in
set_option maxHeartbeats 2000000 in
theorem tie (t : Tracking) (now : Int) :
    run (Code.ctx now) "shm_writer::extract_bound_from_tracking" .unit [trackingValue t]
    = .ok (.tuple [.int .i64 (boundF t), chronyValue (classify t now)]) .unit [] := by
  obtain ⟨leap, refNs, offW, dispW, delayW, intervalW, refid⟩ := t
  simp (maxSteps := 400000) [rs_eval, chkInt, rs_code, trackingValue]
  generalize hM : classify _ _ = M
  simp only [boundF]
  repeat' split
  all_goals (subst hM; try simp [classify, leapClass, chronyName, *])
  -- comparisons may come in another normal form than the model's (`x < 3` for `x ≤ 2`): split what is left, arithmetic by omega
  all_goals (try (split_ifs <;> first | rfl | omega | simp_all))

end ClockBound.Rs.ExtractProof
