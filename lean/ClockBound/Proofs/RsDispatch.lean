/-
  Proofs of the translation tie for `process_messages` (statements in `Properties/CodeTieDispatch.lean`):
  one iteration per kind of message, for every fuel `N ≥ 100`.  The two handlers are inlined by the
  interpreter; the `data` case is closed by the tactic of `Proofs/RsUpdater.lean`.
-/
import ClockBound.Proofs.RsNow
import ClockBound.Proofs.RsLoop
import ClockBound.Rs.EmbedDispatch
namespace ClockBound.Rs.DispatchProof
open ClockBound ClockBound.Rs ClockBound.Generated ClockBound.Rs.DictPoller ClockBound.Rs.NowProof

abbrev frW : Frame := ⟨"shm_writer", "", "()"⟩

/-- what the loop goes on with after the updater handled a message (`none` = panic) -/
def stepRes (next : St → Res) (log : List Value) (pos : Nat) (ev : Value) : Option (Updater × Record) → Res
  | none => .panic
  | some (u', r) => next (writerLoopSt true u' (log ++ [ev, recordValue r]) (pos + 1))

/-- one iteration of the loop body on the message `m` -/
def DispStmt (nowNs : Int) (u : Updater) (m : WMsg) : Prop :=
  ∀ (inp : Nat → Value) (log : List Value) (pos : Nat) (c : Expr) (body : List Stmt)
    (_hfw : findWhile Code.fn_shm_writer__process_messages_stmts = some (c, body))
    (_hin : inp pos = m.recvd) (N : Nat) (_hN : 100 ≤ N) (next : St → Res),
    ((evalBlock N (ctxP nowNs [] inp) frW body (writerLoopSt true u log pos)).popTo 3).loopNext next
    = match m.toMsg nowNs with
      | none => next (writerLoopSt true u (log ++ [evRecv m.recvd]) (pos + 1))
      | some msg =>
        stepRes next log pos (evRecv m.recvd) (u.step msg)

/-- a block that is one trailing expression -/
theorem evalBlock_single (n : Nat) (ctx : Ctx) (fr : Frame) (e : Expr) (st : St) :
    evalBlock (n + 1) ctx fr [.expr e false] st = eval n ctx fr e st := by
  simp only [evalBlock]
  rfl

/-- a `match` whose scrutinee evaluates to a value: the arms are run on THAT value.  (Used instead of
    `simp [rs_eval]` on the whole `match`: simp normalises the continuation `fun v st => evalArms .. v st` for a
    symbolic `v` before applying it, and the kernel does not get through the resulting term for the eight arms of
    `process_messages`.) -/
theorem eval_matchE_val (n : Nat) (ctx : Ctx) (fr : Frame) (s : Expr) (arms : List Arm) (st st' : St) (v : Value)
    (h : eval n ctx fr s st = .val v st') :
    eval (n + 1) ctx fr (.matchE s arms) st = evalArms n ctx fr arms v st' := by
  simp only [eval, h, Res.bind_val]

set_option hygiene false in
macro "disp_start" : tactic => `(tactic| (
  intro inp log pos c body hfw hin N hN next
  obtain ⟨M, rfl⟩ : ∃ M, N = M + 100 := ⟨N - 100, by omega⟩
  simp [rs_eval, rs_code] at hfw
  obtain ⟨rfl, rfl⟩ := hfw
  simp only [ctxP, linuxUses_eq]
  simp only [WMsg.recvd, WMsg.value, recvAbort] at hin
  rw [evalBlock_single, eval_matchE_val (v := inp pos)
    (st' := writerLoopSt true u (log ++ [evRecv (inp pos)]) (pos + 1))
    (h := by simp [rs_eval, rs_code, writerLoopSt, contextValue])]))

macro "disp_tie" : tactic => `(tactic| (
  simp (maxSteps := 400000) [rs_eval, chkInt, rs_code, writerLoopSt, contextValue, trackingValue, updaterValue,
    ctimespecValue, WMsg.recvd, WMsg.value, WMsg.toMsg, *]
  generalize hM : Updater.step _ _ = M
  repeat' split
  all_goals (subst hM; try simp [Updater.step, extractBound, boundF, classify, leapClass, Updater.record, chk,
    inI64, I64_MIN, I64_MAX, stepRes, writerLoopSt, contextValue, dispatchBox, receiver, updaterValue, recordValue,
    ctimespecValue, statusValue, statusName, *])
  -- comparisons may come in another normal form than the model's (`x < 3` for `x ≤ 2`): split what is left
  all_goals (try (split_ifs <;> first | rfl | omega | simp_all))))

set_option maxRecDepth 8000 in
set_option maxHeartbeats 4000000 in
theorem disp_nrGrace (nowNs : Int) (u : Updater) : DispStmt nowNs u .nrGrace := by
  disp_start
  obtain ⟨drift, fsm, bound, ⟨as, an⟩, res, hmeas⟩ := u
  disp_tie

set_option maxRecDepth 8000 in
set_option maxHeartbeats 4000000 in
theorem disp_phcGrace (nowNs : Int) (u : Updater) : DispStmt nowNs u .phcGrace := by
  disp_start
  obtain ⟨drift, fsm, bound, ⟨as, an⟩, res, hmeas⟩ := u
  disp_tie

set_option maxRecDepth 8000 in
set_option maxHeartbeats 4000000 in
theorem disp_nr (nowNs : Int) (u : Updater) : DispStmt nowNs u .nr := by
  disp_start
  obtain ⟨drift, fsm, bound, ⟨as, an⟩, res, hmeas⟩ := u
  disp_tie

set_option maxRecDepth 8000 in
set_option maxHeartbeats 4000000 in
theorem disp_phcFail (nowNs : Int) (u : Updater) : DispStmt nowNs u .phcFail := by
  disp_start
  obtain ⟨drift, fsm, bound, ⟨as, an⟩, res, hmeas⟩ := u
  disp_tie

/-- a message without handler (any other variant of `Message`, any payload) is logged by `info!` and ignored -/
theorem disp_ignored (nowNs : Int) (u : Updater) (v : String) (args : List Value) (hv : handledVariant v = false) :
    DispStmt nowNs u (.ignored v args) := by
  simp [handledVariant] at hv
  obtain ⟨⟨⟨⟨⟨h1, h2⟩, h3⟩, h4⟩, h5⟩, h6⟩ := hv
  disp_start
  simp (maxSteps := 400000) [rs_eval, rs_code, writerLoopSt, contextValue, WMsg.recvd, WMsg.value, WMsg.toMsg, *]

/-- `Ok(Message::ThreadAbort)` clears `keep_running`; nothing is written -/
theorem disp_abort (nowNs : Int) (u : Updater) (inp : Nat → Value) (log : List Value) (pos : Nat) (c : Expr)
    (body : List Stmt) (hfw : findWhile Code.fn_shm_writer__process_messages_stmts = some (c, body))
    (hin : inp pos = recvAbort) (N : Nat) (hN : 100 ≤ N) (next : St → Res) :
    ((evalBlock N (ctxP nowNs [] inp) frW body (writerLoopSt true u log pos)).popTo 3).loopNext next
    = next (writerLoopSt false u (log ++ [evRecv recvAbort]) (pos + 1)) := by
  revert inp log pos c body hfw hin N hN next
  disp_start
  simp (maxSteps := 400000) [rs_eval, rs_code, writerLoopSt, contextValue, recvAbort, *]

end ClockBound.Rs.DispatchProof
